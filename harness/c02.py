"""C02 — major star-allele calls are consistent, optimal and complete.

(a) structural tie : the LP aldy builds in solve_major_model (recorded around estimate_major, read back from OR-Tools)
                     vs  MajorModel.gen evaluated in Coq, both in a name-independent canonical form (variables by role)
(b) behavioural tie: estimate_major output (multiset of majors, novel variants, score)  vs  MajorSpec.run evaluated in Coq
(c) predicate      : MajorSpec.holds (Gallina, evaluated in Coq on instance + implementation output) clause by clause,
                     plus an independent clause-wise recomputation in Python (exact rationals) that names the failing clause:
                     copies-per-config, carried-xor-novel, score, optimal, complete, within-gap, noise-free.

The instance handed to the model is aldy's OWN Gene object (allele table, structure, has_coverage/position_cn facts) and
the Coverage object as aldy built it; the catalogue model is checked elsewhere (C09)."""
import collections, glob, itertools, json, os, sys, time
from concurrent.futures import ThreadPoolExecutor
from fractions import Fraction as F
import common
from common import cz, cq, cstr, clist, cbool

IMPORTS = ["Base", "Consts", "Lp", "Filter", "MajorModel", "MajorSpec", "Consts_here"]
CLAUSES = ["copies-per-config", "carried-xor-novel", "score", "optimal", "complete", "within-gap"]
EPS = F(1, 100000)       # SOLVER_PRECISON is read by the model from Consts_here; this copy is only for clause naming
BAND = F(1, 1000000)


# ------------------------------------------------------------------------------------------------
# genes
# ------------------------------------------------------------------------------------------------
_GENES = {}
_TMP = None


def gene_path(name):
    from aldy.common import script_path
    if name == "TOY":
        return script_path("aldy.tests.resources/toy.yml")
    return script_path(f"aldy.resources.genes/{name}.yml")


def _tmpdir():
    global _TMP
    if _TMP is None:
        import tempfile
        os.makedirs(common.SCRATCH, exist_ok=True)
        _TMP = tempfile.TemporaryDirectory(prefix="c02db_", dir=common.SCRATCH)     # removed at interpreter exit
    return _TMP.name


def load_gene(name, genome, yaml_text=None):
    """shipped gene / TOY by name, or a generated database given as YAML text (written to a scratch file, removed at exit)"""
    from aldy.gene import Gene
    import hashlib
    h = hashlib.sha1(yaml_text.encode()).hexdigest()[:16] if yaml_text else None
    key = (name, genome, h)
    if key not in _GENES:
        if yaml_text:
            d = os.path.join(_tmpdir(), h)
            os.makedirs(d, exist_ok=True)
            path = os.path.join(d, name.lower() + ".yml")
            if not os.path.exists(path):
                open(path, "w").write(yaml_text)
        else:
            path = gene_path(name)
        _GENES[key] = Gene(path, genome=genome)
    return _GENES[key]


def case_gene(c):
    return load_gene(c["gene"], c["genome"], c.get("db_yaml"))


def shipped_genes():
    from aldy.common import script_path
    d = os.path.dirname(script_path("aldy.resources.genes/cyp2d6.yml"))
    return sorted(os.path.basename(p)[:-4] for p in glob.glob(os.path.join(d, "*.yml")))


# ------------------------------------------------------------------------------------------------
# cases <-> aldy objects
# ------------------------------------------------------------------------------------------------
PROFILE_KEYS = ["gap", "threshold", "min_coverage", "cn_max", "min_quality", "min_mapq", "major_novel"]
DEFAULT_PROFILE = {"gap": "0", "threshold": "0.5", "min_coverage": "2", "cn_max": "20", "min_quality": "10",
                   "min_mapq": "10", "major_novel": "21"}


def pnum(sv):
    """profile value from its decimal spelling: int where the spelling is integral, float otherwise"""
    f = F(sv)
    return int(f) if f.denominator == 1 and "." not in sv else float(f)


def make_profile(pd):
    from aldy.profile import Profile
    prof = Profile("verif")
    for k in PROFILE_KEYS:
        setattr(prof, k, pnum(pd.get(k, DEFAULT_PROFILE[k])))
    return prof


def expand_table(tab):
    """case table [[pos, [[op, [[mapq, q, n], ...]], ...]], ...] -> {pos: {op: [(mapq, q), ...]}} (insertion ordered)"""
    cv = {}
    for pos, ops in tab:
        d = cv.setdefault(int(pos), {})
        for op, runs in ops:
            l = d.setdefault(op, [])
            for m, q, n in runs:
                l.extend([(m, q)] * n)
    return cv


def make_coverage(case, g=None, prof=None):
    from aldy.coverage import Coverage
    g = g or case_gene(case)
    prof = prof or make_profile(case["profile"])
    ind = None
    if case.get("indels"):
        ind = {(int(p), op): (int(a), int(b)) for p, op, a, b in case["indels"]}
    return Coverage(g, prof, None, expand_table(case["table"]), ind, {})


def run_major(case, record=True):
    """runs the real estimate_major; returns (reports, lp snapshot or None, name map, g, C, cnsol, prof)"""
    from aldy.solutions import CNSolution
    from aldy.major import estimate_major
    from aldy import lpinterface
    import lprec
    g = case_gene(case)
    prof = make_profile(case["profile"])
    C = make_coverage(case, g, prof)
    cns = CNSolution(g, 0, list(case["cn"]))
    names = []          # (raw, escaped) in creation order: the real escape_name, observed from outside
    orig = lpinterface.escape_name

    def esc(s, d=None):
        r = orig(s, d)
        names.append((s, r))
        return r

    snap = None
    if record:
        lpinterface.escape_name = esc
        try:
            with lprec.Recorder() as rec:
                sols = estimate_major(g, C, cns, "any")
        finally:
            lpinterface.escape_name = orig
        if rec.models:
            snap = rec.models[0]
    else:
        sols = estimate_major(g, C, cns, "any")
    reports = []
    for s in sols:
        al = sorted(a.major for a, c in s.solution.items() for _ in range(c))
        reports.append((float(s.score), al, sorted((int(m[0]), m[1]) for m in s.added)))
    return reports, snap, names, g, C, cns, prof


# ------------------------------------------------------------------------------------------------
# instance -> Coq text
# ------------------------------------------------------------------------------------------------
def cmut(m):
    return f"({cz(m[0])}, {cstr(m[1])})"


def cruns(l):
    """list of (mapq, q) -> Coq list, runs compressed with repeat"""
    parts = []
    for k, grp in itertools.groupby(l):
        n = len(list(grp))
        parts.append(f"repeat ({cz(k[0])}, {cz(k[1])}) {n}%nat" if n > 1 else f"[({cz(k[0])}, {cz(k[1])})]")
    if not parts:
        return "[]"
    return "(" + " ++ ".join(parts) + ")" if len(parts) > 1 else parts[0]


def ctable(tab):
    return clist(tab.items(), lambda po: f"({cz(po[0])}, " + clist(po[1].items(), lambda cl: f"({cstr(cl[0])}, {cruns(cl[1])})") + ")")


def ccover(C):
    ind = C._indels or {}
    for k, (n, y) in ind.items():
        assert int(n) == n and int(y) == y, "non-integral indel counts"
    return ("{| cv_tab := " + ctable(C._coverage) + "; cv_ind := "
            + clist(ind.items(), lambda kv: f"({cmut(kv[0])}, ({cz(kv[1][0])}, {cz(kv[1][1])}))") + " |}")


def cpar(prof):
    def q(x):
        return cq(F(repr(x)) if isinstance(x, float) else F(x))
    return ("{| p_min_quality := " + q(prof.min_quality) + "; p_min_mapq := " + q(prof.min_mapq) + "; p_min_coverage := "
            + q(prof.min_coverage) + "; p_threshold := " + q(prof.threshold) + "; p_cn_max := " + q(prof.cn_max) + " |}")


_GDEF = {}


def gene_defs(g, tag):
    """Coq definitions of the gene-level part of the instance (aldy's own Gene object): allele table, gene.mutations with
    is_functional, has_coverage per configuration over every database position"""
    key = (id(g), tag)
    if key in _GDEF:
        return _GDEF[key]
    al = clist(g.alleles.items(), lambda kv: "{| a_name := " + cstr(kv[0]) + "; a_cfg := " + cstr(kv[1].cn_config)
               + "; a_muts := " + clist(sorted(kv[1].func_muts), cmut) + " |}")
    mu = clist(g.mutations.keys(), lambda m: f"({cmut(m)}, {cbool(g.is_functional(m))})")
    poss = sorted({m[0] for m in g.mutations})
    per_cfg = {}
    for an, a in g.alleles.items():
        hc = [p for p in poss if g.has_coverage(an, p)]
        if a.cn_config in per_cfg:
            assert per_cfg[a.cn_config] == hc, "has_coverage differs between alleles of one configuration"
        per_cfg[a.cn_config] = hc
    hcv = clist(per_cfg.items(), lambda kv: f"({cstr(kv[0])}, {clist(kv[1], cz)})")
    txt = (f"Definition {tag}_alleles : list allele := {al}.\nDefinition {tag}_muts : list (mut * bool) := {mu}.\n"
           f"Definition {tag}_hascov : list (str * list Z) := {hcv}.\n")
    _GDEF[key] = txt
    return txt


def inst_text(tag, g, C, cns, prof):
    poss = sorted(set(C._coverage) | {k[0] for k in (C._indels or {})} | {m[0] for m in g.mutations})
    pc = []
    for p in poss:
        v = cns.position_cn(p)
        assert int(v) == v
        if v != 0:
            pc.append((p, int(v)))

    def q(x):
        return cq(F(repr(x)) if isinstance(x, float) else F(x))
    return ("{| i_alleles := " + tag + "_alleles; i_struct := " + clist(cns.solution.items(), lambda kv: f"({cstr(kv[0])}, {cz(kv[1])})")
            + "; i_muts := " + tag + "_muts; i_pcn := " + clist(pc, lambda kv: f"({cz(kv[0])}, {cz(kv[1])})")
            + "; i_hascov := " + tag + "_hascov; i_cover := " + ccover(C) + "; i_par := " + cpar(prof)
            + "; i_major_novel := " + q(prof.major_novel) + "; i_gap := " + q(prof.gap) + " |}")


def creports(reps):
    return clist(reps, lambda r: f"({cq(F(r[0]))}, {clist(r[1], cstr)}, {clist(r[2], cmut)})")


def case_term(tag, g, C, cns, prof, reps, planted):
    pl = "OL []"
    if planted is not None:
        cnt = collections.Counter(planted)
        pl = "o_list o_bool (planted_ok here I " + clist(sorted(cnt.items()), lambda kv: f"({cstr(kv[0])}, {cz(kv[1])})") + ")"
    return ("(let I := " + inst_text(tag, g, C, cns, prof) + " in OL [o_bool (inst_wf I); o_run here I; o_lp (gen here I); "
            "o_holds here I " + creports(reps) + "; " + pl + "])")


# ------------------------------------------------------------------------------------------------
# structural tie: canonical forms
# ------------------------------------------------------------------------------------------------
def role_map(g, names):
    """escaped implementation name -> role key (tuple of ints) as used by MajorModel.v"""
    codes = lambda t: tuple(ord(ch) for ch in t)
    raw2key = {}
    for an, a in g.alleles.items():
        for j in range(0, 64):
            raw2key[f"A_{an}_{j}"] = (1, j) + codes(an)
    from aldy.gene import Mutation
    for (pos, op) in g.mutations:
        m = Mutation(pos, op)
        raw2key[f"E_{pos}_{op}"] = (2, pos) + codes(op)
        raw2key[f"N_{m}"] = (3, pos) + codes(op)
        raw2key[f"OR_{m}"] = (4, pos) + codes(op)
        raw2key[f"XOR_{m}"] = (5, pos) + codes(op)
        raw2key[f"E_{pos}_REF"] = (2, pos, 95)
    raw2key["NOVEL"] = (6,)
    esc2key = {}
    for raw, esc in names:
        if raw in raw2key:
            esc2key[esc] = raw2key[raw]
    for raw, esc in names:
        if raw.startswith("ABS_") and raw[4:] in esc2key:
            esc2key[esc] = (-1,) + esc2key[raw[4:]]
    return esc2key


def merge_eq(rows):
    """rows: set of (terms, rel, rhs); a le/ge pair with the same terms and rhs becomes one eq row"""
    rows = set(rows)
    out = set()
    for t, rel, rhs in rows:
        if rel == "le" and (t, "ge", rhs) in rows:
            out.add((t, "eq", rhs))
        elif rel == "ge" and (t, "le", rhs) in rows:
            out.add((t, "eq", rhs))
        else:
            out.add((t, rel, rhs))
    return out


def canon_impl(snap, esc2key):
    import lprec
    unknown = [n for n, _, _, _ in snap.vars if n not in esc2key]
    ren = lambda n: esc2key.get(n, ("?", n))
    vs, rows, obj, const = snap.canonical(ren)
    rows2 = set()
    for coefs, lb, ub, _ in snap.rows:
        d = collections.defaultdict(F)
        for n, c in coefs.items():
            d[ren(n)] += c
        rows2 |= canon_rows_sorted({k: v for k, v in d.items() if v != 0}, lb, ub)
    vs = {k: (kind, lb, ub) for k, (kind, lb, ub) in vs.items()}
    objd = {ren(n): c for n, c in snap.obj.items() if c != 0}
    return vs, merge_eq(rows2), objd, F(const or 0), unknown, snap.minimize


def canon_rows_sorted(coefs, lb, ub):
    """like lprec.canon_rows, with keys ordered as tuples (both sides use the same order)"""
    import lprec
    terms = tuple(sorted(coefs.items(), key=lambda kv: kv[0]))
    out = set()
    if lb is not None and ub is not None and lb == ub:
        out.add(lprec.norm_row(terms, "eq", lb))
    else:
        if ub is not None:
            out.add(lprec.norm_row(terms, "le", ub))
        if lb is not None:
            out.add(lprec.norm_row(terms, "ge", lb))
    return out


def canon_model(v):
    """decoded o_lp value -> same canonical form"""
    import lprec
    vars_, rows, obj, const = v
    vs = {}
    dup = []
    for k, kind in vars_:
        k = tuple(k)
        if k in vs:
            dup.append(k)
        if kind[0] == 0:
            vs[k] = ("B", F(0), F(1))
        elif kind[0] == 1:
            vs[k] = ("I", common.dq(kind[1]), common.dq(kind[2]))
        else:
            vs[k] = ("C", common.dopt(kind[1], common.dq), common.dopt(kind[2], common.dq))
    rs = set()
    for lin, rel, rhs in rows:
        d = collections.defaultdict(F)
        for c, k in lin:
            d[tuple(k)] += common.dq(c)
        d = {k: c for k, c in d.items() if c != 0}
        r = common.dq(rhs)
        lb, ub = {0: (None, r), 1: (r, None), 2: (r, r)}[rel]
        rs |= canon_rows_sorted(d, lb, ub)
    od = collections.defaultdict(F)
    for c, k in obj:
        od[tuple(k)] += common.dq(c)
    return vs, merge_eq(rs), {k: c for k, c in od.items() if c != 0}, common.dq(const), dup


def approx_eq(a, b):
    if a is None or b is None:
        return a is b
    return abs(a - b) <= F(1, 10 ** 9) * max(1, abs(b))


def rows_equal(ri, rm):
    """exact comparison first; then pair rows with identical variables/relation and coefficients equal to 1e-9 relative"""
    if ri == rm:
        return True, None
    only_i, only_m = ri - rm, rm - ri
    idx = collections.defaultdict(list)
    for t, rel, rhs in only_m:
        idx[(tuple(k for k, _ in t), rel)].append((t, rhs))
    for t, rel, rhs in sorted(only_i, key=repr):
        key = (tuple(k for k, _ in t), rel)
        hit = None
        for j, (t2, rhs2) in enumerate(idx.get(key, [])):
            if approx_eq(rhs, rhs2) and all(approx_eq(c, c2) for (_, c), (_, c2) in zip(t, t2)):
                hit = j
                break
        if hit is None:
            return False, {"implementation_only": repr((t, rel, rhs))[:400]}
        idx[key].pop(hit)
    left = [x for v in idx.values() for x in v]
    if left:
        return False, {"model_only": repr(left[0])[:400]}
    return True, None


def compare_lp(snap, names, g, model_lp):
    """returns None when the canonical forms agree, else a short description of the first difference"""
    esc2key = role_map(g, names)
    vi, ri, oi, ci, unknown, minimize = canon_impl(snap, esc2key)
    vm, rm, om, cm, dup = canon_model(model_lp)
    if unknown:
        return {"unknown_variable_names": unknown[:5]}
    if dup:
        return {"model_duplicate_keys": [list(k) for k in dup[:3]]}
    if not minimize:
        return {"objective": "maximised"}
    if set(vi) != set(vm):
        return {"variables_only_impl": [list(k) for k in sorted(set(vi) - set(vm))[:5]],
                "variables_only_model": [list(k) for k in sorted(set(vm) - set(vi))[:5]]}
    for k in vi:
        a, b = vi[k], vm[k]
        if a[0] != b[0] or not approx_eq(a[1], b[1]) or not approx_eq(a[2], b[2]):
            return {"variable": list(k), "implementation": repr(a), "model": repr(b)}
    ok, d = rows_equal(ri, rm)
    if not ok:
        return {"rows": d, "n_impl": len(ri), "n_model": len(rm)}
    if set(oi) != set(om) or any(not approx_eq(oi[k], om[k]) for k in oi) or not approx_eq(ci, cm):
        return {"objective": {"implementation": repr(sorted(oi.items()))[:400], "model": repr(sorted(om.items()))[:400]}}
    return None


# ------------------------------------------------------------------------------------------------
# independent recomputation in Python (exact rationals) — names the failing clause
# ------------------------------------------------------------------------------------------------
class PySpec:
    """the major stage recomputed from the raw Coverage dictionaries and the Gene object, without calling aldy's filters"""

    def __init__(self, g, C, cns, prof):
        self.g, self.cns = g, cns
        fr = lambda x: F(repr(x)) if isinstance(x, float) else F(x)
        self.gap, self.nov = fr(prof.gap), fr(prof.major_novel)
        minq, minm, minc, thr, cnmax = fr(prof.min_quality), fr(prof.min_mapq), fr(prof.min_coverage), fr(prof.threshold), fr(prof.cn_max)
        ind = dict(C._indels or {})
        t1 = {}
        for pos, ops in C._coverage.items():
            for op, l in ops.items():
                k = sum(1 for (m, q) in l if q >= minq and m >= minm)
                if k:
                    t1.setdefault(pos, {})[op] = k

        def cov(t, i, m):
            return F(i[m][1]) if m in i else F(t.get(m[0], {}).get(m[1], 0))

        def tot(t, i, m):
            if m in i:
                return F(i[m][0] + i[m][1])
            return F(sum(c for o, c in t.get(m[0], {}).items() if not o.startswith("ins")))

        def basic(m, cn):
            th = thr / (cn if cn != 0 else 1)
            return cov(t1, ind, m) >= max(minc, tot(t1, ind, m) * th)

        def keep(m):
            ok = basic(m, cnmax)
            if m[1] != "_":
                ok = ok and basic(m, F(cns.position_cn(m[0])) + F(1, 2))
            return ok
        t2 = {}
        for pos, ops in t1.items():
            for op, k in ops.items():
                if keep((pos, op)):
                    t2.setdefault(pos, {})[op] = k
        i2 = {m: v for m, v in ind.items() if keep(m)}
        self.cov = lambda m: cov(t2, i2, m)
        self.tot = lambda m: tot(t2, i2, m)
        self.qcov = lambda m: cov(t1, ind, m)           # after the quality filter only (C15)
        self.qtot = lambda m: tot(t1, ind, m)
        self.keep = keep
        self.cands = {an: a for an, a in g.alleles.items()
                      if a.cn_config in cns.solution and all(self.cov((m[0], m[1])) > 0 for m in a.func_muts)}
        self.early = bool(set(cns.solution) - {a.cn_config for a in self.cands.values()})
        self.fm = sorted((m[0], m[1]) for m in g.mutations if g.is_functional(m) and self.cov((m[0], m[1])) > 0)
        self.sites = sorted({m[0] for m in self.fm})

    def obs(self, m):
        pc = F(self.cns.position_cn(m[0]))
        if pc == 0:
            return F(0)
        return self.cov(m) / (max(F(1), self.tot(m)) / pc)

    def muts_of(self, n):
        c = self.__dict__.setdefault("_muts", {})
        if n not in c:
            c[n] = frozenset((x[0], x[1]) for x in self.g.alleles[n].func_muts)
        return c[n]

    def carriers(self, names, m):
        return sum(1 for n in names if m in self.muts_of(n))

    def shows_ref(self, n, pos):
        c = self.__dict__.setdefault("_ref", {})
        if (n, pos) not in c:
            c[n, pos] = bool(self.g.has_coverage(n, pos)) and not any(x[0] == pos and not x[1].startswith("ins") for x in self.muts_of(n))
        return c[n, pos]

    def refcopies(self, names, pos):
        return sum(1 for n in names if self.shows_ref(n, pos))

    def obs_c(self, m):
        c = self.__dict__.setdefault("_obs", {})
        if m not in c:
            c[m] = self.obs(m)
        return c[m]

    def score(self, names, novel):
        sc = F(0)
        for m in self.fm:
            sc += abs(self.obs_c(m) - self.carriers(names, m) - (1 if m in novel else 0))
        for pos in self.sites:
            sc += abs(self.obs_c((pos, "_")) - self.refcopies(names, pos))
        if novel:
            sc += self.nov + F(1, 10) * len(novel)
        return sc

    def admissible_novel(self, names):
        novel = [m for m in self.fm if self.carriers(names, m) == 0]
        by = collections.Counter(m[0] for m in novel if not m[1].startswith("ins"))
        return novel if all(v <= 1 for v in by.values()) else None

    def enumerate(self, limit=200000):
        if self.early:
            return []
        cn = self.cns.solution
        per = {c: sorted(n for n, a in self.cands.items() if a.cn_config == c) for c in cn}
        res = []
        n = 0
        for combo in itertools.product(*[itertools.combinations_with_replacement(per[c], cn[c]) for c in cn]):
            n += 1
            if n > limit:
                return None
            names = sorted(a for part in combo for a in part)
            nv = self.admissible_novel(names)
            if nv is None:
                continue
            res.append((self.score(names, nv), tuple(names), tuple(sorted(nv))))
        return res


def py_clauses(ps, reps, gap_eps=EPS):
    """clause -> first counterexample (or absent) for the implementation's reports, recomputed independently"""
    bad = {}
    g, cns = ps.g, ps.cns
    for sc, names, novel in reps:
        novel = [tuple(m) for m in novel]
        per = collections.Counter(g.alleles[n].cn_config if n in g.alleles else None for n in names)
        if dict(per) != dict(cns.solution):
            bad.setdefault("copies-per-config", {"called": names, "per_config": {str(k): v for k, v in per.items()}, "structure": dict(cns.solution)})
            continue
        for m in ps.fm:
            car = ps.carriers(names, m) > 0
            if car == (m in novel):
                bad.setdefault("carried-xor-novel", {"called": names, "novel": novel, "variant": m, "carried": car})
        if any(m not in ps.fm for m in novel) or len(set(novel)) != len(novel):
            bad.setdefault("carried-xor-novel", {"called": names, "novel": novel, "note": "novel variant not an observed core variant / repeated"})
        by = collections.Counter(m[0] for m in novel if not m[1].startswith("ins"))
        if any(v > 1 for v in by.values()):
            bad.setdefault("carried-xor-novel", {"called": names, "novel": novel, "note": "two novel variants at one site"})
        exp = ps.score(names, novel)
        if abs(F(sc) - exp) > F(1, 10 ** 6) + F(1, 10 ** 9) * abs(exp):
            bad.setdefault("score", {"called": names, "novel": novel, "reported": sc, "recomputed": float(exp)})
    allc = ps.enumerate()
    if allc is None:
        return bad, None
    keyset = collections.Counter((tuple(n), tuple(sorted(tuple(m) for m in nv))) for _, n, nv in reps)
    if any(v > 1 for v in keyset.values()):
        bad.setdefault("complete", {"note": "combination reported more than once", "which": [k for k, v in keyset.items() if v > 1][:2]})
    if allc:
        best = min(x[0] for x in allc)
        if reps:
            rb = min(F(r[0]) for r in reps)
            if best < rb - (F(1, 10 ** 6) + F(1, 10 ** 9) * abs(rb)):
                x = min(allc)
                bad.setdefault("optimal", {"best_reported": float(rb), "better": [float(x[0]), x[1], x[2]]})
        else:
            x = min(allc)
            bad.setdefault("optimal", {"note": "nothing reported", "admissible": [float(x[0]), x[1], x[2]]})
        thr = (1 + ps.gap) * best + gap_eps
        for s, n, nv in allc:
            if s < thr - BAND and (n, nv) not in keyset:
                bad.setdefault("complete", {"missing": [float(s), n, nv], "best": float(best), "threshold": float(thr)})
        may = {(n, nv) for s, n, nv in allc if s < thr + BAND}
        for k in keyset:
            if k not in may:
                bad.setdefault("within-gap", {"reported": k, "best": float(best), "threshold": float(thr)})
    elif reps:
        bad.setdefault("within-gap", {"reported": [list(r[1]) for r in reps][:2], "note": "no admissible combination exists"})
    return bad, allc


# ------------------------------------------------------------------------------------------------
# generators
# ------------------------------------------------------------------------------------------------
TOY_CN = [["1", "1"], ["1", "1"], ["1", "1"], ["1", "1", "1"], ["1", "6"], ["1", "4", "4"], ["1", "5"], ["1", "1", "4", "4"],
          ["1"], ["4", "4"], ["1", "4"], ["5", "5"], ["1", "1", "5"], ["6", "6"], ["1", "1", "1", "1"]]


def runs_of(n, rng=None, lowq=0):
    """n good observations (60,60), optionally with `lowq` sub-threshold observations interleaved"""
    r = [[60, 60, n]] if n > 0 else []
    if lowq and rng is not None:
        for _ in range(lowq):
            bad = rng.choice([[60, 5, 1], [3, 60, 1], [0, 0, 2], [9, 9, 1], [60, 9, 3]])
            r.insert(rng.randint(0, len(r)), list(bad))
    return r


def cn_choices(g):
    """structures to draw from: mostly the default configuration, plus every other configuration of the gene"""
    cfgs = [c for c in g.cn_configs]
    other = [c for c in cfgs if c != "1"]
    return cfgs, other


def gen_noisy(rng, k, stream, gene, genomes, yaml_text=None, cn_list=None):
    """random integer read-count tables with multiplicative noise over the database variants of one gene"""
    cases = []
    for i in range(k):
        genome = rng.choice(genomes)
        g = load_gene(gene, genome, yaml_text)
        sites = sorted((int(p), o) for p, o in g.mutations)
        if cn_list is not None:
            cn = list(rng.choice(cn_list))
        else:
            cfgs, other = cn_choices(g)
            n = rng.choice([1, 2, 2, 2, 2, 3, 3, 4])
            cn = sorted((rng.choice(other) if (other and rng.random() < 0.3) else "1") for _ in range(n))
        d = rng.choice([10, 12, 20])
        lowq = rng.random() < 0.25
        tab = collections.OrderedDict()
        order = list(sites)
        rng.shuffle(order)
        for (pos, op) in order:
            if rng.random() < 0.55:
                kk = rng.choice([0, 1, 1, 2, 3])
                c = int(d * kk * rng.uniform(0.8, 1.2)) if rng.random() < 0.7 else d * kk
                if c > 0 or lowq:
                    tab.setdefault(pos, []).append([op, runs_of(c, rng, rng.randint(0, 2) if lowq else 0)])
        for pos in sorted({p for p, _ in sites}):
            if rng.random() < 0.9:
                c = int(d * rng.choice([0, 1, 2, 3]) * rng.uniform(0.8, 1.2))
                tab.setdefault(pos, []).insert(rng.randint(0, len(tab.get(pos, []))), ["_", runs_of(c, rng, rng.randint(0, 2) if lowq else 0)])
        if sites and rng.random() < 0.15:            # a cell that is not a database variant
            pos = rng.choice(sites)[0]
            have = {o for p, o in sites if p == pos}
            op = rng.choice([o for o in ("A>C", "T>G", "G>T", "C>A") if o not in have])
            tab.setdefault(pos, []).append([op, runs_of(rng.randint(1, d))])
        edge_thr = None
        if rng.random() < 0.3:
            # sites on the edge of the single-copy fraction threshold: a database substitution whose share of ALL reads of the site is
            # just below (or exactly at) threshold / (copies + 0.5), next to stray single reads of other bases that fail the noise
            # cut-off (min_coverage = 2): the share is taken of the whole site
            edge_thr = rng.choice(["0.5", "0.5", "0.35", "0.8"])
            t = F(edge_thr) / (F(len(cn)) + F(1, 2))
            for (pos, op) in rng.sample(order, min(len(order), rng.choice([1, 2, 3]))):
                if len(op) != 3 or op[1] != ">":
                    continue
                n = rng.randint(15, 40)
                v = -(-(t * n).numerator // (t * n).denominator)           # least count with v / n >= t
                strays = [o for o in ("A>C", "A>G", "A>T", "C>A", "C>G", "C>T", "G>A", "G>C", "G>T", "T>A", "T>C", "T>G")
                          if o[0] == op[0] and o != op and (pos, o) not in sites]
                k_ = 0
                while F(v, n + k_) >= t and k_ < len(strays):
                    k_ += 1
                if rng.random() < 0.3:
                    k_ = max(0, k_ - 1)
                cells = [["_", runs_of(n - v, rng, 0)], [op, runs_of(v, rng, 0)]] + [[o, runs_of(1, rng, 0)] for o in strays[:k_]]
                rng.shuffle(cells)
                tab[pos] = [cl for cl in cells if cl[1]]
        indels = None
        if rng.random() < 0.25:            # an indel table as the realigner would produce it: (reads without, reads with)
            indels = []
            for (pos, op) in sites:
                if op.startswith("ins") or op.startswith("del"):
                    on = rng.choice([0, 0, d, d, 2 * d, int(d * rng.uniform(0.5, 1.5))])
                    indels.append([pos, op, rng.choice([0, d, 2 * d, int(d * rng.uniform(0.5, 2.5))]), on])
            indels = indels or None
        prof = dict(DEFAULT_PROFILE)
        prof["gap"] = rng.choice(["0", "0", "0.1", "0.5"])
        if rng.random() < 0.2:
            prof["threshold"] = rng.choice(["0.2", "0.35", "0.5", "0.8"])
            prof["min_coverage"] = rng.choice(["1", "2", "5", "2.5"])
        if rng.random() < 0.1:
            prof["major_novel"] = rng.choice(["0.5", "2", "21"])
        if edge_thr is not None:
            prof["threshold"], prof["min_coverage"] = edge_thr, "2"
        c = {"stream": stream, "gene": gene, "genome": genome, "cn": cn,
             "table": [[p, ops] for p, ops in tab.items()], "indels": indels, "profile": prof, "planted": None}
        if yaml_text:
            c["db_yaml"] = yaml_text
        cases.append(c)
    return cases


def gen_toy_noisy(rng, k):
    return gen_noisy(rng, k, "toy-noisy", "TOY", ["hg19", "hg19", "hg38"], cn_list=TOY_CN)


def gen_generated(rng, n_db, per_db):
    """noisy tables (and planted multisets) on generated consistent databases (harness/gendb.py): both strands, with/without
    pseudogene, fusions, deletion allele; half of them adversarial (several variants at one site)"""
    import gendb
    cases = []
    for i in range(n_db):
        text, desc = gendb.generate(rng, name="GEN", n_alleles=rng.randint(3, 7), simulation_friendly=(i % 2 == 0), union=(i % 3 == 0))
        cases += gen_noisy(rng, per_db, "generated-noisy", "GEN", ["hg19", "hg38"], yaml_text=text)
        for genome in ("hg19", "hg38"):
            for c in gen_planted(rng, [("GEN", genome)], 2, sizes=(1, 2, 2, 3), yaml_text=text):
                c["stream"] = "generated-planted"
                cases.append(c)
    return cases


def plant_table(g, names, d, rng=None, use_indels=False, extra_sites=0):
    """noise-free evidence of depth d per copy for the multiset `names` of catalogued major alleles, at every position
    where one of them (or `extra_sites` other database variants) has a core variant"""
    poss = {m[0] for n in names for m in g.alleles[n].func_muts}
    if rng is not None and extra_sites:
        others = sorted({m[0] for m in g.mutations} - poss)
        rng.shuffle(others)
        poss |= set(others[:extra_sites])
    tab = collections.OrderedDict()
    indels = {}
    for pos in sorted(poss):
        cells = collections.OrderedDict()
        for n in names:
            if not g.has_coverage(n, pos):
                continue
            here = sorted(m[1] for m in g.alleles[n].func_muts if m[0] == pos)
            nonins = [o for o in here if not o.startswith("ins")]
            ins = [o for o in here if o.startswith("ins")]
            for o in (nonins or ["_"]):
                cells[o] = cells.get(o, 0) + d
            for o in ins:
                cells[o] = cells.get(o, 0) + d
        if use_indels:
            tot = sum(c for o, c in cells.items() if not o.startswith("ins"))
            for o in list(cells):
                if o.startswith("ins") or o.startswith("del"):
                    indels[(pos, o)] = [tot - cells[o] if not o.startswith("ins") else tot - cells[o], cells[o]]
        if cells:
            tab[pos] = [[o, runs_of(c)] for o, c in cells.items()]
    ind = [[p, o, a, b] for (p, o), (a, b) in indels.items()] if use_indels and indels else None
    return [[p, ops] for p, ops in tab.items()], ind


def gen_planted(rng, genes, per_gene, sizes=(2,), exhaustive_pairs=False, yaml_text=None):
    """planted multisets of catalogued majors of shipped genes (and TOY), noise-free"""
    cases = []
    for (name, genome) in genes:
        g = load_gene(name, genome, yaml_text)
        names = sorted(g.alleles)
        if exhaustive_pairs:
            sel = [list(p) for p in itertools.combinations_with_replacement(names, 2)]
        else:
            sel = []
            for _ in range(per_gene):
                k = rng.choice(sizes)
                sel.append(sorted(rng.choice(names) for _ in range(k)))
        for pl in sel:
            cn = [g.alleles[n].cn_config for n in pl]
            d = rng.choice([10, 15, 20])
            tab, ind = plant_table(g, pl, d, rng, use_indels=rng.random() < 0.3, extra_sites=rng.choice([0, 0, 2]))
            prof = dict(DEFAULT_PROFILE)
            prof["gap"] = rng.choice(["0", "0", "0.1", "0.5"])
            cases.append({"stream": "planted", "gene": name, "genome": genome, "cn": cn, "table": tab, "indels": ind,
                          "profile": prof, "planted": pl, "depth": d})
            if yaml_text:
                cases[-1]["db_yaml"] = yaml_text
    return cases


MULTI_SITE_GENES = ["cyp1a1", "cyp2c8", "cyp2b6", "nat1", "tpmt", "cyp2c9", "cyp2a6"]


def gen_shipped_noisy(rng, genes, per_gene):
    """noisy evidence on shipped genes around a few seed alleles; where the gene has a site with two functional
    non-insertion variants, that site is shown with both (the family-sensitive input of the one-novel-per-site rule:
    when neither is carried no admissible combination exists)"""
    cases = []
    for (name, genome) in genes:
        g = load_gene(name, genome)
        names = sorted(n for n in g.alleles)
        by = collections.defaultdict(list)
        for m in g.mutations:
            if g.is_functional(m) and not m[1].startswith("ins"):
                by[m[0]].append(m[1])
        multi = sorted(p for p, o in by.items() if len(o) >= 2)
        # function-altering variants of the database that NO allele defines (listed in its allele-independent "random" section,
        # e.g. GSTM1, GSTP1, CFTR): observed, they can only be novel
        in_alleles = {(m[0], m[1]) for a in g.alleles.values() for m in a.func_muts}
        orphans = sorted(m for m in g.mutations if g.is_functional(m) and (m[0], m[1]) not in in_alleles)
        for _ in range(per_gene):
            seeds = sorted(rng.choice(names) for _ in range(2))
            cn = [g.alleles[n].cn_config for n in seeds]
            d = rng.choice([10, 16, 20])
            tab, _ = plant_table(g, seeds, d, rng, use_indels=False, extra_sites=rng.choice([0, 1, 2]))
            cells = collections.OrderedDict((p, collections.OrderedDict((o, sum(n for _, _, n in r)) for o, r in ops)) for p, ops in tab)
            # multiplicative noise, dropouts, spurious database variants
            for p in list(cells):
                for o in list(cells[p]):
                    cells[p][o] = int(cells[p][o] * rng.uniform(0.6, 1.4))
                    if rng.random() < 0.08:
                        cells[p][o] = 0
                here = [m[1] for m in g.mutations if m[0] == p and m[1] not in cells[p]]
                if here and rng.random() < 0.3:
                    cells[p][rng.choice(here)] = int(d * rng.choice([0.5, 1, 1]) * rng.uniform(0.7, 1.3))
            if orphans and rng.random() < 0.7:
                m = rng.choice(orphans)
                c = cells.setdefault(m[0], collections.OrderedDict())
                c[m[1]] = int(d * rng.choice([1, 1, 2]))
                c.setdefault("_", int(d * rng.choice([0, 1])))
            if multi and rng.random() < 0.7:
                p = rng.choice(multi)
                c = cells.setdefault(p, collections.OrderedDict())
                c.setdefault("_", int(d * rng.choice([0, 1, 2]) * rng.uniform(0.8, 1.2)))
                for o in rng.sample(by[p], 2):
                    c[o] = int(d * rng.choice([1, 1, 2]) * rng.uniform(0.8, 1.2))
                # sometimes make the carriers expressible by showing their other core variants
                if rng.random() < 0.5:
                    for an, a in g.alleles.items():
                        if a.cn_config in cn and any(m[0] == p for m in a.func_muts) and rng.random() < 0.5:
                            for m in a.func_muts:
                                cells.setdefault(m[0], collections.OrderedDict()).setdefault(m[1], d)
                                cells[m[0]].setdefault("_", d)
            table = [[p, [[o, runs_of(n)] for o, n in ops.items() if n > 0]] for p, ops in cells.items()]
            table = [[p, ops] for p, ops in table if ops]
            prof = dict(DEFAULT_PROFILE)
            prof["gap"] = rng.choice(["0", "0", "0.1", "0.5"])
            cases.append({"stream": "shipped-noisy", "gene": name, "genome": genome, "cn": cn, "table": table, "indels": None,
                          "profile": prof, "planted": None})
    return cases


# ------------------------------------------------------------------------------------------------
# evaluation
# ------------------------------------------------------------------------------------------------
def canon_reports(reps):
    return sorted((tuple(n), tuple(tuple(m) for m in nv)) for _, n, nv in reps)


def decode_run(v):
    out = []
    for comb, must in v:
        sc, names, novel = comb
        out.append((common.dq(sc), tuple(sorted(common.dstr(n) for n in names)),
                    tuple(sorted((m[0], common.dstr(m[1])) for m in novel)), bool(must)))
    return out


def evaluate(chk, cases, structural=True):
    t0 = time.time()
    impl = []
    for c in cases:
        impl.append(run_major(c, record=structural))
    t1 = time.time()
    # group by gene for the shared preamble
    groups = collections.OrderedDict()
    for i, c in enumerate(cases):
        groups.setdefault(id(impl[i][3]), []).append(i)
    jobs = []
    for gi, (key, idxs) in enumerate(groups.items()):
        tag = f"G{gi}"
        g = impl[idxs[0]][3]
        pre = gene_defs(g, tag)
        terms = []
        for i in idxs:
            reps, snap, names, g_, C, cns, prof = impl[i]
            terms.append(case_term(tag, g, C, cns, prof, reps, cases[i].get("planted")))
        jobs.append((idxs, pre, terms))
    results = [None] * len(cases)

    def work(job):
        idxs, pre, terms = job
        vals = common.coq_eval(IMPORTS, terms, shard=max(4, min(40, (len(terms) + 7) // 8)), jobs=8, preamble=pre)
        return idxs, vals
    with ThreadPoolExecutor(max_workers=4) as ex:
        for idxs, vals in ex.map(work, jobs):
            for i, v in zip(idxs, vals):
                results[i] = v
    t2 = time.time()
    chk.notes.append(f"[C02] implementation {t1 - t0:.1f}s, model evaluation {t2 - t1:.1f}s for {len(cases)} cases")
    for c, im, v in zip(cases, impl, results):
        judge(chk, c, im, v, structural)


def judge(chk, c, im, v, structural=True):
    reps, snap, names, g, C, cns, prof = im
    wf, runv, lpv, holdsv, plantv = v
    stream = c["stream"]
    model = decode_run(runv)
    must = {(n, nv) for _, n, nv, m in model if m}
    may = {(n, nv) for _, n, nv, m in model}
    got = canon_reports(reps)
    small = {k: c[k] for k in ("stream", "gene", "genome", "cn", "profile", "planted") if k in c}
    nontrivial = (len(model) >= 2 or (model and model[0][0] > 0)) or c.get("planted") is not None
    chk.case(stream, c, nontrivial=bool(nontrivial),
             sample={**small, "reported": [[r[0], r[1], r[2]] for r in reps][:4], "n_model": len(model)})
    chk.count(stream, "gap=" + c["profile"]["gap"])
    chk.count(stream, f"copies={len(c['cn'])}")
    if any(r[2] for r in reps):
        chk.count(stream, "with-novel")
    if not reps:
        chk.count(stream, "no-solution")
    desc = {"stream": stream, "gene": c["gene"], "genome": c["genome"], "gap": c["profile"]["gap"], "copies": len(c["cn"])}
    if not wf:
        chk.mismatch("instance-well-formed", small, "inst_wf = false", "serialised Gene/Coverage")
    # (b) behavioural tie
    gs = set(got)
    if not (must <= gs <= may) or len(gs) != len(got):
        chk.mismatch("estimate_major~MajorSpec.run", c, [[float(s), n, nv, m] for s, n, nv, m in model][:12], [[r[0], r[1], r[2]] for r in reps][:12])
    else:
        msc = {(n, nv): s for s, n, nv, _ in model}
        for sc, n, nv in reps:
            e = msc[(tuple(n), tuple(tuple(m) for m in nv))]
            if abs(F(sc) - e) > F(1, 10 ** 6) + F(1, 10 ** 9) * abs(e):
                chk.mismatch("estimate_major~MajorSpec.run", c, {"score": float(e)}, {"score": sc, "called": n})
                break
    # (a) structural tie
    if structural:
        if snap is not None:
            d = compare_lp(snap, names, g, lpv)
            chk.count(stream, "lp-compared")
            if d is not None:
                chk.mismatch("solve_major_model~MajorModel.gen", c, d, "recorded LP")
        elif model:
            chk.mismatch("solve_major_model~MajorModel.gen", c, "model has solutions", "no LP was built")
    # (c) predicate: Gallina, then Python recomputation
    flags = dict(zip(CLAUSES, [bool(x) for x in holdsv]))
    ps = PySpec(g, C, cns, prof)
    pybad, allc = py_clauses(ps, reps)
    for cl in CLAUSES:
        if not flags[cl] or cl in pybad:
            chk.fail(cl, dict(desc, clause_source=("coq+python" if (not flags[cl] and cl in pybad) else ("coq" if not flags[cl] else "python"))),
                     c, pybad.get(cl, "MajorSpec.holds clause false"), [[r[0], r[1], r[2]] for r in reps][:12])
    if c.get("planted") is not None:
        hyp = [bool(x) for x in plantv]
        chk.count(stream, "noise-free-hypotheses-met" if all(hyp) else "noise-free-hypotheses-not-met")
        if all(hyp):
            key = (tuple(sorted(c["planted"])), ())
            hit = [r for r in reps if (tuple(r[1]), tuple(tuple(m) for m in r[2])) == key]
            if not hit or abs(hit[0][0]) > 1e-6:
                chk.fail("noise-free", desc, c, {"planted": c["planted"], "expected_score": 0}, [[r[0], r[1], r[2]] for r in reps][:12])
            # every reported combination of score 0 carries each core variant with the planted multiplicity
            for sc, n, nv in reps:
                if abs(sc) <= 1e-6:
                    for m in ps.fm:
                        if ps.carriers(n, m) != ps.carriers(c["planted"], m):
                            chk.fail("noise-free", desc, c, {"planted": c["planted"], "variant": m}, {"called": n})
                            break


def build_reported(chk):
    common.build_reported(chk, "C02", ["proofs/MajorEnumProofs.v", "proofs/PlantedProofs.v"], "props/C02_reported.v")


def run(chk):
    chk.rule = ("streams: generated-noisy / generated-planted = the same two kinds of evidence on consistent random gene databases of "
                "harness/gendb.py (both strands, pseudogene, fusions, deletion allele, half of them with several variants per site); "
                "toy-noisy = random integer read-count tables (multiplicative noise, optional sub-threshold observations, "
                "optional indel table, non-database cells) on the TOY gene in both builds with structures incl. fusions and the "
                "deletion, gap in {0,0.1,0.5}; planted = noise-free evidence of catalogued major multisets on shipped genes and both "
                "builds (pairs sampled in quick, exhaustive pairs for small genes in thorough, multisets of 1-4); shipped-noisy = "
                "noisy evidence around seed alleles of shipped genes, with sites showing two functional non-insertion variants "
                "(family-sensitive for the one-novel-per-site rule). "
                "non-trivial = at least two admissible combinations within the gap or a non-zero optimum, or planted; "
                "distinct = distinct case data")
    chk.extra_trusted = ["harness/c02.py serialiser of aldy's Gene/Coverage/CNSolution objects into a MajorModel.inst",
                         "harness/lprec.py recording back end and the canonical form of linear programs",
                         "CBC through OR-Tools as the solver of the recorded model (oracle; the enumeration loop is C05)"]
    chk.assumptions = ["solver contract of C05 (solve returns an optimal feasible point or infeasible)",
                       "scores compared to 1e-6 abs + 1e-9 rel; combinations within 1e-6 of the gap threshold may be present or absent"]
    chk.build()
    if not chk.model_available():
        chk.notes.append("[C02] model did not build; no evaluation possible")
        return
    build_reported(chk)
    q = chk.tier == "quick"
    rng = chk.rng
    cases = []
    corpus = os.path.join(common.VERIF, "corpus", "C02.json")
    if os.path.exists(corpus):
        cases += json.load(open(corpus))
    cases += gen_toy_noisy(rng, 160 if q else 1500)
    cases += gen_generated(rng, 8 if q else 60, 8 if q else 20)
    small, big = [], []
    for n in shipped_genes():
        (big if n in ("cyp2d6", "dpyd", "ryr1", "g6pd") else small).append(n)
    if q:
        pick = rng.sample(small, 6) + rng.sample(big, 1)
        genes = [(n, rng.choice(["hg19", "hg38"])) for n in pick]
        cases += gen_planted(rng, [("TOY", "hg19"), ("TOY", "hg38")], 8, sizes=(1, 2, 2, 3, 4))
        cases += gen_planted(rng, genes[:-1], 5, sizes=(1, 2, 2, 2, 3))
        cases += gen_planted(rng, genes[-1:], 5, sizes=(1, 2, 2))
        cases += gen_shipped_noisy(rng, [(n, rng.choice(["hg19", "hg38"])) for n in rng.sample(MULTI_SITE_GENES, 4)], 8)
        cases += gen_shipped_noisy(rng, [(n, rng.choice(["hg19", "hg38"])) for n in ("gstm1", "gstp1")], 4)    # databases with allele-free core variants
    else:
        cases += gen_planted(rng, [("TOY", "hg19"), ("TOY", "hg38")], 60, sizes=(1, 2, 2, 3, 4))
        tiny = [n for n in small if len(load_gene(n, "hg19").alleles) <= 25]
        cases += gen_planted(rng, [(n, b) for n in tiny for b in ("hg19", "hg38")], 0, exhaustive_pairs=True)
        cases += gen_planted(rng, [(n, b) for n in small if n not in tiny for b in ("hg19", "hg38")], 40, sizes=(1, 2, 2, 2, 3))
        cases += gen_planted(rng, [(n, b) for n in big for b in ("hg19", "hg38")], 12, sizes=(1, 2, 2))
        cases += gen_shipped_noisy(rng, [(n, b) for n in MULTI_SITE_GENES + ["cftr", "nat2", "cyp2c19", "gstm1", "gstp1"] for b in ("hg19", "hg38")], 40)
    evaluate(chk, cases)


def replay(chk, path):
    r = json.load(open(path))
    chk.build()
    evaluate(chk, [r["case"]])
    for f in chk.failures:
        print("still failing:", f["clause"], json.dumps(f["expected"], default=str)[:400])
    for k, n, d in chk.broken:
        print("broken:", k, n)
    bad = bool(chk.failures)
    print("REPLAY", "FAILS" if bad else "passes")
    return 1 if bad else 0
