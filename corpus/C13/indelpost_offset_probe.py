"""Witness of known finding C13-indelpost-power-of-ten: the vendored realigner (aldy/indelpost) counts a different number of
reference reads for the SAME reads against the SAME N-padded reference when only the genome offset changes.
usage: PYTHONPATH=/repo /venv/bin/python corpus/C13/indelpost_offset_probe.py      (prints offset, variant position, (ref, alt) counts)"""
import sys, os, json, random, tempfile, shutil
HERE = os.path.dirname(os.path.abspath(__file__))
sys.path.insert(0, os.path.join(HERE, "..", "..", "harness"))
import common, gendb, simreads
import pysam
from aldy.indelpost import Variant, VariantAlignment
from aldy.gene import Gene

case = json.load(open(os.path.join(HERE, "indelpost-power-of-ten.json")))["case"]
common.quiet_aldy()
os.makedirs(common.SCRATCH, exist_ok=True)
D = tempfile.mkdtemp(dir=common.SCRATCH, prefix="c13probe_")
try:
    rng = random.Random(case["dbseed"])
    y, desc = gendb.write_db(D, rng, name="GEN", strands=case["strands"], simulation_friendly=case["friendly"], pseudogene=case["pseudogene"],
                             deletion=case["deletion"], fusions=(), n_alleles=rng.choice([4, 5, 6]), length=rng.choice([300, 400, 500]),
                             kinds={"snp": 5, "mnp": 1, "ins": 2, "del": 3})
    L, step = case["L_step"]
    g = Gene(y, genome="hg19")
    b = desc["builds"]["hg19"]
    lo, T = b["locus"][0], b["locus"][1] - b["locus"][0]
    simreads.simulate(desc, "hg19", case["alleles"], None, L, step, D + "/s.bam", random.Random(case["dbseed"] + 1))
    reads = [r for r in pysam.AlignmentFile(D + "/s.bam").fetch(b["chr"], lo - L, lo + T + L)]
    dels = sorted((m.pos, m.op) for a in g.alleles.values() for m in a.func_muts if m.op.startswith("del"))
    vpos, vop = dels[-1]
    off = vpos - 1 - lo
    seq = g._lookup_seq
    assert g._lookup_range == (lo, lo + T)

    def run(newlo):
        sz = newlo + 5000
        hdr = pysam.AlignmentHeader.from_dict({"HD": {"VN": "1.0", "SO": "coordinate"}, "SQ": [{"SN": "7", "LN": sz}]})
        with pysam.AlignmentFile(D + "/t.bam", "wb", header=hdr) as f:
            for r in reads:
                n = pysam.AlignedSegment(hdr)
                n.query_name, n.flag, n.reference_id, n.reference_start = r.query_name, 0, 0, r.reference_start - lo + newlo
                n.mapping_quality, n.cigartuples, n.query_sequence, n.query_qualities = 60, r.cigartuples, r.query_sequence, r.query_qualities
                f.write(n)
        pysam.index(D + "/t.bam")
        with open(D + "/t.fa", "w") as f:
            print(">7", file=f)
            print("N" * newlo + seq + "N" * (sz - newlo - T), file=f)
        with open(D + "/t.fa.fai", "w") as f:
            print("7", sz, 3, sz, sz + 1, sep="\t", file=f)
        v = Variant("7", newlo + off + 1, seq[off] + vop[3:], seq[off], pysam.FastaFile(D + "/t.fa"))
        return VariantAlignment(v, pysam.AlignmentFile(D + "/t.bam"), mapping_quality_threshold=10, base_quality_threshold=10,
                                exact_match_for_shiftable=True).count_alleles()

    seen = set()
    for newlo in [lo, 1000 - off - 30, 1000 - off + 20, 10000 - off - 30, 10000 - off, 10000 - off + 20, 10000 - off + 60, 11000 - off + 20,
                  100000 - off + 20, 1000000 - off + 20]:
        c = run(newlo)
        seen.add(c)
        print(f"offset {newlo:8d}  variant at {newlo + off + 1:8d}  (reference reads, variant reads) = {c}")
    print("coordinate-dependent" if len(seen) > 1 else "coordinate-independent")
    sys.exit(1 if len(seen) > 1 else 0)
finally:
    shutil.rmtree(D, ignore_errors=True)
