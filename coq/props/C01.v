(* C01 — Error-free reads from a catalogued genotype are called as that genotype.        STRENGTH: PARTIAL.
   What is proved here (over theories/Pipeline.v + Select.v), for every number and kind of planted copies:
     under the EVIDENCE HYPOTHESES  E1-E5 = [ideal_row]  (per constraint row of the allele models:
        E1 supporting observations = d x planted member copies   -- for SNP/MNP rows this is what an ideal pileup gives (C06);
                                                                     for insertion/deletion rows it is the contract of the
                                                                     indel realigner (oracle 2 of DESIGN.md section 3)
        E2 locus depth = d x copies of the structure the stage works under (= the planted structure: needs the structure
           stage to return the planted structure, i.e. "the planted structure is an optimal explanation of the region depths")
        E3 0 <= copy number, E4 no copy => no member, E5 at least one read per covered locus)
     and  E6 = the hypotheses of C01_ideal_region_copies (uniform depth d over k copies of a region, two copies of the neutral
          region, profile sample = two copies at depth d'):
     (a) every row sees exactly the planted number of copies, the planted combination has fit error 0 and no combination has
         a smaller fit error (C01_planted_fit_zero / _minimal);
     (b) normalised region depths are exactly the planted copy numbers (C01_ideal_region_copies);
     (c) a candidate whose score is the best one is reported by genotype()'s selection (C01_zero_score_selected,
         C01_best_chain_reported).
     (d) for SUBSTITUTION and REFERENCE rows E1/E2 are no longer hypotheses: they are proved from the pileup model of C06 for
         error-free reads at uniform depth (theories/Simulated.v; C01_error_free_reads_ideal_sub_row / _ref_row / _fit_zero);
         the pileup model is tied to sam.py by the correspondence of bin/check C06.
   What is NOT proved here and is exercised by harness/c01.py on simulated reads instead:
     - that real alignments give the ideal pileup for INSERTION / DELETION rows (the realigner is a foreign component; two catalogued indels
       8 bp apart get [0,0] from it, DESIGN.md section 5 item 6);
     - that each stage returns every minimiser of its objective (C02-C05) and that the objective of the planted combination is its
       fit error: the minor objective also has the phase term, which is not 0 on error-free reads for insertion alleles
       (DESIGN.md section 5 item 7), and the penalties for additions/omissions. *)
From Aldy Require Import Base Consts Select SelectProofs Pipeline PipelineProofs Consts_here Consts_wf Exprs_cov Tied_cov_pipe Pileup PileupProofs Simulated SimulatedProofs.
Import List.
Open Scope Z_scope.

Theorem C01_observed_is_planted : forall (A : Type) (d : Q) (planted : list A) (r : @row A), (0 < d)%Q -> ideal_row d planted r ->
  (observed r == inZ (members r planted))%Q.
Proof. intros A. exact observed_ideal. Qed.
Goal True. idtac "ASSUME C01_observed_is_planted". Abort.
Print Assumptions C01_observed_is_planted.

Theorem C01_planted_fit_zero : forall (A : Type) (d : Q) (planted : list A) (rows : list (@row A)), (0 < d)%Q ->
  (forall r, In r rows -> ideal_row d planted r) -> (fit_error rows planted == 0)%Q.
Proof. intros A. exact planted_fit_zero. Qed.
Goal True. idtac "ASSUME C01_planted_fit_zero". Abort.
Print Assumptions C01_planted_fit_zero.

Theorem C01_planted_fit_minimal : forall (A : Type) (d : Q) (planted called : list A) (rows : list (@row A)), (0 < d)%Q ->
  (forall r, In r rows -> ideal_row d planted r) -> (fit_error rows planted <= fit_error rows called)%Q.
Proof. intros A. exact planted_fit_minimal. Qed.
Goal True. idtac "ASSUME C01_planted_fit_minimal". Abort.
Print Assumptions C01_planted_fit_minimal.

Theorem C01_ideal_region_copies : forall d d' ln lr k : Q, (0 < d)%Q -> (0 < d')%Q -> (0 < ln)%Q -> (0 < lr)%Q ->
  (region_copies (2 * d' * ln) (2 * d * ln) (d * k * lr) (2 * d' * lr) == k)%Q.
Proof. exact ideal_region_copies. Qed.
Goal True. idtac "ASSUME C01_ideal_region_copies". Abort.
Print Assumptions C01_ideal_region_copies.

Theorem C01_zero_score_selected : forall (A : Type) (name : A -> str) (score : A -> Q) prec gap scale l out p,
  select name score prec gap scale l = Some out -> In p l -> (score p == 0)%Q -> (forall a, In a l -> (0 <= score a)%Q) ->
  (0 <= gap)%Q -> (0 < prec)%Q -> In p out.
Proof. exact zero_score_selected. Qed.
Goal True. idtac "ASSUME C01_zero_score_selected". Abort.
Print Assumptions C01_zero_score_selected.

Theorem C01_best_chain_reported : forall c gap cns out passed n,
  genotype_select c gap cns = Ok out -> passed_majors c gap cns = Some passed ->
  consts_wf c = true -> (0 <= gap)%Q ->
  In n (minor_candidates c (min_score cn_score cns) (min_score jc_score passed) passed) ->
  (nc_score n == min_score nc_score (minor_candidates c (min_score cn_score cns) (min_score jc_score passed) passed))%Q ->
  In n out.
Proof. exact best_chain_reported. Qed.
Goal True. idtac "ASSUME C01_best_chain_reported". Abort.
Print Assumptions C01_best_chain_reported.

(* ---- non-vacuity: three planted copies (ids 0,1,2) at depth 20; a variant carried by copies 0 and 2, its reference row
   (copy 1), and a variant in a region the structure has in two copies only ---- *)
Definition ex_rows : list (@row Z) :=
  [ {| r_cov := 40; r_total := 60; r_cn := 3; r_member := fun a => (a =? 0) || (a =? 2) |};
    {| r_cov := 20; r_total := 60; r_cn := 3; r_member := fun a => a =? 1 |};
    {| r_cov := 20; r_total := 40; r_cn := 2; r_member := fun a => a =? 1 |};
    {| r_cov := 0; r_total := 0; r_cn := 0; r_member := fun _ => false |} ].

Definition ex_planted : list Z := [0; 1; 2].
Definition ex_wrong : list Z := [0; 1; 1].

Example C01_example_ideal : forall r, In r ex_rows -> ideal_row 20 ex_planted r.
Proof.
  intros r H. cbn in H. repeat (destruct H as [H|H]; [subst r; unfold ideal_row; cbn; repeat split; try reflexivity; try lia; try discriminate|]).
  contradiction.
Qed.

Example C01_example_fit : (fit_error ex_rows ex_planted == 0)%Q /\ (fit_error ex_rows ex_wrong == 3)%Q.
Proof. split; vm_compute; reflexivity. Qed.

(* ---- E1/E2 are THEOREMS for substitution and reference rows of error-free reads (Simulated.v over the pileup model of C06):
   any gene view, any number of planted copies given as haplotypes (a base at every position) with their reads, every read one
   fully matched run carrying its haplotype's bases and accepted by the loader, every copy contributing exactly d reads over the
   position: the row the stages read from the coverage table of that sample is ideal for the planted copies.  Rows of insertions
   and deletions stay hypotheses (their counts come from the foreign realigner). ---- *)
Theorem C01_error_free_reads_ideal_sub_row : forall (g : gview) (c : consts) (indels : indel_tab) (cs : list copy) (d x b : Z),
  multi_ops_ok g -> (forall a, In a cs -> copy_ok g a) -> uniform_at d cs x -> multi_free g x -> in_gene g x = true ->
  b <> base g x -> 1 <= d ->
  alookup key_eqb (x, sub_op (base g x) b) indels = None -> alookup key_eqb (x, ref_op) indels = None ->
  ideal_row (inZ d) cs (sub_row g c indels cs x b).
Proof. intros g c indels cs d x b H1 H2 H3 H4 H5. exact (sim_sub_row_ideal g c indels cs d x H1 H2 H3 H4 H5 b). Qed.
Goal True. idtac "ASSUME C01_error_free_reads_ideal_sub_row". Abort.
Print Assumptions C01_error_free_reads_ideal_sub_row.

Theorem C01_error_free_reads_ideal_ref_row : forall (g : gview) (c : consts) (indels : indel_tab) (cs : list copy) (d x b : Z),
  multi_ops_ok g -> (forall a, In a cs -> copy_ok g a) -> uniform_at d cs x -> multi_free g x -> in_gene g x = true ->
  b <> base g x -> 1 <= d ->
  alookup key_eqb (x, sub_op (base g x) b) indels = None -> alookup key_eqb (x, ref_op) indels = None ->
  ideal_row (inZ d) cs (ref_row g c indels cs x).
Proof. intros g c indels cs d x b H1 H2 H3 H4 H5. exact (sim_ref_row_ideal g c indels cs d x H1 H2 H3 H4 H5 b). Qed.
Goal True. idtac "ASSUME C01_error_free_reads_ideal_ref_row". Abort.
Print Assumptions C01_error_free_reads_ideal_ref_row.

(* ... hence, composed with C01_planted_fit_zero: over any list of such rows the planted copies have fit error 0 *)
Theorem C01_error_free_reads_fit_zero : forall (g : gview) (c : consts) (indels : indel_tab) (cs : list copy) (d : Z) (sites : list (Z * Z)),
  multi_ops_ok g -> (forall a, In a cs -> copy_ok g a) -> 1 <= d ->
  (forall xb, In xb sites -> uniform_at d cs (fst xb) /\ multi_free g (fst xb) /\ in_gene g (fst xb) = true /\ snd xb <> base g (fst xb) /\
                             alookup key_eqb (fst xb, sub_op (base g (fst xb)) (snd xb)) indels = None /\
                             alookup key_eqb (fst xb, ref_op) indels = None) ->
  (fit_error (flat_map (fun xb => [sub_row g c indels cs (fst xb) (snd xb); ref_row g c indels cs (fst xb)]) sites) cs == 0)%Q.
Proof. exact sim_fit_zero. Qed.
Goal True. idtac "ASSUME C01_error_free_reads_fit_zero". Abort.
Print Assumptions C01_error_free_reads_fit_zero.

(* non-vacuity: reference ACGTACGTACGT at 100..111; copy A = reference, copy B has G>T at 106; two 6-base reads per copy over 106 *)
Example C01_example_simulated :
  copy_ok sim_g sim_A /\ copy_ok sim_g sim_B /\ uniform_at 2 [sim_A; sim_B] 106 /\
  (observed (sub_row sim_g here [] [sim_A; sim_B] 106 84) == 1)%Q /\ (observed (ref_row sim_g here [] [sim_A; sim_B] 106) == 1)%Q.
Proof. exact sim_example. Qed.

(* The same INSIDE THE CONCRETE STAGE MODELS is stated with those models: the major stage's loop reports the planted multiset of
   major alleles with score 0 (C02_reported_planted, props/C02_reported.v, relative to the solver contract of C05); every optimum
   of the minor stage reproduces the planted variants with multiplicity, adds and drops nothing (C04_minor_noise_free,
   props/C04.v). *)

(* ================================================================= tie to the current source tree
   The decision expressions below are regenerated from /repo's Python AST on every run (harness/gen_exprs.py -> gen/Exprs_cov.v);
   each theorem says that the model's definition IS that expression, for all arguments.  A change of the expression in the code
   breaks the obligation even when no sampled input distinguishes old and new behaviour. *)
Theorem C01_tie_single_copy : forall (A : Type) (r : @Pipeline.row A), r_cn r <> 0%Z ->
  (Pipeline.single_copy r == single_copy_val (r_total r) (inZ (r_cn r)))%Q.
Proof. exact single_copy_pipeline_tied. Qed.
Goal True. idtac "ASSUME C01_tie_single_copy". Abort.
Print Assumptions C01_tie_single_copy.
