(* C14 — Genotyping is deterministic, isolated and leaves the database untouched.   PARTIAL.
   Only statements here; proofs are in proofs/FrameProofs.v.  Model: theories/Frame.v.

   Proved (about the model):
     * frame: an operation whose transcription passes the ownership analysis writes no location that existed before the call;
       all transcribed public operations pass under the repaired allele-variant accessor (AccFixed); the shipped accessor does
       not, and rewrites the catalogue (witness);
     * results as sets do not depend on the listing order of the input sets;
     * candidate pool of the minor stage: independence under the per-structure filter when the pool adds nothing; the shipped
       "last structure" filter and the pooled variant list are refuted by witnesses.
   The hand transcriptions of Frame.v are accompanied by programs regenerated from the source (C14_tie_ops_here_frame); the translator's
   classification of Python expressions is trusted.  Observed by harness/c14.py, NOT proved: that the transcriptions in Frame.v are what the Python code does (deep snapshots of
   Gene / Coverage / Sample before and after every operation, compared with a fresh load); process-level determinism (repeat,
   other genes in between, multi-gene runs, failing genes); independence of PYTHONHASHSEED (fresh processes, seeds 0-7);
   CPython object identity; the process-wide debug store aldy.common.json. *)
From Coq Require Import String Permutation.
From Aldy Require Import Base Consts Frame FrameProofs Frame_here Tied_frame Diplotype NamesOrderProofs.
Import List.
Open Scope Z_scope.

Theorem C14_frame : forall p st, is_safe p = true ->
  forall l, l < next st -> alookup Z.eqb l (heap (exec p st)) = alookup Z.eqb l (heap st).
Proof. exact frame. Qed.
Goal True. idtac "ASSUME C14_frame". Abort.
Print Assumptions C14_frame.

Theorem C14_roots_unchanged : forall p st x l, is_safe p = true -> locals_only p = true -> x < 100 ->
  alookup Z.eqb x (env st) = Some l -> l < next st -> content (exec p st) x = content st x.
Proof. exact roots_unchanged. Qed.
Goal True. idtac "ASSUME C14_roots_unchanged". Abort.
Print Assumptions C14_roots_unchanged.

(* no transcribed operation writes a location reachable from the loaded gene or sample (repaired accessor) *)
Theorem C14_frame_all_ops : forall name p st, In (name, p) (ops AccFixed) ->
  forall l, l < next st -> alookup Z.eqb l (heap (exec p st)) = alookup Z.eqb l (heap st).
Proof. exact frame_all_ops. Qed.
Goal True. idtac "ASSUME C14_frame_all_ops". Abort.
Print Assumptions C14_frame_all_ops.

Theorem C14_all_ops_local : forall v, forallb (fun np => locals_only (snd np)) (ops v) = true.
Proof. exact all_ops_local. Qed.
Goal True. idtac "ASSUME C14_all_ops_local". Abort.
Print Assumptions C14_all_ops_local.

(* ---- tie by translation: the aliasing programs REGENERATED from /repo's current sources on every run (gen/Frame_here.v, written by
   harness/gen_frame.py from the Python AST of 21 operations: the accessors and writers, the three stage functions and their model
   builders, the evidence filters, Coverage / CNSolution construction, Sample._make_coverage, genotype()) write only to containers
   they created themselves and bind only their own locals; hence no location of the loaded database or of the sample evidence
   changes, and every root keeps its content.  A code change that makes one of these operations write through an alias of a
   database / evidence container (the defects repaired by 038319a and 0cb63f3 were of that kind) changes the generated program
   and this obligation fails. ---- *)
Theorem C14_tie_ops_here_frame : forall name p st, In (name, p) ops_here ->
  (forall l, l < next st -> alookup Z.eqb l (heap (exec p st)) = alookup Z.eqb l (heap st)) /\
  (forall x l, x < 100 -> alookup Z.eqb x (env st) = Some l -> l < next st -> content (exec p st) x = content st x).
Proof. exact frame_ops_here. Qed.
Goal True. idtac "ASSUME C14_tie_ops_here_frame". Abort.
Print Assumptions C14_tie_ops_here_frame.
Example C14_tie_ops_here_nonempty :
  existsb (fun np : str * prog => str_eqb (fst np) (s "SolvedAllele.mutations")) ops_here = true /\ (10 <= length ops_here)%nat.
Proof. exact ops_here_nonempty. Qed.

(* shipped tree: every transcribed operation passes except SolvedAllele.mutations ... *)
Theorem C14_shipped_ops_safe_except_mutations :
  forallb (fun np => is_safe (snd np) || str_eqb (fst np) (s "SolvedAllele.mutations")) (ops AccShipped) = true
  /\ is_safe (op_mutations AccShipped) = false.
Proof. exact shipped_ops_safe_except_mutations. Qed.
Goal True. idtac "ASSUME C14_shipped_ops_safe_except_mutations". Abort.
Print Assumptions C14_shipped_ops_safe_except_mutations.

(* ... which ORs minor/added variants into the catalogue's core set and removes the missing ones from it *)
Theorem C14_frame_refuted :
  content catalogue_state r_func = [10] /\
  content (exec (op_mutations AccShipped) catalogue_state) r_func = [20; 30] /\
  content (exec (op_mutations AccFixed) catalogue_state) r_func = [10] /\
  content (exec (op_mutations AccFixed) catalogue_state) v_m = [20; 30].
Proof. exact frame_refuted. Qed.
Goal True. idtac "ASSUME C14_frame_refuted". Abort.
Print Assumptions C14_frame_refuted.

(* set-order invariance of every operation of the model *)
Theorem C14_exec_order_invariant : forall p s1 s2, state_eq s1 s2 -> state_eq (exec p s1) (exec p s2).
Proof. exact exec_order_invariant. Qed.
Goal True. idtac "ASSUME C14_exec_order_invariant". Abort.
Print Assumptions C14_exec_order_invariant.

Theorem C14_perm_seteq : forall a b, Permutation a b -> seteq a b.
Proof. exact perm_seteq. Qed.
Goal True. idtac "ASSUME C14_perm_seteq". Abort.
Print Assumptions C14_perm_seteq.

(* candidate pool of the minor stage, for every stage function [refine] *)
Theorem C14_candidate_independent : forall (cand structure pool result : Type)
  (struct_of : cand -> structure) (pool_of : list cand -> pool) (refine : structure -> pool -> cand -> result) cands c,
  pool_of cands = pool_of [c] ->
  refine_in struct_of pool_of refine PerStructure cands c = refine_alone struct_of pool_of refine PerStructure c.
Proof. exact @candidate_independent. Qed.
Goal True. idtac "ASSUME C14_candidate_independent". Abort.
Print Assumptions C14_candidate_independent.

Theorem C14_candidate_independent_same_structure : forall (cand structure pool result : Type)
  (struct_of : cand -> structure) (pool_of : list cand -> pool) (refine : structure -> pool -> cand -> result) cands c,
  struct_of (last cands c) = struct_of c -> pool_of cands = pool_of [c] ->
  refine_in struct_of pool_of refine LastStructure cands c = refine_alone struct_of pool_of refine LastStructure c.
Proof. exact @candidate_independent_same_structure. Qed.
Goal True. idtac "ASSUME C14_candidate_independent_same_structure". Abort.
Print Assumptions C14_candidate_independent_same_structure.

Theorem C14_candidate_order_invariant : forall (cand structure pool result : Type)
  (struct_of : cand -> structure) (pool_of : list cand -> pool) (refine : structure -> pool -> cand -> result) cands cands' c,
  pool_of cands = pool_of cands' ->
  refine_in struct_of pool_of refine PerStructure cands c = refine_in struct_of pool_of refine PerStructure cands' c.
Proof. exact @candidate_order_invariant. Qed.
Goal True. idtac "ASSUME C14_candidate_order_invariant". Abort.
Print Assumptions C14_candidate_order_invariant.

(* neither hypothesis can be dropped: last-structure filter (A next to B), pooled variant list (A next to C) *)
Theorem C14_candidate_independent_refuted :
  let A := (2, 7) in let B := (3, 7) in let C := (2, 9) in
  w_pool [A; B] = w_pool [A] /\
  refine_in w_struct w_pool w_refine LastStructure [A; B] A <> refine_alone w_struct w_pool w_refine LastStructure A /\
  refine_in w_struct w_pool w_refine LastStructure [B; A] B <> refine_alone w_struct w_pool w_refine LastStructure B /\
  refine_in w_struct w_pool w_refine PerStructure [A; B] A = refine_alone w_struct w_pool w_refine PerStructure A /\
  refine_in w_struct w_pool w_refine PerStructure [A; C] A <> refine_alone w_struct w_pool w_refine PerStructure A.
Proof. exact candidate_independent_refuted. Qed.
Goal True. idtac "ASSUME C14_candidate_independent_refuted". Abort.
Print Assumptions C14_candidate_independent_refuted.

(* ================================================================= names and the order of a copy's variant lists
   The lists SolvedAllele.added / missing are filled in the order the read-out of the minor stage meets the variants (set and
   dictionary iteration: hash seed).  Every printer of solutions.py sorts them; for all lists in which a (position, operation)
   pair denotes one variant, the sorted list - and with it every name of the copy - is the same for any two orders. *)
Theorem C14_sort_vars_order_free : forall l l', Permutation l l' -> key_inj l -> sort_vars l = sort_vars l'.
Proof. exact sort_vars_order_free. Qed.
Goal True. idtac "ASSUME C14_sort_vars_order_free". Abort.
Print Assumptions C14_sort_vars_order_free.

Theorem C14_names_order_free : forall a a', same_copy a a' ->
  (forall display, allele_major_name display a = allele_major_name display a') /\
  (forall legacy, allele_minor_name legacy a = allele_minor_name legacy a') /\
  allele_str a = allele_str a' /\ allele_major_repr a = allele_major_repr a'.
Proof. exact names_order_free. Qed.
Goal True. idtac "ASSUME C14_names_order_free". Abort.
Print Assumptions C14_names_order_free.
