(* C13 — Calls do not depend on genome build or gene strand.   PARTIAL.
   Only statements here; proofs are in proofs/TransportProofs.v.  Model: theories/Transport.v.

   Proved: for the abstract stage [score] (fit of every catalogue variant + fit of the reference evidence of every site that
   carries a catalogue variant — the shape of major.py:128-163 and minor.py:227-271) and the per-site admissibility rule, results
   commute with a transport of variants that is injective and SITE-PRESERVING; same-strand builds (any injective position map,
   gapped alignments included) always are; opposite strands are not as soon as two non-insertion variants of different footprint
   length start at the same RefSeq base; the hypothesis cannot be dropped (witness).
   Proved in addition (end of this file): the MAJOR stage specification of C02 (MajorSpec: score, admissibility, the enumeration of
   admissible combinations) commutes with every such transport.
   and the normalised region depths, the only input of the copy-number stage, are the same in both coordinate systems.
   and the MINOR stage specification of C04 (score incl. phase term, admissibility, property clauses) is invariant under every strictly
   increasing position map (same-strand builds).
   For the major stage the evidence filter and candidate selection are covered as well (C13_major_stage_same_strand).
   The evidence filter of the minor stage is covered too (C13_minor_filter_equivariant), and for builds that differ by one offset the
   pileup itself (C13_pileup_shift, C13_evidence_of_reads_shift, C13_phase_records_shift: reads -> coverage table and phase records). NOT proved: the filters on opposite strands, and that the minor-stage instance is read from the filtered table the way MinorModel.inst records it (serialised from the implementation's objects); beyond the hypothesis, and for the implementation as a whole, harness/c13.py decides by a two-build differential on
   stage results and scores (shipped genes hg19/hg38, generated opposite-strand databases). *)
From Aldy Require Import Base Consts Transport TransportProofs.
From Aldy Require Filter MajorModel MajorSpec MajorTransportProofs Norm NormProofs MinorModel MinorSpec MinorTransportProofs MajorStageTransportProofs Pileup PileupShiftProofs.
Open Scope Z_scope.

Theorem C13_stage_equivariant : forall (tr : variant -> variant) (vars : list variant),
  injective_on tr vars -> site_preserving tr vars ->
  forall e e' : evidence, transported tr vars e e' ->
  forall c : combo, within vars c -> (score (map tr vars) e' (tr_combo tr c) == score vars e c)%Q.
Proof. exact score_equivariant. Qed.
Goal True. idtac "ASSUME C13_stage_equivariant". Abort.
Print Assumptions C13_stage_equivariant.

Theorem C13_best_equivariant : forall (tr : variant -> variant) (vars : list variant),
  injective_on tr vars -> site_preserving tr vars ->
  forall e e' : evidence, transported tr vars e e' ->
  forall (cands : list combo) (c : combo), within vars c -> (forall c', In c' cands -> within vars c') ->
  is_best (map tr vars) e' (map (tr_combo tr) cands) (tr_combo tr c) = is_best vars e cands c.
Proof. exact best_equivariant. Qed.
Goal True. idtac "ASSUME C13_best_equivariant". Abort.
Print Assumptions C13_best_equivariant.

Theorem C13_one_per_site_equivariant : forall tr vars novel, site_preserving tr vars -> (forall v, In v novel -> In v vars) ->
  one_per_site (map tr novel) = one_per_site novel.
Proof. exact one_per_site_equivariant. Qed.
Goal True. idtac "ASSUME C13_one_per_site_equivariant". Abort.
Print Assumptions C13_one_per_site_equivariant.

(* the hypotheses are booleans (evaluated on databases by the harness) *)
Theorem C13_site_preserving_b_iff : forall tr vars, site_preserving_b tr vars = true <-> site_preserving tr vars.
Proof. exact site_preserving_b_iff. Qed.
Goal True. idtac "ASSUME C13_site_preserving_b_iff". Abort.
Print Assumptions C13_site_preserving_b_iff.

Theorem C13_injective_b_iff : forall tr vars, injective_b tr vars = true <-> injective_on tr vars.
Proof. exact injective_b_iff. Qed.
Goal True. idtac "ASSUME C13_injective_b_iff". Abort.
Print Assumptions C13_injective_b_iff.

(* hg19 vs hg38 on the same strand: always site-preserving and injective *)
Theorem C13_same_strand_site_preserving : forall f vars, (forall x y, f x = f y -> x = y) ->
  site_preserving (tr_pos f) vars /\ injective_on (tr_pos f) vars.
Proof. exact same_strand_site_preserving. Qed.
Goal True. idtac "ASSUME C13_same_strand_site_preserving". Abort.
Print Assumptions C13_same_strand_site_preserving.

(* opposite strands: same RefSeq base, footprints l1 and l2: same site on +, same site on - iff l1 = l2 *)
Theorem C13_opposite_strand_same_base : forall off top p l1 l2,
  site_fwd off p l1 false = site_fwd off p l2 false /\
  (site_rev top p l1 false = site_rev top p l2 false <-> l1 = l2).
Proof. exact opposite_strand_same_base. Qed.
Goal True. idtac "ASSUME C13_opposite_strand_same_base". Abort.
Print Assumptions C13_opposite_strand_same_base.

(* T>A and delTAC at the same RefSeq base, + strand vs - strand: injective, evidence transported, NOT site-preserving,
   and the planted *2/*3 scores 0 in one build and 2 in the other; the one-per-site rule flips as well *)
Theorem C13_stage_equivariant_needs_sites :
  injective_b w_tr w_vars = true /\ site_preserving_b w_tr w_vars = false /\
  transported w_tr w_vars w_e w_e' /\ within w_vars w_combo /\
  (score w_vars w_e w_combo == 0)%Q /\ (score (map w_tr w_vars) w_e' (tr_combo w_tr w_combo) == 2)%Q /\
  one_per_site w_vars = false /\ one_per_site (map w_tr w_vars) = true.
Proof. exact stage_equivariant_needs_sites. Qed.
Goal True. idtac "ASSUME C13_stage_equivariant_needs_sites". Abort.
Print Assumptions C13_stage_equivariant_needs_sites.

Example C13_shift_example :
  let tr := tr_pos (fun x => x + 1000) in
  site_preserving_b tr w_vars = true /\ injective_b tr w_vars = true /\
  (score (map tr w_vars) {| e_var := fun _ => 1%Q; e_ref := fun _ => 0%Q |} (tr_combo tr w_combo) == score w_vars w_e w_combo)%Q.
Proof. exact shift_example. Qed.

(* ================================================================= the MAJOR STAGE itself (MajorSpec.v, the object of the C02 theorems)
   The abstract stage above has the shape of major.py:128-197; here the real specification is transported.  [tr] moves the
   catalogue variants of the instance (the observed core variants [fm] and the definitions of the candidate alleles) from one
   coordinate system to the other; it has to be injective, site-preserving and keep insertions insertions on them
   ([MajorTransportProofs.transport_ok]); the evidence of the second build is the evidence of the first seen through [tr] ([MajorTransportProofs.evidence_ok]:
   observed copies of every variant, observed reference copies of every site, has_coverage of every configuration).
   Then: every combination has the same score in both builds, admissibility is the same, and the enumerations of admissible
   combinations correspond one to one (same allele counts, novel variants transported, scores equal) — so, by the C02 theorems
   (reported = the admissible combinations within the gap of the best), the major calls and scores of the two builds agree.
   The candidate filter and the minor stage are transported further down in this file. ---- *)
Theorem C13_major_score_equivariant : forall (tr : Filter.mut -> Filter.mut) (U : list Filter.mut) (cands : list MajorModel.allele) (fm : list Filter.mut)
  (obsf obsf' : Filter.mut -> Q) (hcov hcov' : str -> Z -> bool) (pen unit : Q),
  MajorTransportProofs.transport_ok tr U -> MajorTransportProofs.covers_instance U cands fm -> MajorTransportProofs.evidence_ok tr U obsf obsf' hcov hcov' ->
  forall (cnt cnt' : MajorModel.allele -> Q) (nov nov' : Filter.mut -> Q),
  (forall al, In al cands -> cnt' (MajorTransportProofs.tr_allele tr al) = cnt al) -> (forall m, In m fm -> nov' (tr m) = nov m) ->
  (MajorSpec.score (map (MajorTransportProofs.tr_allele tr) cands) (map tr fm) obsf' hcov' pen unit cnt' nov' == MajorSpec.score cands fm obsf hcov pen unit cnt nov)%Q.
Proof. exact MajorTransportProofs.score_tr. Qed.
Goal True. idtac "ASSUME C13_major_score_equivariant". Abort.
Print Assumptions C13_major_score_equivariant.

Theorem C13_major_admissible_equivariant : forall (tr : Filter.mut -> Filter.mut) (U : list Filter.mut) (cands : list MajorModel.allele) (struct : list (str * Z))
  (fm : list Filter.mut), MajorTransportProofs.transport_ok tr U -> MajorTransportProofs.covers_instance U cands fm ->
  forall counts novel, incl novel fm ->
  MajorSpec.admissible (map (MajorTransportProofs.tr_allele tr) cands) struct (map tr fm) counts (map tr novel) = MajorSpec.admissible cands struct fm counts novel.
Proof. exact MajorTransportProofs.admissible_tr. Qed.
Goal True. idtac "ASSUME C13_major_admissible_equivariant". Abort.
Print Assumptions C13_major_admissible_equivariant.

Theorem C13_major_enumeration_equivariant : forall (tr : Filter.mut -> Filter.mut) (U : list Filter.mut) (cands : list MajorModel.allele) (struct : list (str * Z))
  (fm : list Filter.mut) (obsf obsf' : Filter.mut -> Q) (hcov hcov' : str -> Z -> bool) (pen unit : Q),
  MajorTransportProofs.transport_ok tr U -> MajorTransportProofs.covers_instance U cands fm -> MajorTransportProofs.evidence_ok tr U obsf obsf' hcov hcov' ->
  Forall2 (MajorTransportProofs.comb_rel tr) (MajorSpec.enum_all cands struct fm obsf hcov pen unit)
                        (MajorSpec.enum_all (map (MajorTransportProofs.tr_allele tr) cands) struct (map tr fm) obsf' hcov' pen unit).
Proof. exact MajorTransportProofs.enum_all_tr. Qed.
Goal True. idtac "ASSUME C13_major_enumeration_equivariant". Abort.
Print Assumptions C13_major_enumeration_equivariant.

(* two builds on the same strand: always a legal transport *)
Theorem C13_major_same_strand : forall (f : Z -> Z) (U : list Filter.mut), (forall x y, f x = f y -> x = y) ->
  MajorTransportProofs.transport_ok (fun m : Filter.mut => (f (fst m), snd m)) U.
Proof. exact MajorTransportProofs.same_strand_transport_ok. Qed.
Goal True. idtac "ASSUME C13_major_same_strand". Abort.
Print Assumptions C13_major_same_strand.

(* the hypotheses are satisfiable and the enumeration is not empty *)
Example C13_major_example :
  MajorTransportProofs.transport_ok MajorTransportProofs.mt_tr MajorTransportProofs.mt_fm /\ MajorTransportProofs.covers_instance MajorTransportProofs.mt_fm MajorTransportProofs.mt_cands MajorTransportProofs.mt_fm /\ MajorTransportProofs.evidence_ok MajorTransportProofs.mt_tr MajorTransportProofs.mt_fm MajorTransportProofs.mt_obs MajorTransportProofs.mt_obs MajorTransportProofs.mt_hcov MajorTransportProofs.mt_hcov /\
  map (fun x : MajorSpec.comb => (Qred (MajorSpec.sc x), snd (fst x), snd x)) (MajorSpec.enum_all MajorTransportProofs.mt_cands [([49], 2)] MajorTransportProofs.mt_fm MajorTransportProofs.mt_obs MajorTransportProofs.mt_hcov 21 (1 # 10)) =
    [(2%Q, [([49], 0); ([50], 2)], []); (0%Q, [([49], 1); ([50], 1)], []); ((221 # 10)%Q, [([49], 2); ([50], 0)], [(100, MajorTransportProofs.mt_AG)])].
Proof. exact MajorTransportProofs.mt_example. Qed.

(* ================================================================= the copy-number signal (Norm.v, the object of the C07 theorems)
   The structure stage consumes region names and normalised depths only (CnModel/CnSpec have no coordinates), so its build
   independence is the build independence of the depths: moving every read position through [f] and using the second build's own
   region table and neutral region gives the SAME result, as soon as a position lies in a region iff its image lies in the
   corresponding region.  Both concrete moves qualify: another offset on the same strand, and the opposite strand. ---- *)
Theorem C13_region_depths_equivariant : forall (f : Z -> Z) nv (regions regions' : list (Norm.nregion * Q)) cn cn' dg dn,
  (forall p, In p (map fst dn) -> Norm.in_range (fst cn') (snd cn') (f p) = Norm.in_range (fst cn) (snd cn) p) ->
  Forall2 (fun rp rp' => Norm.nr_gene (fst rp') = Norm.nr_gene (fst rp) /\ Norm.nr_name (fst rp') = Norm.nr_name (fst rp) /\ snd rp' = snd rp /\
                         forall p, In p (map fst dg) ->
                           Norm.in_range (Norm.nr_start (fst rp')) (Norm.nr_end (fst rp')) (f p) =
                           Norm.in_range (Norm.nr_start (fst rp)) (Norm.nr_end (fst rp)) p)
          regions regions' ->
  Norm.normalize nv regions' cn' (NormProofs.move f dg) (NormProofs.move f dn) = Norm.normalize nv regions cn dg dn.
Proof. exact NormProofs.normalize_moved. Qed.
Goal True. idtac "ASSUME C13_region_depths_equivariant". Abort.
Print Assumptions C13_region_depths_equivariant.

Theorem C13_region_moves : forall off top s e p,
  Norm.in_range (s + off) (e + off) (p + off) = Norm.in_range s e p /\
  Norm.in_range (top - e + 1) (top - s + 1) (top - p) = Norm.in_range s e p.
Proof. intros. split; [apply NormProofs.in_range_shift | apply NormProofs.in_range_mirror]. Qed.
Goal True. idtac "ASSUME C13_region_moves". Abort.
Print Assumptions C13_region_moves.

(* ================================================================= the MINOR STAGE itself (MinorSpec.v, the object of the C04 theorems)
   Moving every position of an instance (variants, sites, has_coverage positions, phase records) through a STRICTLY INCREASING map —
   another build on the same strand, gapped alignments included — changes neither the score of any assignment (fit error, dropped /
   added / novel penalties, tie-breaker, phase disagreement), nor its admissibility, nor any clause of the property.  Equalities are
   Leibniz equalities of the computed values.  Monotonicity is used only for the read modes (sorted by position): on the opposite
   strand the phase term is NOT invariant in the implementation either (open finding C13-opposite-strand-phase-term). ---- *)
Theorem C13_minor_score_equivariant : forall (g : Z -> Z), (forall x y, x < y -> g x < g y) ->
  forall (c : consts) (i : MinorModel.inst) (tie : bool) (asg : MinorSpec.assignment),
  MinorSpec.score c (MinorTransportProofs.imap g i) tie (map (MinorTransportProofs.chmap g) asg) = MinorSpec.score c i tie asg.
Proof. exact MinorTransportProofs.score_tr. Qed.
Goal True. idtac "ASSUME C13_minor_score_equivariant". Abort.
Print Assumptions C13_minor_score_equivariant.

Theorem C13_minor_admissible_equivariant : forall (g : Z -> Z), (forall x y, x < y -> g x < g y) ->
  forall (i : MinorModel.inst) (asg : MinorSpec.assignment),
  MinorSpec.admissible (MinorTransportProofs.imap g i) (map (MinorTransportProofs.chmap g) asg) = MinorSpec.admissible i asg.
Proof. exact MinorTransportProofs.admissible_tr. Qed.
Goal True. idtac "ASSUME C13_minor_admissible_equivariant". Abort.
Print Assumptions C13_minor_admissible_equivariant.

Theorem C13_minor_clauses_equivariant : forall (g : Z -> Z), (forall x y, x < y -> g x < g y) ->
  forall (i : MinorModel.inst) (asg : MinorSpec.assignment),
  MinorSpec.clauses (MinorTransportProofs.imap g i) (map (MinorTransportProofs.chmap g) asg) = MinorSpec.clauses i asg.
Proof. exact MinorTransportProofs.clauses_tr. Qed.
Goal True. idtac "ASSUME C13_minor_clauses_equivariant". Abort.
Print Assumptions C13_minor_clauses_equivariant.

Example C13_minor_example :
  let g := fun p : Z => p + 1000 in let a := MinorSpec.solver_asg MinorSpec.witness_p MinorSpec.witness_p_solver in
  MinorSpec.score Consts_here.here (MinorTransportProofs.imap g MinorSpec.witness_p) false (map (MinorTransportProofs.chmap g) a) =
    MinorSpec.score Consts_here.here MinorSpec.witness_p false a /\
  MinorSpec.admissible MinorSpec.witness_p a = true /\ MinorSpec.score Consts_here.here MinorSpec.witness_p false a <> None /\
  MinorModel.modes MinorSpec.witness_p <> [].
Proof. exact MinorTransportProofs.mt_minor_example. Qed.

(* ================================================================= the WHOLE major stage on two builds of one strand
   Evidence filtering (quality filter and the two threshold filters of _filter_alleles, Filter.v), candidate selection, observed
   copy numbers and the enumeration of admissible combinations, for an instance whose every position (allele definitions,
   gene.mutations, position_cn, has_coverage, the Coverage table and the indel table) is moved through an injective map. ---- *)
Theorem C13_major_filter_equivariant : forall (g : Z -> Z), (forall x y, g x = g y -> x = y) ->
  forall (pcn pcn' : Z -> Q), (forall x, pcn' (g x) = pcn x) -> forall (p : Filter.fparams) (c : Filter.cover),
  Filter.major_cov p pcn' (MajorStageTransportProofs.covmap g c) = MajorStageTransportProofs.covmap g (Filter.major_cov p pcn c).
Proof. exact MajorStageTransportProofs.major_cov_tr. Qed.
Goal True. idtac "ASSUME C13_major_filter_equivariant". Abort.
Print Assumptions C13_major_filter_equivariant.

(* the evidence filter of the minor stage (minor.py default_filter_fn = the major filter restricted to the stage's variants /
   allowed regions) commutes with the same maps, for any transported "allowed" predicate *)
Theorem C13_minor_filter_equivariant : forall (g : Z -> Z), (forall x y, g x = g y -> x = y) ->
  forall (pcn pcn' : Z -> Q), (forall x, pcn' (g x) = pcn x) ->
  forall (allowed allowed' : Filter.mut -> bool), (forall m, allowed' (MajorStageTransportProofs.mtr g m) = allowed m) ->
  forall (p : Filter.fparams) (c : Filter.cover),
  Filter.minor_cov p pcn' allowed' (MajorStageTransportProofs.covmap g c) = MajorStageTransportProofs.covmap g (Filter.minor_cov p pcn allowed c).
Proof. exact MajorStageTransportProofs.minor_cov_tr. Qed.
Goal True. idtac "ASSUME C13_minor_filter_equivariant". Abort.
Print Assumptions C13_minor_filter_equivariant.

Theorem C13_major_stage_same_strand : forall (g : Z -> Z), (forall x y, g x = g y -> x = y) ->
  forall (c : consts) (I : MajorModel.inst),
  Forall2 (MajorTransportProofs.comb_rel (MajorStageTransportProofs.mtr g))
          (MajorSpec.all_combs c I) (MajorSpec.all_combs c (MajorStageTransportProofs.Imap g I)).
Proof. exact MajorStageTransportProofs.all_combs_tr. Qed.
Goal True. idtac "ASSUME C13_major_stage_same_strand". Abort.
Print Assumptions C13_major_stage_same_strand.

Example C13_major_stage_example :
  length (MajorSpec.all_combs Consts_here.here MajorStageTransportProofs.mst_inst) = 3%nat /\
  Forall2 (MajorTransportProofs.comb_rel (MajorStageTransportProofs.mtr (fun p => p + 1000)))
          (MajorSpec.all_combs Consts_here.here MajorStageTransportProofs.mst_inst)
          (MajorSpec.all_combs Consts_here.here (MajorStageTransportProofs.Imap (fun p => p + 1000) MajorStageTransportProofs.mst_inst)).
Proof. exact MajorStageTransportProofs.mst_example. Qed.

(* ================================================================= down to the READS (Pileup.v, the object of the C06 theorems)
   Another build on the same strand without alignment gaps inside the locus moves every coordinate by one offset d.  Moving the
   gene view (lookup range, RefSeq-mapped intervals, wide region, phaseable sites, catalogued multi-substitutions) and the start
   of every read by d leaves eligibility unchanged and moves every observation, every phase write and the whole coverage table
   by d: what Coverage.coverage / Coverage.total return for a variant in one build they return for the moved variant in the
   other, for EVERY read set.  So the hypothesis "the evidence of the second build is the evidence of the first seen through
   the transport" of the stage theorems above is a theorem about the reads for such builds. ---- *)
Theorem C13_pileup_shift : forall d g c rs,
  Pileup.sample_table (PileupShiftProofs.shg d g) c (map (PileupShiftProofs.shr d) rs) = PileupShiftProofs.sht d (Pileup.sample_table g c rs).
Proof. exact PileupShiftProofs.sample_table_sh. Qed.
Goal True. idtac "ASSUME C13_pileup_shift". Abort.
Print Assumptions C13_pileup_shift.

Theorem C13_evidence_of_reads_shift : forall d g c rs indels k,
  Pileup.cov_coverage (Pileup.sample_table (PileupShiftProofs.shg d g) c (map (PileupShiftProofs.shr d) rs)) (PileupShiftProofs.shi d indels) (PileupShiftProofs.shk d k)
    = Pileup.cov_coverage (Pileup.sample_table g c rs) indels k /\
  Pileup.cov_total_mut (Pileup.sample_table (PileupShiftProofs.shg d g) c (map (PileupShiftProofs.shr d) rs)) (PileupShiftProofs.shi d indels) (PileupShiftProofs.shk d k)
    = Pileup.cov_total_mut (Pileup.sample_table g c rs) indels k /\
  Pileup.cov_total_pos (Pileup.sample_table (PileupShiftProofs.shg d g) c (map (PileupShiftProofs.shr d) rs)) (fst k + d)
    = Pileup.cov_total_pos (Pileup.sample_table g c rs) (fst k).
Proof. exact PileupShiftProofs.evidence_of_reads_sh. Qed.
Goal True. idtac "ASSUME C13_evidence_of_reads_shift". Abort.
Print Assumptions C13_evidence_of_reads_shift.

Theorem C13_read_shift : forall d g c r,
  Pileup.eligible (PileupShiftProofs.shg d g) (PileupShiftProofs.shr d r) = Pileup.eligible g r /\
  Pileup.read_obs (PileupShiftProofs.shg d g) c (PileupShiftProofs.shr d r) = map (PileupShiftProofs.sho d) (Pileup.read_obs g c r) /\
  Pileup.read_phase (PileupShiftProofs.shg d g) c (PileupShiftProofs.shr d r) = map (PileupShiftProofs.shk d) (Pileup.read_phase g c r).
Proof. intros d g c r. split; [apply PileupShiftProofs.eligible_sh|]. split; [apply PileupShiftProofs.read_obs_sh|apply PileupShiftProofs.read_phase_sh]. Qed.
Goal True. idtac "ASSUME C13_read_shift". Abort.
Print Assumptions C13_read_shift.

Theorem C13_phase_records_shift : forall d g c rs,
  Pileup.phases (PileupShiftProofs.shg d g) c (map (PileupShiftProofs.shr d) rs) = PileupShiftProofs.shph d (Pileup.phases g c rs).
Proof. exact PileupShiftProofs.phases_sh. Qed.
Goal True. idtac "ASSUME C13_phase_records_shift". Abort.
Print Assumptions C13_phase_records_shift.
