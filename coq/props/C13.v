(* C13 — Calls do not depend on genome build or gene strand.   PARTIAL.
   Only statements here; proofs are in proofs/TransportProofs.v.  Model: theories/Transport.v.

   Proved: for the abstract stage [score] (fit of every catalogue variant + fit of the reference evidence of every site that
   carries a catalogue variant — the shape of major.py:128-163 and minor.py:227-271) and the per-site admissibility rule, results
   commute with a transport of variants that is injective and SITE-PRESERVING; same-strand builds (any injective position map,
   gapped alignments included) always are; opposite strands are not as soon as two non-insertion variants of different footprint
   length start at the same RefSeq base; the hypothesis cannot be dropped (witness).
   NOT proved: that aldy's three ILP stages are instances of this abstract stage (the stage models of C02-C04 are not transported
   here); beyond the hypothesis, and for the implementation as a whole, harness/c13.py decides by a two-build differential on
   stage results and scores (shipped genes hg19/hg38, generated opposite-strand databases). *)
From Aldy Require Import Base Consts Transport TransportProofs.
Open Scope Z_scope.

Theorem C13_stage_equivariant : forall (tr : variant -> variant) (vars : list variant),
  injective_on tr vars -> site_preserving tr vars ->
  forall e e' : evidence, transported tr vars e e' ->
  forall c : combo, within vars c -> (score (map tr vars) e' (tr_combo tr c) == score vars e c)%Q.
Proof. exact score_equivariant. Qed.
Goal True. idtac "ASSUME C13_stage_equivariant". Abort.
Print Assumptions C13_stage_equivariant.

Theorem C13_best_equivariant : forall (tr : variant -> variant) (vars : list variant),
  injective_on tr vars -> site_preserving tr vars ->
  forall e e' : evidence, transported tr vars e e' ->
  forall (cands : list combo) (c : combo), within vars c -> (forall c', In c' cands -> within vars c') ->
  is_best (map tr vars) e' (map (tr_combo tr) cands) (tr_combo tr c) = is_best vars e cands c.
Proof. exact best_equivariant. Qed.
Goal True. idtac "ASSUME C13_best_equivariant". Abort.
Print Assumptions C13_best_equivariant.

Theorem C13_one_per_site_equivariant : forall tr vars novel, site_preserving tr vars -> (forall v, In v novel -> In v vars) ->
  one_per_site (map tr novel) = one_per_site novel.
Proof. exact one_per_site_equivariant. Qed.
Goal True. idtac "ASSUME C13_one_per_site_equivariant". Abort.
Print Assumptions C13_one_per_site_equivariant.

(* the hypotheses are booleans (evaluated on databases by the harness) *)
Theorem C13_site_preserving_b_iff : forall tr vars, site_preserving_b tr vars = true <-> site_preserving tr vars.
Proof. exact site_preserving_b_iff. Qed.
Goal True. idtac "ASSUME C13_site_preserving_b_iff". Abort.
Print Assumptions C13_site_preserving_b_iff.

Theorem C13_injective_b_iff : forall tr vars, injective_b tr vars = true <-> injective_on tr vars.
Proof. exact injective_b_iff. Qed.
Goal True. idtac "ASSUME C13_injective_b_iff". Abort.
Print Assumptions C13_injective_b_iff.

(* hg19 vs hg38 on the same strand: always site-preserving and injective *)
Theorem C13_same_strand_site_preserving : forall f vars, (forall x y, f x = f y -> x = y) ->
  site_preserving (tr_pos f) vars /\ injective_on (tr_pos f) vars.
Proof. exact same_strand_site_preserving. Qed.
Goal True. idtac "ASSUME C13_same_strand_site_preserving". Abort.
Print Assumptions C13_same_strand_site_preserving.

(* opposite strands: same RefSeq base, footprints l1 and l2: same site on +, same site on - iff l1 = l2 *)
Theorem C13_opposite_strand_same_base : forall off top p l1 l2,
  site_fwd off p l1 false = site_fwd off p l2 false /\
  (site_rev top p l1 false = site_rev top p l2 false <-> l1 = l2).
Proof. exact opposite_strand_same_base. Qed.
Goal True. idtac "ASSUME C13_opposite_strand_same_base". Abort.
Print Assumptions C13_opposite_strand_same_base.

(* T>A and delTAC at the same RefSeq base, + strand vs - strand: injective, evidence transported, NOT site-preserving,
   and the planted *2/*3 scores 0 in one build and 2 in the other; the one-per-site rule flips as well *)
Theorem C13_stage_equivariant_needs_sites :
  injective_b w_tr w_vars = true /\ site_preserving_b w_tr w_vars = false /\
  transported w_tr w_vars w_e w_e' /\ within w_vars w_combo /\
  (score w_vars w_e w_combo == 0)%Q /\ (score (map w_tr w_vars) w_e' (tr_combo w_tr w_combo) == 2)%Q /\
  one_per_site w_vars = false /\ one_per_site (map w_tr w_vars) = true.
Proof. exact stage_equivariant_needs_sites. Qed.
Goal True. idtac "ASSUME C13_stage_equivariant_needs_sites". Abort.
Print Assumptions C13_stage_equivariant_needs_sites.

Example C13_shift_example :
  let tr := tr_pos (fun x => x + 1000) in
  site_preserving_b tr w_vars = true /\ injective_b tr w_vars = true /\
  (score (map tr w_vars) {| e_var := fun _ => 1%Q; e_ref := fun _ => 0%Q |} (tr_combo tr w_combo) == score w_vars w_e w_combo)%Q.
Proof. exact shift_example. Qed.
