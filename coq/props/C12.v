(* C12 — Result files state exactly the reported solutions.
   Only statements here (and the concrete witnesses of the refutations); proofs are in proofs/WritersProofs.v.
   Model: theories/Writers.v — rows of write_decomposition, table and records of write_vcf with the three switches
   sw_shared / sw_sub / sw_indel (AsShipped | Fixed), the file texts, and parsers for both formats.
   A copy CARRIES [carried c] = definition + added - missing (every variant once, sorted by position and change). *)
From Coq Require Import String Permutation Sorted.
From Aldy Require Import Base Consts NatSort Diplotype DiplotypeProofs Writers WritersProofs.
Import List.
Open Scope Z_scope.

(* ---------------------------------------------------------------- what a copy carries *)
Theorem C12_carried_exact : forall c x,
  wmem x (carried c) = wmem x (c_def c ++ c_added c) && negb (wmem x (c_missing c)).
Proof. exact carried_mem. Qed.
Goal True. idtac "ASSUME C12_carried_exact". Abort.
Print Assumptions C12_carried_exact.
Theorem C12_carried_once_sorted : forall c,
  NoDup (map wmut (carried c)) /\ Sorted (fun a b => wltb b a = false) (carried c).
Proof. exact carried_once_sorted. Qed.
Goal True. idtac "ASSUME C12_carried_once_sorted". Abort.
Print Assumptions C12_carried_once_sorted.

(* ---------------------------------------------------------------- decomposition file *)
(* reading the file back gives, per solution (numbered from 1, under its diplotype and minor-allele list) and per copy,
   exactly the carried variants, each with position, change, read support, effect and dbSNP id; one empty row for a copy
   without variants.  [decomp_clean]: no field contains TAB/newline and the sample name does not start with '#'. *)
Theorem C12_decomp_roundtrip : forall sample g sols text,
  decomp_clean sample g sols = true -> decomp_file sample g sols = Ok text ->
  parse_decomp text = Some (spec_decomp sample g 1 sols).
Proof. exact decomp_roundtrip. Qed.
Goal True. idtac "ASSUME C12_decomp_roundtrip". Abort.
Print Assumptions C12_decomp_roundtrip.
(* the writer fails only on the assertion `a.minor` *)
Theorem C12_decomp_total : forall sample g sols, minors_ok sols = true -> exists text, decomp_file sample g sols = Ok text.
Proof. exact decomp_total. Qed.
Goal True. idtac "ASSUME C12_decomp_total". Abort.
Print Assumptions C12_decomp_total.

(* ---------------------------------------------------------------- VCF: genotype table (Fixed variants) *)
Theorem C12_vcf_gt_exact : forall sw sols m mi ai sl c,
  sw_shared sw = Fixed -> sw_sub sw = Fixed ->
  nth_error sols mi = Some sl -> nth_error (s_copies sl) ai = Some c ->
  gt_cell sw sols m mi ai = wmem m (carried c).
Proof. exact vcf_gt_exact. Qed.
Goal True. idtac "ASSUME C12_vcf_gt_exact". Abort.
Print Assumptions C12_vcf_gt_exact.
(* the whole sample cell GT:DP:MA:MI — MA and MI name exactly the carrying copies, "-" for the others *)
Theorem C12_vcf_ma_mi_exact : forall sw sols m mi sl,
  sw_shared sw = Fixed -> sw_sub sw = Fixed -> nth_error sols mi = Some sl ->
  vcf_cell sw sols m mi sl = spec_cell m sl.
Proof. exact vcf_ma_mi_exact. Qed.
Goal True. idtac "ASSUME C12_vcf_ma_mi_exact". Abort.
Print Assumptions C12_vcf_ma_mi_exact.

(* ---------------------------------------------------------------- VCF: POS / REF / ALT *)
(* either variant: POS = pos + 1; the Fixed spelling of a deletion starts at the base before (POS = pos) *)
Theorem C12_vcf_pos_one_based : forall v g pos op,
  let '(P, R, A) := ref_alt v g (pos, op) in
  P = pos + 1 \/ (v = Fixed /\ str_eqb (firstn 3 op) (s "del") = true /\ P = pos /\ R = refnt g (pos - 1) :: skipn 3 op).
Proof. exact vcf_pos_one_based. Qed.
Goal True. idtac "ASSUME C12_vcf_pos_one_based". Abort.
Print Assumptions C12_vcf_pos_one_based.
(* Fixed: for a reference [rs] (index 0 = position 0) that the gene description agrees with, and a well-formed variant that
   agrees with the reference, REF is what the reference has at the one-based position POS, and replacing REF by ALT there
   yields exactly the sequence the variant yields (substitution X>Y, insertion AFTER base pos, deletion from base pos).
   Gapped substitutions (X.Y>Z.W) are outside this theorem (model and tie only). *)
Theorem C12_vcf_ref_alt_spells : forall g rs pos k,
  (forall p, (p < length rs)%nat -> refnt g (Z.of_nat p) = nth p rs 78) ->
  kind_ok k = true ->
  match k with
  | KSub x _ => ref_matches rs pos x
  | KIns _ => (pos < length rs)%nat
  | KDel x => (1 <= pos <= length rs)%nat /\ ref_matches rs pos x
  end ->
  let '(P, R, A) := ref_alt Fixed g (Z.of_nat pos, op_text k) in
  1 <= P /\ ref_matches rs (Z.to_nat (P - 1)) R /\ apply_edit rs (Z.to_nat (P - 1)) R A = apply_var rs pos k.
Proof. exact vcf_ref_alt_spells. Qed.
Goal True. idtac "ASSUME C12_vcf_ref_alt_spells". Abort.
Print Assumptions C12_vcf_ref_alt_spells.

(* ---------------------------------------------------------------- VCF: the file read back (Fixed variants) *)
(* [vcf_clean]: no separator inside a field of its level (allele names without ':' ',' TAB newline; read support without ':';
   other fields without TAB/newline), every solution has a copy, variant operations well-formed (X>Y of equal length, insX,
   delX over A C G T N).  The parsed records give back, for every solution column and copy, exactly the carried variants. *)
Theorem C12_vcf_roundtrip : forall sample g sols text,
  vcf_clean sample g sols = true -> vcf_file fixed sample g sols = Ok text ->
  exists rows, parse_vcf text = Some rows /\
    forall mi sl ai c, nth_error sols mi = Some sl -> nth_error (s_copies sl) ai = Some c ->
      forall x, In x (recovered rows mi ai) <-> In x (map wmut (carried c)).
Proof. exact vcf_roundtrip. Qed.
Goal True. idtac "ASSUME C12_vcf_roundtrip". Abort.
Print Assumptions C12_vcf_roundtrip.

(* ====================================================================== the shipped writer violates the VCF clauses *)
Definition wv (pos : Z) (op : string) (cov : string) : wvar :=
  {| w_v := {| v_pos := pos; v_op := s op; v_rs := s "-"; v_effect := None; v_solo := None |}; w_cov := s cov; w_fn_inf := None |}.
Definition cp (major minor : string) (defs missing : list wvar) : wcopy :=
  {| c_major := s major; c_minor := s minor; c_alt := []; c_def := defs; c_added := []; c_missing := missing |}.
Definition toy_g : wgene :=
  {| wg_name := s "TOY"; wg_chr := s "20"; wg_version := s "4.7"; wg_d := {| g_del := Some (s "6"); g_tandems := [(s "1", s "4")] |};
     wg_ref := [(109, 67); (110, 71); (111, 84); (118, 71)] |}.
Definition t114 := wv 114 "T>A" "9".
Definition dAC := wv 110 "delGT" "4".
Definition iTT := wv 118 "insTT" "5".
Definition sol (cs : list wcopy) : wsol := {| s_copies := cs; s_dipl := [[0]; [1]]; s_display := false |}.
(* two solutions that differ: the first (2 x *1.001) carries nothing, yet its column says copy 0 carries T>A *)
Definition w_shared : list wsol := [sol [cp "1" "1.001" [] []; cp "1" "1.001" [] []]; sol [cp "1" "1.002" [t114] []; cp "1" "1.001" [] []]].
(* a lost variant: copy 0 is reported as *1.002 without T>A *)
Definition w_lost : list wsol := [sol [cp "1" "1.002" [t114] [t114]; cp "1" "1.002" [t114] []]].
Definition w_indel : list wsol := [sol [cp "2" "2.001" [dAC; iTT] []; cp "1" "1.001" [] []]].

Theorem C12_vcf_gt_exact_refuted_shared :
  exists sols m mi ai sl c, nth_error sols mi = Some sl /\ nth_error (s_copies sl) ai = Some c /\
    gt_cell shipped sols m mi ai <> wmem m (carried c) /\
    gt_cell {| sw_shared := AsShipped; sw_sub := Fixed; sw_indel := Fixed |} sols m mi ai <> wmem m (carried c).
Proof. exists w_shared, t114, 0%nat, 0%nat. eexists. eexists. repeat split; vm_compute; discriminate. Qed.
Goal True. idtac "ASSUME C12_vcf_gt_exact_refuted_shared". Abort.
Print Assumptions C12_vcf_gt_exact_refuted_shared.

Theorem C12_vcf_gt_exact_refuted_lost :
  exists sols m mi ai sl c, nth_error sols mi = Some sl /\ nth_error (s_copies sl) ai = Some c /\
    gt_cell shipped sols m mi ai <> wmem m (carried c) /\
    gt_cell {| sw_shared := Fixed; sw_sub := AsShipped; sw_indel := Fixed |} sols m mi ai <> wmem m (carried c).
Proof. exists w_lost, t114, 0%nat, 0%nat. eexists. eexists. repeat split; vm_compute; discriminate. Qed.
Goal True. idtac "ASSUME C12_vcf_gt_exact_refuted_lost". Abort.
Print Assumptions C12_vcf_gt_exact_refuted_lost.

Theorem C12_vcf_ma_mi_exact_refuted :
  vcf_cell shipped w_shared t114 0 (sol [cp "1" "1.001" [] []; cp "1" "1.001" [] []]) = s "1|0:9:*1,-:*1.001,-" /\
  spec_cell t114 (sol [cp "1" "1.001" [] []; cp "1" "1.001" [] []]) = s "0|0:9:-,-:-,-" /\
  vcf_cell shipped w_lost t114 0 (sol [cp "1" "1.002" [t114] [t114]; cp "1" "1.002" [t114] []]) = s "1|1:9:*1,*1:*1.002,*1.002" /\
  spec_cell t114 (sol [cp "1" "1.002" [t114] [t114]; cp "1" "1.002" [t114] []]) = s "0|1:9:-,*1:-,*1.002".
Proof. vm_compute. auto. Qed.
Goal True. idtac "ASSUME C12_vcf_ma_mi_exact_refuted". Abort.
Print Assumptions C12_vcf_ma_mi_exact_refuted.

(* REF/ALT as shipped: the deletion record has REF "." ALT "GT, ." and the insertion record REF "i" ALT "iTT";
   neither REF is what the reference has there *)
Theorem C12_vcf_ref_alt_spells_refuted :
  let rs := repeat 65 109 ++ [67; 71; 84; 65; 67; 71; 84; 65; 67; 71; 84] in       (* ... C G T A C G T A C G T *)
  ref_alt AsShipped toy_g (110, s "delGT") = (111, s ".", s "GT, .") /\
  ref_alt AsShipped toy_g (118, s "insTT") = (119, s "i", s "iTT") /\
  ~ ref_matches rs 110 (s ".") /\ ~ ref_matches rs 118 (s "i") /\
  ref_alt Fixed toy_g (110, s "delGT") = (110, s "CGT", s "C") /\
  ref_alt Fixed toy_g (118, s "insTT") = (119, s "G", s "GTT").
Proof. cbv zeta. repeat split; try (vm_compute; reflexivity); vm_compute; discriminate. Qed.
Goal True. idtac "ASSUME C12_vcf_ref_alt_spells_refuted". Abort.
Print Assumptions C12_vcf_ref_alt_spells_refuted.

Theorem C12_vcf_roundtrip_refuted :
  exists text rows, vcf_file shipped (s "W") toy_g w_indel = Ok text /\ parse_vcf text = Some rows /\
    recovered rows 0 0 = [(110, s "insT, ."); (118, s "insTT")] /\
    map wmut (carried (cp "2" "2.001" [dAC; iTT] [])) = [(110, s "delGT"); (118, s "insTT")].
Proof. eexists. eexists. split; [vm_compute; reflexivity|]. split; [vm_compute; reflexivity|]. split; vm_compute; reflexivity. Qed.
Goal True. idtac "ASSUME C12_vcf_roundtrip_refuted". Abort.
Print Assumptions C12_vcf_roundtrip_refuted.

(* the Fixed writer on the same inputs: non-vacuity of the round-trip theorem *)
Example C12_vcf_roundtrip_example :
  vcf_clean (s "W") toy_g w_indel = true /\ vcf_clean (s "W") toy_g w_shared = true /\ vcf_clean (s "W") toy_g w_lost = true /\
  exists text, vcf_file fixed (s "W") toy_g w_indel = Ok text.
Proof. repeat split; try (vm_compute; reflexivity). eexists. vm_compute. reflexivity. Qed.
Goal True. idtac "ASSUME C12_vcf_roundtrip_example". Abort.
Print Assumptions C12_vcf_roundtrip_example.

Example C12_decomp_roundtrip_example :
  decomp_clean (s "W") toy_g w_lost = true /\ decomp_clean (s "W") toy_g w_indel = true /\
  exists text, decomp_file (s "W") toy_g w_lost = Ok text.
Proof. repeat split; try (vm_compute; reflexivity). eexists. vm_compute. reflexivity. Qed.
Goal True. idtac "ASSUME C12_decomp_roundtrip_example". Abort.
Print Assumptions C12_decomp_roundtrip_example.

(* the hypothesis on names is needed, also for the Fixed writer: the catalogue's collision rule names a CYP2D6 allele "68:2",
   and ':' separates the fields of a sample cell *)
Theorem C12_vcf_names_clean_needed :
  let sl := sol [cp "68:2" "68.002" [t114] []; cp "1" "1.001" [] []] in
  vcf_cell fixed [sl] t114 0 sl = s "1|0:9:*68:2,-:*68.002,-" /\ parse_cell (vcf_cell fixed [sl] t114 0 sl) = None /\
  names_clean [sl] = false.
Proof. vm_compute. auto. Qed.
Goal True. idtac "ASSUME C12_vcf_names_clean_needed". Abort.
Print Assumptions C12_vcf_names_clean_needed.
