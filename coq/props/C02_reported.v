(* C02 (continued) — what model.solutions(profile.gap) yields on the ILP of solve_major_model.
   Composition of proofs/MajorProofs.v with the enumeration loop of property C05 (theories/Enum.v, proofs/EnumProofs.v),
   relative to the solver contract of C05, which appears as explicit premises:
     [solver_ok]: on the model and on every model obtained from it by exclusion cuts, the solver answers Infeasible only if
                  there is no feasible point, and an answer Optimal o p is a feasible point p of objective o that no feasible
                  point undercuts;   [answers]: it never gives up (status other than optimal/infeasible).
   Only statements here; proofs are in proofs/MajorEnumProofs.v. *)
From Aldy Require Import Base Consts Lp Enum Filter MajorModel MajorSpec MajorProofs EnumProofs MajorEnumProofs PlantedProofs.
Open Scope Z_scope.

(* every reported combination is admissible, and the reported score is exactly its fit error plus penalties *)
Theorem C02_reported_sound : forall (c : consts) (I : inst), inst_wf I = true ->
  forall solve : Z -> lp -> sres,
  (forall cuts, cuts_ok (gen c I) cuts -> solver_ok solve (with_cuts (gen c I) cuts)) ->
  forall r, solutions c solve (i_gap I) None (gen c I) = Some r ->
  forall y, In y r ->
    feasible (gen c I) (asg_of (y_point y)) /\
    admissible (candidates I) (i_struct I) (func_muts I)
               (counts_of_asg (candidates I) (i_struct I) (asg_of (y_point y))) (novel_of_asg (func_muts I) (asg_of (y_point y))) = true /\
    (y_obj y == score (candidates I) (func_muts I) (obs_cn I) (hascov I) (i_major_novel I) (c_major_novel_unit c)
                      (cnt_of (counts_of_asg (candidates I) (i_struct I) (asg_of (y_point y))))
                      (nov_of (novel_of_asg (func_muts I) (asg_of (y_point y)))))%Q.
Proof. exact reported_sound. Qed.
Goal True. idtac "ASSUME C02_reported_sound". Abort.
Print Assumptions C02_reported_sound.

(* reported exactly once: no active set is yielded twice, and yields with the same allele counts have the same active set *)
Theorem C02_reported_once : forall (c : consts) (I : inst), inst_wf I = true ->
  forall solve : Z -> lp -> sres,
  (forall cuts, cuts_ok (gen c I) cuts -> solver_ok solve (with_cuts (gen c I) cuts)) ->
  forall r, solutions c solve (i_gap I) None (gen c I) = Some r ->
  NoDup (map y_active r) /\
  forall y1 y2, In y1 r -> In y2 r ->
    (forall al, In al (candidates I) -> zcount (i_struct I) (asg_of (y_point y1)) al = zcount (i_struct I) (asg_of (y_point y2)) al) ->
    y_active y1 = y_active y2.
Proof. exact (fun c I W solve K r R => conj (reported_nodup c I solve K r R) (reported_once c I solve K r R)). Qed.
Goal True. idtac "ASSUME C02_reported_once". Abort.
Print Assumptions C02_reported_once.

(* optimal: no admissible combination scores lower than the first reported one ... *)
Theorem C02_reported_first_optimal : forall (c : consts) (I : inst), inst_wf I = true ->
  forall solve : Z -> lp -> sres,
  (forall cuts, cuts_ok (gen c I) cuts -> solver_ok solve (with_cuts (gen c I) cuts)) ->
  forall r, solutions c solve (i_gap I) None (gen c I) = Some r ->
  forall y rest counts novel, r = y :: rest ->
    admissible (candidates I) (i_struct I) (func_muts I) counts novel = true ->
    (y_obj y <= score (candidates I) (func_muts I) (obs_cn I) (hascov I) (i_major_novel I) (c_major_novel_unit c)
                      (cnt_of counts) (nov_of novel))%Q.
Proof. exact reported_first_optimal. Qed.
Goal True. idtac "ASSUME C02_reported_first_optimal". Abort.
Print Assumptions C02_reported_first_optimal.

(* ... and everything reported is below (1 + gap) * best + SOLVER_PRECISON *)
Theorem C02_reported_within_gap : forall (c : consts) (I : inst), consts_wf c = true ->
  forall solve : Z -> lp -> sres,
  forall r, solutions c solve (i_gap I) None (gen c I) = Some r ->
  forall y rest, r = y :: rest ->
    Forall (fun y' => (y_obj y' < (1 + i_gap I) * y_obj y + c_solver_precision c)%Q) r.
Proof. exact reported_within_gap. Qed.
Goal True. idtac "ASSUME C02_reported_within_gap". Abort.
Print Assumptions C02_reported_within_gap.

(* complete: every admissible combination whose score is within (1 + gap) of every admissible score is reported,
   with exactly its allele counts and its score *)
Theorem C02_reported_complete : forall (c : consts) (I : inst), inst_wf I = true ->
  forall solve : Z -> lp -> sres,
  (forall cuts, cuts_ok (gen c I) cuts -> solver_ok solve (with_cuts (gen c I) cuts)) ->
  (forall cuts it, cuts_ok (gen c I) cuts -> solve it (with_cuts (gen c I) cuts) <> NotOptimal) ->
  (0 <= i_gap I)%Q ->
  forall r, solutions c solve (i_gap I) None (gen c I) = Some r ->
  forall counts novel,
    admissible (candidates I) (i_struct I) (func_muts I) counts novel = true ->
    (forall counts' novel', admissible (candidates I) (i_struct I) (func_muts I) counts' novel' = true ->
       (score (candidates I) (func_muts I) (obs_cn I) (hascov I) (i_major_novel I) (c_major_novel_unit c) (cnt_of counts) (nov_of novel) <=
        (1 + i_gap I) * score (candidates I) (func_muts I) (obs_cn I) (hascov I) (i_major_novel I) (c_major_novel_unit c)
                              (cnt_of counts') (nov_of novel'))%Q) ->
    exists y, In y r /\
      (forall al, In al (candidates I) -> zcount (i_struct I) (asg_of (y_point y)) al = count_z counts al) /\
      (y_obj y == score (candidates I) (func_muts I) (obs_cn I) (hascov I) (i_major_novel I) (c_major_novel_unit c)
                        (cnt_of counts) (nov_of novel))%Q.
Proof. exact reported_complete. Qed.
Goal True. idtac "ASSUME C02_reported_complete". Abort.
Print Assumptions C02_reported_complete.

(* noise-free evidence (C01 inside the major-stage model): if the filtered evidence shows every observed core variant and every
   reference site with exactly the planted number of copies ([planted_ok]: decidable, evaluated by the harness on every planted
   case), the loop's result CONTAINS the planted multiset of major alleles, with score 0, and nothing yielded scores below 0 *)
Theorem C02_reported_planted : forall (c : consts) (I : inst) (counts : list (str * Z)) (solve : Z -> lp -> sres) (r : list yield),
  consts_wf c = true -> inst_wf I = true -> (0 <= i_major_novel I)%Q -> (0 <= i_gap I)%Q ->
  (forall cuts, cuts_ok (gen c I) cuts -> solver_ok solve (with_cuts (gen c I) cuts)) ->
  (forall cuts it, cuts_ok (gen c I) cuts -> solve it (with_cuts (gen c I) cuts) <> NotOptimal) ->
  forallb (fun b : bool => b) (planted_ok c I counts) = true ->
  solutions c solve (i_gap I) None (gen c I) = Some r ->
  exists y, In y r /\
    (forall al, In al (candidates I) -> zcount (i_struct I) (asg_of (y_point y)) al = count_z counts al) /\
    (y_obj y == 0)%Q /\
    (forall y', In y' r -> (0 <= y_obj y')%Q).
Proof. exact major_reports_planted. Qed.
Goal True. idtac "ASSUME C02_reported_planted". Abort.
Print Assumptions C02_reported_planted.
