(* C05 — The ILP layer returns true optima and exact linearisations (aldy/lpinterface.py).
   Only statements here; proofs are in proofs/LpProofs.v, proofs/EnumProofs.v, proofs/BruteProofs.v.

   The solver (CBC through OR-Tools) is an ORACLE: [solve : Z -> lp -> sres] (iteration number, model).  Its contract is
   the premise [C05_contract] of every C05_enum_* theorem, spelled out by C05_solver_contract below.  It is validated
   on every run (harness/c05.py: exhaustive enumeration, SCIP, HiGHS), never assumed globally; for the reference
   solver Brute it is PROVED on a decidable syntactic class (C05_brute_contract), which makes the C05_brute_enum_*
   theorems unconditional. *)
From Coq Require Import QArith Qabs List.
From Aldy Require Import Base Consts Lp Enum Brute LpProofs EnumProofs BruteProofs Consts_here Consts_wf Exprs_lp Tied_lp LpReadbackProofs.
Import ListNotations.
Open Scope Q_scope.

(* the literals of the current source tree are well-formed; in particular 0 < SOLVER_PRECISON *)
Theorem C05_consts_here_wf : consts_wf here = true.
Proof. exact here_wf. Qed.
Goal True. idtac "ASSUME C05_consts_here_wf". Abort.
Print Assumptions C05_consts_here_wf.

Theorem C05_solver_precision_positive : forall c, consts_wf c = true -> 0 < c_solver_precision c.
Proof. exact consts_eps_pos. Qed.
Goal True. idtac "ASSUME C05_solver_precision_positive". Abort.
Print Assumptions C05_solver_precision_positive.

(* ================================================================= prod (lpinterface.py:140-150) *)
(* in every point that is 0/1 on the variables involved, the rows of prod hold exactly when the product variable is
   the AND of the factors — for any number of factors *)
Theorem C05_prod_exact : forall (a : asg) (res : vkey) (ts : list vkey),
  is_bin (a res) -> (forall t, In t ts -> is_bin (a t)) ->
  (Forall (sat_row a) (prod_rows res ts) <-> a res == (if forallb (fun t => Qeqb (a t) 1) ts then 1 else 0)).
Proof. exact prod_exact. Qed.
Goal True. idtac "ASSUME C05_prod_exact". Abort.
Print Assumptions C05_prod_exact.

Theorem C05_prod_exact_no_factor : forall (a : asg) res, is_bin (a res) -> (Forall (sat_row a) (prod_rows res []) <-> a res == 1).
Proof. exact prod_exact_nil. Qed.
Goal True. idtac "ASSUME C05_prod_exact_no_factor". Abort.
Print Assumptions C05_prod_exact_no_factor.

Theorem C05_prod_exact_one_factor : forall (a : asg) res t, is_bin (a res) -> is_bin (a t) ->
  (Forall (sat_row a) (prod_rows res [t]) <-> a res == a t).
Proof. exact prod_exact_one. Qed.
Goal True. idtac "ASSUME C05_prod_exact_one_factor". Abort.
Print Assumptions C05_prod_exact_one_factor.

(* ================================================================= abssum (lpinterface.py:120-138) *)
Theorem C05_abssum_lower : forall (a : asg) (vs : list vkey),
  Forall (sat_row a) (abssum_rows vs) -> forall v, In v vs -> Qabs (a v) <= a (abs_key v).
Proof. exact abssum_lower. Qed.
Goal True. idtac "ASSUME C05_abssum_lower". Abort.
Print Assumptions C05_abssum_lower.

(* non-negative coefficients: the helper expression is at least sum c_i |v_i| *)
Theorem C05_abssum_objective_lower : forall coef (a : asg) vs, (forall v, In v vs -> 0 <= coef v) ->
  Forall (sat_row a) (abssum_rows vs) ->
  qsum (map (fun v => coef v * Qabs (a v)) vs) <= eval_lin a (abssum_lin coef vs).
Proof. exact abssum_objective_lower. Qed.
Goal True. idtac "ASSUME C05_abssum_objective_lower". Abort.
Print Assumptions C05_abssum_objective_lower.

(* ... and that value is attained by moving the helpers only (fresh helpers: no term is another term's helper) *)
Theorem C05_abssum_attained : forall coef (a : asg) vs, (forall v w, In v vs -> In w vs -> v <> abs_key w) ->
  Forall (sat_row (tighten a vs)) (abssum_rows vs) /\
  eval_lin (tighten a vs) (abssum_lin coef vs) == qsum (map (fun v => coef v * Qabs (a v)) vs) /\
  (forall k, (forall v, In v vs -> k <> abs_key v) -> tighten a vs k = a k).
Proof. exact abssum_attained. Qed.
Goal True. idtac "ASSUME C05_abssum_attained". Abort.
Print Assumptions C05_abssum_attained.

(* positive coefficients: whoever reaches sum c_i |v_i| has every helper equal to |v_i| *)
Theorem C05_abssum_tight : forall coef (a : asg) vs, (forall v, In v vs -> 0 < coef v) ->
  Forall (sat_row a) (abssum_rows vs) ->
  eval_lin a (abssum_lin coef vs) <= qsum (map (fun v => coef v * Qabs (a v)) vs) ->
  forall v, In v vs -> a (abs_key v) == Qabs (a v).
Proof. exact abssum_tight. Qed.
Goal True. idtac "ASSUME C05_abssum_tight". Abort.
Print Assumptions C05_abssum_tight.

(* model level: objective = rest + abssum, rows = base + abssum rows, helpers used nowhere else and free above 0.
   Every minimiser has tight helpers and its objective is rest + sum c_i |v_i| + const (objective identity). *)
Theorem C05_abssum_minimiser_tight : forall (m : lp) coef vs rest base,
  lp_obj m = rest ++ abssum_lin coef vs -> lp_rows m = base ++ abssum_rows vs ->
  (forall v w, In v vs -> In w vs -> v <> abs_key w) ->
  (forall v, In v vs -> ~ In (abs_key v) (lin_vars rest)) ->
  (forall v r, In v vs -> In r base -> ~ In (abs_key v) (lin_vars (r_lin r))) ->
  (forall v k, In v vs -> In (abs_key v, k) (lp_vars m) -> forall q, 0 <= q -> in_kind k q) ->
  (forall v, In v vs -> 0 < coef v) ->
  forall a, feasible m a -> (forall a', feasible m a' -> objective m a <= objective m a') ->
  (forall v, In v vs -> a (abs_key v) == Qabs (a v)) /\
  objective m a == eval_lin a rest + qsum (map (fun v => coef v * Qabs (a v)) vs) + lp_const m.
Proof. exact abssum_minimiser_tight. Qed.
Goal True. idtac "ASSUME C05_abssum_minimiser_tight". Abort.
Print Assumptions C05_abssum_minimiser_tight.

(* non-negative coefficients: tightening keeps feasibility, never increases the objective, gives the identity *)
Theorem C05_abssum_objective_identity : forall (m : lp) coef vs rest base,
  lp_obj m = rest ++ abssum_lin coef vs -> lp_rows m = base ++ abssum_rows vs ->
  (forall v w, In v vs -> In w vs -> v <> abs_key w) ->
  (forall v, In v vs -> ~ In (abs_key v) (lin_vars rest)) ->
  (forall v r, In v vs -> In r base -> ~ In (abs_key v) (lin_vars (r_lin r))) ->
  (forall v k, In v vs -> In (abs_key v, k) (lp_vars m) -> forall q, 0 <= q -> in_kind k q) ->
  (forall v, In v vs -> 0 <= coef v) ->
  forall a, feasible m a ->
  feasible m (tighten a vs) /\
  objective m (tighten a vs) == eval_lin a rest + qsum (map (fun v => coef v * Qabs (a v)) vs) + lp_const m /\
  objective m (tighten a vs) <= objective m a.
Proof. exact abssum_objective_identity. Qed.
Goal True. idtac "ASSUME C05_abssum_objective_identity". Abort.
Print Assumptions C05_abssum_objective_identity.

(* with a ZERO coefficient the helper is not pinned: the tightness statement is false there (reported, not hidden) *)
Theorem C05_abssum_zero_coefficient_refuted :
  exists (a : asg) (v : vkey), Forall (sat_row a) (abssum_rows [v]) /\
    eval_lin a (abssum_lin (fun _ => 0) [v]) <= qsum (map (fun v => 0 * Qabs (a v)) [v]) /\ ~ a (abs_key v) == Qabs (a v).
Proof.
  exists (fun k => if vkey_eqb k (abs_key [7%Z]) then 5 else 0), [7%Z]. split; [|split].
  - repeat constructor; vm_compute; discriminate.
  - vm_compute. discriminate.
  - vm_compute. discriminate.
Qed.
Goal True. idtac "ASSUME C05_abssum_zero_coefficient_refuted". Abort.
Print Assumptions C05_abssum_zero_coefficient_refuted.

(* ================================================================= the solver contract *)
(* [solver_ok solve m']: on model m', at every iteration, Infeasible is only answered for an infeasible model, and an
   Optimal answer is a feasible point, with its true objective, that no feasible point beats *)
Theorem C05_solver_contract : forall solve m',
  solver_ok solve m' <->
  forall it : Z,
    (solve it m' = Infeasible -> forall a, ~ feasible m' a) /\
    (forall o p, solve it m' = Optimal o p ->
       feasible m' (asg_of p) /\ o == objective m' (asg_of p) /\ forall a, feasible m' a -> o <= objective m' a).
Proof. intros. unfold solver_ok. tauto. Qed.
Goal True. idtac "ASSUME C05_solver_contract". Abort.
Print Assumptions C05_solver_contract.

(* the contract is required of the model and of its extensions by exclusion cuts over its binaries, nothing else *)
Definition C05_contract (solve : Z -> lp -> sres) (m : lp) : Prop :=
  forall cuts, (forall c, In c cuts -> In c (subseqs (binaries m))) -> solver_ok solve (with_cuts m cuts).

(* ================================================================= solutions() (lpinterface.py:200-246) *)
Theorem C05_enum_first_optimal : forall c solve gap limit m, consts_wf c = true -> C05_contract solve m ->
  forall y r, solutions c solve gap limit m = Some (y :: r) ->
  feasible m (asg_of (y_point y)) /\ forall a, feasible m a -> y_obj y <= objective m a.
Proof. intros c solve gap limit m Hc H. exact (solutions_first_optimal c solve gap limit m H). Qed.
Goal True. idtac "ASSUME C05_enum_first_optimal". Abort.
Print Assumptions C05_enum_first_optimal.

(* every yield: feasible for the ORIGINAL rows, carries its own objective, active set read from the point *)
Theorem C05_enum_sound : forall c solve gap limit m, consts_wf c = true -> C05_contract solve m ->
  forall r, solutions c solve gap limit m = Some r ->
  Forall (fun y => feasible m (asg_of (y_point y)) /\ y_obj y == objective m (asg_of (y_point y)) /\
                   y_active y = active m (asg_of (y_point y))) r.
Proof. intros c solve gap limit m Hc H. exact (solutions_sound c solve gap limit m H). Qed.
Goal True. idtac "ASSUME C05_enum_sound". Abort.
Print Assumptions C05_enum_sound.

Theorem C05_enum_within_gap : forall c solve gap limit m, consts_wf c = true ->
  forall y r, solutions c solve gap limit m = Some (y :: r) ->
  Forall (fun y' => y_obj y' < (1 + gap) * y_obj y + c_solver_precision c) (y :: r).
Proof. intros c solve gap limit m Hc. exact (solutions_within_gap c Hc solve gap limit m). Qed.
Goal True. idtac "ASSUME C05_enum_within_gap". Abort.
Print Assumptions C05_enum_within_gap.

(* no yielded active set contains an earlier one; in particular nothing is yielded twice *)
Theorem C05_enum_nodup : forall c solve gap limit m, consts_wf c = true -> C05_contract solve m ->
  forall r, solutions c solve gap limit m = Some r ->
  ForallOrdPairs (fun x y => ksubset (y_active x) (y_active y) = false) r /\ NoDup (map y_active r).
Proof.
  intros c solve gap limit m Hc H r Hr. split;
  [exact (solutions_nosuper c solve gap limit m H r Hr) | exact (solutions_nodup c solve gap limit m H r Hr)].
Qed.
Goal True. idtac "ASSUME C05_enum_nodup". Abort.
Print Assumptions C05_enum_nodup.

Theorem C05_enum_monotone : forall c solve gap limit m, consts_wf c = true -> C05_contract solve m ->
  forall r, solutions c solve gap limit m = Some r -> ForallOrdPairs (fun x y => y_obj x <= y_obj y) r.
Proof. intros c solve gap limit m Hc H. exact (solutions_monotone c solve gap limit m H). Qed.
Goal True. idtac "ASSUME C05_enum_monotone". Abort.
Print Assumptions C05_enum_monotone.

(* no limit, and the solver always answers Infeasible or Optimal: every feasible point within the gap is yielded or
   its active set contains that of a yielded solution that is no worse *)
Theorem C05_enum_complete : forall c solve gap limit m, consts_wf c = true -> C05_contract solve m ->
  (limit = None \/ limit = Some 0%Z) ->
  (forall cuts it, (forall c, In c cuts -> In c (subseqs (binaries m))) -> solve it (with_cuts m cuts) <> NotOptimal) ->
  forall r, solutions c solve gap limit m = Some r ->
  forall a, feasible m a -> (forall a', feasible m a' -> objective m a <= (1 + gap) * objective m a') ->
  exists y, In y r /\ ksubset (y_active y) (active m a) = true /\ y_obj y <= objective m a.
Proof. intros c solve gap limit m Hc H. exact (solutions_complete c solve gap limit m H). Qed.
Goal True. idtac "ASSUME C05_enum_complete". Abort.
Print Assumptions C05_enum_complete.

Theorem C05_enum_limit : forall c solve gap limit m l r, limit = Some l -> (0 < l)%Z ->
  solutions c solve gap limit m = Some r -> (Z.of_nat (length r) <= l)%Z.
Proof. intros c solve gap limit m. exact (solutions_limit c solve gap limit m). Qed.
Goal True. idtac "ASSUME C05_enum_limit". Abort.
Print Assumptions C05_enum_limit.

(* 2^#binaries + 1 solves always suffice: the fuel of [solutions] is never exhausted *)
Theorem C05_enum_terminates : forall c solve gap limit m, C05_contract solve m -> solutions c solve gap limit m <> None.
Proof. intros c solve gap limit m H. exact (solutions_terminates c solve gap limit m H). Qed.
Goal True. idtac "ASSUME C05_enum_terminates". Abort.
Print Assumptions C05_enum_terminates.

(* ================================================================= the reference solver *)
Theorem C05_brute_sound : forall pref m o p, solve_pref pref m = Optimal o p -> feasible m (asg_of p) /\ o == objective m (asg_of p).
Proof. exact brute_sound. Qed.
Goal True. idtac "ASSUME C05_brute_sound". Abort.
Print Assumptions C05_brute_sound.

Theorem C05_brute_optimal : forall pref m o p, shaped m = true -> solve_pref pref m = Optimal o p ->
  forall a, feasible m a -> o <= objective m a.
Proof. exact brute_optimal. Qed.
Goal True. idtac "ASSUME C05_brute_optimal". Abort.
Print Assumptions C05_brute_optimal.

Theorem C05_brute_infeasible : forall pref m, shaped m = true -> solve_pref pref m = Infeasible -> forall a, ~ feasible m a.
Proof. exact brute_infeasible. Qed.
Goal True. idtac "ASSUME C05_brute_infeasible". Abort.
Print Assumptions C05_brute_infeasible.

Theorem C05_brute_shape_closed : forall m cuts, shaped m = true -> (forall c, In c cuts -> In c (subseqs (binaries m))) ->
  shaped (with_cuts m cuts) = true.
Proof. exact shaped_with_cuts. Qed.
Goal True. idtac "ASSUME C05_brute_shape_closed". Abort.
Print Assumptions C05_brute_shape_closed.

(* Brute satisfies the contract on its class, whatever tie-break is used at each iteration (in particular the plain
   [brute] and the [advised] solver the correspondence check runs) *)
Theorem C05_brute_contract : forall (prefs : Z -> point -> bool) m, shaped m = true ->
  C05_contract (fun it => solve_pref (prefs it)) m.
Proof. exact brute_contract. Qed.
Goal True. idtac "ASSUME C05_brute_contract". Abort.
Print Assumptions C05_brute_contract.

Theorem C05_brute_enum : forall c (prefs : Z -> point -> bool) gap limit m, consts_wf c = true -> shaped m = true ->
  let slv := fun it => solve_pref (prefs it) in
  solutions c slv gap limit m <> None /\
  forall r, solutions c slv gap limit m = Some r ->
    Forall (fun y => feasible m (asg_of (y_point y)) /\ y_obj y == objective m (asg_of (y_point y)) /\
                     y_active y = active m (asg_of (y_point y))) r /\
    ForallOrdPairs (fun x y => ksubset (y_active x) (y_active y) = false) r /\
    ForallOrdPairs (fun x y => y_obj x <= y_obj y) r /\
    (forall y r', r = y :: r' -> (forall a, feasible m a -> y_obj y <= objective m a) /\
                                 Forall (fun y' => y_obj y' < (1 + gap) * y_obj y + c_solver_precision c) r) /\
    ((limit = None \/ limit = Some 0%Z) ->
     forall a, feasible m a -> (forall a', feasible m a' -> objective m a <= (1 + gap) * objective m a') ->
     exists y, In y r /\ ksubset (y_active y) (active m a) = true /\ y_obj y <= objective m a).
Proof.
  intros c prefs gap limit m Hc Hs slv. split; [exact (brute_enum_terminates c prefs gap limit m Hs)|].
  intros r Hr. split; [exact (brute_enum_sound c prefs gap limit m Hs r Hr)|].
  split; [exact (brute_enum_nosuper c prefs gap limit m Hs r Hr)|].
  split; [exact (brute_enum_monotone c prefs gap limit m Hs r Hr)|]. split.
  - intros y r' E. subst r. split.
    + exact (proj2 (brute_enum_first_optimal c prefs gap limit m Hs y r' Hr)).
    + exact (brute_enum_within_gap c Hc prefs gap limit m y r' Hr).
  - intros Hl. apply (brute_enum_complete c prefs gap limit m Hs); [|exact Hr]. intro it. destruct Hl as [-> | ->]; reflexivity.
Qed.
Goal True. idtac "ASSUME C05_brute_enum". Abort.
Print Assumptions C05_brute_enum.

(* ================================================================= non-vacuity *)
(* three binaries b0 b1 b2, one error term e with  b0 + 2 b1 + 3 b2 + e == 5/2,  1 <= b0+b1+b2 <= 2,
   objective 1/10 b0 + 2 |e|  (through abssum).  Assignments: {b2}:1  {b1}:1  {b0,b1}:11/10  {b0}:31/10  {b0,b2}:31/10  {b1,b2}:5 *)
Definition ex_m : lp :=
  let b i := [1%Z; i] in let e := [2%Z; 0%Z] in
  {| lp_vars := [(b 0%Z, KBin); (b 1%Z, KBin); (b 2%Z, KBin); (e, KCont None None)] ++ abssum_vars [e];
     lp_rows := [ {| r_lin := [(1, b 0%Z); (2, b 1%Z); (3, b 2%Z); (1, e)]; r_rel := REq; r_rhs := 5 # 2 |};
                  {| r_lin := [(1, b 0%Z); (1, b 1%Z); (1, b 2%Z)]; r_rel := RGe; r_rhs := 1 |};
                  {| r_lin := [(1, b 0%Z); (1, b 1%Z); (1, b 2%Z)]; r_rel := RLe; r_rhs := 2 |} ] ++ abssum_rows [e];
     lp_obj := [(1 # 10, b 0%Z)] ++ abssum_lin (fun _ => 2) [e];
     lp_const := 0 |}.

Example C05_ex_shaped : shaped ex_m = true.
Proof. vm_compute. reflexivity. Qed.

(* the contract hypothesis of the C05_enum_* theorems is satisfiable on a model with several feasible points *)
Example C05_ex_contract_satisfiable : exists solve, C05_contract solve ex_m /\
  (forall cuts it, (forall c, In c cuts -> In c (subseqs (binaries ex_m))) -> solve it (with_cuts ex_m cuts) <> NotOptimal).
Proof.
  exists brute. split; [exact (brute_contract (fun _ _ => false) ex_m C05_ex_shaped)|]. intros cuts it _. apply brute_answers.
Qed.

(* gap 1/2: both optima (a tie) are yielded; {b0,b1} (11/10, within the gap) is NOT yielded because it contains {b1}:
   the superset rule of the completeness clause is needed, and the stream is not the set of all in-gap assignments *)
Example C05_ex_enumeration :
  run_enum here (1 # 2) None ex_m =
  OL [OL [OL [OL [OZ 1; OZ 1]; OL [OL [OZ 1; OZ 2]]]; OL [OL [OZ 1; OZ 1]; OL [OL [OZ 1; OZ 1]]]]].
Proof. vm_compute. reflexivity. Qed.

Example C05_ex_limit_1 : run_enum here (1 # 2) (Some 1%Z) ex_m = OL [OL [OL [OL [OZ 1; OZ 1]; OL [OL [OZ 1; OZ 2]]]]].
Proof. vm_compute. reflexivity. Qed.

(* a feasible point exists and the enumeration is non-empty, so first-optimal / within-gap are not vacuous *)
Example C05_ex_feasible : exists a, feasible ex_m a.
Proof.
  destruct (solve ex_m) as [|o p|] eqn:E; try (vm_compute in E; discriminate).
  exists (asg_of p). exact (proj1 (brute_sound _ _ _ _ E)).
Qed.

(* prod: the rows hold at res = 1, t1 = t2 = 1 and fail at res = 1, t1 = 1, t2 = 0 *)
Example C05_ex_prod : let a1 : asg := fun _ => 1 in let a2 : asg := fun k => if vkey_eqb k [3%Z] then 0 else 1 in
  Forall (sat_row a1) (prod_rows [1%Z] [[2%Z]; [3%Z]]) /\ ~ Forall (sat_row a2) (prod_rows [1%Z] [[2%Z]; [3%Z]]).
Proof.
  split.
  - repeat constructor; vm_compute; discriminate.
  - intro H. inversion H as [|? ? _ H1]; subst. inversion H1 as [|? ? H2 _]; subst. vm_compute in H2. apply H2. reflexivity.
Qed.

(* The optimality clause of the contract cannot be dropped.  A solver that only ever answers feasible points with their
   true objective (first a non-optimal one, then Brute's) makes the loop yield 31/10 before 1: not monotone, first not
   optimal.  This is the shape of what harness/c05.py observes of CBC on CYP2D6 copy-number models (tag cbc_suboptimal). *)
Definition ex_p0 : point := [([1%Z; 0%Z], 1); ([1%Z; 1%Z], 0); ([1%Z; 2%Z], 0); ([2%Z; 0%Z], 3 # 2); ([(-1)%Z; 2%Z; 0%Z], 3 # 2)].
Definition ex_sloppy (it : Z) (m' : lp) : sres :=
  if ((it =? 0)%Z && feasibleb m' (asg_of ex_p0))%bool then Optimal (objective m' (asg_of ex_p0)) ex_p0 else solve m'.

Theorem C05_contract_optimality_needed :
  (forall it m' o p, ex_sloppy it m' = Optimal o p -> feasible m' (asg_of p) /\ o == objective m' (asg_of p)) /\
  exists y1 y2 r, solutions here ex_sloppy 3 None ex_m = Some (y1 :: y2 :: r) /\ y_obj y2 < y_obj y1.
Proof.
  split.
  - intros it m' o p H. unfold ex_sloppy in H. destruct ((it =? 0)%Z && feasibleb m' (asg_of ex_p0))%bool eqn:E.
    + injection H as <- <-. apply andb_prop in E. destruct E as [_ E]. split; [apply feasibleb_sound; exact E | reflexivity].
    + exact (brute_sound _ _ _ _ H).
  - destruct (solutions here ex_sloppy 3 None ex_m) as [[|y1 [|y2 r]]|] eqn:E; try (vm_compute in E; discriminate).
    exists y1, y2, r. split; [reflexivity|].
    assert (H : match solutions here ex_sloppy 3 None ex_m with
                | Some (a :: b :: _) => Qltb (y_obj b) (y_obj a) | _ => false end = true) by (vm_compute; reflexivity).
    rewrite E in H. apply Qltb_lt. exact H.
Qed.
Goal True. idtac "ASSUME C05_contract_optimality_needed". Abort.
Print Assumptions C05_contract_optimality_needed.

(* ================================================================= tie to the current source tree
   The decision expressions below are regenerated from /repo's Python AST on every run (harness/gen_exprs.py -> gen/Exprs_lp.v);
   each theorem says that the model's definition IS that expression, for all arguments.  A change of the expression in the code
   breaks the obligation even when no sampled input distinguishes old and new behaviour. *)
Theorem C05_tie_stop_test : forall (c : consts) gap o b,
  Enum.stop (c_solver_precision c) o ((1 + gap) * b) = lp_stop o (lp_ub gap b) (c_solver_precision c) (c_solution_precision c).
Proof. exact lp_loop_stop_tied. Qed.
Goal True. idtac "ASSUME C05_tie_stop_test". Abort.
Print Assumptions C05_tie_stop_test.

Theorem C05_tie_cut : forall vv, r_rhs (cut_row vv) == lp_cut_rhs (inZ (Z.of_nat (length vv))).
Proof. exact lp_cut_tied. Qed.
Goal True. idtac "ASSUME C05_tie_cut". Abort.
Print Assumptions C05_tie_cut.

(* ================================================================= typed read-back (lpinterface.py:317-329, 339-340)
   getValue returns a bool - and solutions() lists the variable among the active names and cuts on it - exactly when OR-tools
   reports the variable integral and its bounds pass the translated test.  With integral bounds and 0 < precision <= 1 the test
   holds iff the bounds ARE 0 and 1; so on every model whose general integer variables have integral bounds other than [0, 1]
   the variables read as binaries are Lp.binaries and the names collected at a point are Lp.active (what every C05_enum_*
   theorem speaks about). *)
Theorem C05_tie_reads_binary : forall prec lb ub, reads_binary prec lb ub = lp_reads_binary lb ub prec.
Proof. exact lp_reads_binary_tied. Qed.
Goal True. idtac "ASSUME C05_tie_reads_binary". Abort.
Print Assumptions C05_tie_reads_binary.

Theorem C05_reads_binary_exact : forall prec lb ub (zl zu : Z),
  0 < prec -> prec <= 1 -> lb == inject_Z zl -> ub == inject_Z zu ->
  (reads_binary prec lb ub = true <-> zl = 0%Z /\ zu = 1%Z).
Proof. exact reads_binary_exact. Qed.
Goal True. idtac "ASSUME C05_reads_binary_exact". Abort.
Print Assumptions C05_reads_binary_exact.

Theorem C05_read_active_is_active : forall prec m a, 0 < prec -> prec <= 1 -> int_kinds_proper m ->
  read_binaries prec m = binaries m /\ read_active prec m a = active m a.
Proof. intros prec m a P0 P1 H. split; [exact (read_binaries_are_binaries prec m P0 P1 H) | exact (read_active_is_active prec m a P0 P1 H)]. Qed.
Goal True. idtac "ASSUME C05_read_active_is_active". Abort.
Print Assumptions C05_read_active_is_active.

Theorem C05_here_precision_ok : 0 < c_solution_precision here /\ c_solution_precision here <= 1.
Proof. exact here_precision_ok. Qed.
Goal True. idtac "ASSUME C05_here_precision_ok". Abort.
Print Assumptions C05_here_precision_ok.
