(* C16 — VCF genotypes are turned into matching evidence for every variant kind.
   Only statements here (and witnesses computed by vm_compute); proofs are in proofs/VcfInProofs.v and proofs/VcfMnpProofs.v; the model is theories/VcfIn.v.
   [fixed_coverage] / [fixed_total] = Coverage.coverage / Coverage.total as the property states them (variant Fixed), given by the
   allele uses of the diploid records; [shipped_table skipnone] = sam.py _load_vcf + _make_coverage + Coverage.__init__ step by
   step (variant AsShipped; skipnone = the one-line repair `if op is None or op == "_": continue` is in place).
   alt_n = pseudo-reads per alternate copy, ref_n = reference pseudo-reads (c_vcf_reads), vcf_consts_ok : ref_n = 2 * alt_n > 0.
   "Reference support" of an insertion is total(m) - coverage(m): aldy does not count insertions in the depth of a position. *)
From Coq Require Import String.
From Aldy Require Import Base Consts Pileup PileupProofs VcfIn VcfInProofs VcfMnpProofs Consts_here Consts_wf.
Import List.
Open Scope Z_scope.

Theorem C16_consts_here_wf : consts_wf here = true /\ vcf_consts_ok here = true.
Proof. split; [exact here_wf | vm_compute; reflexivity]. Qed.
Goal True. idtac "ASSUME C16_consts_here_wf". Abort.
Print Assumptions C16_consts_here_wf.

(* ---- support per kind (variant Fixed): a standard left-anchored record with genotype a1/a2 (allele indexes 0/1), nothing else
        at the site: support = alt_n * (alternate copies), reference support reduced by the same amount ---- *)
Theorem C16_vcf_support_sub : forall g c pre post p b a1 a2, vcf_consts_ok c = true ->
  (a1 = 0 \/ a1 = 1) -> (a2 = 0 \/ a2 = 1) -> base g p <> 78 -> b <> base g p ->
  plain g (p, sub_op (base g p) b) -> in_range g p = true -> later_comp_at g p = None -> n_at (uses g (pre ++ post)) p = 0 ->
  let rs := pre ++ rec_sub g p b (gt2 a1 a2) :: post in
  fixed_coverage g c rs (p, sub_op (base g p) b) = alt_n c * (a1 + a2) /\
  fixed_coverage g c rs (p, ref_op) = ref_n c - alt_n c * (a1 + a2).
Proof. exact vcf_support_sub. Qed.
Goal True. idtac "ASSUME C16_vcf_support_sub". Abort.
Print Assumptions C16_vcf_support_sub.

Theorem C16_vcf_support_del : forall g c pre post p n a1 a2, vcf_consts_ok c = true ->
  (a1 = 0 \/ a1 = 1) -> (a2 = 0 \/ a2 = 1) -> base g (p - 1) <> 78 ->
  plain g (p, del_op (gslice g p (S n))) -> in_range g p = true -> later_comp_at g p = None -> n_at (uses g (pre ++ post)) p = 0 ->
  let rs := pre ++ rec_del g p (S n) (gt2 a1 a2) :: post in
  fixed_coverage g c rs (p, del_op (gslice g p (S n))) = alt_n c * (a1 + a2) /\
  fixed_coverage g c rs (p, ref_op) = ref_n c - alt_n c * (a1 + a2).
Proof. exact vcf_support_del. Qed.
Goal True. idtac "ASSUME C16_vcf_support_del". Abort.
Print Assumptions C16_vcf_support_del.

(* insertion: the support goes to the catalogue's key (X inserted AFTER base p) *)
Theorem C16_vcf_support_ins : forall g c pre post p y x a1 a2,
  (a1 = 0 \/ a1 = 1) -> (a2 = 0 \/ a2 = 1) -> base g p <> 78 -> in_range g p = true ->
  n_ins (uses g (pre ++ post)) (p, ins_op (y :: x)) = 0 ->
  let rs := pre ++ rec_ins g p (y :: x) (gt2 a1 a2) :: post in
  fixed_coverage g c rs (p, ins_op (y :: x)) = alt_n c * (a1 + a2) /\
  fixed_total g c rs (p, ins_op (y :: x)) - fixed_coverage g c rs (p, ins_op (y :: x)) = ref_n c - alt_n c * (a1 + a2).
Proof. exact vcf_support_ins. Qed.
Goal True. idtac "ASSUME C16_vcf_support_ins". Abort.
Print Assumptions C16_vcf_support_ins.

(* multi-substitution, however it is written: from the allele uses ... *)
Theorem C16_vcf_support_mnp : forall g c rs m n, multi_key_ok g m ->
  (forall ck, In ck (comps m) -> n_sub (uses g rs) (snd ck) = n) ->
  fixed_coverage g c rs (multi_key m) = alt_n c * n /\
  (forall ck, In ck (comps m) -> is_ins (snd (snd ck)) = false -> str_eqb (snd (snd ck)) ref_op = false ->
     find (fun m' => key_eqb (multi_key m') (snd ck)) (g_all_multi g) = None ->
     (exists i, comp_of g (snd ck) = Some (i, m)) -> fixed_coverage g c rs (snd ck) = 0) /\
  (forall p, in_range g p = true -> later_comp_at g p = Some m ->
     fixed_coverage g c rs (p, ref_op) = Z.max 0 (ref_n c - alt_n c * n_at (uses g rs) p) + alt_n c * n).
Proof. exact vcf_support_mnp. Qed.
Goal True. idtac "ASSUME C16_vcf_support_mnp". Abort.
Print Assumptions C16_vcf_support_mnp.

(* ... from the FILE, written as one record (POS = first position, REF = the replaced bases, ALT = the new bases; the gaps of a
   gapped multi-substitution like A.C>T.T filled with the gene's own bases), for every gene view and every catalogued
   multi-substitution meeting the decidable condition mnp_record_ok (equal lengths >= 2, ALT read against the gene differs
   from it exactly at m's components, first base not N); C16_vcf_support_mnp_any_record: the same for ANY REF/ALT strings
   with that property ... *)
Theorem C16_vcf_support_mnp_one_record : forall g m, mnp_record_ok g m = true -> forall c pre post a1 a2, multi_key_ok g m ->
  (a1 = 0 \/ a1 = 1) -> (a2 = 0 \/ a2 = 1) ->
  (forall ck, In ck (comps m) -> n_sub (uses g (pre ++ post)) (snd ck) = 0) ->
  let rs := pre ++ rec_mnp g m (gt2 a1 a2) :: post in
  fixed_coverage g c rs (multi_key m) = alt_n c * (a1 + a2) /\
  (forall ck, In ck (comps m) -> is_ins (snd (snd ck)) = false -> str_eqb (snd (snd ck)) ref_op = false ->
     find (fun m' => key_eqb (multi_key m') (snd ck)) (g_all_multi g) = None ->
     (exists i, comp_of g (snd ck) = Some (i, m)) -> fixed_coverage g c rs (snd ck) = 0) /\
  (forall p, in_range g p = true -> later_comp_at g p = Some m ->
     fixed_coverage g c rs (p, ref_op) = Z.max 0 (ref_n c - alt_n c * n_at (uses g rs) p) + alt_n c * (a1 + a2)).
Proof. exact vcf_support_mnp_one_record. Qed.
Goal True. idtac "ASSUME C16_vcf_support_mnp_one_record". Abort.
Print Assumptions C16_vcf_support_mnp_one_record.

(* ... and written as ADJACENT single-base records, one per component (adj_ok: each component is a substitution of the gene's
   own non-N base) *)
Theorem C16_vcf_support_mnp_adjacent : forall g c m pre post a1 a2, multi_key_ok g m -> adj_ok g m = true ->
  (a1 = 0 \/ a1 = 1) -> (a2 = 0 \/ a2 = 1) ->
  (forall ck, In ck (comps m) -> n_sub (uses g (pre ++ post)) (snd ck) = 0) ->
  let rs := pre ++ adj_records g m (gt2 a1 a2) ++ post in
  fixed_coverage g c rs (multi_key m) = alt_n c * (a1 + a2) /\
  (forall ck, In ck (comps m) -> is_ins (snd (snd ck)) = false -> str_eqb (snd (snd ck)) ref_op = false ->
     find (fun m' => key_eqb (multi_key m') (snd ck)) (g_all_multi g) = None ->
     (exists i, comp_of g (snd ck) = Some (i, m)) -> fixed_coverage g c rs (snd ck) = 0) /\
  (forall p, in_range g p = true -> later_comp_at g p = Some m ->
     fixed_coverage g c rs (p, ref_op) = Z.max 0 (ref_n c - alt_n c * n_at (uses g rs) p) + alt_n c * (a1 + a2)).
Proof. exact vcf_support_mnp_adjacent. Qed.
Goal True. idtac "ASSUME C16_vcf_support_mnp_adjacent". Abort.
Print Assumptions C16_vcf_support_mnp_adjacent.

Theorem C16_mnp_writings_agree : forall g c m pre post a1 a2, multi_key_ok g m -> mnp_record_ok g m = true -> adj_ok g m = true ->
  (a1 = 0 \/ a1 = 1) -> (a2 = 0 \/ a2 = 1) ->
  (forall ck, In ck (comps m) -> n_sub (uses g (pre ++ post)) (snd ck) = 0) ->
  fixed_coverage g c (pre ++ rec_mnp g m (gt2 a1 a2) :: post) (multi_key m)
  = fixed_coverage g c (pre ++ adj_records g m (gt2 a1 a2) ++ post) (multi_key m).
Proof. exact mnp_writings_agree. Qed.
Goal True. idtac "ASSUME C16_mnp_writings_agree". Abort.
Print Assumptions C16_mnp_writings_agree.

Theorem C16_vcf_support_mnp_any_record : forall g m p ref alt, mnp_record_ok_at g m p ref alt = true ->
  forall c pre post a1 a2, multi_key_ok g m -> (a1 = 0 \/ a1 = 1) -> (a2 = 0 \/ a2 = 1) ->
  (forall ck, In ck (comps m) -> n_sub (uses g (pre ++ post)) (snd ck) = 0) ->
  let rs := pre ++ rec_mnp_at p ref alt (gt2 a1 a2) :: post in
  fixed_coverage g c rs (multi_key m) = alt_n c * (a1 + a2) /\
  (forall ck, In ck (comps m) -> is_ins (snd (snd ck)) = false -> str_eqb (snd (snd ck)) ref_op = false ->
     find (fun m' => key_eqb (multi_key m') (snd ck)) (g_all_multi g) = None ->
     (exists i, comp_of g (snd ck) = Some (i, m)) -> fixed_coverage g c rs (snd ck) = 0) /\
  (forall q, in_range g q = true -> later_comp_at g q = Some m ->
     fixed_coverage g c rs (q, ref_op) = Z.max 0 (ref_n c - alt_n c * n_at (uses g rs) q) + alt_n c * (a1 + a2)).
Proof. exact vcf_support_mnp_one_record_at. Qed.
Goal True. idtac "ASSUME C16_vcf_support_mnp_any_record". Abort.
Print Assumptions C16_vcf_support_mnp_any_record.

Example C16_mnp_side_conditions_met : mnp_record_ok ex_v (1004, (s "AC", s "GT")) = true /\ adj_ok ex_v (1004, (s "AC", s "GT")) = true.
Proof. exact mnp_side_conditions_met. Qed.
Example C16_mnp_gapped_side_conditions_met :
  rec_mnp ex_vg (1008, (s "A.G", s "C.T")) (gt2 0 1) = mk_vrec 1009 (s "ACG") [s "CCT"] (gt2 0 1) /\
  mnp_record_ok ex_vg (1008, (s "A.G", s "C.T")) = true /\ adj_ok ex_vg (1008, (s "A.G", s "C.T")) = true.
Proof. exact mnp_gapped_side_conditions_met. Qed.

(* any number of records: a plain key gets alt_n per use, the reference cell loses alt_n per use at its position *)
Theorem C16_fixed_plain_support : forall g c rs k, plain g k -> fixed_coverage g c rs k = alt_n c * n_sub (uses g rs) k.
Proof. exact fixed_plain_support. Qed.
Goal True. idtac "ASSUME C16_fixed_plain_support". Abort.
Print Assumptions C16_fixed_plain_support.

Theorem C16_fixed_reference : forall g c rs p, in_range g p = true -> later_comp_at g p = None ->
  fixed_coverage g c rs (p, ref_op) = Z.max 0 (ref_n c - alt_n c * n_at (uses g rs) p).
Proof. exact fixed_reference. Qed.
Goal True. idtac "ASSUME C16_fixed_reference". Abort.
Print Assumptions C16_fixed_reference.

(* ---- sites without a record count as homozygous reference ---- *)
Theorem C16_vcf_absent_is_ref : forall g c rs p, in_range g p = true -> later_comp_at g p = None -> n_at (uses g rs) p = 0 ->
  fixed_coverage g c rs (p, ref_op) = Z.max 0 (ref_n c) /\
  (forall op, plain g (p, op) -> fixed_coverage g c rs (p, op) = 0) /\
  (forall x, n_ins (uses g rs) (p, ins_op x) = 0 -> fixed_coverage g c rs (p, ins_op x) = 0).
Proof. exact vcf_absent_is_ref. Qed.
Goal True. idtac "ASSUME C16_vcf_absent_is_ref". Abort.
Print Assumptions C16_vcf_absent_is_ref.

(* ---- a REF that is not the gene's base is re-expressed against the gene ---- *)
Theorem C16_vcf_ref_mismatch : forall g c pre post p x b, vcf_consts_ok c = true -> base g p <> 78 -> x <> base g p ->
  plain g (p, sub_op (base g p) x) -> in_range g p = true -> later_comp_at g p = None -> n_at (uses g (pre ++ post)) p = 0 ->
  let rs := pre ++ rec_any p x b (gt2 0 0) :: post in
  fixed_coverage g c rs (p, sub_op (base g p) x) = alt_n c * 2 /\ fixed_coverage g c rs (p, ref_op) = ref_n c - alt_n c * 2.
Proof. exact vcf_ref_mismatch. Qed.
Goal True. idtac "ASSUME C16_vcf_ref_mismatch". Abort.
Print Assumptions C16_vcf_ref_mismatch.

(* ---- ignored records: no use, no change of any coverage() / total() value ---- *)
Theorem C16_vcf_ignored_shapes : forall g c pre r post, record_uses g r = [] -> same_evidence g c (pre ++ r :: post) (pre ++ post).
Proof. exact vcf_ignored_shapes. Qed.
Goal True. idtac "ASSUME C16_vcf_ignored_shapes". Abort.
Print Assumptions C16_vcf_ignored_shapes.

(* which records have no use: non-diploid or missing genotypes, records on an N position, alleles of another shape,
   multi-base replacements that are neither a left-padded substitution nor a catalogued multi-substitution *)
Theorem C16_ignored_kinds : forall g r,
  (diploid r = None -> record_uses g r = []) /\ (base g (v_pos r - 1) = 78 -> record_uses g r = []) /\
  (forall pos ref alt, other_shape ref alt = true -> alt_uses g pos ref alt = []) /\
  (forall pos ref alt, length ref = length alt -> (2 <= length alt)%nat -> padded_sub ref alt = false ->
     mnp_catalogued g (subs_of g pos alt) = false -> alt_uses g pos ref alt = []).
Proof. exact ignored_kinds. Qed.
Goal True. idtac "ASSUME C16_ignored_kinds". Abort.
Print Assumptions C16_ignored_kinds.

(* with the one-line repair in place the shipped reader ignores every allele get_mut cannot express *)
Theorem C16_repaired_ignores_none : forall g c st r a b, diploid r = Some (a, b) ->
  ignorable (snd (nth (Z.to_nat a) (hgvs g r) (v_pos r - 1, None))) = true ->
  ignorable (snd (nth (Z.to_nat b) (hgvs g r) (v_pos r - 1, None))) = true ->
  shipped_record true g c st r = st.
Proof. exact repaired_ignores_none. Qed.
Goal True. idtac "ASSUME C16_repaired_ignores_none". Abort.
Print Assumptions C16_repaired_ignores_none.

(* ---- what the shipped reader does instead (variant AsShipped), on the gene view ex_v of proofs/VcfInProofs.v ---- *)

(* insertion G>GTT (het) for the catalogued (1010, insTT): the shipped reader gives the variant nothing and takes the
   reference support away one base further; the property wants 10 and an untouched neighbour *)
Theorem C16_insertion_refuted :
  shipped_cov false ex_v here [ex_ins_het] (1010, s "insTT") = Some 0 /\
  shipped_cov false ex_v here [ex_ins_het] (1011, s "_") = Some 10 /\
  fixed_coverage ex_v here [ex_ins_het] (1010, s "insTT") = 10 /\
  fixed_total ex_v here [ex_ins_het] (1010, s "insTT") = 20 /\
  fixed_coverage ex_v here [ex_ins_het] (1011, s "_") = 20.
Proof. vm_compute. repeat split. Qed.
Goal True. idtac "ASSUME C16_insertion_refuted". Abort.
Print Assumptions C16_insertion_refuted.

(* the catalogued AC>GT written as ONE record (het): the shipped reader dies; with the one-line repair it is ignored; the
   property wants 10 under AC>GT *)
Theorem C16_one_record_mnp_refuted :
  shipped_table false ex_v here [ex_mnp_one] = VCrash /\
  shipped_cov true ex_v here [ex_mnp_one] (1004, s "AC>GT") = Some 0 /\
  fixed_coverage ex_v here [ex_mnp_one] (1004, s "AC>GT") = 10 /\
  fixed_coverage ex_v here [ex_mnp_one] (1004, s "_") = 10 /\ fixed_coverage ex_v here [ex_mnp_one] (1005, s "_") = 20 /\
  fixed_coverage ex_v here [ex_mnp_one] (1004, s "A>G") = 0.
Proof. vm_compute. repeat split. Qed.
Goal True. idtac "ASSUME C16_one_record_mnp_refuted". Abort.
Print Assumptions C16_one_record_mnp_refuted.

(* the same variant written as ADJACENT records: never merged by the shipped reader *)
Theorem C16_adjacent_mnp_refuted :
  shipped_cov false ex_v here ex_mnp_adj (1004, s "AC>GT") = Some 0 /\
  shipped_cov false ex_v here ex_mnp_adj (1004, s "A>G") = Some 10 /\
  shipped_cov true ex_v here ex_mnp_adj (1004, s "AC>GT") = Some 0 /\
  fixed_coverage ex_v here ex_mnp_adj (1004, s "AC>GT") = 10 /\ fixed_coverage ex_v here ex_mnp_adj (1004, s "A>G") = 0 /\
  fixed_coverage ex_v here ex_mnp_adj (1005, s "C>T") = 0 /\ fixed_coverage ex_v here ex_mnp_adj (1005, s "_") = 20.
Proof. vm_compute. repeat split. Qed.
Goal True. idtac "ASSUME C16_adjacent_mnp_refuted". Abort.
Print Assumptions C16_adjacent_mnp_refuted.

(* where the shipped reader does what the property states: a heterozygous substitution *)
Theorem C16_shipped_sub_agrees :
  shipped_cov false ex_v here [ex_sub_het] (1002, s "G>A") = Some 10 /\ shipped_cov false ex_v here [ex_sub_het] (1002, s "_") = Some 10 /\
  fixed_coverage ex_v here [ex_sub_het] (1002, s "G>A") = 10 /\ fixed_coverage ex_v here [ex_sub_het] (1002, s "_") = 10.
Proof. vm_compute. repeat split. Qed.
Goal True. idtac "ASSUME C16_shipped_sub_agrees". Abort.
Print Assumptions C16_shipped_sub_agrees.

(* the hypotheses of the support theorems are satisfiable *)
Theorem C16_support_hypotheses_met :
  vcf_consts_ok here = true /\ plain ex_v (1002, sub_op (base ex_v 1002) 65) /\ in_range ex_v 1002 = true /\
  later_comp_at ex_v 1002 = None /\ multi_key_ok ex_v (1004, (s "AC", s "GT")) /\
  (forall ck, In ck (comps (1004, (s "AC", s "GT"))) -> n_sub (uses ex_v ex_mnp_adj) (snd ck) = 1) /\
  later_comp_at ex_v 1005 = Some (1004, (s "AC", s "GT")).
Proof.
  split; [vm_compute; reflexivity|]. split; [repeat split; vm_compute; reflexivity|]. split; [vm_compute; reflexivity|].
  split; [vm_compute; reflexivity|]. split; [repeat split; try (vm_compute; reflexivity); vm_compute; discriminate|].
  split; [|vm_compute; reflexivity]. intros ck H. vm_compute in H. destruct H as [<-|[<-|[]]]; vm_compute; reflexivity.
Qed.
Goal True. idtac "ASSUME C16_support_hypotheses_met". Abort.
Print Assumptions C16_support_hypotheses_met.

