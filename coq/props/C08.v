(* C08 — a catalogued variant denotes the same haplotype in every coordinate system.
   Only statements here; proofs are in proofs/CoordProofs.v.  The model is theories/Coord.v.
   Sequences are arbitrary code-point lists, alignments arbitrary lists of M/I/D blocks, both strands; nothing is bounded.
   The complement table is a parameter: every table with [tab_wf] (complementing twice is the identity, letters go to
   letters); the harness passes aldy.common.REV_COMPLEMENT of the running tree and evaluates [tab_wf] on it. *)
From Coq Require Import String.
From Aldy Require Import Base Consts Coord CoordProofs RefPatchProofs.
Import List.
Open Scope Z_scope.

Theorem C08_std_tab_wf : tab_wf std_tab = true.
Proof. exact std_tab_wf. Qed.
Goal True. idtac "ASSUME C08_std_tab_wf". Abort.
Print Assumptions C08_std_tab_wf.

(* the genome/RefSeq position maps are mutually inverse, for every alignment with non-negative block sizes *)
Theorem C08_maps_inverse : forall al p q, cigar_ok (a_cigar al) = true ->
  (chr_to_ref al p = Some q <-> ref_to_chr al q = Some p).
Proof. exact maps_inverse. Qed.
Goal True. idtac "ASSUME C08_maps_inverse". Abort.
Print Assumptions C08_maps_inverse.

(* the genome-oriented lookup sequence on a window of an aligned block is the oriented RefSeq window *)
Theorem C08_lookup_window : forall t al seq a m, tab_wf t = true -> align_ok al = true -> window_ok al a m = true ->
  exists c, gwin al a m = Some c /\
            lookup_slice t al seq c (c + m) = orient t (a_plus al) (slice seq a (a + m)) /\
            (forall q, a <= q < a + m -> ref_to_chr al q = Some (if a_plus al then c + (q - a) else c + (a + m - 1 - q))).
Proof. exact lookup_window. Qed.
Goal True. idtac "ASSUME C08_lookup_window". Abort.
Print Assumptions C08_lookup_window.

(* THE statement: applying the variant as loaded (genome position, genome-strand alleles) to the genome-oriented reference
   and orienting gives exactly the sequence obtained by applying it as written to RefSeq — substitutions, MNPs (with '.'),
   insertions, deletions, deletion-insertions, either strand, any alignment, any window [a, a+m) of one aligned block
   that contains the variant's span. *)
Theorem C08_variant_equiv : forall t al seq p v a m,
  tab_wf t = true -> align_ok al = true -> variant_ok al seq p v a m = true ->
  hap_genome t al seq p v a m = Some (hap_refseq seq p v a m).
Proof. exact variant_equiv. Qed.
Goal True. idtac "ASSUME C08_variant_equiv". Abort.
Print Assumptions C08_variant_equiv.

(* two different written variants are never loaded under one key (structured operations) ... *)
Theorem C08_convert_v_injective : forall t al p1 v1 p2 v2 g w, tab_wf t = true -> cigar_ok (a_cigar al) = true ->
  convert_v t al p1 v1 = Some (g, w) -> convert_v t al p2 v2 = Some (g, w) -> p1 = p2 /\ v1 = v2.
Proof. exact convert_v_injective. Qed.
Goal True. idtac "ASSUME C08_convert_v_injective". Abort.
Print Assumptions C08_convert_v_injective.

(* ... and at the level of aldy's operation strings, for alleles over {A..Z, '.'} *)
Theorem C08_convert_injective : forall t al p1 o1 p2 o2 g o, tab_wf t = true -> cigar_ok (a_cigar al) = true ->
  (a_plus al = false -> op_ok o1 = true /\ op_ok o2 = true) ->
  convert t al p1 o1 = CLoaded g o -> convert t al p2 o2 = CLoaded g o -> p1 = p2 /\ o1 = o2.
Proof. exact convert_injective. Qed.
Goal True. idtac "ASSUME C08_convert_injective". Abort.
Print Assumptions C08_convert_injective.

Theorem C08_print_parse : forall op v, parse_op op = Some v -> print_op v = op.
Proof. exact print_parse. Qed.
Goal True. idtac "ASSUME C08_print_parse". Abort.
Print Assumptions C08_print_parse.

(* get_refseq of a loaded variant returns the notation it was written in (setdefault never merges two notations) *)
Theorem C08_notation_roundtrip : forall t al ws w g o, tab_wf t = true -> cigar_ok (a_cigar al) = true ->
  (a_plus al = false -> forall w', In w' ws -> op_ok (snd w') = true) ->
  In w ws -> convert t al (fst w) (snd w) = CLoaded g o ->
  get_refseq (load_muts t al ws) (g, o) = Some (fst w, snd w).
Proof. exact notation_roundtrip. Qed.
Goal True. idtac "ASSUME C08_notation_roundtrip". Abort.
Print Assumptions C08_notation_roundtrip.

Theorem C08_reverse_op_roundtrip : forall t al p v g v', tab_wf t = true -> a_plus al = false ->
  convert_v t al p v = Some (g, v') -> rc_op t v' = v.
Proof. exact reverse_op_roundtrip. Qed.
Goal True. idtac "ASSUME C08_reverse_op_roundtrip". Abort.
Print Assumptions C08_reverse_op_roundtrip.

(* an insertion is located between the same two reference bases wherever it is consumed:
   (1) in genome terms: the database reading (after its base), the Variant(pos, ref, alt) handed to realignment,
       the key expected from a CIGAR insertion and what such a CIGAR insertion denotes *)
Theorem C08_insertion_same_gap_genome : forall lk g x w, x <> [] -> fst w <= g < fst w + zlen (snd w) -> lk g = sget w g ->
  let rv := (g + 1, [lk g], lk g :: x) in
  realign_variant lk g (Ins x) = Some rv /\
  apply_vcf rv w = apply_genome g (Ins x) w /\
  eq_key rv = Some (cigar_ins_key (g + 1) x) /\
  apply_cigar_ins (g + 1) x w = apply_genome g (Ins x) w /\
  gap_vcf rv = gap_db g /\ gap_cigar (g + 1) = gap_db g.
Proof. exact insertion_same_gap_genome. Qed.
Goal True. idtac "ASSUME C08_insertion_same_gap_genome". Abort.
Print Assumptions C08_insertion_same_gap_genome.

(* (2) in RefSeq terms: that genome gap is the pair of RefSeq bases flanking the insertion as written, on either strand *)
Theorem C08_insertion_same_gap : forall t al seq p x a m g v', tab_wf t = true -> align_ok al = true ->
  variant_ok al seq p (Ins x) a m = true -> convert_v t al p (Ins x) = Some (g, v') ->
  v' = Ins (if a_plus al then x else rev_comp t x) /\
  chr_to_ref al (fst (gap_db g)) = Some (if a_plus al then p - 1 else p) /\
  chr_to_ref al (snd (gap_db g)) = Some (if a_plus al then p else p - 1).
Proof. exact insertion_same_gap. Qed.
Goal True. idtac "ASSUME C08_insertion_same_gap". Abort.
Print Assumptions C08_insertion_same_gap.

Theorem C08_deletion_same_anchor : forall lk g d w, d <> [] -> fst w < g -> g + zlen d <= fst w + zlen (snd w) ->
  lk (g - 1) = sget w (g - 1) ->
  let rv := (g - 1 + 1, lk (g - 1) :: d, [lk (g - 1)]) in
  realign_variant lk g (Del d) = Some rv /\
  apply_vcf rv w = apply_genome g (Del d) w /\
  eq_key rv = Some (g, Del d) /\
  apply_cigar_del g (length d) w = apply_genome g (Del d) w.
Proof. exact deletion_same_anchor. Qed.
Goal True. idtac "ASSUME C08_deletion_same_anchor". Abort.
Print Assumptions C08_deletion_same_anchor.

(* ---- the hypotheses are satisfiable: a reverse-strand gene whose alignment has an insertion and a deletion ---- *)
Definition ex_seq : iseq := (0, s "ACGTTGCAAGGCTTACGATCGGATCCATGCAAGT").
Definition ex_al : align := {| a_plus := false; a_len := 34; a_start := 1001; a_end := 1036;
                               a_cigar := [(CM, 10); (CI, 2); (CM, 12); (CD, 3); (CM, 10)] |}.
Example C08_ex_align_ok : align_ok ex_al = true.
Proof. vm_compute. reflexivity. Qed.
(* a deletion, an MNP with a '.', an insertion and a deletion-insertion inside the middle block (RefSeq 10..21) *)
Example C08_ex_variant_ok :
  variant_ok ex_al ex_seq 14 (Del (s "TA")) 10 12 = true /\
  variant_ok ex_al ex_seq 13 (Sub (s "T.A") (s "G.C")) 10 12 = true /\
  variant_ok ex_al ex_seq 15 (Ins (s "GG")) 10 12 = true /\
  variant_ok ex_al ex_seq 17 (DelIns (s "GA") (s "T")) 10 12 = true.
Proof. vm_compute. auto. Qed.
Example C08_ex_haplotypes :
  hap_genome std_tab ex_al ex_seq 14 (Del (s "TA")) 10 12 = Some (s "GCTCGATCGG") /\
  hap_genome std_tab ex_al ex_seq 15 (Ins (s "GG")) 10 12 = Some (s "GCTTAGGCGATCGG") /\
  convert std_tab ex_al 15 (s "insGG") = CLoaded 1016 (s "insCC").
Proof. vm_compute. auto. Qed.
(* the side condition is not vacuous the other way either: a deletion that runs over the end of its aligned block is rejected *)
Example C08_ex_not_ok : variant_ok ex_al ex_seq 21 (Del (s "GGA")) 10 12 = false.
Proof. vm_compute. reflexivity. Qed.

(* ================================================================= the reference sequence itself (gene.py, `reference: patches`)
   The haplotypes above are read off Gene.seq, which is the written sequence with the database's patches applied.  For every
   sequence and every patch list with positions in 1..len: the length is kept, the base at every site is that of the LAST patch
   naming the site and the written base where none does; every patch of a list with distinct positions takes effect.
   (A position outside 1..len makes Python raise IndexError or, for pos <= 0, wrap around: apply_patches answers None.) *)
Theorem C08_reference_patches_spec : forall s ps s', apply_patches s ps = Some s' ->
  length s' = length s /\
  forall i d, (i < length s)%nat -> nth i s' d = patched_base (nth i s d) (Z.of_nat i) ps.
Proof. exact apply_patches_spec. Qed.
Goal True. idtac "ASSUME C08_reference_patches_spec". Abort.
Print Assumptions C08_reference_patches_spec.

Theorem C08_every_patch_applies : forall s ps s' p d, apply_patches s ps = Some s' -> NoDup (map fst ps) -> In p ps ->
  nth (Z.to_nat (fst p - 1)) s' d = snd p.
Proof. exact every_patch_applies. Qed.
Goal True. idtac "ASSUME C08_every_patch_applies". Abort.
Print Assumptions C08_every_patch_applies.

Theorem C08_unpatched_sites_keep : forall s ps s' i d, apply_patches s ps = Some s' -> (i < length s)%nat ->
  (forall p, In p ps -> fst p - 1 <> Z.of_nat i) -> nth i s' d = nth i s d.
Proof. exact unpatched_sites_keep. Qed.
Goal True. idtac "ASSUME C08_unpatched_sites_keep". Abort.
Print Assumptions C08_unpatched_sites_keep.

Example C08_ex_patches : apply_patches [65;65;65;65;65;65] [(2, 84); (5, 67)] = Some [65;84;65;65;67;65].
Proof. exact patches_example. Qed.
