(* C10 — Reported solutions are the best candidates and are internally consistent.
   Statements only; proofs are in proofs/SelectProofs.v.  The model is theories/Select.v (genotype.py:237-335, minor.py:89-110).
   The chain clauses (structure copies = allele configurations, minors refine majors, diplotype lists each allele once) are
   statements about the three stage models and the diplotype model (C02, C03, C04, C11); here they are evaluated on the
   implementation's reported solutions by harness/c10.py, and the provenance part (every reported candidate descends from a passed
   major candidate of a recorded structure) is proved as part of C10_select_carry. *)
From Coq Require Import Permutation Sorted.
From Aldy Require Import Base Consts Select SelectProofs Consts_here Consts_wf Exprs_sel Tied_sel.
Import List.
Open Scope Z_scope.

(* the literals of the current tree: SOLUTION_PRECISION > 0, SLACK > 0, three sort keys int(scale*score) with 1/scale < precision *)
Theorem C10_here_wf : select_wf here = true.
Proof. exact here_select_wf. Qed.
Goal True. idtac "ASSUME C10_here_wf". Abort.
Print Assumptions C10_here_wf.

(* a stage's selection = exactly the candidates with score - min - gap < precision, each once (permutation of the filtered
   list), ordered by (int(scale*score), name); min is the true minimum and is attained *)
Theorem C10_select_exact : forall (A : Type) (name : A -> str) (score : A -> Q) prec gap scale l out,
  select name score prec gap scale l = Some out ->
  l <> [] /\
  Permutation out (filter (within score prec gap (min_score score l)) l) /\
  StronglySorted (fun a b => key_leb (key_of name score scale a) (key_of name score scale b) = true) out /\
  (forall a, In a out <-> In a l /\ (score a - min_score score l - gap < prec)%Q) /\
  (forall a, In a l -> (min_score score l <= score a)%Q) /\
  (exists a, In a l /\ min_score score l = score a).
Proof. exact select_exact. Qed.
Goal True. idtac "ASSUME C10_select_exact". Abort.
Print Assumptions C10_select_exact.

(* the reported list IS such a selection over all combined minor candidates of the passed majors, and the passed majors are
   such a selection over all carried major candidates *)
Theorem C10_reported_is_selection : forall c gap cns out, genotype_select c gap cns = Ok out ->
  exists passed,
    select jc_name jc_score (c_solution_precision c) gap (scale_at c 1)
           (major_candidates (min_score cn_score cns) (sorted_structures c cns)) = Some passed /\
    select nc_name nc_score (c_solution_precision c) gap (scale_at c 2)
           (minor_candidates c (min_score cn_score cns) (min_score jc_score passed) passed) = Some out.
Proof. exact genotype_select_ok. Qed.
Goal True. idtac "ASSUME C10_reported_is_selection". Abort.
Print Assumptions C10_reported_is_selection.

(* best first: for non-negative scores, an earlier element is smaller up to the sort resolution 1/scale, hence up to
   SOLUTION_PRECISION whenever 1 < scale * precision *)
Theorem C10_select_best_first : forall (A : Type) (name : A -> str) (score : A -> Q) prec gap scale l out,
  select name score prec gap scale l = Some out -> 0 < scale -> (forall a, In a l -> (0 <= score a)%Q) ->
  forall pre a mid b post, out = pre ++ a :: mid ++ b :: post ->
    (inZ scale * score a < inZ scale * score b + 1)%Q /\
    (Qltb 1 (inZ scale * prec) = true -> (score a < score b + prec)%Q).
Proof. exact select_best_first. Qed.
Goal True. idtac "ASSUME C10_select_best_first". Abort.
Print Assumptions C10_select_best_first.

Theorem C10_reported_best_first : forall c gap cns out, select_wf c = true -> genotype_select c gap cns = Ok out ->
  scores_nonneg cns ->
  forall pre a mid b post, out = pre ++ a :: mid ++ b :: post ->
    (nc_score a < nc_score b + c_solution_precision c)%Q.
Proof. exact reported_best_first. Qed.
Goal True. idtac "ASSUME C10_reported_best_first". Abort.
Print Assumptions C10_reported_best_first.

Theorem C10_reported_contains_best : forall c gap cns out, consts_wf c = true -> (0 <= gap)%Q -> genotype_select c gap cns = Ok out ->
  exists passed, passed_majors c gap cns = Some passed /\
  exists n, In n out /\
    nc_score n = min_score nc_score (minor_candidates c (min_score cn_score cns) (min_score jc_score passed) passed).
Proof. exact reported_contains_best. Qed.
Goal True. idtac "ASSUME C10_reported_contains_best". Abort.
Print Assumptions C10_reported_contains_best.

(* carry-over: every reported candidate is a raw minor candidate of a passed major candidate of a recorded structure, and its
   score is (minor + (major + (cn - min_cn)) - min_major) * (cn + SLACK) / (min_cn + SLACK), within the gap of the best *)
Theorem C10_select_carry : forall c gap cns out, genotype_select c gap cns = Ok out ->
  exists passed, passed_majors c gap cns = Some passed /\
  forall n, In n out ->
    let j := nc_major n in
    let min_cn := min_score cn_score cns in
    let min_major := min_score jc_score passed in
    In (jc_cn j) cns /\ In (jc_in j) (cn_majors (jc_cn j)) /\ In (nc_in n) (ma_minors (jc_in j)) /\ In j passed /\
    jc_score j = (ma_raw (jc_in j) + (cn_score (jc_cn j) - min_cn))%Q /\
    nc_score n = ((mi_raw (nc_in n) + ((ma_raw (jc_in j) + (cn_score (jc_cn j) - min_cn)) - min_major)) *
                  ((cn_score (jc_cn j) + c_slack c) / (min_cn + c_slack c)))%Q /\
    (nc_score n - min_score nc_score (minor_candidates c min_cn min_major passed) - gap < c_solution_precision c)%Q.
Proof. exact select_carry. Qed.
Goal True. idtac "ASSUME C10_select_carry". Abort.
Print Assumptions C10_select_carry.

(* empty stages: each error arises exactly when its stage has nothing to offer; a successful run reports something *)
Theorem C10_select_empty_errors : forall c gap cns,
  (genotype_select c gap cns = Err NoStructures <-> cns = []) /\
  (genotype_select c gap cns = Err NoMajors <-> cns <> [] /\ forall cn, In cn cns -> cn_majors cn = []) /\
  (genotype_select c gap cns = Err NoMinors <->
     cns <> [] /\ exists passed, passed_majors c gap cns = Some passed /\ forall j, In j passed -> ma_minors (jc_in j) = []) /\
  (forall out, genotype_select c gap cns = Ok out -> consts_wf c = true -> (0 <= gap)%Q -> out <> []).
Proof. exact select_empty_errors. Qed.
Goal True. idtac "ASSUME C10_select_empty_errors". Abort.
Print Assumptions C10_select_empty_errors.

(* ---- non-vacuity: a concrete run with two structures, three major and four minor candidates, gap 0.1 ---- *)
Definition ex_mi (i : Z) (raw : Q) : minor_in := {| mi_id := i; mi_name := [109; 48 + i]; mi_raw := raw |}.
Definition ex_cns : list cn_in :=
  [ {| cn_id := 0; cn_name := [50; 120; 42; 49]; cn_score := (3 # 2)%Q;
       cn_majors := [ {| ma_id := 0; ma_name := [97]; ma_raw := (1 # 5)%Q; ma_rank := 0; ma_minors := [ex_mi 0 (1 # 10); ex_mi 1 (3 # 10)] |};
                      {| ma_id := 1; ma_name := [98]; ma_raw := (1 # 4)%Q; ma_rank := 1; ma_minors := [ex_mi 2 0] |} ] |};
    {| cn_id := 1; cn_name := [51; 120; 42; 49]; cn_score := (8 # 5)%Q;
       cn_majors := [ {| ma_id := 2; ma_name := [99]; ma_raw := (1 # 10)%Q; ma_rank := 2; ma_minors := [ex_mi 3 (1 # 10)] |} ] |} ].

Example C10_example_run :
  match genotype_select here (1 # 10) ex_cns with
  | Ok out => map (fun n => (mi_id (nc_in n), Qred (nc_score n))) out = [(2, (1 # 20)%Q); (0, (1 # 10)%Q); (3, (13 # 125)%Q)]
  | Err _ => False
  end.
Proof. vm_compute. reflexivity. Qed.

Example C10_example_nonneg : scores_nonneg ex_cns.
Proof.
  intros cn H. cbn in H. repeat (destruct H as [H|H]; [subst cn; cbn; split; [discriminate|] |]); try contradiction;
  intros m Hm; cbn in Hm; repeat (destruct Hm as [Hm|Hm]; [subst m; cbn|]); try contradiction;
  intros mi Hi; repeat (destruct Hi as [Hi|Hi]; [subst mi; cbn; discriminate|]); contradiction.
Qed.

Example C10_example_errors :
  genotype_select here 0 [] = Err NoStructures /\
  genotype_select here 0 [ {| cn_id := 0; cn_name := [49]; cn_score := 1; cn_majors := [] |} ] = Err NoMajors /\
  genotype_select here 0 [ {| cn_id := 0; cn_name := [49]; cn_score := 1;
                              cn_majors := [ {| ma_id := 0; ma_name := [97]; ma_raw := 0; ma_rank := 0; ma_minors := [] |} ] |} ] = Err NoMinors.
Proof. vm_compute. repeat split. Qed.

(* ================================================================= tie to the current source tree
   The decision expressions below are regenerated from /repo's Python AST on every run (harness/gen_exprs.py -> gen/Exprs_sel.v);
   each theorem says that the model's definition IS that expression, for all arguments.  A change of the expression in the code
   breaks the obligation even when no sampled input distinguishes old and new behaviour. *)
Theorem C10_tie_major_keep : forall (A : Type) (score : A -> Q) (c : consts) gap mn a,
  within score (c_solution_precision c) gap mn a = sel_major_keep (score a) mn gap (c_solver_precision c) (c_solution_precision c).
Proof. exact sel_major_keep_tied. Qed.
Goal True. idtac "ASSUME C10_tie_major_keep". Abort.
Print Assumptions C10_tie_major_keep.

Theorem C10_tie_minor_keep : forall (A : Type) (score : A -> Q) (c : consts) gap mn a,
  within score (c_solution_precision c) gap mn a = sel_minor_keep (score a) mn gap (c_solver_precision c) (c_solution_precision c).
Proof. exact sel_minor_keep_tied. Qed.
Goal True. idtac "ASSUME C10_tie_minor_keep". Abort.
Print Assumptions C10_tie_minor_keep.

Theorem C10_tie_major_carry : forall min_cn cns j, In j (major_candidates min_cn cns) ->
  (jc_score j == ma_raw (jc_in j) + sel_major_carry (cn_score (jc_cn j)) min_cn)%Q.
Proof. exact sel_major_carry_tied. Qed.
Goal True. idtac "ASSUME C10_tie_major_carry". Abort.
Print Assumptions C10_tie_major_carry.

Theorem C10_tie_combined : forall c min_cn min_major j m,
  (combined c min_cn min_major j m ==
   sel_rescale (mi_raw m + sel_minor_carry (jc_score j) min_major) (cn_score (jc_cn j)) min_cn (c_slack c))%Q.
Proof. exact sel_combined_tied. Qed.
Goal True. idtac "ASSUME C10_tie_combined". Abort.
Print Assumptions C10_tie_combined.

Theorem C10_tie_sort_key : forall (A : Type) (name : A -> str) (score : A -> Q) (a : A) (k : nat), (k < 3)%nat ->
  key_of name score (scale_at here k) a = (qtrunc (sel_sort_key (score a)), name a).
Proof. exact sel_sort_key_tied. Qed.
Goal True. idtac "ASSUME C10_tie_sort_key". Abort.
Print Assumptions C10_tie_sort_key.
