(* C11 — The diplotype is a faithful arrangement of the called alleles.
   Only statements here; proofs are in proofs/DiplotypeProofs.v.  Model: theories/Diplotype.v (estimate_diplotype with
   Python's insertion-ordered defaultdict, name rendering) and theories/NatSort.v (natsort's default key).
   All theorems hold for every gene description [g], every list [sol] of called alleles (any length, any order), both
   display formats.  [tandems_ok g]: gene.common_tandems are pairs of two different names (checked on every shipped
   database on every run); [names_ok sol]: no allele name is empty before '#'. *)
From Coq Require Import String Permutation Sorted.
From Aldy Require Import Base Consts NatSort Diplotype DiplotypeProofs.
Import List.
Open Scope Z_scope.

(* every called copy appears exactly once; a gene with a deletion allele shows exactly max(0, 2-n) placeholders (-1) *)
Theorem C11_diplotype_partition : forall display g sol dipl,
  tandems_ok g = true -> arrange display g sol = Ok dipl ->
  Permutation (concat dipl) (zrange 0 (length sol) ++ repeat (-1) (ndel g (length sol))).
Proof. exact diplotype_partition. Qed.
Goal True. idtac "ASSUME C11_diplotype_partition". Abort.
Print Assumptions C11_diplotype_partition.

(* two haplotypes, both non-empty, as soon as copies + placeholders are at least two (in particular whenever n >= 2;
   for n < 2 and a gene with a deletion allele: together with the partition theorem each missing haplotype is exactly
   one placeholder) *)
Theorem C11_diplotype_nonempty : forall display g sol dipl,
  tandems_ok g = true -> arrange display g sol = Ok dipl ->
  (2 <= length sol + ndel g (length sol))%nat ->
  exists h0 h1, dipl = [h0; h1] /\ h0 <> [] /\ h1 <> [].
Proof. exact diplotype_nonempty. Qed.
Goal True. idtac "ASSUME C11_diplotype_nonempty". Abort.
Print Assumptions C11_diplotype_nonempty.

(* one segmentation of the two haplotypes into units (single copies [U1 i] and tuples [U2 i j] printed next to each other)
   witnesses the remaining arrangement clauses:
   - the units of a haplotype are in natural order of the name of their (first) copy, and the first haplotype's list of
     names is not larger than the second's  (diplotype_sorted);
   - up to two copies: no tuples, i.e. each haplotype itself is sorted;
   - more than two copies: every tuple is a common tandem (ta, tb) of the database, in that order, and the copies left
     single contain no further pair of any common tandem  (diplotype_tandem_adjacent). *)
Theorem C11_diplotype_tandem_adjacent_sorted : forall display g sol dipl,
  tandems_ok g = true -> arrange display g sol = Ok dipl ->
  let name := major_name display g sol in
  exists us0 us1,
    dipl = [uflats us0; uflats us1] /\
    StronglySorted (unit_le name) us0 /\ StronglySorted (unit_le name) us1 /\
    names_leb (map name (uflats us0)) (map name (uflats us1)) = true /\
    ((length sol <= 2)%nat -> Forall isU1 (us0 ++ us1)) /\
    ((2 < length sol)%nat ->
       (forall x y, In (U2 x y) (us0 ++ us1) ->
          exists ta tb, In (ta, tb) (g_tandems g) /\ key_of sol x = Some ta /\ key_of sol y = Some tb) /\
       (forall ta tb i j, In (ta, tb) (g_tandems g) -> In (U1 i) (us0 ++ us1) -> In (U1 j) (us0 ++ us1) ->
          key_of sol i = Some ta -> key_of sol j = Some tb -> False)).
Proof. exact diplotype_units. Qed.
Goal True. idtac "ASSUME C11_diplotype_tandem_adjacent_sorted". Abort.
Print Assumptions C11_diplotype_tandem_adjacent_sorted.

(* the order used is a genuine total preorder, and Python never meets a str/int comparison in natsort keys *)
Theorem C11_natural_order_total : forall a b, name_leb a b = true \/ name_leb b a = true.
Proof. exact name_leb_total. Qed.
Goal True. idtac "ASSUME C11_natural_order_total". Abort.
Print Assumptions C11_natural_order_total.
Theorem C11_natural_order_trans : forall a b c, name_leb a b = true -> name_leb b c = true -> name_leb a c = true.
Proof. exact name_leb_trans. Qed.
Goal True. idtac "ASSUME C11_natural_order_trans". Abort.
Print Assumptions C11_natural_order_trans.
Theorem C11_natsort_key_well_typed : forall a b,
  alternates true (nkey a) = true /\ key_typed (nkey a) (nkey b) = true.
Proof. exact nkey_well_typed. Qed.
Goal True. idtac "ASSUME C11_natsort_key_well_typed". Abort.
Print Assumptions C11_natsort_key_well_typed.

(* one or two copies: the printed string does not depend on the order in which the alleles were produced
   (hypothesis: natsort can tell different names apart, i.e. no two called names differ only in leading zeros) *)
Theorem C11_diplotype_order_free : forall display g sol sol' dipl dipl',
  Permutation sol sol' -> (length sol <= 2)%nat ->
  (forall a b, In a sol -> In b sol -> nkey (allele_major_name display a) = nkey (allele_major_name display b) ->
               allele_major_name display a = allele_major_name display b) ->
  arrange display g sol = Ok dipl -> arrange display g sol' = Ok dipl' ->
  major_diplotype display g sol dipl = major_diplotype display g sol' dipl'.
Proof. exact diplotype_order_free. Qed.
Goal True. idtac "ASSUME C11_diplotype_order_free". Abort.
Print Assumptions C11_diplotype_order_free.

(* the names shown: "*" + major name up to the first '#', then "+rsid" for each functional added variant (sorted by
   position, change); placeholders show the deletion allele; haplotypes joined by " / ", copies by " + " *)
Theorem C11_diplotype_names : forall g sol dipl,
  major_diplotype false g sol dipl =
  join (s " / ") (map (fun h => join (s " + ") (map (fun i => s "*" ++ spec_name g sol i) h))
                      (filter (fun h => match h with [] => false | _ => true end) dipl)).
Proof. exact diplotype_names. Qed.
Goal True. idtac "ASSUME C11_diplotype_names". Abort.
Print Assumptions C11_diplotype_names.
Theorem C11_fusion_suffix_removed : forall n,
  exists r, n = chop n ++ r /\ ~ In 35 (chop n) /\ (r = [] \/ exists r', r = 35 :: r').
Proof. exact chop_spec. Qed.
Goal True. idtac "ASSUME C11_fusion_suffix_removed". Abort.
Print Assumptions C11_fusion_suffix_removed.
Theorem C11_added_variants_sorted_perm : forall l, Permutation (sort_vars l) l.
Proof. exact sort_vars_perm. Qed.
Goal True. idtac "ASSUME C11_added_variants_sorted_perm". Abort.
Print Assumptions C11_added_variants_sorted_perm.

(* no assertion, IndexError or TypeError is reachable (incl. the `diplotype = diplotype[0][0]` branch) *)
Theorem C11_diplotype_total : forall display g sol,
  tandems_ok g = true -> names_ok sol = true -> exists dipl, arrange display g sol = Ok dipl.
Proof. exact diplotype_total. Qed.
Goal True. idtac "ASSUME C11_diplotype_total". Abort.
Print Assumptions C11_diplotype_total.

(* ---------------------------------------------------------------- examples: the hypotheses are satisfiable, the model computes *)
Definition al (m : string) : allele := Build_allele (s m) [] [] [] [].
Definition alm (m mi : string) : allele := Build_allele (s m) (s mi) [] [] [].
Definition toy : dgene := Build_dgene (Some (s "6")) [(s "1", s "4")].

Example C11_example_toy_tandem :        (* aldy/tests/test_diplotype_synthetic.py::test_tandem *)
  tandems_ok toy = true /\ names_ok [al "4"; al "1C"; al "3"] = true /\
  arrange false toy [al "4"; al "1C"; al "3"] = Ok [[1; 0]; [2]] /\
  major_diplotype false toy [al "4"; al "1C"; al "3"] [[1; 0]; [2]] = s "*1C + *4 / *3".
Proof. vm_compute. auto. Qed.
Example C11_example_placeholders :
  arrange false toy [] = Ok [[-1]; [-1]] /\ arrange false toy [al "2"] = Ok [[0]; [-1]] /\
  major_diplotype false toy [al "2"] [[0]; [-1]] = s "*2 / *6".
Proof. vm_compute. auto. Qed.
(* the defaultdict side effect is visible: reading major_dict['1'] in the tandem loop creates a second (empty) group, so
   four copies of *3 are not split 2+2 as they are for a gene without a tandem table *)
Example C11_example_defaultdict_side_effect :
  arrange false toy [al "3"; al "3"; al "3"; al "3"] = Ok [[3]; [0; 1; 2]] /\
  arrange false (Build_dgene (Some (s "6")) []) [al "3"; al "3"; al "3"; al "3"] = Ok [[0; 1]; [2; 3]].
Proof. vm_compute. auto. Qed.

(* ---------------------------------------------------------------- the hypotheses are needed *)
(* a tandem (a, a) breaks the partition (copy 1 lost, copy 0 twice) or raises IndexError *)
Theorem C11_tandems_ok_needed :
  let g := Build_dgene None [(s "1", s "1")] in
  arrange false g [al "1"; al "1"; al "3"] = Ok [[0; 0]; [2]] /\ arrange false g [al "1"; al "2"; al "3"] = Error EIndex.
Proof. vm_compute. auto. Qed.
Goal True. idtac "ASSUME C11_tandems_ok_needed". Abort.
Print Assumptions C11_tandems_ok_needed.
(* names that natsort cannot tell apart ("1", "01") are printed in input order *)
Theorem C11_order_free_needs_distinguishable :
  let g := Build_dgene None [] in
  major_diplotype false g [al "1"; al "01"] [[0]; [1]] = s "*1 / *01" /\ arrange false g [al "1"; al "01"] = Ok [[0]; [1]] /\
  major_diplotype false g [al "01"; al "1"] [[0]; [1]] = s "*01 / *1" /\ arrange false g [al "01"; al "1"] = Ok [[0]; [1]].
Proof. vm_compute. auto. Qed.
Goal True. idtac "ASSUME C11_order_free_needs_distinguishable". Abort.
Print Assumptions C11_order_free_needs_distinguishable.
(* observation (outside the statement, which is about the names of the major alleles): the MINOR-allele diplotype string of
   two copies with the same major name follows the input order *)
Theorem C11_minor_string_order_dependent :
  let g := Build_dgene None [] in
  minor_diplotype false g [alm "1" "1.001"; alm "1" "1.002"] [[0]; [1]] = s "[*1.001] / [*1.002]" /\
  arrange false g [alm "1" "1.001"; alm "1" "1.002"] = Ok [[0]; [1]] /\
  minor_diplotype false g [alm "1" "1.002"; alm "1" "1.001"] [[0]; [1]] = s "[*1.002] / [*1.001]" /\
  arrange false g [alm "1" "1.002"; alm "1" "1.001"] = Ok [[0]; [1]].
Proof. vm_compute. auto. Qed.
Goal True. idtac "ASSUME C11_minor_string_order_dependent". Abort.
Print Assumptions C11_minor_string_order_dependent.
