(* C04 — Minor-allele refinement preserves the major call and is optimal.
   Only statements here; proofs are in proofs/MinorProofs.v, MinorPointProofs.v, MinorSpecPointProofs.v.

   [gen c i] (theories/MinorModel.v) is the ILP of aldy/minor.py:solve_minor_model for the instance [i] (aldy's own
   Gene / Coverage / MajorSolution facts of one call); it is compared row by row with the LP the implementation hands to
   CBC on every run (harness/c04.py, structural tie).  The rule invariants below hold for EVERY feasible point [x] of it,
   for any number of candidate alleles, variants, sites, copies and read modes; selectors: [kA a] allele copy a selected,
   [kK a m] definition variant m kept on a, [kN a m] variant m added to a, [kPH a ri] read mode ri assigned to a. *)
From Aldy Require Import Base Consts Lp MinorModel MinorSpec MinorProofs MinorPointProofs MinorSpecPointProofs MinorNoiseFreeProofs Consts_here Consts_wf Exprs_cov Tied_cov_minor.
Open Scope Q_scope.

Theorem C04_consts_here_wf : consts_wf here = true.
Proof. exact here_wf. Qed.
Goal True. idtac "ASSUME C04_consts_here_wf". Abort.
Print Assumptions C04_consts_here_wf.

(* ---- the product helper is exact on binaries; for the keep/add selectors MUL = A * sel = sel ---- *)
Theorem C04_prod_exact : forall (x : asg) (r a b : vkey), is_bin (x r) -> is_bin (x a) -> is_bin (x b) ->
  (Forall (sat_row x) (prod_rows r [a; b]) <-> x r == x a * x b).
Proof. exact prod2_exact. Qed.
Goal True. idtac "ASSUME C04_prod_exact". Abort.
Print Assumptions C04_prod_exact.

Theorem C04_minor_products_exact : forall c i x, feasible (gen c i) x ->
  (forall a m, In a (insts i) -> In m (defs i a) -> x (kMK a m) == x (kA a) * x (kK a m) /\ x (kMK a m) == x (kK a m)) /\
  (forall a m, In a (insts i) -> In m (news i a) -> x (kMN a m) == x (kA a) * x (kN a m) /\ x (kMN a m) == x (kN a m)).
Proof. exact minor_products_exact. Qed.
Goal True. idtac "ASSUME C04_minor_products_exact". Abort.
Print Assumptions C04_minor_products_exact.

(* ---- CCNT / CCNT_OTHER: the selected minors of a called major are as many as its called copies and belong to it;
        no copy of an allele of another major is selected ---- *)
Theorem C04_minor_one_per_major : forall c i x, feasible (gen c i) x ->
  (forall mj cnt, In (mj, cnt) (i_majors i) -> qsum (map (fun a => x (kA a)) (filter (of_major mj) (insts i))) == inject_Z cnt) /\
  (NoDup (map fst (i_majors i)) ->
   forall a, In a (insts i) -> ~ In (c_major (fst a)) (map fst (i_majors i)) -> x (kA a) == 0) /\
  (forall a, In a (insts i) -> is_bin (x (kA a))).
Proof. exact minor_one_per_major. Qed.
Goal True. idtac "ASSUME C04_minor_one_per_major". Abort.
Print Assumptions C04_minor_one_per_major.

(* ---- rule 2 (CFUNC): a selected copy keeps every functional (= core) variant of its definition ---- *)
Theorem C04_minor_core_kept : forall c i x, feasible (gen c i) x ->
  (forall a m, In a (insts i) -> In m (defs i a) -> m_func m = true -> x (kK a m) == x (kA a)) /\
  (inst_wf i = true -> forall a m, In a (insts i) -> In m (defs i a) -> in_core a m = true -> x (kK a m) == x (kA a)).
Proof. exact minor_core_kept. Qed.
Goal True. idtac "ASSUME C04_minor_core_kept". Abort.
Print Assumptions C04_minor_core_kept.

(* ---- rule 3 (CZERO) and the domain of the add selectors: variants only where the allele has gene copies ---- *)
Theorem C04_minor_add_needs_copies : forall c i x, feasible (gen c i) x ->
  (forall a m, In m (news i a) -> has_cov a (m_pos m) = true /\ in_def a m = false) /\
  (forall a m, In a (insts i) -> In m (defs i a) -> has_cov a (m_pos m) = false -> x (kK a m) == 0).
Proof. exact minor_add_needs_copies. Qed.
Goal True. idtac "ASSUME C04_minor_add_needs_copies". Abort.
Print Assumptions C04_minor_add_needs_copies.

(* ---- rule 5 (CNOCOV): nothing without filtered reads (or without copies at the position) is added or carried ---- *)
Theorem C04_minor_add_needs_reads : forall c i x, feasible (gen c i) x ->
  forall a m, In a (insts i) -> In m (news i a) -> no_reads m = true -> x (kN a m) == 0.
Proof. exact minor_add_needs_reads. Qed.
Goal True. idtac "ASSUME C04_minor_add_needs_reads". Abort.
Print Assumptions C04_minor_add_needs_reads.

Theorem C04_minor_carried_has_reads : forall c i x, feasible (gen c i) x ->
  forall a m, In a (insts i) -> no_reads m = true ->
  (In m (defs i a) -> x (kK a m) == 0) /\ (In m (news i a) -> x (kN a m) == 0).
Proof. exact minor_carried_has_reads. Qed.
Goal True. idtac "ASSUME C04_minor_carried_has_reads". Abort.
Print Assumptions C04_minor_carried_has_reads.

(* ---- rule 4 (CSINGLE / CSINGLEFULL): at most one variant per position on an allele copy ---- *)
Theorem C04_minor_one_per_site : forall c i x, feasible (gen c i) x ->
  forall a st, In a (insts i) -> In st (i_sites i) ->
  qsum (map (fun m => x (kK a m)) (at_pos (s_pos st) (defs i a))) +
  qsum (map (fun m => x (kN a m)) (at_pos (s_pos st) (news i a))) <= 1.
Proof. exact minor_one_per_site. Qed.
Goal True. idtac "ASSUME C04_minor_one_per_site". Abort.
Print Assumptions C04_minor_one_per_site.

(* ---- rule 5 (CMINONE / CMAXCOV): a considered variant with filtered reads is carried by at least one copy ---- *)
Theorem C04_minor_supported_is_carried : forall c i x, feasible (gen c i) x ->
  forall m, In m (i_muts i) -> no_reads m = false -> 1 <= carr x i m /\ carr x i m <= m_cov m.
Proof. exact minor_supported_is_carried. Qed.
Goal True. idtac "ASSUME C04_minor_supported_is_carried". Abort.
Print Assumptions C04_minor_supported_is_carried.

(* ---- rule 1 (CVK / CVN): variants are kept / added only on selected copies ---- *)
Theorem C04_minor_used_only : forall c i x, feasible (gen c i) x ->
  (forall a m, In a (insts i) -> In m (defs i a) -> x (kK a m) <= x (kA a) /\ is_bin (x (kK a m))) /\
  (forall a m, In a (insts i) -> In m (news i a) -> x (kN a m) <= x (kA a) /\ is_bin (x (kN a m))).
Proof. exact minor_used_only. Qed.
Goal True. idtac "ASSUME C04_minor_used_only". Abort.
Print Assumptions C04_minor_used_only.

(* ---- rule 7: every read mode with an informative copy is assigned to exactly one SELECTED copy that has at least two
        informative sites ---- *)
Theorem C04_minor_phase_assignment : forall c i x, feasible (gen c i) x ->
  forall ri r cnt, In (ri, (r, cnt)) (enumerate 0 (modes i)) ->
  (forall a, In a (insts i) -> ph_active i a r = true -> is_bin (x (kPH a ri)) /\ x (kPH a ri) <= x (kA a)) /\
  (filter (fun a => ph_active i a r) (insts i) <> [] ->
   qsum (map (fun a => x (kPH a ri)) (filter (fun a => ph_active i a r) (insts i))) == 1).
Proof. exact minor_phase_assignment. Qed.
Goal True. idtac "ASSUME C04_minor_phase_assignment". Abort.
Print Assumptions C04_minor_phase_assignment.

(* ---- the remaining families: copy ordering (CORD) and rule 6 (reference sites); CONE is implied by rule 4 ---- *)
Theorem C04_minor_copy_order : forall c i x, feasible (gen c i) x ->
  forall a, In a (insts i) -> (0 < snd a)%Z -> x (kA a) <= x (kA (fst a, (snd a - 1)%Z)).
Proof. exact minor_copy_order. Qed.
Goal True. idtac "ASSUME C04_minor_copy_order". Abort.
Print Assumptions C04_minor_copy_order.

Theorem C04_minor_cone : forall c i x, feasible (gen c i) x ->
  forall a st, In a (insts i) -> In st (i_sites i) -> has_cov a (s_pos st) = true ->
  (forall p, nonins_at (s_pos st) (defs i a) <> [p]) ->
  qsum (map (fun m => x (kN a m)) (nonins_at (s_pos st) (news i a))) <= 1.
Proof. exact minor_cone. Qed.
Goal True. idtac "ASSUME C04_minor_cone". Abort.
Print Assumptions C04_minor_cone.

Theorem C04_minor_ref_sites : forall c i x, feasible (gen c i) x -> insts i <> [] ->
  forall st, In st (i_sites i) ->
  eval_lin x (site_expr i (s_pos st)) <=
  (if Qeqb (s_pcn st) 0 then 0 else Qmax' (Qmax' (s_pcn st) (s_cov st)) (max_mut i (s_pos st))).
Proof. exact minor_ref_sites. Qed.
Goal True. idtac "ASSUME C04_minor_ref_sites". Abort.
Print Assumptions C04_minor_ref_sites.

(* ---- the safety clauses AS THE HARNESS EVALUATES THEM (MinorSpec.clauses: one catalogued minor of the called major per
        copy and nothing else, core kept, additions only with copies, additions only with reads, carried only with reads,
        one variant per position, supported variants carried) hold for the assignment denoted by ANY feasible point;
        with the Fixed read-out that assignment is what is reported ---- *)
Theorem C04_minor_point_clauses : forall c i x, feasible (gen c i) x -> inst_wf i = true ->
  clauses i (readout Fixed c i (point_asg i x)) = [true; true; true; true; true; true; true].
Proof. exact minor_point_clauses. Qed.
Goal True. idtac "ASSUME C04_minor_point_clauses". Abort.
Print Assumptions C04_minor_point_clauses.

(* ---- the objective.  [pt_score c x i] (MinorSpec.v) is written over the selector values only:
          fit error  (sum |observed copies - carriers| over variants + the same for reference copies at every site)
        + minor_miss * dropped definition variants on selected copies
        + minor_add  * sum over additions of (1 + construction index / tie_den)
        + minor_add / vnewor_div * number of functional variants added to some copy
        + minor_phase * sum over read modes of reads * disagreeing sites of the copy the mode is assigned to.
        The objective of gen is at least that at every feasible point and equal to it at the tight extension; the error
        variables and the OR variables are determined by the selectors. ---- *)
Theorem C04_minor_objective : forall c i x, feasible (gen c i) x ->
  pt_score c x i <= objective (gen c i) x /\
  ((forall k, In k (err_keys i) -> x (abs_key k) == Qabs' (x k)) -> objective (gen c i) x == pt_score c x i) /\
  (forall m, In m (i_muts i) -> x (kE m) == obs_mut m - carr x i m) /\
  (forall st, In st (i_sites i) -> x (kR st) == obs_site st - refc x i (s_pos st)) /\
  (forall m, In m (vo_muts i) -> x (kVO m) == qmax_list (map x (vo_vars i m))).
Proof. exact minor_objective. Qed.
Goal True. idtac "ASSUME C04_minor_objective". Abort.
Print Assumptions C04_minor_objective.

(* ---- optimality.
   If x is a minimiser of the ILP (what CBC returns, solver contract of C05), the assignment it denotes (what minor.py
   reads out of the solver) is admissible for the combinatorial specification MinorSpec, the reported score is exactly
   the MinorSpec score of that assignment (tie-breaker included), and no admissible assignment over the instance's allele
   copies scores lower.  Hypotheses: the decidable side conditions of the instance ([inst_wf], evaluated on every
   instance of every run together with [0 <= i_phase], the profile's minor_phase weight); [over_copies i b] says that
   the allele copies named by b are copies of the instance (the specification compares copies by identifier only).
   Two halves, each for ANY number of candidates, copies, variants, sites and read modes:
   C04_minor_point_spec (every feasible point denotes an admissible assignment whose score is at most the objective)
   and C04_minor_spec_point (every admissible assignment is realised by a feasible point with objective = score). ---- *)
Theorem C04_minor_optimal : forall c i x, inst_wf i = true -> 0 <= i_phase i -> feasible (gen c i) x ->
  (forall y, feasible (gen c i) y -> objective (gen c i) x <= objective (gen c i) y) ->
  admissible i (point_asg i x) = true /\
  (exists q, score c i true (point_asg i x) = Some q /\ q == objective (gen c i) x) /\
  (forall b q, over_copies i b -> admissible i b = true -> score c i true b = Some q -> objective (gen c i) x <= q).
Proof. exact minor_optimal. Qed.
Goal True. idtac "ASSUME C04_minor_optimal". Abort.
Print Assumptions C04_minor_optimal.

Theorem C04_minor_point_spec : forall c i x, feasible (gen c i) x -> inst_wf i = true -> 0 <= i_phase i ->
  admissible i (point_asg i x) = true /\
  exists q, score c i true (point_asg i x) = Some q /\ q <= pt_score c x i /\ q <= objective (gen c i) x.
Proof. exact minor_point_spec. Qed.
Goal True. idtac "ASSUME C04_minor_point_spec". Abort.
Print Assumptions C04_minor_point_spec.

Theorem C04_minor_spec_point : forall c i b, inst_wf i = true -> over_copies i b -> admissible i b = true ->
  exists y q, feasible (gen c i) y /\ score c i true b = Some q /\ objective (gen c i) y == q.
Proof. exact minor_spec_point. Qed.
Goal True. idtac "ASSUME C04_minor_spec_point". Abort.
Print Assumptions C04_minor_spec_point.

(* the hypotheses are met by a non-trivial instance: the phased TOY witness and the assignment the solver reported *)
Example C04_minor_optimal_example : inst_wf witness_p = true /\ 0 <= i_phase witness_p /\
  over_copies witness_p (solver_asg witness_p witness_p_solver) /\ admissible witness_p (solver_asg witness_p witness_p_solver) = true.
Proof. exact minor_optimal_example. Qed.

(* an earlier, weaker form (kept: it needs no side condition): optimality over the selector values of feasible points *)
Theorem C04_minor_optimal_partial : forall c i x, feasible (gen c i) x ->
  (forall y, feasible (gen c i) y -> objective (gen c i) x <= objective (gen c i) y) ->
  objective (gen c i) x == pt_score c x i /\ forall y, feasible (gen c i) y -> pt_score c x i <= pt_score c y i.
Proof. exact minor_optimal_partial. Qed.
Goal True. idtac "ASSUME C04_minor_optimal_partial". Abort.
Print Assumptions C04_minor_optimal_partial.

(* ---- read-out (minor.py:488-505).  Fixed: the solver's assignment is reported, so every clause above carries over.
        AsShipped: whatever is added beyond the solver's additions is addable on that copy (has gene copies there), is
        homozygous (observed copies = total copy number) and therefore has reads. ---- *)
Theorem C04_minor_readout : forall c i,
  (forall a, readout Fixed c i a = a) /\
  (forall ch d, In d (ch_add (readout_ch AsShipped c i ch)) ->
     exists m, In m (news i (ch_a ch)) /\ m_id m = d /\ (added ch m = true \/ homozygous c i m = true)) /\
  (forall m, c_homozygous_eps c < i_maxcn i -> homozygous c i m = true -> no_reads m = false).
Proof. exact minor_readout. Qed.
Goal True. idtac "ASSUME C04_minor_readout". Abort.
Print Assumptions C04_minor_readout.

(* the shipped read-out does NOT preserve "one variant per position" (witness_a: *1.001 reported with 147.A>C and 147.insA) *)
Theorem C04_readout_as_shipped_refuted_site :
  let a := solver_asg witness_a witness_a_solver in
  inst_wf witness_a = true /\ admissible witness_a a = true /\ cl_one_per_site witness_a a = true /\
  cl_one_per_site witness_a (readout AsShipped here witness_a a) = false.
Proof. exact as_shipped_two_per_site. Qed.
Goal True. idtac "ASSUME C04_readout_as_shipped_refuted_site". Abort.
Print Assumptions C04_readout_as_shipped_refuted_site.

(* ... nor "the reported score is the score of the reported assignment" (witness_c: solver 1, reported alleles 3/2) *)
Theorem C04_readout_as_shipped_refuted_score :
  let a := solver_asg witness_c witness_c_solver in
  inst_wf witness_c = true /\ admissible witness_c a = true /\ score_is (score here witness_c false a) 1 = true /\
  score_is (score here witness_c false (readout AsShipped here witness_c a)) (3 # 2) = true.
Proof. exact as_shipped_score_differs. Qed.
Goal True. idtac "ASSUME C04_readout_as_shipped_refuted_score". Abort.
Print Assumptions C04_readout_as_shipped_refuted_score.

(* ---- non-vacuity: gen has feasible points on instances aldy produces, without and with phase rows ---- *)
Example C04_feasible_example : feasible (gen here witness_c) (point_of here witness_c (solver_asg witness_c witness_c_solver)).
Proof. exact witness_c_feasible. Qed.
Goal True. idtac "ASSUME C04_feasible_example". Abort.
Print Assumptions C04_feasible_example.

Example C04_feasible_example_phase :
  feasible (gen here witness_p) (point_of here witness_p (solver_asg witness_p witness_p_solver)) /\
  modes witness_p <> [] /\ rows_phase witness_p <> [] /\ inst_wf witness_p = true.
Proof. split; [exact witness_p_feasible|exact witness_p_has_phase]. Qed.
Goal True. idtac "ASSUME C04_feasible_example_phase". Abort.
Print Assumptions C04_feasible_example_phase.

(* ================================================================= tie to the current source tree
   The decision expressions below are regenerated from /repo's Python AST on every run (harness/gen_exprs.py -> gen/Exprs_cov.v);
   each theorem says that the model's definition IS that expression, for all arguments.  A change of the expression in the code
   breaks the obligation even when no sampled input distinguishes old and new behaviour. *)
Theorem C04_tie_single_copy : forall cov total pcn, Qltb 0 pcn = true ->
  (MinorModel.obs cov total pcn == cov / single_copy_val total pcn)%Q.
Proof. exact single_copy_minor_tied. Qed.
Goal True. idtac "ASSUME C04_tie_single_copy". Abort.
Print Assumptions C04_tie_single_copy.

(* ---- the noise-free clause: "on noise-free evidence the reported alleles reproduce the planted variants with multiplicity
   and without additions or losses".  Noise-free = some admissible assignment b over the instance's copies (the planted one)
   scores 0 under the model objective; then EVERY minimiser of the ILP denotes an admissible assignment that explains every
   variant count and every reference count exactly (so carries each variant as often as b does), drops nothing and adds
   nothing.  Any number of candidates, copies, variants, sites, read modes. ---- *)
Theorem C04_minor_noise_free : forall c i, 0 < c_minor_tie_den c -> 0 < c_minor_vnewor_div c -> 0 < i_miss i -> 0 < i_add i -> 0 <= i_phase i ->
  forall b q0 x, inst_wf i = true -> over_copies i b -> admissible i b = true -> score c i true b = Some q0 -> q0 == 0 ->
  feasible (gen c i) x -> (forall y, feasible (gen c i) y -> objective (gen c i) x <= objective (gen c i) y) ->
  let a := point_asg i x in
  objective (gen c i) x == 0 /\ admissible i a = true /\
  (forall m, In m (i_muts i) -> carriers a m == obs_mut m /\ carriers a m == carriers b m) /\
  (forall s, In s (i_sites i) -> exp_ref i a (s_pos s) == obs_site s) /\
  dropped i a == 0 /\
  (forall am, In am (new_pairs i) -> is_added a am = false).
Proof. exact minor_noise_free. Qed.
Goal True. idtac "ASSUME C04_minor_noise_free". Abort.
Print Assumptions C04_minor_noise_free.

(* the same from ONE decidable premise (MinorSpec.noise_free_b, evaluated by the harness on every noise-free case it generates):
   the planted copies, given as (candidate id, copy index, kept ids, added ids) *)
Theorem C04_minor_noise_free_b : forall c i l x, noise_free_b c i l = true ->
  feasible (gen c i) x -> (forall y, feasible (gen c i) y -> objective (gen c i) x <= objective (gen c i) y) ->
  let a := point_asg i x in let b := solver_asg i l in
  objective (gen c i) x == 0 /\ admissible i a = true /\
  (forall m, In m (i_muts i) -> carriers a m == obs_mut m /\ carriers a m == carriers b m) /\
  (forall s, In s (i_sites i) -> exp_ref i a (s_pos s) == obs_site s) /\
  dropped i a == 0 /\
  (forall am, In am (new_pairs i) -> is_added a am = false).
Proof. exact minor_noise_free_b. Qed.
Goal True. idtac "ASSUME C04_minor_noise_free_b". Abort.
Print Assumptions C04_minor_noise_free_b.

(* an assignment of score 0 (or less) has every part of the score at 0 *)
Theorem C04_zero_score_parts : forall c i, 0 < c_minor_tie_den c -> 0 < c_minor_vnewor_div c -> 0 < i_miss i -> 0 < i_add i -> 0 <= i_phase i ->
  forall asg q, score c i true asg = Some q -> q <= 0 ->
  q == 0 /\ (forall m, In m (i_muts i) -> carriers asg m == obs_mut m) /\
  (forall s, In s (i_sites i) -> exp_ref i asg (s_pos s) == obs_site s) /\ dropped i asg == 0 /\
  (forall am, In am (new_pairs i) -> is_added asg am = false).
Proof. exact zero_score_parts. Qed.
Goal True. idtac "ASSUME C04_zero_score_parts". Abort.
Print Assumptions C04_zero_score_parts.

Example C04_noise_free_example : noise_free_b here witness_p witness_p_solver = true.
Proof. exact noise_free_example. Qed.
