(* C03 — Gene-structure (copy number) calls are well-formed and optimal.
   Only statements here; proofs are in proofs/CnProofs.v.  The model: theories/CnModel.v ([gen]: the ILP exactly as
   cn.py:solve_cn_model builds it) and theories/CnSpec.v (canonical internal forms, documented objective, enumeration
   with exclusion cuts, folding, estimate_cn branches).  No bound on the number of configurations, regions or max_cn.

   The enumeration [candidates] of canonical forms (two complete slots x prefixes of extras x prefix of PSEUDO) is proved
   COMPLETE (C03_cn_candidates_complete: the active set of every feasible point of the ILP is, up to order, one of the
   enumerated forms), so optimality, completeness and non-emptiness are stated over ALL feasible points of the ILP
   (C03_cn_optimal_abs, C03_cn_complete_abs, C03_cn_nonempty_abs) as well as over the enumerated forms.
   NOT proved (named in the evidence): "the score of a reported structure is the objective of its BEST explanation":
   what is proved is [C03_cn_scores_least] (least among the yielded explanations); see DESIGN.md section 5 item 11. *)
From Coq Require Import String Sorting.Sorted.
From Aldy Require Import Base Consts Lp CnModel CnSpec CnProofs CnCompleteProofs Consts_here Consts_wf Exprs_cn Tied_cn.
Import List.
Open Scope Z_scope.

Theorem C03_consts_here_wf : consts_wf here = true.
Proof. exact here_wf. Qed.
Goal True. idtac "ASSUME C03_consts_here_wf". Abort.
Print Assumptions C03_consts_here_wf.

(* ---- facts read off the rows of the generated model ---- *)
(* every feasible point activates exactly two complete slots (number <= 0) *)
Theorem C03_cn_two_complete : forall c i a, feasible (gen c i) a ->
  length (filter (on a) (filter is_complete (slots i))) = 2%nat.
Proof. exact two_complete. Qed.
Goal True. idtac "ASSUME C03_cn_two_complete". Abort.
Print Assumptions C03_cn_two_complete.

(* (name,-1) only with (name,0); extras and PSEUDO slots form a prefix; a double deletion excludes everything else *)
Theorem C03_cn_second_needs_first : forall c i a, feasible (gen c i) a ->
  forall n, In (n, -1) (act i a) -> In (n, 0) (act i a).
Proof. exact act_second_first. Qed.
Goal True. idtac "ASSUME C03_cn_second_needs_first". Abort.
Print Assumptions C03_cn_second_needs_first.

Theorem C03_cn_extras_prefix : forall c i a, feasible (gen c i) a ->
  forall n k j, In (n, k) (act i a) -> 1 <= j <= k -> In (n, j) (act i a).
Proof. exact act_prefix. Qed.
Goal True. idtac "ASSUME C03_cn_extras_prefix". Abort.
Print Assumptions C03_cn_extras_prefix.

Theorem C03_cn_double_deletion_alone : forall c i a, feasible (gen c i) a ->
  forall d x, i_del i = Some d -> In (d, -1) (act i a) -> In x (act i a) -> fst x = d.
Proof. exact act_double_deletion. Qed.
Goal True. idtac "ASSUME C03_cn_double_deletion_alone". Abort.
Print Assumptions C03_cn_double_deletion_alone.

(* ---- cn_wellformed: the folded structure of every feasible point ---- *)
Theorem C03_cn_wellformed : forall c i a, names_ok i = true -> feasible (gen c i) a ->
  let A := act i a in
  (* 2 - #deletions complete configurations plus the extras *)
  (length (fold_form i A) + length (deletions i A) = 2 + length (extras A))%nat /\
  (forall x, In x (deletions i A) -> is_complete x = true) /\
  (* extras are copies of a default configuration only *)
  (forall x, In x (extras A) -> default_name i (fst x) = true) /\
  (* a fusion / deletion configuration at most twice *)
  (forall n, default_name i n = false -> (length (filter (str_eqb n) (fold_form i A)) <= 2)%nat) /\
  (forall n k j, In (n, k) A -> 1 <= j <= k -> In (n, j) A) /\
  (forall n, In (n, -1) A -> In (n, 0) A) /\
  (* a double deletion with nothing else, not even a PSEUDO slot *)
  (forall d, i_del i = Some d -> In (d, -1) A -> fold_form i A = [] /\ forall x, In x A -> fst x = d).
Proof. exact cn_wellformed_thm. Qed.
Goal True. idtac "ASSUME C03_cn_wellformed". Abort.
Print Assumptions C03_cn_wellformed.

(* ---- cn_feasible_iff: a choice of binaries extends to a feasible point iff it is a canonical form with errors inside the bounds ---- *)
Theorem C03_cn_feasible_iff : forall c i (b : slot -> bool),
  (forall x, b x = true -> In x (slots i)) -> NoDup (map fst (used_cov i)) ->
  ((exists a, feasible (gen c i) a /\ forall x, In x (slots i) -> on a x = b x) <->
   (form_ok i (filter b (slots i)) = true /\ bounds_ok i (chosen i b) = true)).
Proof. exact cn_feasible_iff_thm. Qed.
Goal True. idtac "ASSUME C03_cn_feasible_iff". Abort.
Print Assumptions C03_cn_feasible_iff.

(* ---- cn_objective: minimum over the continuous part = documented objective of the active set ---- *)
Theorem C03_cn_objective : forall c i a,
  inst_ok i = true -> par_nonneg i -> NoDup (map fst (used_cov i)) -> feasible (gen c i) a ->
  (form_objective c i (act_structs i a) <= objective (gen c i) a)%Q /\
  exists a', feasible (gen c i) a' /\ (forall x, In x (slots i) -> on a' x = on a x) /\
             (objective (gen c i) a' == form_objective c i (act_structs i a))%Q.
Proof. exact cn_objective_thm. Qed.
Goal True. idtac "ASSUME C03_cn_objective". Abort.
Print Assumptions C03_cn_objective.

(* the evaluator the harness runs inside Coq is the specification *)
Theorem C03_cn_fast_is_spec : forall c i, scored_fast c i = scored c i /\ solve_cn_fast c i = solve_cn c i.
Proof. intros c i. split; [apply scored_fast_eq | apply solve_cn_fast_eq]. Qed.
Goal True. idtac "ASSUME C03_cn_fast_is_spec". Abort.
Print Assumptions C03_cn_fast_is_spec.
Theorem C03_cn_estimate_fast_is_spec : forall c e, estimate_cn_fast c e = estimate_cn c e.
Proof. exact estimate_cn_fast_eq. Qed.
Goal True. idtac "ASSUME C03_cn_estimate_fast_is_spec". Abort.
Print Assumptions C03_cn_estimate_fast_is_spec.

(* ---- cn_scores: what is reported (relative to the enumerated canonical forms) ---- *)
(* the score of a reported structure is the documented objective of a feasible canonical form folding to it, inside the gap *)
Theorem C03_cn_scores : forall c i, consts_wf c = true -> hyps_ok i = true ->
  forall k o, In (k, o) (solve_cn c i) ->
  exists F, In F (candidates i) /\ form_ok i (map fst F) = true /\ bounds_ok i F = true /\
            fold_form i (map fst F) = k /\ (o == form_objective c i F)%Q /\ in_gap c i o.
Proof. exact solve_scores. Qed.
Goal True. idtac "ASSUME C03_cn_scores". Abort.
Print Assumptions C03_cn_scores.

(* no canonical form of ANY structure scores below the first reported one *)
Theorem C03_cn_scores_optimal : forall c i, consts_wf c = true -> hyps_ok i = true ->
  forall k o t, solve_cn c i = (k, o) :: t ->
  forall F, In F (candidates i) -> form_ok i (map fst F) = true -> bounds_ok i F = true -> (o <= form_objective c i F)%Q.
Proof. exact solve_first_optimal. Qed.
Goal True. idtac "ASSUME C03_cn_scores_optimal". Abort.
Print Assumptions C03_cn_scores_optimal.

(* none repeated *)
Theorem C03_cn_scores_no_repeat : forall c i, NoDup (map fst (solve_cn c i)).
Proof. exact solve_nodup. Qed.
Goal True. idtac "ASSUME C03_cn_scores_no_repeat". Abort.
Print Assumptions C03_cn_scores_no_repeat.

(* the attached score is the least objective among the yielded explanations of that structure; yields are best-first and
   never contain an earlier yield *)
Theorem C03_cn_scores_least : forall c i sc k o, In (k, o) (solve_from c i sc) ->
  forall o2 F2, In (o2, F2) (yields_of c i sc) -> fold_form i F2 = k -> (o <= o2)%Q.
Proof. exact reported_least. Qed.
Goal True. idtac "ASSUME C03_cn_scores_least". Abort.
Print Assumptions C03_cn_scores_least.
Theorem C03_cn_yields_ordered : forall c i sc,
  StronglySorted le_obj (yields_of c i sc) /\ StronglySorted not_super (yields_of c i sc).
Proof. intros c i sc. split; [apply yields_sorted | apply yields_no_superset]. Qed.
Goal True. idtac "ASSUME C03_cn_yields_ordered". Abort.
Print Assumptions C03_cn_yields_ordered.

(* ---- cn_complete: a canonical form inside the gap contains a yielded form whose structure is reported with a score
        that is not larger; folding is monotone, so the reported structure is a sub-multiset ---- *)
Theorem C03_cn_complete : forall c i, consts_wf c = true -> hyps_ok i = true ->
  forall F, In F (candidates i) -> form_ok i (map fst F) = true -> bounds_ok i F = true -> in_gap c i (form_objective c i F) ->
  exists F0 o', In F0 (candidates i) /\ form_ok i (map fst F0) = true /\ bounds_ok i F0 = true /\
                incl (map fst F0) (map fst F) /\ In (fold_form i (map fst F0), o') (solve_cn c i) /\
                (o' <= form_objective c i F0)%Q /\ (form_objective c i F0 <= form_objective c i F)%Q.
Proof. exact solve_complete. Qed.
Goal True. idtac "ASSUME C03_cn_complete". Abort.
Print Assumptions C03_cn_complete.
Theorem C03_cn_fold_monotone : forall i (F0 F : list slot) n, NoDup F0 -> incl F0 F ->
  (length (filter (str_eqb n) (fold_form i F0)) <= length (filter (str_eqb n) (fold_form i F)))%nat.
Proof. exact fold_monotone. Qed.
Goal True. idtac "ASSUME C03_cn_fold_monotone". Abort.
Print Assumptions C03_cn_fold_monotone.

(* ---- the enumeration is complete: the three statements above over ALL feasible points of the ILP ---- *)
Theorem C03_cn_candidates_complete : forall c i a, feasible (gen c i) a ->
  exists F, In F (candidates i) /\ form_ok i (map fst F) = true /\ bounds_ok i F = true /\
            Permutation.Permutation (act_structs i a) F.
Proof. exact cn_candidates_complete. Qed.
Goal True. idtac "ASSUME C03_cn_candidates_complete". Abort.
Print Assumptions C03_cn_candidates_complete.
(* no feasible point of the ILP has an objective below the first reported score *)
Theorem C03_cn_optimal_abs : forall c i, consts_wf c = true -> hyps_ok i = true ->
  forall k o t, solve_cn c i = (k, o) :: t -> forall a, feasible (gen c i) a -> (o <= objective (gen c i) a)%Q.
Proof. exact solve_first_optimal_abs. Qed.
Goal True. idtac "ASSUME C03_cn_optimal_abs". Abort.
Print Assumptions C03_cn_optimal_abs.
(* every feasible point whose documented objective lies inside the gap contains a reported structure that scores no more *)
Theorem C03_cn_complete_abs : forall c i, consts_wf c = true -> hyps_ok i = true ->
  forall a, feasible (gen c i) a -> in_gap c i (form_objective c i (act_structs i a)) ->
  exists F0 o', In F0 (candidates i) /\ form_ok i (map fst F0) = true /\ bounds_ok i F0 = true /\
                incl (map fst F0) (act i a) /\ In (fold_form i (map fst F0), o') (solve_cn c i) /\
                (o' <= form_objective c i F0)%Q /\ (form_objective c i F0 <= form_objective c i (act_structs i a))%Q.
Proof. exact solve_complete_abs. Qed.
Goal True. idtac "ASSUME C03_cn_complete_abs". Abort.
Print Assumptions C03_cn_complete_abs.
(* a feasible ILP yields at least one reported structure *)
Theorem C03_cn_nonempty_abs : forall c i, consts_wf c = true -> hyps_ok i = true ->
  forall a, feasible (gen c i) a -> solve_cn c i <> [].
Proof. exact solve_nonempty_abs. Qed.
Goal True. idtac "ASSUME C03_cn_nonempty_abs". Abort.
Print Assumptions C03_cn_nonempty_abs.

(* ---- cn_user / cn_default ---- *)
Theorem C03_cn_user_verbatim : forall c e, e_user e <> [] -> (forall n, In n (e_user e) -> known e n = true) ->
  estimate_cn c e = Sols [(e_user e, 0%Q)].
Proof. exact user_verbatim. Qed.
Goal True. idtac "ASSUME C03_cn_user_verbatim". Abort.
Print Assumptions C03_cn_user_verbatim.
Theorem C03_cn_unknown_rejected : forall c e n, In n (e_user e) -> known e n = false ->
  exists m, estimate_cn c e = ErrUnknown m /\ In m (e_user e) /\ known e m = false.
Proof. exact user_unknown_rejected. Qed.
Goal True. idtac "ASSUME C03_cn_unknown_rejected". Abort.
Print Assumptions C03_cn_unknown_rejected.
Theorem C03_cn_default_copies : forall c e g rest, e_user e = [] -> e_do_cn e = false ->
  filter (fun g => is_default (cf_kind g)) (e_gene_configs e) = g :: rest ->
  estimate_cn c e = Sols [(repeat (cf_name g) (Z.to_nat (default_copies e)), 0%Q)] /\
  (default_copies e = if e_male e && (str_eqb (e_chr e) Xs || str_eqb (e_chr e) Ys) then 1 else 2).
Proof. exact default_copies_thm. Qed.
Goal True. idtac "ASSUME C03_cn_default_copies". Abort.
Print Assumptions C03_cn_default_copies.

(* ---- non-vacuity: a small gene with a pseudogene, a default, a fusion and a deletion configuration ---- *)
Definition ex_regions : list str := [s "e1"; s "e2"].
Definition ex_cn (g p : list Z) : cnvec := [combine ex_regions g; combine ex_regions p].
Definition ex_configs : list config :=
  [ {| cf_name := s "1"; cf_kind := CDefault; cf_cn := ex_cn [1; 1] [1; 1] |};
    {| cf_name := s "4"; cf_kind := CLeft; cf_cn := ex_cn [0; 1] [1; 0] |};
    {| cf_name := s "6"; cf_kind := CDeletion; cf_cn := ex_cn [0; 0] [1; 1] |} ].
Definition ex_par : cn_params :=
  {| p_cn_max := 20; p_cn_diff := 10; p_cn_fit := 1; p_cn_pce := 2; p_cn_pars := 1 # 2; p_fus_left := 1 # 2;
     p_fus_right := 1 # 4; p_gap := 3 # 10 |}.
Definition ex_inst : cn_inst :=
  {| i_gene_configs := ex_configs; i_ngenes := 2; i_unique := ex_regions; i_configs := ex_configs; i_max_cn := 4;
     i_cov := [(s "e1", (29 # 10, 21 # 10)%Q); (s "e2", (31 # 10, 19 # 10)%Q)]; i_fusion := None; i_par := ex_par |}.

Example C03_example_hyps : hyps_ok ex_inst = true.
Proof. vm_compute. reflexivity. Qed.
(* three copies of the default configuration are called first, then (gap 0.3) two copies *)
Example C03_example_solve : o_sols (solve_cn here ex_inst) =
  o_sols [([s "1"; s "1"; s "1"], (398171 # 63960)%Q); ([s "1"; s "1"], (46301 # 6396)%Q)].
Proof. vm_compute. reflexivity. Qed.
(* the hypotheses of the feasibility theorem are met: the model has a feasible point *)
Example C03_example_feasible : exists a, feasible (gen here ex_inst) a.
Proof.
  exists (canon_asg ex_inst (fun x => memb slot_eqb x [(s "1", 0); (s "1", -1); (s "1", 1)])).
  apply canon_feasible.
  - intros x H. unfold memb in H. apply existsb_exists in H as [y [Hy E]]. apply slot_eqb_eq in E. subst y.
    destruct Hy as [<-|[<-|[<-|[]]]]; vm_compute; tauto.
  - apply nodupb_NoDup. vm_compute. reflexivity.
  - vm_compute. reflexivity.
  - vm_compute. reflexivity.
Qed.

(* ================================================================= tie to the current source tree
   The decision expressions below are regenerated from /repo's Python AST on every run (harness/gen_exprs.py -> gen/Exprs_cn.v);
   each theorem says that the model's definition IS that expression, for all arguments.  A change of the expression in the code
   breaks the obligation even when no sampled input distinguishes old and new behaviour. *)
Theorem C03_tie_fusion_keep : forall i c f fs v, i_fusion i = Some (f :: fs) ->
  str_eqb (cf_name c) ONE = false -> is_del_name i (cf_name c) = false ->
  alookup str_eqb (cf_name c) (f :: fs) = Some v ->
  keep i c = cn_fusion_keep v (inZ (i_max_cn i)).
Proof. exact cn_fusion_keep_tied. Qed.
Goal True. idtac "ASSUME C03_tie_fusion_keep". Abort.
Print Assumptions C03_tie_fusion_keep.
