(* C19 — No genotype is reported from no data.
   Only statements here; proofs are in proofs/GuardsProofs.v.  Model: theories/Guards.v.
   [g_fixed] = the three repairs (average-depth guard does not need a neutral region; every error of a simple-format run
   leaves "sample<TAB>gene<TAB><NL>"); [g_shipped] = behaviour of the shipped tree.  [repaired v] = the three switches are off.
   A supplied structure has no neutral region in the implementation (profile "user_provided"), so the clauses below are
   stated for every evidence record, whatever its structure source. *)
From Aldy Require Import Base Consts Guards GuardsProofs Consts_here Consts_wf Exprs_guard Tied_guard Consts_here.
Open Scope Z_scope.

Theorem C19_consts_here_wf : consts_wf here = true.
Proof. exact here_wf. Qed.
Goal True. idtac "ASSUME C19_consts_here_wf". Abort.
Print Assumptions C19_consts_here_wf.

(* no reads in the locus (empty pileup table, or every total zero): error + empty result line; estimated AND supplied *)
Theorem C19_no_reads_no_call : forall c v ev, consts_wf c = true -> repaired v ->
  (0 < ev_min_avg ev)%Q -> zsum (ev_sites ev) = 0 ->
  exists e, guard c v ev = Error e (if ev_simple ev then EmptyLine else NotSimple).
Proof. exact no_reads_no_call. Qed.
Goal True. idtac "ASSUME C19_no_reads_no_call". Abort.
Print Assumptions C19_no_reads_no_call.

(* average depth over the covered positions below the configured minimum *)
Theorem C19_low_depth_no_call : forall c v ev, repaired v ->
  (avg_cov c (ev_sites ev) < ev_min_avg ev)%Q ->
  exists e, guard c v ev = Error e (if ev_simple ev then EmptyLine else NotSimple).
Proof. exact low_depth_no_call. Qed.
Goal True. idtac "ASSUME C19_low_depth_no_call". Abort.
Print Assumptions C19_low_depth_no_call.

(* in terms of depths: every covered position at depth <= d <= minimum is rejected (also at equality: the +eps) *)
Theorem C19_thin_reads_no_call : forall c v ev d, consts_wf c = true -> repaired v ->
  (0 < ev_min_avg ev)%Q -> (forall x, In x (ev_sites ev) -> x <= d) -> (inZ d <= ev_min_avg ev)%Q ->
  exists e, guard c v ev = Error e (if ev_simple ev then EmptyLine else NotSimple).
Proof. exact thin_reads_no_call. Qed.
Goal True. idtac "ASSUME C19_thin_reads_no_call". Abort.
Print Assumptions C19_thin_reads_no_call.

(* the comparison the code makes, without the division *)
Theorem C19_avg_lt_iff : forall c l m, consts_wf c = true ->
  ((avg_cov c l < m)%Q <-> (inZ (zsum l) < m * (inZ (Z.of_nat (length l)) + c_avg_cov_eps c))%Q).
Proof. exact avg_lt_iff. Qed.
Goal True. idtac "ASSUME C19_avg_lt_iff". Abort.
Print Assumptions C19_avg_lt_iff.

(* empty neutral region *)
Theorem C19_empty_neutral_no_call : forall c v ev n, late_header v = false ->
  ev_neutral ev = Some n -> n_in n = 0 ->
  guard c v ev = Error NeutralEmpty (if ev_simple ev then EmptyLine else NotSimple).
Proof. exact empty_neutral_no_call. Qed.
Goal True. idtac "ASSUME C19_empty_neutral_no_call". Abort.
Print Assumptions C19_empty_neutral_no_call.

(* with a neutral region (estimated structure) every variant, the shipped one included, ends in an error on low depth *)
Theorem C19_with_neutral_low_depth_is_error : forall c v ev n, ev_neutral ev = Some n ->
  (avg_cov c (ev_sites ev) < ev_min_avg ev)%Q -> exists e l, guard c v ev = Error e l.
Proof. exact with_neutral_low_depth_is_error. Qed.
Goal True. idtac "ASSUME C19_with_neutral_low_depth_is_error". Abort.
Print Assumptions C19_with_neutral_low_depth_is_error.

(* reads over the pseudogene only: no guard rejects the sample (that the structure then found is the whole-gene deletion
   is the copy-number stage's theorem, C03) *)
Theorem C19_pseudogene_only_is_not_rejected : forall c v ev n,
  ev_struct ev = Estimated -> ev_neutral ev = Some n ->
  sample_guard c v ev = None -> avg_guard c v ev = None ->
  (forall sp, In sp (ev_regions ev) -> (1 <= region_cov (ratio ev n) sp)%Q) ->
  ev_cn_min ev <= 2 * Z.of_nat (length (ev_regions ev)) ->
  guard c v ev = Proceed.
Proof. exact covered_pseudogene_proceeds. Qed.
Goal True. idtac "ASSUME C19_pseudogene_only_is_not_rejected". Abort.
Print Assumptions C19_pseudogene_only_is_not_rejected.

(* the boolean evaluated on the implementation's behaviour is the Prop above *)
Theorem C19_holds_no_call_iff : forall simple o,
  holds_no_call simple (observe o) = true <-> exists e, o = Error e (if simple then EmptyLine else NotSimple).
Proof. exact holds_no_call_iff. Qed.
Goal True. idtac "ASSUME C19_holds_no_call_iff". Abort.
Print Assumptions C19_holds_no_call_iff.

(* ---- the shipped switches do NOT satisfy the clauses ---- *)
Theorem C19_no_reads_supplied_refuted : forall c simple,
  guard c g_shipped (ev_supplied_no_reads simple) = Proceed /\
  ~ exists e, guard c g_shipped (ev_supplied_no_reads simple) = Error e (if simple then EmptyLine else NotSimple).
Proof. exact no_reads_supplied_refuted. Qed.
Goal True. idtac "ASSUME C19_no_reads_supplied_refuted". Abort.
Print Assumptions C19_no_reads_supplied_refuted.

Theorem C19_low_depth_supplied_refuted : forall c simple,
  guard c g_shipped (ev_supplied_thin simple) = Proceed /\
  ~ exists e, guard c g_shipped (ev_supplied_thin simple) = Error e (if simple then EmptyLine else NotSimple).
Proof. exact low_depth_supplied_refuted. Qed.
Goal True. idtac "ASSUME C19_low_depth_supplied_refuted". Abort.
Print Assumptions C19_low_depth_supplied_refuted.

Theorem C19_empty_neutral_line_refuted : forall c,
  guard c g_shipped ev_neutral_empty = Error NeutralEmpty NoLine /\
  ~ exists e, guard c g_shipped ev_neutral_empty = Error e EmptyLine.
Proof. exact empty_neutral_line_refuted. Qed.
Goal True. idtac "ASSUME C19_empty_neutral_line_refuted". Abort.
Print Assumptions C19_empty_neutral_line_refuted.

Theorem C19_cn_guard_line_refuted :
  guard here g_shipped ev_cn_low = Error CnLowDepth Unterminated /\
  ~ exists e, guard here g_shipped ev_cn_low = Error e EmptyLine.
Proof. exact cn_guard_line_refuted. Qed.
Goal True. idtac "ASSUME C19_cn_guard_line_refuted". Abort.
Print Assumptions C19_cn_guard_line_refuted.

(* non-vacuity *)
Example C19_fixed_rejects_witnesses :
  guard here g_fixed (ev_supplied_no_reads true) = Error LowAverage EmptyLine /\
  guard here g_fixed (ev_supplied_thin false) = Error LowAverage NotSimple /\
  guard here g_fixed ev_neutral_empty = Error NeutralEmpty EmptyLine /\
  guard here g_fixed ev_cn_low = Error CnLowDepth EmptyLine.
Proof. exact (conj fixed_rejects_supplied_no_reads (conj fixed_rejects_supplied_thin (conj fixed_neutral_empty_line fixed_cn_low_line))). Qed.
Example C19_good_sample_proceeds : guard here g_fixed ev_good = Proceed /\ guard here g_shipped ev_good = Proceed.
Proof. exact good_proceeds. Qed.
Example C19_pseudogene_only_proceeds : guard here g_shipped ev_pseudo_only = Proceed.
Proof. exact pseudo_only_proceeds. Qed.
Example C19_fixed_is_repaired : repaired g_fixed.
Proof. exact fixed_repaired. Qed.

(* ================================================================= tie to the current source tree
   The guard expressions below are regenerated from /repo's Python AST on every run (harness/gen_exprs.py -> gen/Exprs_guard.v);
   each theorem says that the model's definition IS that expression.  A change of a guard in the code breaks the obligation even
   when no sampled input distinguishes old and new behaviour. *)
Theorem C19_tie_avg_guard : forall c v ev,
  avg_guard c v ev =
  let applies := match ev_neutral ev with Some _ => true | None => negb (needs_neutral v) end in
  if applies && guard_avg (avg_cov c (ev_sites ev)) (ev_min_avg ev)
  then Some (Error LowAverage (line_of (ev_simple ev) true true)) else None.
Proof. exact guard_avg_tied. Qed.
Goal True. idtac "ASSUME C19_tie_avg_guard". Abort.
Print Assumptions C19_tie_avg_guard.

Theorem C19_tie_avg_cov : forall sites, (avg_cov here sites == guard_avg_cov (inZ (zsum sites)) (inZ (Z.of_nat (length sites))))%Q.
Proof. exact guard_avg_cov_tied. Qed.
Goal True. idtac "ASSUME C19_tie_avg_cov". Abort.
Print Assumptions C19_tie_avg_cov.

Theorem C19_tie_neutral_floor : forall x, Qltb x (c_neutral_floor here) = guard_neutral_thin x.
Proof. exact guard_neutral_thin_tied. Qed.
Goal True. idtac "ASSUME C19_tie_neutral_floor". Abort.
Print Assumptions C19_tie_neutral_floor.

Theorem C19_tie_diploid_avg : forall total s e, e <> s ->
  (guard_dip_avg (inZ total) (inZ s) (inZ e) == inZ total / inZ (Z.abs (e - s)))%Q.
Proof. exact guard_dip_avg_tied. Qed.
Goal True. idtac "ASSUME C19_tie_diploid_avg". Abort.
Print Assumptions C19_tie_diploid_avg.

Theorem C19_tie_cn_low_depth : forall v ev n, ev_struct ev = Estimated -> ev_neutral ev = Some n ->
  cn_guard v ev =
  if guard_cn_low (total_cov (ratio ev n) (ev_regions ev)) (inZ (ev_cn_min ev))
  then Error CnLowDepth (line_of (ev_simple ev) true (negb (cn_unterminated v))) else Proceed.
Proof. exact guard_cn_low_tied. Qed.
Goal True. idtac "ASSUME C19_tie_cn_low_depth". Abort.
Print Assumptions C19_tie_cn_low_depth.
