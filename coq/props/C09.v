(* C09 — the star-allele catalogue is a consistent, build-independent partition.
   Only statements here; proofs are in proofs/CatalogueProofs.v and proofs/CatalogueSplitProofs.v.  The model of the loader is Catalogue.load
   (theories/Catalogue.v: regions, routing of database entries, structural configurations, grouping, naming, partials,
   duplicate removal, alias table, back references), tied to aldy.gene.Gene by harness/c09.py on all 38 x 2 shipped and on
   generated databases.
   Proved for every database (no bound):
     C09_minor_distinct, C09_config_exists (+ the boolean clause p_config_exists), C09_names_unique, C09_partials_retained, C09_core_split (+ p_core_split: through
     grouping, naming, the partial alleles of every left fusion and duplicate removal) — about every catalogue [load] returns;
     C09_partition_partial / major-distinct at the grouping step, C09_alias_sound, C09_core_split_one_allele,
     C09_partial_content_partial — about the step of the construction that establishes the clause.
   NOT proved (checked by the decidable predicates p_partition, p_major_distinct, p_partial_content,
   p_build_independent on every shipped and generated catalogue, model's and implementation's):
     that renaming (unique prefix, label fallback, ':n') and partial construction keep majors distinct and names unique
     (needs the side condition that no database name contains ':' or '#'); reachability through get_allele;
     build independence. *)
From Coq Require Import String.
From Aldy Require Import Base Consts NatSort Coord Catalogue CatalogueProofs CatalogueSplitProofs.
From Coq Require Import Permutation.
Import List.
Open Scope Z_scope.

(* minor alleles of one major allele have pairwise different variant sets — every catalogue the loader returns *)
Theorem C09_minor_distinct : forall t al db c k a, load t al db = Some c -> In (k, a) (cat_alleles c) ->
  NoDup (map mi_muts (ma_minors a)).
Proof. exact load_minor_distinct. Qed.
Goal True. idtac "ASSUME C09_minor_distinct". Abort.
Print Assumptions C09_minor_distinct.

(* every allele's structural configuration exists (and lists the allele) *)
Theorem C09_config_exists : forall t al db c k a, load t al db = Some c -> In (k, a) (cat_alleles c) ->
  exists conf, alookup str_eqb (ma_cfg a) (cat_cfgs c) = Some conf /\ In (ma_name a) (cc_alleles conf).
Proof. exact load_config_exists. Qed.
Goal True. idtac "ASSUME C09_config_exists". Abort.
Print Assumptions C09_config_exists.

Theorem C09_p_config_exists : forall t al db c, load t al db = Some c -> p_config_exists c = true.
Proof. exact load_p_config_exists. Qed.
Goal True. idtac "ASSUME C09_p_config_exists". Abort.
Print Assumptions C09_p_config_exists.

(* grouping by (structure, core set) (gene.py:703-712): different groups have different (structure, core set);
   every database allele lands in the group of its own key and in no other group.  PARTIAL: what is missing for
   cat_partition / cat_major_distinct is that naming and partial construction preserve this. *)
Theorem C09_partition_partial : forall keyed : list (gkey * str), NoDup (map snd keyed) ->
  let g := fold_left (fun g x => gadd gkey_eqb (fst x) (snd x) g) keyed [] in
  NoDup (map fst g) /\
  Permutation (concat (map snd g)) (map snd keyed) /\
  (forall k n, In (k, n) keyed -> exists ns, In (k, ns) g /\ In n ns) /\
  (forall n k1 ns1 k2 ns2, In (k1, ns1) g -> In n ns1 -> In (k2, ns2) g -> In n ns2 -> k1 = k2 /\ ns1 = ns2).
Proof. exact allele_groups_partition. Qed.
Goal True. idtac "ASSUME C09_partition_partial". Abort.
Print Assumptions C09_partition_partial.

(* duplicate removal (gene.py:823-855): an alias points to a minor of the same major with the same variant set *)
Theorem C09_alias_sound : forall a x y, In (x, y) (snd (dedup_major a)) ->
  exists mx my, In mx (ma_minors a) /\ In my (ma_minors a) /\ mi_name mx = x /\ mi_name my = y /\ mi_muts mx = mi_muts my.
Proof. exact dedup_alias_sound. Qed.
Goal True. idtac "ASSUME C09_alias_sound". Abort.
Print Assumptions C09_alias_sound.

(* core = the annotated function-altering variants, minor-only = the others (gene.py:709-712,745): one allele at the grouping step *)
Theorem C09_core_split_one_allele : forall (muts : list (mkey * minfo9)) (all : list mut),
  let core := filter (is_functional muts) all in
  (forall x, In x core -> is_functional muts x = true /\ In x all) /\
  (forall x, In x (mset_diff all core) -> is_functional muts x = false /\ In x all) /\
  (forall x, In x all -> In x core \/ In x (mset_diff all core)).
Proof. exact core_split_partial. Qed.
Goal True. idtac "ASSUME C09_core_split_one_allele". Abort.
Print Assumptions C09_core_split_one_allele.

(* ... and for EVERY catalogue the loader returns, whatever the database: every variant of a major allele's core set is
   function-altering and no variant of any of its minor alleles is - for the catalogued alleles, the renamed ones, the partial
   alleles built for every left fusion (merged or new) and the survivors of duplicate removal *)
Theorem C09_core_split : forall t al db c, load t al db = Some c ->
  forall kv, In kv (cat_alleles c) ->
    (forall x, In x (ma_core (snd kv)) -> is_functional (cat_muts c) x = true) /\
    (forall m x, In m (ma_minors (snd kv)) -> In x (mi_muts m) -> is_functional (cat_muts c) x = false).
Proof. exact load_core_split. Qed.
Goal True. idtac "ASSUME C09_core_split". Abort.
Print Assumptions C09_core_split.

Theorem C09_p_core_split : forall t al db c, load t al db = Some c -> p_core_split c = true.
Proof. exact load_p_core_split. Qed.
Goal True. idtac "ASSUME C09_p_core_split". Abort.
Print Assumptions C09_p_core_split.

(* the dictionary of major alleles of every catalogue the loader returns: no name twice, and each entry is filed under its own
   name (the second and third conjunct of the decidable clause p_major_distinct; the first - two majors never share
   (structure, core set) - is NOT a theorem: known finding C09-partial-equals-catalogued-fusion) *)
Theorem C09_names_unique : forall t al db c, load t al db = Some c ->
  NoDup (map fst (cat_alleles c)) /\ forall kv, In kv (cat_alleles c) -> fst kv = ma_name (snd kv).
Proof. exact load_names_unique. Qed.
Goal True. idtac "ASSUME C09_names_unique". Abort.
Print Assumptions C09_names_unique.

(* partial alleles of a left fusion f (gene.py:765-817): minor f#x carries exactly the variants of x lying in regions whose
   copy number under f is positive. PARTIAL: the step that creates them (merging of equal partials and duplicate removal
   keep variant sets by C09_alias_sound) *)
Theorem C09_partial_content_partial : forall regs cfgs f a m, In m (partial_minors regs cfgs f a) ->
  exists sa, In sa (ma_minors a) /\ mi_name m = f ++ 35 :: mi_name sa /\
             forall x, In x (mi_muts m) <-> In x (mi_muts sa) /\ retained regs cfgs f x = true.
Proof. exact partial_content_partial. Qed.
Goal True. idtac "ASSUME C09_partial_content_partial". Abort.
Print Assumptions C09_partial_content_partial.

(* ... and for EVERY catalogue the loader returns: a major allele is either made of database alleles (no '#' in the name of any
   of its minor alleles) or - the partial alleles built for the left fusions, merged or new, after duplicate removal - every one
   of its variants, core and minor, lies in a region in which its own structural configuration has a positive copy number
   (the "only variants in regions the fusion retains" half of the clause; the other half, "all of the parent's variants there",
   is C09_partial_content_partial).  Side condition: no database allele name contains '#' (hash_free; evaluated by the harness) *)
Theorem C09_partials_retained : forall t al db c, load t al db = Some c -> hash_free db = true ->
  forall kv, In kv (cat_alleles c) ->
    (forall m, In m (ma_minors (snd kv)) -> has_char 35 (mi_name m) = false) \/
    ((forall x, In x (ma_core (snd kv)) -> retained (cat_regions c) (cat_cfgs c) (ma_cfg (snd kv)) x = true) /\
     (forall m x, In m (ma_minors (snd kv)) -> In x (mi_muts m) -> retained (cat_regions c) (cat_cfgs c) (ma_cfg (snd kv)) x = true)).
Proof. exact load_partials_retained. Qed.
Goal True. idtac "ASSUME C09_partials_retained". Abort.
Print Assumptions C09_partials_retained.

(* ---- non-vacuity: a database with a duplicate, a left fusion and a deletion loads, and every clause holds on it ---- *)
Definition ex_al : align := {| a_plus := true; a_len := 100; a_start := 1001; a_end := 1101; a_cigar := [(CM, 100)] |}.
Definition ex_db : rawdb := {|
  rd_name := s "T"; rd_genes := [s "T"; s "TP"];
  rd_regions := [(s "up", [1001; 1011; 901; 911]); (s "e1", [1011; 1031; 911; 931]); (s "e2", [1051; 1071; 951; 971]);
                 (s "down", [1071; 1101; 971; 1001])];
  rd_random := []; rd_groups := [];
  rd_alleles := [
    {| ra_key := s "T*1.001"; ra_label := Some (s "T*1"); ra_ignored := false; ra_entries := [] |};
    {| ra_key := s "T*1.002"; ra_label := None; ra_ignored := false; ra_entries := [(PInt 15, s "A>G", [Some (s "-")])] |};
    {| ra_key := s "T*2.001"; ra_label := None; ra_ignored := false; ra_entries := [(PInt 60, s "C>T", [Some (s "-"); Some (s "R1C")])] |};
    {| ra_key := s "T*2.002"; ra_label := None; ra_ignored := false; ra_entries := [(PInt 60, s "C>T", [Some (s "-"); Some (s "R1C")])] |};
    {| ra_key := s "T*3.001"; ra_label := None; ra_ignored := false;
       ra_entries := [(PInt 20, s "insTT", [Some (s "-"); Some (s "frameshift")]); (PInt 15, s "A>G", [])] |};
    {| ra_key := s "T*4.001"; ra_label := None; ra_ignored := false; ra_entries := [(PStr (s "TP"), s "i1-", [])] |};
    {| ra_key := s "T*5.001"; ra_label := None; ra_ignored := false; ra_entries := [(PStr (s "T"), s "deletion", [])] |}] |}.
Example C09_ex_hash_free : hash_free ex_db = true.
Proof. vm_compute. reflexivity. Qed.
Example C09_ex_loads :
  match load std_tab ex_al ex_db with
  | Some c => map ma_name (majors c) = [s "1"; s "2"; s "3"; s "5"; s "4#1"; s "4#2"]
              /\ cat_removed c = [(s "2.002", s "2.001")]
              /\ map fst (cat_cfgs c) = [s "1"; s "4"; s "5"]
              /\ get_allele c (s "2.002") = Some (s "2", s "2.001")
              /\ get_allele c (s "4.001") = None                       (* the bare left fusion is replaced by its partials *)
              /\ p_partition c [s "1.001"; s "1.002"; s "2.001"; s "2.002"; s "3.001"; s "5.001"] = true
              /\ p_major_distinct c = true /\ p_core_split c = true /\ p_minor_distinct c = true
              /\ p_config_exists c = true /\ p_partial_content c = true
  | None => False
  end.
Proof. vm_compute. repeat split; reflexivity. Qed.
