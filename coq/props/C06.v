(* C06 — Alignment evidence is a faithful pileup of the eligible reads.
   Only statements here; proofs are in proofs/PileupProofs.v and proofs/PileupMnpTableProofs.v; the model is theories/Pileup.v.
   Vocabulary: [spans r p] = p lies under an M/=/X/D run of r's alignment; [shows r p b] = an M/=/X run aligns query base b
   to p; [eligible g r] = sam.py's filter (has a CIGAR, not supplementary, no H, has a sequence, placed on the gene's
   chromosome, mapped flag, closed-interval test against the wide region); [sample_table g c rs] = Coverage._coverage of
   the read list rs; [multi_ops_ok] / [multi_free] = side conditions on the catalogued multi-substitutions. *)
From Coq Require Import String.
From Coq Require Import Permutation.
From Aldy Require Import Base Consts Pileup PileupProofs PileupMnpTableProofs Consts_here Consts_wf Exprs_region Tied_region InRegionProofs.
Import List.
Open Scope Z_scope.

Theorem C06_consts_here_wf : consts_wf here = true.
Proof. exact here_wf. Qed.
Goal True. idtac "ASSUME C06_consts_here_wf". Abort.
Print Assumptions C06_consts_here_wf.

(* ---- depth ---- *)
(* one read, any CIGAR, any lengths: exactly one non-insertion observation at p iff p lies under an M/=/X/D run;
   the statement is about the observations AFTER the multi-substitution merge *)
Theorem C06_depth_one_per_spanned_base : forall g c r p, multi_ops_ok g ->
  depth (read_obs g c r) p = if spans r p then 1 else 0.
Proof. exact depth_one_per_spanned_base. Qed.
Goal True. idtac "ASSUME C06_depth_one_per_spanned_base". Abort.
Print Assumptions C06_depth_one_per_spanned_base.

(* any number of reads: Coverage.total(p) = number of eligible reads spanning p *)
Theorem C06_depth_conservation : forall g c rs p, multi_ops_ok g ->
  cov_total_pos (sample_table g c rs) p = count (fun r => eligible g r && spans r p) rs.
Proof. exact depth_conservation. Qed.
Goal True. idtac "ASSUME C06_depth_conservation". Abort.
Print Assumptions C06_depth_conservation.

(* ---- substitution and reference counts, inside the RefSeq-mapped part ---- *)
(* at every position that is not part of a catalogued multi-substitution ([multi_free g x]); the positions of a
   multi-substitution are the subject of C06_mnp_counted_once / C06_mnp_table_count below *)
Theorem C06_subst_counts : forall g c rs indels x b,
  multi_ops_ok g -> multi_free g x -> in_gene g x = true -> b <> base g x ->
  alookup key_eqb (x, sub_op (base g x) b) indels = None -> alookup key_eqb (x, ref_op) indels = None ->
  cov_coverage (sample_table g c rs) indels (x, sub_op (base g x) b) = count (fun r => eligible g r && shows r x b) rs /\
  cov_coverage (sample_table g c rs) indels (x, ref_op) = count (fun r => eligible g r && shows r x (base g x)) rs.
Proof. exact subst_counts. Qed.
Goal True. idtac "ASSUME C06_subst_counts". Abort.
Print Assumptions C06_subst_counts.

(* ---- a complete catalogued multi-substitution is counted once, under that variant, at its first position ---- *)
(* [shows_all g c r m]: every component substitution of m is among the read's own observations (before the merge);
   [multi_wf g]: components well-formed and pairwise disjoint (Pileup.multi_wf, evaluated on every gene used) *)
Theorem C06_matched_iff_shows_all : forall g c r m, multi_wf1 m = true ->
  (matched (dump_of (read_events g c r)) m = true <-> shows_all g c r m).
Proof. exact matched_iff_shows_all. Qed.
Goal True. idtac "ASSUME C06_matched_iff_shows_all". Abort.
Print Assumptions C06_matched_iff_shows_all.

Theorem C06_mnp_counted_once : forall g c r m, multi_wf g = true -> In m (g_multi g) ->
  (shows_all g c r m ->
     kcount (read_obs g c r) (fst m, multi_op (fst (snd m)) (snd (snd m))) = 1 /\
     (forall ck, In ck (comps m) -> kcount (read_obs g c r) (snd ck) = 0) /\
     (forall ck, In ck (comps m) -> fst ck <> O -> kcount (read_obs g c r) (fst (snd ck), ref_op) = 1)) /\
  (~ shows_all g c r m -> kcount (read_obs g c r) (fst m, multi_op (fst (snd m)) (snd (snd m))) = 0).
Proof. exact mnp_counted_once. Qed.
Goal True. idtac "ASSUME C06_mnp_counted_once". Abort.
Print Assumptions C06_mnp_counted_once.

(* table level, for any read set: the count under m itself ... *)
Theorem C06_mnp_table_count : forall g c rs indels m, multi_wf g = true -> In m (g_multi g) -> in_bounds g (fst m) = true ->
  alookup key_eqb (fst m, multi_op (fst (snd m)) (snd (snd m))) indels = None ->
  cov_coverage (sample_table g c rs) indels (fst m, multi_op (fst (snd m)) (snd (snd m)))
  = count (fun r => eligible g r && shows_allb g c r m) rs.
Proof. exact mnp_table_count. Qed.
Goal True. idtac "ASSUME C06_mnp_table_count". Abort.
Print Assumptions C06_mnp_table_count.

(* ... the count under each of m's component substitutions (x, ref>b): the eligible reads that show b at x but NOT the whole of m
   (the ones that show all of m are counted once, under m) ... *)
Theorem C06_mnp_component_table_count : forall g c m ck b, multi_wf g = true -> In m (g_multi g) -> In ck (comps m) ->
  snd ck = (fst (snd ck), sub_op (base g (fst (snd ck))) b) -> in_gene g (fst (snd ck)) = true -> b <> base g (fst (snd ck)) ->
  forall rs indels, alookup key_eqb (snd ck) indels = None ->
  cov_coverage (sample_table g c rs) indels (snd ck)
  = count (fun r => eligible g r && (shows r (fst (snd ck)) b && negb (shows_allb g c r m))) rs.
Proof. exact mnp_component_table_count. Qed.
Goal True. idtac "ASSUME C06_mnp_component_table_count". Abort.
Print Assumptions C06_mnp_component_table_count.

(* ... and the reference count at each LATER position of m: the eligible reads that show the reference base there plus the ones
   that show all of m (sam.py re-appends m's later components as reference observations, so depth stays one per read and base) *)
Theorem C06_mnp_component_table_ref : forall g c m ck, multi_wf g = true -> In m (g_multi g) -> In ck (comps m) ->
  in_gene g (fst (snd ck)) = true ->
  forall rs indels, fst ck <> O -> alookup key_eqb (fst (snd ck), ref_op) indels = None ->
  cov_coverage (sample_table g c rs) indels (fst (snd ck), ref_op)
  = count (fun r => eligible g r && (shows r (fst (snd ck)) (base g (fst (snd ck))) || shows_allb g c r m)) rs.
Proof. exact mnp_component_table_ref. Qed.
Goal True. idtac "ASSUME C06_mnp_component_table_ref". Abort.
Print Assumptions C06_mnp_component_table_ref.

(* both component statements from ONE decidable condition on the gene view (PileupMnpTableProofs.multi_ref_ok: every component of
   every catalogued multi-substitution is a substitution of the gene's reference base, inside the gene; the harness evaluates it
   on every gene it uses and reports on how many it holds) *)
Theorem C06_mnp_component_counts : forall g c m ck rs indels, multi_wf g = true -> multi_ref_ok g = true ->
  In m (g_multi g) -> In ck (comps m) ->
  let x := fst (snd ck) in let b := nth (fst ck) (snd (snd m)) 0 in
  (alookup key_eqb (snd ck) indels = None ->
   cov_coverage (sample_table g c rs) indels (snd ck) = count (fun r => eligible g r && (shows r x b && negb (shows_allb g c r m))) rs) /\
  (fst ck <> O -> alookup key_eqb (x, ref_op) indels = None ->
   cov_coverage (sample_table g c rs) indels (x, ref_op) = count (fun r => eligible g r && (shows r x (base g x) || shows_allb g c r m)) rs).
Proof. exact mnp_component_counts. Qed.
Goal True. idtac "ASSUME C06_mnp_component_counts". Abort.
Print Assumptions C06_mnp_component_counts.

(* the RefSeq-mapped part lies inside the bounds used for folding foreign substitutions into "_" *)
Theorem C06_in_gene_in_bounds : forall g x, in_gene g x = true -> in_bounds g x = true.
Proof. exact in_gene_in_bounds. Qed.
Goal True. idtac "ASSUME C06_in_gene_in_bounds". Abort.
Print Assumptions C06_in_gene_in_bounds.

(* ---- ineligible reads ---- *)
Theorem C06_ineligible_contribute_nothing : forall g c rs1 r rs2, eligible g r = false ->
  pile g c (rs1 ++ r :: rs2) = pile g c (rs1 ++ rs2) /\
  sample_table g c (rs1 ++ r :: rs2) = sample_table g c (rs1 ++ rs2) /\
  phases g c (rs1 ++ r :: rs2) = phases g c (rs1 ++ rs2).
Proof. exact ineligible_contribute_nothing. Qed.
Goal True. idtac "ASSUME C06_ineligible_contribute_nothing". Abort.
Print Assumptions C06_ineligible_contribute_nothing.

(* unaligned (flag or no reference), supplementary, hard-clipped, sequence-less and CIGAR-less records are ineligible *)
Theorem C06_ineligible_kinds : forall g r,
  (r_funmap r = true \/ r_offtarget r = true \/ r_supp r = true \/ r_cigar r = [] \/ r_seq r = [] \/
   (exists n, In (CH, n) (r_cigar r))) -> eligible g r = false.
Proof. exact ineligible_kinds. Qed.
Goal True. idtac "ASSUME C06_ineligible_kinds". Abort.
Print Assumptions C06_ineligible_kinds.

(* ---- qualities ---- *)
Theorem C06_quality_mapq : forall g c r o, In o (raw_obs g c r) -> fst (snd o) = mapq_bin c r.
Proof. exact quality_mapq. Qed.
Goal True. idtac "ASSUME C06_quality_mapq". Abort.
Print Assumptions C06_quality_mapq.

Theorem C06_quality_aligned : forall g c r x j, aligned (r_cigar r) (r_start r) O x = Some j ->
  In ((x, classify g x (nth j (r_seq r) 78)), (mapq_bin c r, binq c (qual_at (r_qual r) prev_q0 j))) (raw_obs g c r).
Proof. exact quality_aligned. Qed.
Goal True. idtac "ASSUME C06_quality_aligned". Abort.
Print Assumptions C06_quality_aligned.

Theorem C06_quality_inserted : forall g c r pre n post, std_cigar pre = true -> r_cigar r = pre ++ (CI, n) :: post ->
  let k := len_of n in let qi := query_len pre in
  In ((r_start r + ref_len pre, ins_op (firstn k (skipn qi (r_seq r)))),
      (mapq_bin c r, binq c (match r_qual r with
                             | Some l => qmean (map inject_Z (firstn k (skipn qi l)))
                             | None => prev_q_after r pre end)))
     (raw_obs g c r).
Proof. exact quality_inserted. Qed.
Goal True. idtac "ASSUME C06_quality_inserted". Abort.
Print Assumptions C06_quality_inserted.

Theorem C06_quality_deleted : forall g c r pre n post i, std_cigar pre = true -> r_cigar r = pre ++ (CD, n) :: post ->
  (i < len_of n)%nat ->
  In ((r_start r + ref_len pre + Z.of_nat i, gap_op), (mapq_bin c r, binq c (prev_q_after r pre))) (raw_obs g c r).
Proof. exact quality_deleted. Qed.
Goal True. idtac "ASSUME C06_quality_deleted". Abort.
Print Assumptions C06_quality_deleted.

(* what "the previous quality" is: the last base of a match run, the mean of an insertion, unchanged by clips/deletions, 10 at the start *)
Theorem C06_prev_q : forall r pre,
  prev_q_after r [] = prev_q0 /\
  (forall o n l, std_cigar pre = true -> is_match o = true -> (0 < len_of n)%nat -> r_qual r = Some l ->
     prev_q_after r (pre ++ [(o, n)]) = inject_Z (nth (query_len pre + len_of n - 1) l 0)) /\
  (forall n l, std_cigar pre = true -> r_qual r = Some l ->
     prev_q_after r (pre ++ [(CI, n)]) = qmean (map inject_Z (firstn (len_of n) (skipn (query_len pre) l)))) /\
  (forall o n, o = CS \/ o = CD -> prev_q_after r (pre ++ [(o, n)]) = prev_q_after r pre).
Proof. exact prev_q_facts. Qed.
Goal True. idtac "ASSUME C06_prev_q". Abort.
Print Assumptions C06_prev_q.

(* one merge step: an observation is unchanged, or a later component re-added as reference with its own quality, or the
   merged observation at the first position whose qualities are the means of the components' qualities *)
Theorem C06_quality_merged : forall dump os m o, In o (merge_one dump os m) ->
  In o os
  \/ (exists o', In o' os /\ o = ((fst (fst o'), ref_op), snd o'))
  \/ (exists o' items, In o' os /\
        items = flat_map (fun ck => match find (fun o => key_eqb (fst o) (snd ck)) os with Some o => [snd o] | None => [] end) (comps m) /\
        o = ((fst (fst o'), multi_op (fst (snd m)) (snd (snd m))), (qmean (map fst items), qmean (map snd items)))).
Proof. exact quality_merged. Qed.
Goal True. idtac "ASSUME C06_quality_merged". Abort.
Print Assumptions C06_quality_merged.

(* ---- order ---- *)
Theorem C06_order_independent : forall g c rs rs', Permutation rs rs' ->
  (forall k, Permutation (cell_at (sample_table g c rs) k) (cell_at (sample_table g c rs') k)) /\
  (forall x, cov_total_pos (sample_table g c rs) x = cov_total_pos (sample_table g c rs') x) /\
  Permutation (pile g c rs) (pile g c rs').
Proof. exact order_independent. Qed.
Goal True. idtac "ASSUME C06_order_independent". Abort.
Print Assumptions C06_order_independent.

(* ---- how a match run is written ---- *)
Theorem C06_split_independent : forall g c r pre post o1 o2 o3 n1 n2,
  is_match o1 = true -> is_match o2 = true -> is_match o3 = true -> 0 <= n1 -> 0 <= n2 ->
  r_cigar r = pre ++ [(o1, n1); (o2, n2)] ++ post ->
  let r' := with_cigar r (pre ++ [(o3, n1 + n2)] ++ post) in
  parse_read g c r' = parse_read g c r /\ eligible g r' = eligible g r.
Proof. exact split_independent. Qed.
Goal True. idtac "ASSUME C06_split_independent". Abort.
Print Assumptions C06_split_independent.

Theorem C06_match_ops_equivalent : forall g c r pre post o1 o2 n,
  is_match o1 = true -> is_match o2 = true -> r_cigar r = pre ++ [(o1, n)] ++ post ->
  let r' := with_cigar r (pre ++ [(o2, n)] ++ post) in
  parse_read g c r' = parse_read g c r /\ eligible g r' = eligible g r.
Proof. exact match_ops_equivalent. Qed.
Goal True. idtac "ASSUME C06_match_ops_equivalent". Abort.
Print Assumptions C06_match_ops_equivalent.

Theorem C06_same_parse_same_sample : forall g c rs1 r r' rs2,
  parse_read g c r' = parse_read g c r -> eligible g r' = eligible g r -> r_name r' = r_name r ->
  sample_table g c (rs1 ++ r' :: rs2) = sample_table g c (rs1 ++ r :: rs2) /\
  phases g c (rs1 ++ r' :: rs2) = phases g c (rs1 ++ r :: rs2).
Proof. exact same_parse_same_sample. Qed.
Goal True. idtac "ASSUME C06_same_parse_same_sample". Abort.
Print Assumptions C06_same_parse_same_sample.

(* ---- phase records ---- *)
(* "covers" is read as: an aligned (M/=/X) base of the fragment lies on the site *)
Theorem C06_phase_sound : forall g c rs frag d k, alookup str_eqb frag (phases g c rs) = Some d -> In k d ->
  exists r, In r rs /\ eligible g r = true /\ r_name r = frag /\ In k (read_phase g c r) /\
            phaseable g (fst k) = true /\ (In k (map fst (raw_obs g c r)) \/ In k (dump_of (read_events g c r))).
Proof. exact phase_sound_shown. Qed.
Goal True. idtac "ASSUME C06_phase_sound". Abort.
Print Assumptions C06_phase_sound.

Theorem C06_phase_complete : forall g c rs r x j, In r rs -> eligible g r = true ->
  aligned (r_cigar r) (r_start r) O x = Some j -> phaseable g x = true ->
  exists d, alookup str_eqb (r_name r) (phases g c rs) = Some d /\ alookup Z.eqb x d <> None.
Proof. exact phase_complete. Qed.
Goal True. idtac "ASSUME C06_phase_complete". Abort.
Print Assumptions C06_phase_complete.

(* ---- the side conditions are decidable and follow from Pileup.multi_wf (evaluated by the harness on every gene used) ---- *)
Theorem C06_multi_wf_ops_ok : forall g, multi_wf g = true -> multi_ops_ok g.
Proof. exact multi_wf_ops_ok. Qed.
Goal True. idtac "ASSUME C06_multi_wf_ops_ok". Abort.
Print Assumptions C06_multi_wf_ops_ok.

(* ---- non-vacuity and computed instances ---- *)
(* gene view: lookup ACGTACGTACGT at 100..111, mapped 100..112, wide 90..120, sites 103 and 105, AC>GT catalogued at 104 *)
Definition ex_g : gview := {| g_lo := 100; g_seq := s "ACGTACGTACGT"; g_mapped := [(100, 112)]; g_wide := (90, 120);
  g_phaseable := [103; 104; 105]; g_multi := [(104, (s "AC", s "GT"))]; g_all_multi := [(104, (s "AC", s "GT"))]; g_has_indels := false |}.
(* read r1: start 102, 2M1I3M2D1M, bases GT A GTG . . G : shows the complete AC>GT at 104/105 (G and T) *)
Definition ex_r1 : read := mk_read (s "f1") 102 [(0, 2); (1, 1); (0, 3); (2, 2); (0, 1)] (s "GTAGTGG") (Some [30; 30; 12; 31; 20; 39; 2]) 60 false false false.
Definition ex_r2 : read := mk_read (s "f1") 104 [(4, 2); (7, 3)] (s "TTACG") None 7 false false false.
Definition ex_sup : read := mk_read (s "f2") 104 [(0, 3)] (s "ACG") None 60 false false true.

Example C06_example_wf : multi_wf ex_g = true /\ multi_ref_ok ex_g = true /\ eligible ex_g ex_r1 = true /\ eligible ex_g ex_r2 = true /\ eligible ex_g ex_sup = false.
Proof. vm_compute. repeat split. Qed.

(* the complete catalogued AC>GT is counted once, under that variant, at its first position; its second position is
   counted as reference; depth stays one per spanned base *)
Example C06_mnp_counted_once_example :
  kcount (read_obs ex_g here ex_r1) (104, s "AC>GT") = 1 /\
  kcount (read_obs ex_g here ex_r1) (104, s "A>G") = 0 /\ kcount (read_obs ex_g here ex_r1) (105, s "C>T") = 0 /\
  kcount (read_obs ex_g here ex_r1) (105, s "_") = 1 /\
  map (fun p => depth (read_obs ex_g here ex_r1) p) [101; 102; 103; 104; 105; 106; 107; 108; 109; 110] = [0; 1; 1; 1; 1; 1; 1; 1; 1; 0] /\
  kcount (read_obs ex_g here ex_r1) (104, s "insA") = 1.
Proof. vm_compute. repeat split. Qed.

(* the component theorems' premises hold for the second component (105, C>T) of the catalogued AC>GT, and both sides are 0 resp. 1 *)
Example C06_mnp_component_example :
  let ck := (1%nat, (105, s "C>T")) in let m := (104, (s "AC", s "GT")) in
  In m (g_multi ex_g) /\ In ck (comps m) /\ snd ck = (105, sub_op (base ex_g 105) 84) /\ in_gene ex_g 105 = true /\ 84 <> base ex_g 105 /\
  cov_coverage (sample_table ex_g here [ex_r1; ex_sup; ex_r2]) [] (105, s "C>T") = 0 /\
  cov_coverage (sample_table ex_g here [ex_r1; ex_sup; ex_r2]) [] (105, s "_") = 2.
Proof. vm_compute. repeat split; try (left; reflexivity); try (right; left; reflexivity); discriminate. Qed.

Example C06_table_example :
  map (fun p => cov_total_pos (sample_table ex_g here [ex_r1; ex_sup; ex_r2]) p) [103; 104; 105; 106; 107] = [1; 2; 2; 2; 1] /\
  cov_coverage (sample_table ex_g here [ex_r1; ex_sup; ex_r2]) [] (106, s "_") = 2.
Proof. vm_compute. repeat split. Qed.

(* ================================================================= tie to the current source tree
   The two interval tests below are regenerated from /repo's Python AST on every run (harness/gen_exprs.py -> gen/Exprs_region.v);
   each theorem says that the model's definition IS that expression. *)
Theorem C06_tie_in_region : forall g r, in_region g r =
  negb (r_offtarget r) && negb (r_funmap r) &&
  region_overlap (inZ (r_start r)) (inZ (ref_end r)) (inZ (fst (g_wide g))) (inZ (snd (g_wide g))).
Proof. exact region_overlap_tied. Qed.
Goal True. idtac "ASSUME C06_tie_in_region". Abort.
Print Assumptions C06_tie_in_region.

Theorem C06_tie_window : forall g ab t p, g_mapped g = ab :: t ->
  in_bounds g p = window_inside (inZ (fold_left Z.min (map fst t) (fst ab))) (inZ p) (inZ (fold_left Z.max (map snd t) (snd ab) - 1)).
Proof. exact window_inside_tied. Qed.
Goal True. idtac "ASSUME C06_tie_window". Abort.
Print Assumptions C06_tie_window.

(* ================================================================= sam._in_region in full (sam.py:1023-1033)
   The pileup model takes "the record lies on another contig" and "the record has no end" as flags of the read; this is the
   test that sets them: mapped to the contig named EXACTLY prefix + region.chr, an end is reported, the closed intervals meet. *)
Theorem C06_in_region_named_iff : forall prefix chr name unmapped st en b0 b1,
  in_region_named prefix chr name unmapped st en b0 b1 = true <->
  unmapped = false /\ name = prefix ++ chr /\ exists e, en = Some e /\ ((st <= b0 <= e) \/ (b0 <= st <= b1)).
Proof. exact in_region_named_iff. Qed.
Goal True. idtac "ASSUME C06_in_region_named_iff". Abort.
Print Assumptions C06_in_region_named_iff.

Theorem C06_longer_contig_names_rejected : forall prefix chr x y unmapped st en b0 b1, (x <> nil \/ y <> nil) ->
  in_region_named prefix chr (x ++ (prefix ++ chr) ++ y) unmapped st en b0 b1 = false.
Proof. exact longer_names_rejected. Qed.
Goal True. idtac "ASSUME C06_longer_contig_names_rejected". Abort.
Print Assumptions C06_longer_contig_names_rejected.

Theorem C06_pileup_in_region_is_named : forall g r prefix chr name,
  r_offtarget r = negb (str_eqb name (prefix ++ chr)) ->
  in_region g r = in_region_named prefix chr name false (r_start r) (if r_funmap r then None else Some (ref_end r))
                                  (fst (g_wide g)) (snd (g_wide g)).
Proof. exact pileup_in_region_is_named. Qed.
Goal True. idtac "ASSUME C06_pileup_in_region_is_named". Abort.
Print Assumptions C06_pileup_in_region_is_named.

Theorem C06_tie_meets : forall a0 a1 b0 b1, meets a0 a1 b0 b1 = region_overlap (inZ a0) (inZ a1) (inZ b0) (inZ b1).
Proof. exact meets_tied. Qed.
Goal True. idtac "ASSUME C06_tie_meets". Abort.
Print Assumptions C06_tie_meets.

(* common.chr_prefix: the contig name the loader looks for (prefix + chr) is a contig of the header whenever the header has the
   gene's contig under either spelling; the bare name is preferred *)
Theorem C06_chr_prefix_names_a_contig : forall ch chrs, In ch chrs \/ In (CHR ++ ch) chrs -> In (chr_prefix ch chrs ++ ch) chrs.
Proof. exact chr_prefix_names_a_contig. Qed.
Goal True. idtac "ASSUME C06_chr_prefix_names_a_contig". Abort.
Print Assumptions C06_chr_prefix_names_a_contig.

Theorem C06_chr_prefix_prefers_bare : forall ch chrs, In ch chrs -> chr_prefix ch chrs = nil.
Proof. exact chr_prefix_prefers_bare. Qed.
Goal True. idtac "ASSUME C06_chr_prefix_prefers_bare". Abort.
Print Assumptions C06_chr_prefix_prefers_bare.
