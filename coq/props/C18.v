(* C18 — Model parameters take the values the user gave, through every route.
   Only statements here; proofs are in proofs/ParamsProofs.v. *)
From Coq Require Import String.
From Aldy Require Import Base Consts Params ParamsProofs Consts_here Consts_wf.
Import List.
Open Scope Z_scope.

(* the literals of the current source tree are well-formed (regenerated on every run) *)
Theorem C18_consts_here_wf : consts_wf here = true.
Proof. exact here_wf. Qed.
Goal True. idtac "ASSUME C18_consts_here_wf". Abort.
Print Assumptions C18_consts_here_wf.

(* a parameter takes exactly the value its spelling denotes at the documented type; nothing else changes *)
Theorem C18_param_exact : forall d ps n cur v pv,
  alookup str_eqb n d = Some cur -> n <> s "cn_solution" -> v <> INone -> denotes cur v = Ok pv ->
  update Fixed d ps [(n, v)] = Ok (aset str_eqb n pv d, aset str_eqb n pv ps)
  /\ alookup str_eqb n (aset str_eqb n pv d) = Some pv
  /\ same_type cur pv = true
  /\ forall m, m <> n -> alookup str_eqb m (aset str_eqb n pv d) = alookup str_eqb m d.
Proof. exact update_one_exact. Qed.
Goal True. idtac "ASSUME C18_param_exact". Abort.
Print Assumptions C18_param_exact.

(* booleans: any letter case, 1/0, real booleans; everything else is rejected *)
Theorem C18_bool_case_insensitive : forall t u, lower t = lower u -> parse_bool Fixed (IStr t) = parse_bool Fixed (IStr u).
Proof. exact bool_case_insensitive. Qed.
Goal True. idtac "ASSUME C18_bool_case_insensitive". Abort.
Print Assumptions C18_bool_case_insensitive.

Theorem C18_bool_true : forall t, lower (strip t) = s "true" \/ strip t = s "1" -> parse_bool Fixed (IStr t) = Some true.
Proof. exact bool_true_spellings. Qed.
Goal True. idtac "ASSUME C18_bool_true". Abort.
Print Assumptions C18_bool_true.

Theorem C18_bool_false : forall t, lower (strip t) = s "false" \/ strip t = s "0" -> parse_bool Fixed (IStr t) = Some false.
Proof. exact bool_false_spellings. Qed.
Goal True. idtac "ASSUME C18_bool_false". Abort.
Print Assumptions C18_bool_false.

Theorem C18_bool_native : forall b, parse_bool Fixed (IBool b) = Some b.
Proof. exact bool_native. Qed.
Goal True. idtac "ASSUME C18_bool_native". Abort.
Print Assumptions C18_bool_native.

Theorem C18_bool_other_rejected : forall t,
  let l := lower (strip t) in l <> s "true" -> l <> s "1" -> l <> s "false" -> l <> s "0" -> parse_bool Fixed (IStr t) = None.
Proof. exact bool_other_rejected. Qed.
Goal True. idtac "ASSUME C18_bool_other_rejected". Abort.
Print Assumptions C18_bool_other_rejected.

(* unknown names and None values are ignored *)
Theorem C18_unknown_ignored : forall bv d ps n v rest,
  alookup str_eqb n d = None -> update bv d ps ((n, v) :: rest) = update bv d ps rest.
Proof. exact update_unknown_ignored. Qed.
Goal True. idtac "ASSUME C18_unknown_ignored". Abort.
Print Assumptions C18_unknown_ignored.

(* malformed values are rejected with an error naming the parameter *)
Theorem C18_malformed_rejected : forall d ps n cur v rest e,
  alookup str_eqb n d = Some cur -> n <> s "cn_solution" -> v <> INone -> denotes cur v = Err e ->
  update Fixed d ps ((n, v) :: rest) = Err n.
Proof. exact update_malformed_rejected. Qed.
Goal True. idtac "ASSUME C18_malformed_rejected". Abort.
Print Assumptions C18_malformed_rejected.

(* any number of parameters: keys that were not named keep their values; the key set never changes *)
Theorem C18_frame : forall bv kw d ps d' ps', update bv d ps kw = Ok (d', ps') ->
  forall m, (forall v, ~ In (m, v) kw) -> alookup str_eqb m d' = alookup str_eqb m d.
Proof. exact update_frame. Qed.
Goal True. idtac "ASSUME C18_frame". Abort.
Print Assumptions C18_frame.

Theorem C18_keys : forall bv kw d ps d' ps', update bv d ps kw = Ok (d', ps') -> map fst d' = map fst d.
Proof. exact update_keys. Qed.
Goal True. idtac "ASSUME C18_keys". Abort.
Print Assumptions C18_keys.

(* write-then-load: natively typed values (what a profile file's options section holds) are stored unchanged *)
Theorem C18_load_typed : forall ps d acc, typed_for d ps ->
  exists acc', update Fixed d acc (map (fun kv => (fst kv, native (snd kv))) ps) = Ok (assign d ps, acc').
Proof. exact update_typed. Qed.
Goal True. idtac "ASSUME C18_load_typed". Abort.
Print Assumptions C18_load_typed.

Theorem C18_write_load_one : forall d n cur v pv,
  alookup str_eqb n d = Some cur -> n <> s "cn_solution" -> v <> INone -> denotes cur v = Ok pv ->
  exists ps', update Fixed d [] [(n, native pv)] = Ok (aset str_eqb n pv d, ps').
Proof. exact write_load_one. Qed.
Goal True. idtac "ASSUME C18_write_load_one". Abort.
Print Assumptions C18_write_load_one.

(* the full round trip, any number of parameters: what the profile command writes under "options" (the natively typed
   values of a run of update on a keyword dictionary) loads back into exactly the dictionary the writer ended with *)
Theorem C18_write_options_then_load : forall c kw opts,
  write_options Fixed c kw = Ok opts ->
  exists d ps acc, update Fixed (c_params c) [] (mkdict kw) = Ok (d, ps) /\ update Fixed (c_params c) [] opts = Ok (d, acc).
Proof. exact write_options_then_load. Qed.
Goal True. idtac "ASSUME C18_write_options_then_load". Abort.
Print Assumptions C18_write_options_then_load.

(* numbers are parsed as numbers: the decimal text of any integer reads back as that integer *)
Theorem C18_int_text_roundtrip : forall z, parse_int (print_int z) = Some z.
Proof. exact parse_print_int. Qed.
Goal True. idtac "ASSUME C18_int_text_roundtrip". Abort.
Print Assumptions C18_int_text_roundtrip.

(* command line: k=v is split at the first '=', '-' in the key reads as '_' *)
Theorem C18_cli_split : forall k v, forallb (fun x => negb (x =? 61)) k = true ->
  split_param (k ++ 61 :: v) = Some (map (fun ch => if ch =? 45 then 95 else ch) k, v).
Proof. exact split_param_exact. Qed.
Goal True. idtac "ASSUME C18_cli_split". Abort.
Print Assumptions C18_cli_split.

Theorem C18_cli_rejects : forall t, forallb (fun x => negb (x =? 61)) t = true -> split_param t = None.
Proof. exact split_param_rejects. Qed.
Goal True. idtac "ASSUME C18_cli_rejects". Abort.
Print Assumptions C18_cli_rejects.

(* the boolean reading `not (v in ["False","0"])` (variant AsShipped) does NOT satisfy the statement *)
Theorem C18_as_shipped_refuted :
  parse_bool AsShipped (IStr (s "false")) = Some true /\
  parse_bool AsShipped (IStr (s "FALSE")) = Some true /\
  parse_bool AsShipped (IBool false) = Some true /\
  parse_bool AsShipped (IInt 0) = Some true /\
  parse_bool AsShipped (IStr (s "abc")) = Some true.
Proof. exact as_shipped_refuted. Qed.
Goal True. idtac "ASSUME C18_as_shipped_refuted". Abort.
Print Assumptions C18_as_shipped_refuted.
