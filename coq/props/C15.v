(* C15 — Calls are backed by high-quality reads; low-quality reads are ignored.
   Only statements here; proofs are in proofs/FilterProofs.v and proofs/MajorProofs.v.
   The minor stage has its own model elsewhere (C04); here its evidence filter (minor.py:57-74) is covered, and the stage itself
   is checked metamorphically on the implementation by harness/c15.py. *)
From Aldy Require Import Base Consts Lp Filter MajorModel MajorSpec FilterProofs MajorProofs Exprs_cov Tied_cov Tied_cov_major.
Open Scope Z_scope.

(* 1. observations below either threshold ([lowq]: base quality < min_quality or mapping quality < min_mapq) do not count:
   appended, inserted anywhere, or — as the relation [obs_sim] — inserted, removed and altered in any number *)
Theorem C15_quality_filter_app : forall p e low, Forall (lowq p) low -> quality_filter p (e ++ low) = quality_filter p e.
Proof. exact quality_filter_app. Qed.
Goal True. idtac "ASSUME C15_quality_filter_app". Abort.
Print Assumptions C15_quality_filter_app.

Theorem C15_quality_filter_insert : forall p l1 low l2, Forall (lowq p) low -> quality_filter p (l1 ++ low ++ l2) = quality_filter p (l1 ++ l2).
Proof. exact quality_filter_insert. Qed.
Goal True. idtac "ASSUME C15_quality_filter_insert". Abort.
Print Assumptions C15_quality_filter_insert.

Theorem C15_quality_filter_sim : forall p l l', obs_sim p l l' -> quality_filter p l = quality_filter p l'.
Proof. exact obs_sim_filter. Qed.
Goal True. idtac "ASSUME C15_quality_filter_sim". Abort.
Print Assumptions C15_quality_filter_sim.

Theorem C15_quality_filter_keeps_good_only : forall p l, Forall (fun o => q_ok p o = true) (quality_filter p l).
Proof. exact quality_filter_only_good. Qed.
Goal True. idtac "ASSUME C15_quality_filter_keeps_good_only". Abort.
Print Assumptions C15_quality_filter_keeps_good_only.

(* 2. whole tables ([tab_sim]: at every site, in every cell, sub-threshold observations inserted / removed / altered; cells and
   sites holding only such observations appear or disappear): the quality-filtered evidence is the same, hence the two-step
   filtered evidence of the major and of the minor stage.  The indel table is not quality filtered by aldy (the thresholds
   are passed to the realigner), so the statement quantifies over the per-base table only. *)
Theorem C15_filtered_ignores_lowq : forall p c t', tab_sim p (cv_tab c) t' -> filtered_q p (with_tab c t') = filtered_q p c.
Proof. exact filtered_q_lowq. Qed.
Goal True. idtac "ASSUME C15_filtered_ignores_lowq". Abort.
Print Assumptions C15_filtered_ignores_lowq.

Theorem C15_major_filter_ignores_lowq : forall p pcn c t', tab_sim p (cv_tab c) t' -> major_cov p pcn (with_tab c t') = major_cov p pcn c.
Proof. exact major_cov_lowq. Qed.
Goal True. idtac "ASSUME C15_major_filter_ignores_lowq". Abort.
Print Assumptions C15_major_filter_ignores_lowq.

Theorem C15_minor_filter_ignores_lowq : forall p pcn allowed c t', tab_sim p (cv_tab c) t' -> minor_cov p pcn allowed (with_tab c t') = minor_cov p pcn allowed c.
Proof. exact minor_cov_lowq. Qed.
Goal True. idtac "ASSUME C15_minor_filter_ignores_lowq". Abort.
Print Assumptions C15_minor_filter_ignores_lowq.

(* 3. hence the major stage: candidates, observed core variants, the ILP, every admissible combination with its score, and what is reported *)
Theorem C15_major_ignores_lowq : forall (c : consts) (I : inst) t', tab_sim (i_par I) (cv_tab (i_cover I)) t' ->
  candidates (set_tab I t') = candidates I /\ func_muts (set_tab I t') = func_muts I /\
  gen c (set_tab I t') = gen c I /\ all_combs c (set_tab I t') = all_combs c I /\ run c (set_tab I t') = run c I.
Proof. exact major_ignores_lowq. Qed.
Goal True. idtac "ASSUME C15_major_ignores_lowq". Abort.
Print Assumptions C15_major_ignores_lowq.

(* 4. every core variant of every allele that can be called, every variant that can be flagged novel, ... is supported *)
Theorem C15_called_core_supported : forall (I : inst), inst_wf I = true -> forall al m,
  In al (candidates I) -> In m (a_muts al) -> supported (i_par I) (pcn I) (i_cover I) m = true.
Proof. exact called_core_supported. Qed.
Goal True. idtac "ASSUME C15_called_core_supported". Abort.
Print Assumptions C15_called_core_supported.

Theorem C15_novel_supported : forall (I : inst), inst_wf I = true -> forall m,
  In m (func_muts I) -> supported (i_par I) (pcn I) (i_cover I) m = true.
Proof. exact novel_supported. Qed.
Goal True. idtac "ASSUME C15_novel_supported". Abort.
Print Assumptions C15_novel_supported.

Theorem C15_reported_supported : forall (c : consts) (I : inst), inst_wf I = true -> forall x must,
  In (x, must) (run c I) ->
  (forall nm k, In (nm, k) (snd (fst x)) -> exists al, In al (candidates I) /\ a_name al = nm /\
      forall m, In m (a_muts al) -> supported (i_par I) (pcn I) (i_cover I) m = true) /\
  (forall m, In m (snd x) -> supported (i_par I) (pcn I) (i_cover I) m = true).
Proof. exact run_uses_supported. Qed.
Goal True. idtac "ASSUME C15_reported_supported". Abort.
Print Assumptions C15_reported_supported.

(*    ... and every variant with any evidence left for the minor stage (the only ones a refined allele can keep or add: CNOCOV) is supported *)
Theorem C15_carried_supported : forall p pcn allowed c m, table_wf (cv_tab c) = true ->
  0 < coverage (minor_cov p pcn allowed c) m ->
  supported p pcn c m = true /\ coverage (minor_cov p pcn allowed c) m = coverage (filtered_q p c) m.
Proof. exact minor_cov_supported. Qed.
Goal True. idtac "ASSUME C15_carried_supported". Abort.
Print Assumptions C15_carried_supported.

(*    where supported = at least min_coverage qualifying reads, at least threshold/cn_max and threshold/(copy number at the site + 1/2)
   of the qualifying reads at the site ... *)
Theorem C15_supported_means : forall p pcn c m, supported p pcn c m = true ->
  let q := filtered_q p c in
  0 < coverage q m /\
  (p_min_coverage p <= inZ (coverage q m))%Q /\
  (inZ (total q m) * (p_threshold p / cn_or1 (p_cn_max p)) <= inZ (coverage q m))%Q /\
  (is_ref (snd m) = false -> (inZ (total q m) * (p_threshold p / cn_or1 (pcn (fst m) + (1 # 2))) <= inZ (coverage q m))%Q).
Proof. exact supported_spec. Qed.
Goal True. idtac "ASSUME C15_supported_means". Abort.
Print Assumptions C15_supported_means.

(*    ... and the count is the number of observations that meet both quality thresholds (variants outside the realigner's indel table) *)
Theorem C15_count_is_qualifying_reads : forall p c m, table_wf (cv_tab c) = true -> ind_get c m = None ->
  coverage (filtered_q p c) m = Z.of_nat (length (quality_filter p (tab_cell (cv_tab c) m))).
Proof. exact filtered_q_count. Qed.
Goal True. idtac "ASSUME C15_count_is_qualifying_reads". Abort.
Print Assumptions C15_count_is_qualifying_reads.

(* 5. an allele one of whose core variants has no qualifying support is never a candidate, hence never called *)
Theorem C15_unsupported_never_candidate : forall (I : inst), inst_wf I = true -> forall al m,
  In m (a_muts al) -> coverage (filtered_q (i_par I) (i_cover I)) m <= 0 -> ~ In al (candidates I).
Proof. exact unsupported_never_candidate. Qed.
Goal True. idtac "ASSUME C15_unsupported_never_candidate". Abort.
Print Assumptions C15_unsupported_never_candidate.

(* ---- non-vacuity: a table and a perturbation of it by sub-threshold observations at three sites ---- *)
Definition ex_par : fparams :=
  {| p_min_quality := 10; p_min_mapq := 10; p_min_coverage := 2; p_threshold := (1 # 2); p_cn_max := 20 |}.
Definition AG : str := [65; 62; 71].
Definition t0 : table := [(100, [([95], [(60, 40); (60, 40); (60, 3)]); (AG, [(60, 40); (60, 40)])])].
Definition t1 : table :=
  [(90, [([95], [(0, 40)])]);                                                      (* a new site with one unmapped-quality read *)
   (100, [([95], [(60, 40); (5, 40); (60, 40)]);                                   (* one removed (60,3), one inserted (5,40) *)
          ([65; 62; 67], [(60, 2); (60, 9)]);                                      (* a new cell A>C of base quality < 10 only *)
          (AG, [(60, 9); (60, 40); (60, 40)])])].                                  (* one inserted *)
Example C15_ex_sim : tab_sim ex_par t0 t1.
Proof.
  assert (L : forall o, (inZ (snd o) < 10)%Q \/ (inZ (fst o) < 10)%Q -> lowq ex_par o) by (intros o H; exact H).
  unfold t0, t1. apply ts_ins.
  - apply cs_del; [|constructor]. constructor; [|constructor]. apply L. right. reflexivity.
  - apply ts_pos; [|constructor].
    apply cs_cell.
    + apply os_keep. apply os_ins; [apply L; right; reflexivity|]. apply os_keep. apply os_del; [apply L; left; reflexivity|]. constructor.
    + apply cs_ins.
      * constructor; [apply L; left; reflexivity|]. constructor; [apply L; left; reflexivity | constructor].
      * apply cs_cell; [|constructor]. apply os_ins; [apply L; left; reflexivity|]. apply obs_sim_refl.
Qed.
Example C15_ex_filtered : fq_tab ex_par t1 = [(100, [([95], [(60, 40); (60, 40)]); (AG, [(60, 40); (60, 40)])])] /\ fq_tab ex_par t0 = fq_tab ex_par t1.
Proof. vm_compute. split; reflexivity. Qed.
(* a supported and an unsupported variant: 2 qualifying A>G reads of 4 at a two-copy site pass; the A>C cell has no qualifying read *)
Example C15_ex_supported :
  let c := {| cv_tab := t1; cv_ind := [] |} in
  supported ex_par (fun _ => 2%Q) c (100, AG) = true /\ supported ex_par (fun _ => 2%Q) c (100, [65; 62; 67]) = false /\
  coverage (filtered_q ex_par c) (100, [65; 62; 67]) = 0.
Proof. vm_compute. repeat split; reflexivity. Qed.

(* ================================================================= tie to the current source tree
   The decision expressions below are regenerated from /repo's Python AST on every run (harness/gen_exprs.py -> gen/Exprs_cov.v);
   each theorem says that the model's definition IS that expression, for all arguments.  A change of the expression in the code
   breaks the obligation even when no sampled input distinguishes old and new behaviour. *)
Theorem C15_tie_quality_filter : forall p o, q_ok p o = qual_keep (inZ (fst o)) (inZ (snd o)) (p_min_quality p) (p_min_mapq p).
Proof. exact qual_keep_tied. Qed.
Goal True. idtac "ASSUME C15_tie_quality_filter". Abort.
Print Assumptions C15_tie_quality_filter.

Theorem C15_tie_basic_filter : forall p c m cn,
  basic_filter p c m cn =
  basic_pass (inZ (coverage c m)) (basic_min_cov (p_min_coverage p) (inZ (total c m)) (basic_thres 0 cn (p_threshold p))).
Proof. exact basic_filter_tied. Qed.
Goal True. idtac "ASSUME C15_tie_basic_filter". Abort.
Print Assumptions C15_tie_basic_filter.

Theorem C15_tie_single_copy : forall I cv m,
  (single_copy_cv I cv m == if single_copy_zero (pcn I (fst m)) then 0%Q else single_copy_val (inZ (total cv m)) (pcn I (fst m)))%Q.
Proof. exact single_copy_major_tied. Qed.
Goal True. idtac "ASSUME C15_tie_single_copy". Abort.
Print Assumptions C15_tie_single_copy.
