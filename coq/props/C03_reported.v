(* C03 (continued) — what model.solutions(profile.gap) yields on the ILP of solve_cn_model.
   Composition of proofs/CnProofs.v and proofs/CnCompleteProofs.v with the enumeration loop of property C05 (theories/Enum.v,
   proofs/EnumProofs.v), relative to the solver contract of C05, which appears as explicit premises:
     [solver_ok]: on the model and on every model obtained from it by exclusion cuts, the solver answers Infeasible only if
                  there is no feasible point, and an answer Optimal o p is a feasible point p of objective o that no feasible
                  point undercuts;   [answers]: it never gives up (status other than optimal/infeasible).
   The theorems of props/C03.v speak about CnSpec.solve_cn (the specification's own enumeration) and about all feasible points
   of the ILP; these speak about the loop the code runs.  Only statements here; proofs are in proofs/CnEnumProofs.v. *)
From Coq Require Import Permutation.
From Aldy Require Import Base Consts Lp Enum CnModel CnSpec CnProofs CnCompleteProofs EnumProofs CnEnumProofs.
From Aldy Require CnRefSolverProofs Consts_here C03.
Open Scope Z_scope.

(* every yield is a feasible point - so every structural clause of C03 (two complete configurations, a second copy only with a
   first, extras and PSEUDO slots as prefixes, a double deletion alone: C03_cn_* over feasible points) holds of it -, it is one
   of the enumerated canonical forms up to order, the yielded active set is the set of its slots, and the yielded objective is
   exactly the documented objective (depth-fit + gene-fit + parsimony) of the form it activates *)
Theorem C03_reported_sound : forall (c : consts) (i : cn_inst), hyps_ok i = true ->
  forall solve : Z -> lp -> sres,
  (forall cuts, cuts_ok (gen c i) cuts -> solver_ok solve (with_cuts (gen c i) cuts)) ->
  forall r, solutions c solve (p_gap (i_par i)) None (gen c i) = Some r ->
  forall y, In y r ->
    feasible (gen c i) (asg_of (y_point y)) /\ form_ok i (act i (asg_of (y_point y))) = true /\
    bounds_ok i (act_structs i (asg_of (y_point y))) = true /\
    (exists F, In F (candidates i) /\ Permutation (act_structs i (asg_of (y_point y))) F) /\
    y_active y = map vcn (act i (asg_of (y_point y))) /\
    (y_obj y == form_objective c i (act_structs i (asg_of (y_point y))))%Q.
Proof. exact cn_reported_sound. Qed.
Goal True. idtac "ASSUME C03_reported_sound". Abort.
Print Assumptions C03_reported_sound.

(* the first yield is optimal: no feasible point and no admissible form (any choice b of slots that is form_ok and within the
   error bounds) has a smaller objective *)
Theorem C03_reported_first_optimal : forall (c : consts) (i : cn_inst), hyps_ok i = true ->
  forall solve : Z -> lp -> sres,
  (forall cuts, cuts_ok (gen c i) cuts -> solver_ok solve (with_cuts (gen c i) cuts)) ->
  forall r, solutions c solve (p_gap (i_par i)) None (gen c i) = Some r ->
  forall y rest, r = y :: rest ->
    (forall a, feasible (gen c i) a -> (y_obj y <= objective (gen c i) a)%Q) /\
    (forall b : slot -> bool, (forall x, b x = true -> In x (slots i)) -> form_ok i (filter b (slots i)) = true ->
       bounds_ok i (chosen i b) = true -> (y_obj y <= form_objective c i (chosen i b))%Q).
Proof. exact cn_reported_first_optimal. Qed.
Goal True. idtac "ASSUME C03_reported_first_optimal". Abort.
Print Assumptions C03_reported_first_optimal.

(* everything yielded lies below (1 + gap) * best + SOLVER_PRECISON *)
Theorem C03_reported_within_gap : forall (c : consts) (i : cn_inst), consts_wf c = true ->
  forall solve : Z -> lp -> sres,
  forall r, solutions c solve (p_gap (i_par i)) None (gen c i) = Some r ->
  forall y rest, r = y :: rest ->
    Forall (fun y' => (y_obj y' < (1 + p_gap (i_par i)) * y_obj y + c_solver_precision c)%Q) r.
Proof. exact cn_reported_within_gap. Qed.
Goal True. idtac "ASSUME C03_reported_within_gap". Abort.
Print Assumptions C03_reported_within_gap.

(* best first; no yielded form contains an earlier one; nothing is yielded twice *)
Theorem C03_reported_ordered : forall (c : consts) (i : cn_inst),
  forall solve : Z -> lp -> sres,
  (forall cuts, cuts_ok (gen c i) cuts -> solver_ok solve (with_cuts (gen c i) cuts)) ->
  forall r, solutions c solve (p_gap (i_par i)) None (gen c i) = Some r ->
    ForallOrdPairs (fun x y => (y_obj x <= y_obj y)%Q) r /\
    ForallOrdPairs (fun x y => ~ incl (act i (asg_of (y_point x))) (act i (asg_of (y_point y)))) r /\ NoDup (map y_active r).
Proof. exact cn_reported_ordered. Qed.
Goal True. idtac "ASSUME C03_reported_ordered". Abort.
Print Assumptions C03_reported_ordered.

(* complete up to containment: an admissible form whose documented objective lies inside the gap of every admissible form
   contains a yielded form that scores no more ("an admissible within-gap structure that is not reported always contains a
   reported structure that scores no worse") *)
Theorem C03_reported_complete : forall (c : consts) (i : cn_inst), hyps_ok i = true ->
  forall solve : Z -> lp -> sres,
  (forall cuts, cuts_ok (gen c i) cuts -> solver_ok solve (with_cuts (gen c i) cuts)) ->
  forall r, solutions c solve (p_gap (i_par i)) None (gen c i) = Some r ->
  (forall cuts it, cuts_ok (gen c i) cuts -> solve it (with_cuts (gen c i) cuts) <> NotOptimal) ->
  forall b : slot -> bool, (forall x, b x = true -> In x (slots i)) ->
    form_ok i (filter b (slots i)) = true -> bounds_ok i (chosen i b) = true ->
    (forall b' : slot -> bool, (forall x, b' x = true -> In x (slots i)) -> form_ok i (filter b' (slots i)) = true ->
       bounds_ok i (chosen i b') = true ->
       (form_objective c i (chosen i b) <= (1 + p_gap (i_par i)) * form_objective c i (chosen i b'))%Q) ->
    exists y, In y r /\ incl (act i (asg_of (y_point y))) (filter b (slots i)) /\ (y_obj y <= form_objective c i (chosen i b))%Q.
Proof. exact cn_reported_complete. Qed.
Goal True. idtac "ASSUME C03_reported_complete". Abort.
Print Assumptions C03_reported_complete.

(* ---- the premises can be met: a reference solver (search over the sub-lists of the slots, each completed to its canonical
        point; proofs/CnRefSolverProofs.v) satisfies the contract on the copy-number ILP and on every model obtained from it by
        exclusion cuts, and always answers.  [closedb]: every variable a row or the objective mentions is declared, no integer
        variable (decidable; holds for the example instance of props/C03.v) ---- *)
Theorem C03_reported_premises_satisfiable : forall (c : consts) (i : cn_inst), hyps_ok i = true ->
  CnRefSolverProofs.closedb (gen c i) = true ->
  exists solve : Z -> lp -> sres,
    (forall cuts, cuts_ok (gen c i) cuts -> solver_ok solve (with_cuts (gen c i) cuts)) /\
    (forall cuts it, cuts_ok (gen c i) cuts -> solve it (with_cuts (gen c i) cuts) <> NotOptimal).
Proof. exact CnRefSolverProofs.reported_premises_satisfiable. Qed.
Goal True. idtac "ASSUME C03_reported_premises_satisfiable". Abort.
Print Assumptions C03_reported_premises_satisfiable.

Example C03_reported_example : hyps_ok C03.ex_inst = true /\ CnRefSolverProofs.closedb (gen Consts_here.here C03.ex_inst) = true.
Proof. vm_compute. split; reflexivity. Qed.
