(* C07 — Copy-number signal is depth-normalised: a two-copy reference reads as 2.0.
   Only statements here; proofs are in proofs/NormProofs.v; the model is theories/Norm.v
   (coverage.py:_normalize_coverage, profile.py:get_sam_profile_data, sam.py:_load_cn_region).
   Values are exact rationals; [nres_eq] compares results with Qeq on the values.

   "The reported gene structure does not depend on the sequencing depth": in the model the structure stage takes the normalised
   vector as its input; written in lowest terms ([canon]) that vector is THE SAME DATA for a sample sequenced k times deeper, so
   every function of it agrees (C07_structure_depth_independent; spelled out for CnSpec.solve_cn in C07_cn_stage_depth_independent).
   Not covered by that: _filter_configs, which uses the ABSOLUTE parameter min_coverage (DESIGN.md, C07), and double rounding. *)
From Aldy Require Import Base Consts Norm NormProofs NormCanonProofs Exprs_norm Tied_norm NormClipProofs.
From Aldy Require CnModel CnSpec.
Open Scope Z_scope.

(* every count multiplied by k > 0: every normalised region value is unchanged *)
Theorem C07_norm_scale_invariant : forall nv regions cn k dg dn, 0 < k ->
  nres_eq (normalize nv regions cn (scale k dg) (scale k dn)) (normalize nv regions cn dg dn).
Proof. exact scale_invariant. Qed.
Goal True. idtac "ASSUME C07_norm_scale_invariant". Abort.
Print Assumptions C07_norm_scale_invariant.

(* every read duplicated k times *)
Theorem C07_norm_dup_invariant : forall nv regions cn k rg rn, (0 < k)%nat ->
  nres_eq (normalize nv regions cn (pileup (dup k rg)) (pileup (dup k rn))) (normalize nv regions cn (pileup rg) (pileup rn)).
Proof. exact dup_invariant. Qed.
Goal True. idtac "ASSUME C07_norm_dup_invariant". Abort.
Print Assumptions C07_norm_dup_invariant.

(* only the gene reads multiplied: linear *)
Theorem C07_norm_gene_linear : forall nv regions cn k dg dn,
  match normalize nv regions cn (scale k dg) dn, normalize nv regions cn dg dn with
  | NOk l1, NOk l2 => Forall2 (fun a b => fst a = fst b /\ (snd a == inZ k * snd b)%Q) l1 l2
  | NNeutralEmpty, NNeutralEmpty => True
  | NBadProfile, NBadProfile => True
  | _, _ => False
  end.
Proof. exact gene_linear. Qed.
Goal True. idtac "ASSUME C07_norm_gene_linear". Abort.
Print Assumptions C07_norm_gene_linear.
Theorem C07_norm_dup_gene_linear : forall nv regions cn k rg rn,
  match normalize nv regions cn (pileup (dup k rg)) (pileup rn), normalize nv regions cn (pileup rg) (pileup rn) with
  | NOk l1, NOk l2 => Forall2 (fun a b => fst a = fst b /\ (snd a == inZ (Z.of_nat k) * snd b)%Q) l1 l2
  | NNeutralEmpty, NNeutralEmpty => True
  | NBadProfile, NBadProfile => True
  | _, _ => False
  end.
Proof. exact dup_gene_linear. Qed.
Goal True. idtac "ASSUME C07_norm_dup_gene_linear". Abort.
Print Assumptions C07_norm_dup_gene_linear.

(* the sample is the profile's sample and all its reads are eligible (its pileups agree with the profile's on every region
   and on the neutral region): every region the profile covers reads exactly 2, every other region 0 *)
Theorem C07_norm_self_is_two : forall regions cn dp dg dn,
  (forall r, In r regions -> range_sum dg (nr_start r) (nr_end r) = range_sum dp (nr_start r) (nr_end r)) ->
  range_sum dn (fst cn) (snd cn) = range_sum dp (fst cn) (snd cn) ->
  range_sum dp (fst cn) (snd cn) <> 0 ->
  exists l, normalize_against regions cn dp dg dn = NOk l /\
            Forall2 (fun r e => fst e = (nr_gene r, nr_name r) /\
                                (if range_sum dp (nr_start r) (nr_end r) =? 0 then (snd e == 0)%Q else (snd e == 2)%Q)) regions l.
Proof. exact self_is_two. Qed.
Goal True. idtac "ASSUME C07_norm_self_is_two". Abort.
Print Assumptions C07_norm_self_is_two.

(* a sample without reads in the neutral region is rejected; a sample is normalised iff it has such reads and the
   profile's neutral value is not zero *)
Theorem C07_norm_rejects_empty : forall nv regions cn dg dn,
  range_sum dn (fst cn) (snd cn) = 0 -> normalize nv regions cn dg dn = NNeutralEmpty.
Proof. exact norm_rejects_empty_thm. Qed.
Goal True. idtac "ASSUME C07_norm_rejects_empty". Abort.
Print Assumptions C07_norm_rejects_empty.
Theorem C07_norm_ok_iff : forall nv regions cn dg dn,
  (exists l, normalize nv regions cn dg dn = NOk l) <-> (range_sum dn (fst cn) (snd cn) <> 0 /\ ~ (nv == 0)%Q).
Proof. exact norm_ok_iff. Qed.
Goal True. idtac "ASSUME C07_norm_ok_iff". Abort.
Print Assumptions C07_norm_ok_iff.

(* ---- non-vacuity: three reads (one with a deletion and an insertion) over a region [10,20) and a neutral region [40,50) ---- *)
Definition ex_reads : list read :=
  [ {| rd_start := 8; rd_cigar := [(0, 6); (2, 2); (0, 5)] |};
    {| rd_start := 12; rd_cigar := [(4, 3); (0, 4); (1, 2); (0, 6)] |};
    {| rd_start := 38; rd_cigar := [(0, 10)] |} ].
Definition ex_regions : list nregion := [ {| nr_gene := 0; nr_name := [101; 49]; nr_start := 10; nr_end := 20 |};
                                          {| nr_gene := 1; nr_name := [101; 49]; nr_start := 25; nr_end := 30 |} ].
Example C07_example_profile : o_profile (profile_of ex_regions (40, 50) (pileup ex_reads)) =
  OL [o_q 8; OL [OL [OZ 0; o_str [101; 49]; o_q 18]; OL [OZ 1; o_str [101; 49]; o_q 0]]].
Proof. vm_compute. reflexivity. Qed.
Example C07_example_self : o_nres (normalize_against ex_regions (40, 50) (pileup ex_reads) (pileup ex_reads) (pileup ex_reads)) =
  OL [OZ 0; OL [OL [OZ 0; o_str [101; 49]; o_q 2]; OL [OZ 1; o_str [101; 49]; o_q 0]]].
Proof. vm_compute. reflexivity. Qed.
Example C07_example_empty : normalize 8 [] (60, 70) (pileup ex_reads) (pileup ex_reads) = NNeutralEmpty.
Proof. vm_compute. reflexivity. Qed.

(* ---- consequently: the structure stage ---- *)
Theorem C07_canon_is_the_value : forall r, nres_eq (canon r) r.
Proof. exact canon_sound. Qed.
Goal True. idtac "ASSUME C07_canon_is_the_value". Abort.
Print Assumptions C07_canon_is_the_value.

Theorem C07_structure_depth_independent : forall (T : Type) (F : nres -> T) nv regions cn k rg rn, (0 < k)%nat ->
  F (canon (normalize nv regions cn (pileup (dup k rg)) (pileup (dup k rn)))) = F (canon (normalize nv regions cn (pileup rg) (pileup rn))).
Proof. exact @structure_depth_independent. Qed.
Goal True. idtac "ASSUME C07_structure_depth_independent". Abort.
Print Assumptions C07_structure_depth_independent.

Theorem C07_cn_stage_depth_independent : forall c i names nv regions cn k rg rn, (0 < k)%nat ->
  CnSpec.solve_cn c (with_cov i (region_cov_of names (canon (normalize nv regions cn (pileup (dup k rg)) (pileup (dup k rn)))))) =
  CnSpec.solve_cn c (with_cov i (region_cov_of names (canon (normalize nv regions cn (pileup rg) (pileup rn))))).
Proof. exact cn_stage_depth_independent. Qed.
Goal True. idtac "ASSUME C07_cn_stage_depth_independent". Abort.
Print Assumptions C07_cn_stage_depth_independent.

(* ================================================================= tie to the current source tree
   The decision expressions below are regenerated from /repo's Python AST on every run (harness/gen_exprs.py -> gen/Exprs_norm.v);
   each theorem says that the model's definition IS that expression, for all arguments.  A change of the expression in the code
   breaks the obligation even when no sampled input distinguishes old and new behaviour. *)
Theorem C07_tie_region_value : forall ratio s pd,
  (region_value ratio s pd == let p := (pd / norm_profile_div)%Q in if Qeqb p 0 then 0%Q else norm_region ratio (inZ s) p)%Q.
Proof. exact norm_region_tied. Qed.
Goal True. idtac "ASSUME C07_tie_region_value". Abort.
Print Assumptions C07_tie_region_value.

Theorem C07_tie_ratio : forall nv regions cn dg dn, range_sum dn (fst cn) (snd cn) <> 0%Z ->
  Qeqb (norm_ratio nv (inZ (range_sum dn (fst cn) (snd cn)))) 0 = false ->
  normalize nv regions cn dg dn =
  NOk (map (fun rp => ((nr_gene (fst rp), nr_name (fst rp)),
                       region_value (norm_ratio nv (inZ (range_sum dn (fst cn) (snd cn))))
                                    (range_sum dg (nr_start (fst rp)) (nr_end (fst rp))) (snd rp))) regions).
Proof. exact norm_ratio_tied. Qed.
Goal True. idtac "ASSUME C07_tie_ratio". Abort.
Print Assumptions C07_tie_ratio.

(* ================================================================= clipped records
   Operations that neither count nor advance (S, H, I, P: every code outside M/=/X/D) do not influence the depth tables: a read
   contributes the same positions with or without them, wherever they stand in its CIGAR - so a hard-clipped record in the neutral
   region counts like any aligned read, for all read lists. *)
Theorem C07_pileup_ignores_clips : forall reads, pileup (map strip_read reads) = pileup reads.
Proof. exact pileup_strip. Qed.
Goal True. idtac "ASSUME C07_pileup_ignores_clips". Abort.
Print Assumptions C07_pileup_ignores_clips.

Theorem C07_walk_same_counted : forall cg1 cg2 start, strip cg1 = strip cg2 -> walk start cg1 = walk start cg2.
Proof. exact walk_same_counted. Qed.
Goal True. idtac "ASSUME C07_walk_same_counted". Abort.
Print Assumptions C07_walk_same_counted.

Theorem C07_normalize_ignores_clips : forall nv regions cn rg rn,
  normalize nv regions cn (pileup (map strip_read rg)) (pileup (map strip_read rn)) = normalize nv regions cn (pileup rg) (pileup rn).
Proof. exact normalize_strip. Qed.
Goal True. idtac "ASSUME C07_normalize_ignores_clips". Abort.
Print Assumptions C07_normalize_ignores_clips.
