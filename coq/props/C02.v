(* C02 — Major star-allele calls are consistent, optimal and complete.
   Only statements here; proofs are in proofs/MajorProofs.v (and proofs/FilterProofs.v).
   [gen c I] is the ILP of solve_major_model for the instance I (aldy's Gene/Coverage/structure) and the literals c;
   all statements hold for any number of alleles, variants, copies and configurations.
   The link to what estimate_major returns — the stream of model.solutions(gap) on this ILP is exactly the set of admissible
   combinations within the gap, each once, each with its score — is in props/C02_reported.v (composition with the enumeration
   loop of C05, relative to the solver contract); the de-duplication by (alleles, novel) in major.py:215 never drops anything
   (C02_reported_once).  Every generated case is in addition compared with MajorSpec.run by the harness. *)
From Aldy Require Import Base Consts Lp Filter MajorModel MajorSpec FilterProofs MajorProofs Consts_here Consts_wf Exprs_cov Tied_cov Tied_cov_major.
Open Scope Z_scope.

(* the literals of the current source tree are well-formed (regenerated on every run) *)
Theorem C02_consts_here_wf : consts_wf here = true.
Proof. exact here_wf. Qed.
Goal True. idtac "ASSUME C02_consts_here_wf". Abort.
Print Assumptions C02_consts_here_wf.

(* 1. every feasible point of the generated ILP gives each structural configuration exactly as many selected allele copies
   as the structure has ([cnt_of_asg] = sum of the copy selectors of an allele); any number of alleles, copies, configurations *)
Theorem C02_copies_per_config : forall (c : consts) (I : inst) (a : asg),
  feasible (gen c I) a -> forall cfg cnt, In (cfg, cnt) (i_struct I) ->
  (qsum (map (fun al => if str_eqb (a_cfg al) cfg then cnt_of_asg (i_struct I) a al else 0) (candidates I)) == inZ cnt)%Q.
Proof. exact (fun c I a F => copies_per_config_alleles (candidates I) (i_struct I) (func_muts I) (obs_cn I) (hascov I) (i_major_novel I) (c_major_novel_unit c) a F). Qed.
Goal True. idtac "ASSUME C02_copies_per_config". Abort.
Print Assumptions C02_copies_per_config.

(* 2. every observed core variant is accounted for exactly once: novel(m) = 1 and no selected copy carries m, or novel(m) = 0 and
   some selected copy carries it — never both, never neither ([carr_sel m] = the copy selectors of the candidates carrying m) *)
Theorem C02_carried_xor_novel : forall (c : consts) (I : inst) (a : asg),
  feasible (gen c I) a -> forall m, In m (func_muts I) ->
  ((a (kN m) == 1)%Q /\ (forall sl, In sl (carr_sel (candidates I) (i_struct I) m) -> (a (vA sl) == 0)%Q)) \/
  ((a (kN m) == 0)%Q /\ exists sl, In sl (carr_sel (candidates I) (i_struct I) m) /\ (a (vA sl) == 1)%Q).
Proof. exact (fun c I a F => novel_xor_carried (candidates I) (i_struct I) (func_muts I) (obs_cn I) (hascov I) (i_major_novel I) (c_major_novel_unit c) a F). Qed.
Goal True. idtac "ASSUME C02_carried_xor_novel". Abort.
Print Assumptions C02_carried_xor_novel.

(*    ... and every core variant of an allele that can be called is one of the observed core variants the clause ranges over *)
Theorem C02_called_variants_observed : forall (I : inst), inst_wf I = true ->
  forall al m, In al (candidates I) -> In m (a_muts al) -> In m (func_muts I).
Proof. exact cand_muts_observed. Qed.
Goal True. idtac "ASSUME C02_called_variants_observed". Abort.
Print Assumptions C02_called_variants_observed.

(*    ... at most one novel non-insertion per site *)
Theorem C02_one_novel_per_site : forall (c : consts) (I : inst) (a : asg), inst_wf I = true ->
  feasible (gen c I) a -> forall m1 m2, In m1 (func_muts I) -> In m2 (func_muts I) -> fst m1 = fst m2 ->
  is_ins (snd m1) = false -> is_ins (snd m2) = false -> (a (kN m1) == 1)%Q -> (a (kN m2) == 1)%Q -> m1 = m2.
Proof. exact (fun c I a W F m1 m2 => one_novel_per_site (candidates I) (i_struct I) (func_muts I) (obs_cn I) (hascov I) (i_major_novel I) (c_major_novel_unit c) a F m1 m2 (fm_nodup I W)). Qed.
Goal True. idtac "ASSUME C02_one_novel_per_site". Abort.
Print Assumptions C02_one_novel_per_site.

(* 3. objective identity. For fixed binaries the objective is at least MajorSpec.score of the combination they encode
   (fit error over every observed core variant and every reference site + major_novel*[some novel] + unit*#novel) ... *)
Theorem C02_objective_lower_bound : forall (c : consts) (I : inst) (a : asg), feasible (gen c I) a ->
  (score (candidates I) (func_muts I) (obs_cn I) (hascov I) (i_major_novel I) (c_major_novel_unit c)
         (cnt_of_asg (i_struct I) a) (nov_of_asg a) <= objective (gen c I) a)%Q.
Proof. exact (fun c I a F => objective_ge_score (candidates I) (i_struct I) (func_muts I) (obs_cn I) (hascov I) (i_major_novel I) (c_major_novel_unit c) a F). Qed.
Goal True. idtac "ASSUME C02_objective_lower_bound". Abort.
Print Assumptions C02_objective_lower_bound.

(*    ... with equality exactly at the points whose abssum helpers are tight ... *)
Theorem C02_objective_tight : forall (c : consts) (I : inst) (a : asg), feasible (gen c I) a ->
  (forall e, In e (errs (func_muts I)) -> (a (abs_key e) == Qabs' (a e))%Q) ->
  (objective (gen c I) a == score (candidates I) (func_muts I) (obs_cn I) (hascov I) (i_major_novel I) (c_major_novel_unit c)
                                  (cnt_of_asg (i_struct I) a) (nov_of_asg a))%Q.
Proof. exact (fun c I a F => objective_eq_score (candidates I) (i_struct I) (func_muts I) (obs_cn I) (hascov I) (i_major_novel I) (c_major_novel_unit c) a F). Qed.
Goal True. idtac "ASSUME C02_objective_tight". Abort.
Print Assumptions C02_objective_tight.

(*    ... and the bound is attained: 4. (feasible_iff, <-) every admissible combination extends to a feasible point that encodes
   it (selectors in prefix form) and whose objective equals its score *)
Theorem C02_feasible_of_admissible : forall (c : consts) (I : inst), inst_wf I = true -> forall counts novel,
  admissible (candidates I) (i_struct I) (func_muts I) counts novel = true ->
  exists a, feasible (gen c I) a /\
            (forall al, In al (candidates I) -> (cnt_of_asg (i_struct I) a al == cnt_of counts al)%Q) /\
            (forall m, nov_of_asg a m = nov_of novel m) /\
            (objective (gen c I) a == score (candidates I) (func_muts I) (obs_cn I) (hascov I) (i_major_novel I) (c_major_novel_unit c)
                                            (cnt_of counts) (nov_of novel))%Q.
Proof. exact major_admissible_feasible. Qed.
Goal True. idtac "ASSUME C02_feasible_of_admissible". Abort.
Print Assumptions C02_feasible_of_admissible.

(*    (feasible_iff, ->) the binaries of every feasible point encode an admissible combination scoring no more than the point *)
Theorem C02_admissible_of_feasible : forall (c : consts) (I : inst), inst_wf I = true -> forall a, feasible (gen c I) a ->
  admissible (candidates I) (i_struct I) (func_muts I) (counts_of_asg (candidates I) (i_struct I) a) (novel_of_asg (func_muts I) a) = true /\
  (score (candidates I) (func_muts I) (obs_cn I) (hascov I) (i_major_novel I) (c_major_novel_unit c)
         (cnt_of (counts_of_asg (candidates I) (i_struct I) a)) (nov_of (novel_of_asg (func_muts I) a)) <= objective (gen c I) a)%Q.
Proof. exact major_feasible_admissible. Qed.
Goal True. idtac "ASSUME C02_admissible_of_feasible". Abort.
Print Assumptions C02_admissible_of_feasible.

(* 5. the specification enumerates exactly the admissible combinations, each with its score (including the early exit) ... *)
Theorem C02_enumeration_sound : forall (c : consts) (I : inst), inst_wf I = true -> forall s counts nv,
  In (s, counts, nv) (all_combs c I) ->
  admissible (candidates I) (i_struct I) (func_muts I) counts nv = true /\ map fst counts = map a_name (candidates I) /\
  s = score (candidates I) (func_muts I) (obs_cn I) (hascov I) (i_major_novel I) (c_major_novel_unit c) (cnt_of counts) (nov_of nv).
Proof. exact all_combs_sound. Qed.
Goal True. idtac "ASSUME C02_enumeration_sound". Abort.
Print Assumptions C02_enumeration_sound.

Theorem C02_enumeration_complete : forall (c : consts) (I : inst), inst_wf I = true -> forall counts novel,
  admissible (candidates I) (i_struct I) (func_muts I) counts novel = true -> map fst counts = map a_name (candidates I) ->
  In (score (candidates I) (func_muts I) (obs_cn I) (hascov I) (i_major_novel I) (c_major_novel_unit c) (cnt_of counts) (nov_of novel),
      counts, uncarried (candidates I) (func_muts I) counts) (all_combs c I) /\
  (forall m, nov_of novel m = nov_of (uncarried (candidates I) (func_muts I) counts) m).
Proof. exact all_combs_complete. Qed.
Goal True. idtac "ASSUME C02_enumeration_complete". Abort.
Print Assumptions C02_enumeration_complete.

Theorem C02_early_exit_loses_nothing : forall (I : inst), inst_wf I = true -> forall counts novel,
  early_exit I = true -> admissible (candidates I) (i_struct I) (func_muts I) counts novel = false.
Proof. exact early_exit_none. Qed.
Goal True. idtac "ASSUME C02_early_exit_loses_nothing". Abort.
Print Assumptions C02_early_exit_loses_nothing.

(*    ... and what has to be reported is every one of them below the gap threshold (1+gap)*best + SOLVER_PRECISON, where best is
   the minimum over all admissible combinations: no admissible combination scores lower, none within the gap is missing *)
Theorem C02_run_optimal_complete : forall (c : consts) (I : inst) x must,
  In (x, must) (run c I) <->
  In x (all_combs c I) /\
  exists best, qmin (map sc (all_combs c I)) = Some best /\
               Qltb (sc x) (threshold c I best + band) = true /\ must = Qltb (sc x) (threshold c I best - band).
Proof. exact run_spec. Qed.
Goal True. idtac "ASSUME C02_run_optimal_complete". Abort.
Print Assumptions C02_run_optimal_complete.

Theorem C02_best_is_minimum : forall (c : consts) (I : inst) best, qmin (map sc (all_combs c I)) = Some best ->
  (forall x, In x (all_combs c I) -> (best <= sc x)%Q) /\ exists x, In x (all_combs c I) /\ sc x = best.
Proof. exact best_is_minimum. Qed.
Goal True. idtac "ASSUME C02_best_is_minimum". Abort.
Print Assumptions C02_best_is_minimum.

(* 6. noise-free evidence ([planted_ok]: the filtered evidence shows every observed core variant and every reference site with
   exactly the planted number of copies; evaluated on every planted case by the harness): the planted combination is
   admissible with score 0 and is a feasible point of objective 0 ... *)
Theorem C02_noise_free : forall (c : consts) (I : inst), inst_wf I = true -> forall counts,
  forallb (fun b : bool => b) (planted_ok c I counts) = true ->
  admissible (candidates I) (i_struct I) (func_muts I) counts [] = true /\
  (score (candidates I) (func_muts I) (obs_cn I) (hascov I) (i_major_novel I) (c_major_novel_unit c) (cnt_of counts) (nov_of []) == 0)%Q /\
  exists a, feasible (gen c I) a /\ (objective (gen c I) a == 0)%Q /\
            (forall al, In al (candidates I) -> (cnt_of_asg (i_struct I) a al == cnt_of counts al)%Q) /\ (forall m, a (kN m) = 0%Q).
Proof. exact major_noise_free. Qed.
Goal True. idtac "ASSUME C02_noise_free". Abort.
Print Assumptions C02_noise_free.

(*    ... which is the optimum, since no point scores below 0 ... *)
Theorem C02_objective_nonneg : forall (c : consts) (I : inst) a, consts_wf c = true -> (0 <= i_major_novel I)%Q ->
  feasible (gen c I) a -> (0 <= objective (gen c I) a)%Q.
Proof. exact (fun c I a => major_objective_nonneg c I a). Qed.
Goal True. idtac "ASSUME C02_objective_nonneg". Abort.
Print Assumptions C02_objective_nonneg.

(*    ... and every point of objective 0 flags nothing novel and carries each observed core variant with exactly the observed
   (= planted) multiplicity *)
Theorem C02_zero_objective_multiplicity : forall (c : consts) (I : inst) a, consts_wf c = true -> (0 <= i_major_novel I)%Q ->
  feasible (gen c I) a -> (objective (gen c I) a == 0)%Q ->
  forall m, In m (func_muts I) ->
    (a (kN m) == 0)%Q /\ (carriers (candidates I) (cnt_of_asg (i_struct I) a) m == obs_cn I m)%Q.
Proof. exact (fun c I a => major_zero_objective c I a). Qed.
Goal True. idtac "ASSUME C02_zero_objective_multiplicity". Abort.
Print Assumptions C02_zero_objective_multiplicity.

(* 7. the binaries of a feasible point are determined by its allele counts: selectors are in prefix form, and two feasible
   points with the same counts agree on every binary variable, so they have the same active set — the set solutions() yields
   and cuts on.  With feasible_iff this makes active sets and admissible combinations correspond one to one: an exclusion
   cut removes exactly one combination, and no combination is yielded twice. *)
Theorem C02_selectors_prefix : forall (c : consts) (I : inst) (a : asg), feasible (gen c I) a ->
  forall al j, In al (candidates I) -> (j < ncopies (i_struct I) al)%nat ->
  (a (kA (a_name al) (Z.of_nat j)) == if Z.of_nat j <? zcount (i_struct I) a al then 1 else 0)%Q.
Proof. exact (fun c I a => selectors_prefix (candidates I) (i_struct I) (func_muts I) (obs_cn I) (hascov I) (i_major_novel I) (c_major_novel_unit c) a). Qed.
Goal True. idtac "ASSUME C02_selectors_prefix". Abort.
Print Assumptions C02_selectors_prefix.

Theorem C02_binaries_determined : forall (c : consts) (I : inst) (a b : asg),
  feasible (gen c I) a -> feasible (gen c I) b ->
  (forall al, In al (candidates I) -> zcount (i_struct I) a al = zcount (i_struct I) b al) ->
  (forall k, In k (binaries (gen c I)) -> (a k == b k)%Q) /\ active (gen c I) a = active (gen c I) b.
Proof.
  exact (fun c I a b Fa Fb H => conj
    (binaries_determined (candidates I) (i_struct I) (func_muts I) (obs_cn I) (hascov I) (i_major_novel I) (c_major_novel_unit c) a b Fa Fb H)
    (active_determined (candidates I) (i_struct I) (func_muts I) (obs_cn I) (hascov I) (i_major_novel I) (c_major_novel_unit c) a b Fa Fb H)).
Qed.
Goal True. idtac "ASSUME C02_binaries_determined". Abort.
Print Assumptions C02_binaries_determined.

(* ---- the hypotheses are satisfiable: a 3-allele, 2-copy instance; allele 1 = [49], allele 2 = [50] carries 100.A>G, allele 3 = [51] carries 200.C>T ---- *)
Definition AG : str := [65; 62; 71].
Definition CT : str := [67; 62; 84].
Definition ex_par : fparams :=
  {| p_min_quality := 10; p_min_mapq := 10; p_min_coverage := 2; p_threshold := (1 # 2); p_cn_max := 20 |}.
Definition ex1 : inst :=
  {| i_alleles := [ {| a_name := [49]; a_cfg := [49]; a_muts := [] |};
                    {| a_name := [50]; a_cfg := [49]; a_muts := [(100, AG)] |};
                    {| a_name := [51]; a_cfg := [49]; a_muts := [(200, CT)] |} ];
     i_struct := [([49], 2)];
     i_muts := [((100, AG), true); ((200, CT), true)];
     i_pcn := [(100, 2); (200, 2)];
     i_hascov := [([49], [100; 200])];
     i_cover := {| cv_tab := [(100, [([95], repeat (60, 60) 10); (AG, repeat (60, 60) 10 ++ [(60, 3); (2, 60)])]);
                              (200, [([95], repeat (60, 60) 20)])];
                   cv_ind := [] |};
     i_par := ex_par; i_major_novel := 21; i_gap := 0 |}.
Example C02_ex1_wf : inst_wf ex1 = true. Proof. vm_compute. reflexivity. Qed.
Example C02_ex1_candidates : map a_name (candidates ex1) = [[49]; [50]] /\ func_muts ex1 = [(100, AG)].
Proof. vm_compute. split; reflexivity. Qed.
(* three admissible combinations (1/1 with 100.A>G novel, 1/2, 2/2); exactly 1/2 is to be reported, with score 0 *)
Example C02_ex1_run :
  length (all_combs here ex1) = 3%nat /\
  map (fun xb : comb * bool => (Qred (sc (fst xb)), expand (snd (fst (fst xb))), snd (fst xb), snd xb)) (run here ex1)
  = [(0%Q, [[49]; [50]], [], true)].
Proof. vm_compute. split; reflexivity. Qed.
Example C02_ex1_planted : forallb (fun b : bool => b) (planted_ok here ex1 [([49], 1); ([50], 1)]) = true.
Proof. vm_compute. reflexivity. Qed.
(* a forced novel variant: the only allele carrying 100.A>G also needs 200.C>T, which is not observed *)
Definition ex2 : inst :=
  {| i_alleles := [ {| a_name := [49]; a_cfg := [49]; a_muts := [] |};
                    {| a_name := [50]; a_cfg := [49]; a_muts := [(100, AG); (200, CT)] |} ];
     i_struct := [([49], 2)];
     i_muts := [((100, AG), true); ((200, CT), true)];
     i_pcn := [(100, 2); (200, 2)];
     i_hascov := [([49], [100; 200])];
     i_cover := {| cv_tab := [(100, [([95], repeat (60, 60) 10); (AG, repeat (60, 60) 10)]); (200, [([95], repeat (60, 60) 20)])];
                   cv_ind := [] |};
     i_par := ex_par; i_major_novel := 21; i_gap := 0 |}.
Example C02_ex2_forced_novel :
  inst_wf ex2 = true /\
  map (fun xb : comb * bool => (Qred (sc (fst xb)), expand (snd (fst (fst xb))), snd (fst xb), snd xb)) (run here ex2)
  = [((221 # 10)%Q, [[49]; [49]], [(100, AG)], true)].
Proof. vm_compute. split; reflexivity. Qed.
(* the generated ILP of ex1 has the canonical point of 1/2 as a feasible point of objective 0 (decided by computation) *)
Example C02_ex1_feasible :
  let a := canon (candidates ex1) (func_muts ex1) (obs_cn ex1) (hascov ex1) [([49], 1); ([50], 1)] [] in
  feasibleb (gen here ex1) a = true /\ Qeqb (objective (gen here ex1) a) 0 = true.
Proof. vm_compute. split; reflexivity. Qed.

(* ================================================================= tie to the current source tree
   The decision expressions below are regenerated from /repo's Python AST on every run (harness/gen_exprs.py -> gen/Exprs_cov.v);
   each theorem says that the model's definition IS that expression, for all arguments.  A change of the expression in the code
   breaks the obligation even when no sampled input distinguishes old and new behaviour. *)
Theorem C02_tie_single_copy : forall I cv m,
  (single_copy_cv I cv m == if single_copy_zero (pcn I (fst m)) then 0%Q else single_copy_val (inZ (total cv m)) (pcn I (fst m)))%Q.
Proof. exact single_copy_major_tied. Qed.
Goal True. idtac "ASSUME C02_tie_single_copy". Abort.
Print Assumptions C02_tie_single_copy.

Theorem C02_tie_basic_filter : forall p c m cn,
  basic_filter p c m cn =
  basic_pass (inZ (coverage c m)) (basic_min_cov (p_min_coverage p) (inZ (total c m)) (basic_thres 0 cn (p_threshold p))).
Proof. exact basic_filter_tied. Qed.
Goal True. idtac "ASSUME C02_tie_basic_filter". Abort.
Print Assumptions C02_tie_basic_filter.
