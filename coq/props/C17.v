(* C17 — A debug dump replays to the same result.
   Statements only; proofs are in proofs/DumpProofs.v.  Model: theories/Dump.v (sam.py:297-334, 427-444, 1010-1018;
   genotype.py:185-190).  pickle, gzip and tar are trusted; the harness compares the real archive with [encode] and the real
   reader's state with [decode] on every run. *)
From Coq Require Import String Permutation.
From Aldy Require Import Base Consts Params Dump DumpProofs Consts_here Consts_wf.
Import List.
Open Scope Z_scope.

(* Counter then expansion keeps every cell as a multiset *)
Theorem C17_cell_multiset : forall l, Permutation (expand (counter l)) l.
Proof. exact expand_counter. Qed.
Goal True. idtac "ASSUME C17_cell_multiset". Abort.
Print Assumptions C17_cell_multiset.

(* (writer variant Fixed: the dump holds the reference lists as parsed; the shipped writer is treated below)
   decode (encode s) ~ s: name, profile payload, neutral/fusion/indel tables equal; reference and variant cells equal as
   multisets under the same keys in the same order; the ordered list of phase records with >= 2 sites equal; every parameter
   equal except the ones the reader resets, which take the reset values; the genome marker is returned; the decoded phase
   table holds only multi-site records *)
Theorem C17_dump_roundtrip : forall c lo hi genome x,
  sample_equiv (reset_names c) (decode c (encode Fixed lo hi genome x)) x /\
  (forall n v, In (n, v) (resets c) -> alookup str_eqb n (s_profile (decode c (encode Fixed lo hi genome x))) = Some v) /\
  dump_genome (encode Fixed lo hi genome x) = genome /\
  (forall r, In r (map snd (s_phases (decode c (encode Fixed lo hi genome x)))) -> multi r = true).
Proof. exact dump_roundtrip. Qed.
Goal True. idtac "ASSUME C17_dump_roundtrip". Abort.
Print Assumptions C17_dump_roundtrip.

(* equivalent samples have the same Coverage observables (cell sizes before and after any quality filter) and give the minor
   stage the same phase modes for every set of variant positions *)
Theorem C17_equiv_observables : forall except a b, sample_equiv except a b ->
  (forall positions, phase_modes positions (s_phases a) = phase_modes positions (s_phases b)) /\
  Forall2 (fun x y => fst x = fst y /\ cell_count (snd x) = cell_count (snd y) /\
                      forall mm mq, cell_count_q mm mq (snd x) = cell_count_q mm mq (snd y)) (s_norm a) (s_norm b) /\
  Forall2 (fun x y => fst x = fst y /\ cell_count (snd x) = cell_count (snd y) /\
                      forall mm mq, cell_count_q mm mq (snd x) = cell_count_q mm mq (snd y)) (s_muts a) (s_muts b).
Proof. exact equiv_observables. Qed.
Goal True. idtac "ASSUME C17_equiv_observables". Abort.
Print Assumptions C17_equiv_observables.

(* the reference cell "_" of the coverage table (norm plus the variant observations outside the RefSeq window that
   _make_coverage counts as reference) is the same multiset on equivalent samples *)
Theorem C17_equiv_ref_cell : forall except a b lo hi pos, sample_equiv except a b ->
  Permutation (ref_cell lo hi a pos) (ref_cell lo hi b pos).
Proof. exact equiv_ref_cell. Qed.
Goal True. idtac "ASSUME C17_equiv_ref_cell". Abort.
Print Assumptions C17_equiv_ref_cell.

(* the SHIPPED writer (dump written after _make_coverage has extended the aliased reference lists in place):
   identical to the repaired one exactly when nothing is folded into a non-empty reference cell ... *)
Theorem C17_dump_shipped_harmless : forall lo hi genome x,
  (forall pc, In pc (s_norm x) -> snd pc <> [] -> folded lo hi (s_muts x) (fst pc) = []) ->
  encode AsShipped lo hi genome x = encode Fixed lo hi genome x.
Proof. exact dump_shipped_harmless. Qed.
Goal True. idtac "ASSUME C17_dump_shipped_harmless". Abort.
Print Assumptions C17_dump_shipped_harmless.

(* ... and otherwise it breaks the round trip: a deleted base outside the RefSeq window is counted once in the run and twice
   in the replay (witness: window [10,20], position 5, one reference and one "-" observation) *)
Theorem C17_dump_as_shipped_refuted : forall c genome,
  cell_count (ref_cell 10 20 refute_sample 5) = 2 /\
  cell_count (ref_cell 10 20 (decode c (encode AsShipped 10 20 genome refute_sample)) 5) = 3 /\
  cell_count (ref_cell 10 20 (decode c (encode Fixed 10 20 genome refute_sample)) 5) = 2 /\
  ~ sample_equiv (reset_names c) (decode c (encode AsShipped 10 20 genome refute_sample)) refute_sample.
Proof. exact dump_as_shipped_refuted. Qed.
Goal True. idtac "ASSUME C17_dump_as_shipped_refuted". Abort.
Print Assumptions C17_dump_as_shipped_refuted.

(* replay: ANY pipeline that reads a sample only through its observables (hypothesis, explicit) gives the same result on the
   decoded dump, provided the parameters the reader resets had their reset values (display_format off, debug_probe empty,
   debug_novel off, min_avg_coverage = the literal of sam.py) *)
Theorem C17_dump_replay : forall (R : Type) (genotype_model : sample -> R),
  (forall a b, sample_equiv [] a b -> genotype_model a = genotype_model b) ->
  forall c lo hi genome x,
    (forall n v, In (n, v) (resets c) -> alookup str_eqb n (s_profile x) = Some v) ->
    genotype_model (decode c (encode Fixed lo hi genome x)) = genotype_model x.
Proof. exact dump_replay. Qed.
Goal True. idtac "ASSUME C17_dump_replay". Abort.
Print Assumptions C17_dump_replay.

(* replay with the run's parameters re-applied (genotype.py:189-190): a reset parameter may differ from its reset value if
   re-application sets it again *)
Theorem C17_dump_replay_reapplied : forall (R : Type) (genotype_model : sample -> R),
  (forall a b, sample_equiv [] a b -> genotype_model a = genotype_model b) ->
  forall (reapply : dict -> dict) c lo hi genome x,
    (forall n, alookup str_eqb n (reapply (s_profile x)) = alookup str_eqb n (s_profile x)) ->
    (forall n, alookup str_eqb n (reapply (apply_resets c (s_profile x))) = alookup str_eqb n (reapply (s_profile x)) \/
               (In n (reset_names c) /\ alookup str_eqb n (reapply (apply_resets c (s_profile x))) =
                                          alookup str_eqb n (apply_resets c (s_profile x)))) ->
    (forall n v, In (n, v) (resets c) ->
        alookup str_eqb n (reapply (apply_resets c (s_profile x))) = alookup str_eqb n (apply_resets c (s_profile x)) ->
        alookup str_eqb n (reapply (apply_resets c (s_profile x))) = alookup str_eqb n (reapply (s_profile x)) \/
        alookup str_eqb n (s_profile x) = Some v) ->
    genotype_model (with_profile (decode c (encode Fixed lo hi genome x))
                                 (reapply (s_profile (decode c (encode Fixed lo hi genome x))))) =
    genotype_model x.
Proof. exact dump_replay_reapplied. Qed.
Goal True. idtac "ASSUME C17_dump_replay_reapplied". Abort.
Print Assumptions C17_dump_replay_reapplied.

(* ---- non-vacuity: a small sample with repeated observations, single- and multi-site phase records ---- *)
Definition ex_sample : sample := {|
  s_name := s "S1";
  s_profile := c_params here;
  s_payload := OL [];
  s_neutral := [(100, 20); (101, 21)];
  s_norm := [(10, [(40, 40); (40, 35); (40, 40)]); (11, [])];
  s_muts := [((10, s "A>C"), [(40, 40); (40, 40)])];
  s_phases := [(s "a", [(10, s "A>C")]); (s "b", [(10, s "A>C"); (12, s "_")]); (s "c", [])];
  s_fusion := [];
  s_indel := [((20, s "insT"), (3, 5))]
|}.

Example C17_example_roundtrip :
  d_norm (encode Fixed 0 100 (s "hg38") ex_sample) = [(10, [((40, 40), 2); ((40, 35), 1)]); (11, [])] /\
  d_phases (encode Fixed 0 100 (s "hg38") ex_sample) = [[(10, s "A>C"); (12, s "_")]] /\
  s_norm (decode here (encode Fixed 0 100 (s "hg38") ex_sample)) = [(10, [(40, 40); (40, 40); (40, 35)]); (11, [])] /\
  s_phases (decode here (encode Fixed 0 100 (s "hg38") ex_sample)) = [(s "r0", [(10, s "A>C"); (12, s "_")])] /\
  alookup str_eqb (s "min_avg_coverage") (s_profile (decode here (encode Fixed 0 100 (s "hg38") ex_sample))) = Some (VFloat (c_dump_min_avg here)).
Proof. vm_compute. repeat split. Qed.

(* the defaults of the current tree satisfy the replay hypothesis: the reset values ARE the defaults *)
Example C17_defaults_have_reset_values : forall n v, In (n, v) (resets here) -> alookup str_eqb n (c_params here) = Some v.
Proof.
  intros n v H. cbn in H. destruct H as [H|[H|[H|[H|[]]]]]; injection H as <- <-; vm_compute; reflexivity.
Qed.
