(* TransportProofs.v — equivariance of the abstract stage under injective, site-preserving transport (C13). *)
From Coq Require Import Lqa.
From Aldy Require Import Base Consts Transport.
Open Scope Z_scope.

(* ---------- basics ---------- *)
Lemma veqb_eq a b : veqb a b = true <-> a = b.
Proof.
  destruct a as [a1 a2], b as [b1 b2]. unfold veqb. cbn [fst snd]. rewrite andb_true_iff, !Z.eqb_eq. split.
  - intros [-> ->]. reflexivity.
  - intros [= -> ->]. split; reflexivity.
Qed.
Lemma veqb_refl a : veqb a a = true. Proof. apply veqb_eq. reflexivity. Qed.

Lemma existsb_map {A B} (f : A -> B) p l : existsb p (map f l) = existsb (fun x => p (f x)) l.
Proof. induction l as [|x l IH]; [reflexivity|]. cbn [map existsb]. rewrite IH. reflexivity. Qed.
Lemma existsb_ext_in {A} (p q : A -> bool) l : (forall x, In x l -> p x = q x) -> existsb p l = existsb q l.
Proof.
  induction l as [|x l IH]; intros H; [reflexivity|]. cbn [existsb]. rewrite (H x) by (left; reflexivity).
  rewrite IH; [reflexivity|]. intros y Hy. apply H. right. exact Hy.
Qed.
Lemma filter_map_length {A B} (f : A -> B) p l : length (filter p (map f l)) = length (filter (fun x => p (f x)) l).
Proof. induction l as [|x l IH]; [reflexivity|]. cbn [map filter]. destruct (p (f x)); cbn [length]; rewrite IH; reflexivity. Qed.
Lemma filter_ext_in_length {A} (p q : A -> bool) l : (forall x, In x l -> p x = q x) -> length (filter p l) = length (filter q l).
Proof.
  induction l as [|x l IH]; intros H; [reflexivity|]. cbn [filter]. rewrite (H x) by (left; reflexivity).
  assert (length (filter p l) = length (filter q l)) as E by (apply IH; intros y Hy; apply H; right; exact Hy).
  destruct (q x); cbn [length]; rewrite E; reflexivity.
Qed.

Lemma forallb_map {A B} (f : A -> B) p l : forallb p (map f l) = forallb (fun x => p (f x)) l.
Proof. induction l as [|x l IH]; [reflexivity|]. cbn [map forallb]. rewrite IH. reflexivity. Qed.

Lemma Qabs'_comp a b : (a == b)%Q -> (Qabs' a == Qabs' b)%Q.
Proof. intros H. unfold Qabs'. rewrite H. destruct (Qle_bool 0 b); rewrite H; reflexivity. Qed.

(* ---------- per-variant and per-site quantities commute with the transport ---------- *)
Section Equivariance.
  Variable tr : variant -> variant.
  Variable vars : list variant.
  Hypothesis Hinj : injective_on tr vars.
  Hypothesis Hsite : site_preserving tr vars.

  Lemma carries_tr a v : In v vars -> (forall x, In x a -> In x vars) -> carries (tr_allele tr a) (tr v) = carries a v.
  Proof.
    intros Hv Ha. unfold carries, tr_allele. rewrite existsb_map. apply existsb_ext_in. intros x Hx.
    destruct (veqb v x) eqn:E.
    - apply veqb_eq in E. subst x. apply veqb_refl.
    - destruct (veqb (tr v) (tr x)) eqn:E2; [|reflexivity]. apply veqb_eq in E2. apply Hinj in E2; [|exact Hv|apply Ha; exact Hx].
      subst x. rewrite veqb_refl in E. discriminate.
  Qed.

  Lemma covers_tr a v : In v vars -> (forall x, In x a -> In x vars) -> covers (tr_allele tr a) (site (tr v)) = covers a (site v).
  Proof.
    intros Hv Ha. unfold covers, tr_allele. rewrite existsb_map. apply existsb_ext_in. intros x Hx.
    destruct (Hsite x v (Ha x Hx) Hv) as [H1 H2].
    destruct (site x =? site v) eqn:E.
    - apply Z.eqb_eq in E. apply Z.eqb_eq. apply H1. exact E.
    - destruct (site (tr x) =? site (tr v)) eqn:E2; [|reflexivity]. apply Z.eqb_eq in E2. apply H2 in E2. apply Z.eqb_neq in E. contradiction.
  Qed.

  Lemma carried_tr c v : within vars c -> In v vars -> carried (tr_combo tr c) (tr v) = carried c v.
  Proof.
    intros W Hv. unfold carried, tr_combo. rewrite filter_map_length. f_equal. apply filter_ext_in_length.
    intros a Ha. apply carries_tr; [exact Hv|]. intros x Hx. exact (W a x Ha Hx).
  Qed.

  Lemma expected_ref_tr c v : within vars c -> In v vars -> expected_ref (tr_combo tr c) (site (tr v)) = expected_ref c (site v).
  Proof.
    intros W Hv. unfold expected_ref, tr_combo. rewrite filter_map_length. f_equal. apply filter_ext_in_length.
    intros a Ha. f_equal. apply covers_tr; [exact Hv|]. intros x Hx. exact (W a x Ha Hx).
  Qed.

  Variables e e' : evidence.
  Hypothesis Hev : transported tr vars e e'.

  Lemma var_term_tr c v : within vars c -> In v vars -> (var_term e' (tr_combo tr c) (tr v) == var_term e c v)%Q.
  Proof.
    intros W Hv. unfold var_term. apply Qabs'_comp. rewrite (carried_tr c v W Hv). destruct (Hev v Hv) as [H _]. rewrite H. reflexivity.
  Qed.
  Lemma ref_term_tr c v : within vars c -> In v vars -> (ref_term e' (tr_combo tr c) (site (tr v)) == ref_term e c (site v))%Q.
  Proof.
    intros W Hv. unfold ref_term. apply Qabs'_comp. rewrite (expected_ref_tr c v W Hv). destruct (Hev v Hv) as [_ H]. rewrite H. reflexivity.
  Qed.

  Lemma var_rows_tr c l : within vars c -> (forall v, In v l -> In v vars) ->
    (qsum (map (var_term e' (tr_combo tr c)) (map tr l)) == qsum (map (var_term e c) l))%Q.
  Proof.
    intros W. induction l as [|v l IH]; intros Hl; [reflexivity|]. cbn [map qsum].
    rewrite (var_term_tr c v W) by (apply Hl; left; reflexivity). rewrite IH; [reflexivity|].
    intros w Hw. apply Hl. right. exact Hw.
  Qed.

  Lemma ref_rows_tr c : within vars c -> forall l seen seen', (forall v, In v l -> In v vars) ->
    (forall w, In w vars -> memb Z.eqb (site (tr w)) seen' = memb Z.eqb (site w) seen) ->
    (ref_rows e' (tr_combo tr c) seen' (map tr l) == ref_rows e c seen l)%Q.
  Proof.
    intros W. induction l as [|v l IH]; intros seen seen' Hl Hs; [reflexivity|]. cbn [map ref_rows].
    assert (In v vars) as Hv by (apply Hl; left; reflexivity).
    rewrite (Hs v Hv). rewrite (IH (site v :: seen) (site (tr v) :: seen')).
    - destruct (memb Z.eqb (site v) seen); [reflexivity|]. rewrite (ref_term_tr c v W Hv). reflexivity.
    - intros w Hw. apply Hl. right. exact Hw.
    - intros w Hw. unfold memb in *. cbn [existsb]. rewrite (Hs w Hw). f_equal.
      destruct (Hsite w v Hw Hv) as [H1 H2].
      destruct (site w =? site v) eqn:E.
      + apply Z.eqb_eq in E. apply Z.eqb_eq. apply H1. exact E.
      + destruct (site (tr w) =? site (tr v)) eqn:E2; [|reflexivity]. apply Z.eqb_eq in E2. apply H2 in E2. apply Z.eqb_neq in E. contradiction.
  Qed.

  (* the score of a candidate is the same in both coordinate systems *)
  Theorem score_equivariant c : within vars c -> (score (map tr vars) e' (tr_combo tr c) == score vars e c)%Q.
  Proof.
    intros W. unfold score. rewrite (var_rows_tr c vars W) by (intros; assumption).
    rewrite (ref_rows_tr c W vars [] []); [reflexivity|intros; assumption|intros; reflexivity].
  Qed.

  (* hence the same candidates are best *)
  Theorem best_equivariant cands c : within vars c -> (forall c', In c' cands -> within vars c') ->
    is_best (map tr vars) e' (map (tr_combo tr) cands) (tr_combo tr c) = is_best vars e cands c.
  Proof.
    intros W Wc. unfold is_best. rewrite forallb_map.
    induction cands as [|c' cands IH]; [reflexivity|]. cbn [forallb].
    rewrite (score_equivariant c W), (score_equivariant c') by (apply Wc; left; reflexivity).
    rewrite IH; [reflexivity|]. intros x Hx. apply Wc. right. exact Hx.
  Qed.
End Equivariance.

(* the per-site admissibility rule of novel variants commutes as well *)
Theorem one_per_site_equivariant tr vars novel : site_preserving tr vars -> (forall v, In v novel -> In v vars) ->
  one_per_site (map tr novel) = one_per_site novel.
Proof.
  intros Hs. induction novel as [|v r IH]; intros Hn; [reflexivity|]. cbn [map one_per_site].
  rewrite IH by (intros w Hw; apply Hn; right; exact Hw). f_equal. f_equal.
  rewrite existsb_map. apply existsb_ext_in. intros w Hw.
  assert (In w vars) as Iw by (apply Hn; right; exact Hw). assert (In v vars) as Iv by (apply Hn; left; reflexivity).
  destruct (Hs w v Iw Iv) as [H1 H2].
  destruct (site w =? site v) eqn:E.
  - apply Z.eqb_eq in E. apply Z.eqb_eq. apply H1. exact E.
  - destruct (site (tr w) =? site (tr v)) eqn:E2; [|reflexivity]. apply Z.eqb_eq in E2. apply H2 in E2. apply Z.eqb_neq in E. contradiction.
Qed.

(* ---------- the hypotheses are decidable ---------- *)
Lemma site_preserving_b_iff tr vars : site_preserving_b tr vars = true <-> site_preserving tr vars.
Proof.
  unfold site_preserving_b, site_preserving. split.
  - intros H v w Hv Hw. rewrite forallb_forall in H. specialize (H v Hv). rewrite forallb_forall in H. specialize (H w Hw).
    apply Bool.eqb_prop in H. rewrite <- !Z.eqb_eq. rewrite H. reflexivity.
  - intros H. apply forallb_forall. intros v Hv. apply forallb_forall. intros w Hw. specialize (H v w Hv Hw).
    rewrite <- !Z.eqb_eq in H. destruct (site v =? site w), (site (tr v) =? site (tr w)); cbn; try reflexivity.
    + destruct H as [H _]. specialize (H eq_refl). discriminate.
    + destruct H as [_ H]. specialize (H eq_refl). discriminate.
Qed.
Lemma injective_b_iff tr vars : injective_b tr vars = true <-> injective_on tr vars.
Proof.
  unfold injective_b, injective_on. split.
  - intros H v w Hv Hw E. rewrite forallb_forall in H. specialize (H v Hv). rewrite forallb_forall in H. specialize (H w Hw).
    rewrite E, veqb_refl in H. cbn in H. apply veqb_eq. exact H.
  - intros H. apply forallb_forall. intros v Hv. apply forallb_forall. intros w Hw.
    destruct (veqb (tr v) (tr w)) eqn:E; [|reflexivity]. cbn. apply veqb_eq. apply veqb_eq in E. exact (H v w Hv Hw E).
Qed.

(* ---------- the concrete transports ---------- *)
(* two builds on the same strand (all shipped genes; gapped alignments included): any injective position map *)
Theorem same_strand_site_preserving f vars : (forall x y, f x = f y -> x = y) ->
  site_preserving (tr_pos f) vars /\ injective_on (tr_pos f) vars.
Proof.
  intros Hf. split.
  - intros v w _ _. unfold tr_pos, site. cbn [fst]. split; [intros ->; reflexivity|apply Hf].
  - intros [v1 v2] [w1 w2] _ _. unfold tr_pos. cbn [fst snd]. intros [= E1 E2]. apply Hf in E1. subst. reflexivity.
Qed.

(* opposite strands: two non-insertion variants at the same RefSeq base share their site on the + strand, and on the - strand
   iff their footprints have the same length (the anchor is pos + len - 1) *)
Theorem opposite_strand_same_base off top p l1 l2 :
  site_fwd off p l1 false = site_fwd off p l2 false /\
  (site_rev top p l1 false = site_rev top p l2 false <-> l1 = l2).
Proof. unfold site_fwd, site_rev, anchor_fwd, anchor_rev. split; [reflexivity|lia]. Qed.

(* ---------- site preservation cannot be dropped ---------- *)
Theorem stage_equivariant_needs_sites :
  injective_b w_tr w_vars = true /\ site_preserving_b w_tr w_vars = false /\
  transported w_tr w_vars w_e w_e' /\ within w_vars w_combo /\
  (score w_vars w_e w_combo == 0)%Q /\ (score (map w_tr w_vars) w_e' (tr_combo w_tr w_combo) == 2)%Q /\
  one_per_site w_vars = false /\ one_per_site (map w_tr w_vars) = true.
Proof.
  split; [vm_compute; reflexivity|]. split; [vm_compute; reflexivity|]. split.
  { intros v _. split; reflexivity. }
  split.
  { intros a v Ha Hv. cbn in Ha. destruct Ha as [<-|[<-|[]]]; cbn in Hv; destruct Hv as [<-|[]]; cbn; auto. }
  split; [vm_compute; reflexivity|]. split; [vm_compute; reflexivity|]. split; vm_compute; reflexivity.
Qed.

(* non-vacuity of the equivariance theorem: a shifted copy of the witness database is transported faithfully *)
Example shift_example :
  let tr := tr_pos (fun x => x + 1000) in
  site_preserving_b tr w_vars = true /\ injective_b tr w_vars = true /\
  (score (map tr w_vars) {| e_var := fun _ => 1%Q; e_ref := fun _ => 0%Q |} (tr_combo tr w_combo) == score w_vars w_e w_combo)%Q.
Proof. vm_compute. repeat split; congruence. Qed.
