(* Tied_cn.v — the regenerated decision expressions of /repo (gen/Exprs_cn.v, written by harness/gen_exprs.py from the Python
   AST on every run) are the expressions the hand-written model uses.  Every lemma is an obligation of the tie: when an
   expression of the code changes, the generated file changes with it and the lemma stops compiling even if no sampled input
   tells old and new behaviour apart.  Statements: the model's definition equals the translated expression, for all arguments. *)
From Aldy Require Import Base Consts CnModel Exprs_cn.
Import List.
Open Scope Q_scope.

(* ---- cn.py: weak-fusion filter *)
Lemma cn_fusion_keep_tied : forall i c f fs v, i_fusion i = Some (f :: fs) ->
  str_eqb (cf_name c) ONE = false -> is_del_name i (cf_name c) = false ->
  alookup str_eqb (cf_name c) (f :: fs) = Some v ->
  keep i c = cn_fusion_keep v (inZ (i_max_cn i)).
Proof. intros i c f fs v H1 H2 H3 H4. unfold keep. rewrite H1, H2, H3, H4. reflexivity. Qed.
