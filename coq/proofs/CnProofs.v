(* CnProofs.v — lemmas and theorems about the copy-number model (C03).
   Facts about feasible assignments are obtained from membership of a row in [lp_rows (gen c i)]. *)
From Coq Require Import String Lqa Lia Permutation.
From Aldy Require Import Base Consts Lp CnModel CnSpec.
Import List.
Open Scope Z_scope.

(* ---------- strings, slots ---------- *)
Lemma str_eqb_eq a : forall b, str_eqb a b = true <-> a = b.
Proof.
  induction a as [|x a IH]; intros [|y b]; cbn [str_eqb]; split; intros H; try reflexivity; try discriminate.
  - apply andb_true_iff in H as [H1 H2]. apply Z.eqb_eq in H1. apply IH in H2. subst. reflexivity.
  - injection H as -> ->. rewrite Z.eqb_refl. cbn. apply IH. reflexivity.
Qed.
Lemma str_eqb_refl a : str_eqb a a = true. Proof. apply str_eqb_eq. reflexivity. Qed.
Lemma str_eqb_neq a b : a <> b -> str_eqb a b = false.
Proof. intros H. destruct (str_eqb a b) eqn:E; [|reflexivity]. apply str_eqb_eq in E. contradiction. Qed.
Lemma slot_eqb_eq (a b : slot) : slot_eqb a b = true <-> a = b.
Proof.
  destruct a as [n k], b as [m l]. unfold slot_eqb. cbn [fst snd]. rewrite andb_true_iff, str_eqb_eq, Z.eqb_eq.
  split; [intros [-> ->]; reflexivity | intros H; injection H; auto].
Qed.
Lemma has_In F x : has F x = true <-> In x F.
Proof.
  unfold has, memb. rewrite existsb_exists. split.
  - intros [y [Hy E]]. apply slot_eqb_eq in E. subst. exact Hy.
  - intros H. exists x. split; [exact H | apply slot_eqb_eq; reflexivity].
Qed.

Lemma in_zrange k lo hi : In k (zrange lo hi) <-> lo <= k < hi.
Proof.
  unfold zrange. rewrite in_map_iff. split.
  - intros [n [<- Hn]]. apply in_seq in Hn. lia.
  - intros H. exists (Z.to_nat (k - lo)). split; [lia | apply in_seq; lia].
Qed.

(* ---------- linear expressions ---------- *)
Lemma eval_lin_app a l1 l2 : (eval_lin a (l1 ++ l2) == eval_lin a l1 + eval_lin a l2)%Q.
Proof.
  induction l1 as [|[q v] l IH]; cbn [eval_lin app].
  - ring.
  - rewrite IH. ring.
Qed.

Definition on (a : asg) (x : slot) : bool := Qeqb (a (vcn x)) 1.
Definition act (i : cn_inst) (a : asg) : list slot := filter (on a) (slots i).
Definition act_structs (i : cn_inst) (a : asg) : form := filter (fun st => on a (fst st)) (structures i).

Lemma act_structs_fst i a : map fst (act_structs i a) = act i a.
Proof.
  unfold act_structs, act, slots. induction (structures i) as [|st l IH]; [reflexivity|].
  cbn [filter map]. destruct (on a (fst st)); cbn [map]; rewrite IH; reflexivity.
Qed.

Lemma on_bin a x : is_bin (a (vcn x)) -> (on a x = true /\ a (vcn x) == 1)%Q \/ (on a x = false /\ a (vcn x) == 0)%Q.
Proof.
  unfold on, Qeqb. intros [H|H].
  - right. split; [|exact H]. destruct (Qeq_bool (a (vcn x)) 1) eqn:E; [|reflexivity].
    apply Qeq_bool_iff in E. rewrite H in E. discriminate.
  - left. split; [|exact H]. apply Qeq_bool_iff. exact H.
Qed.

Lemma inject_S n : (inject_Z (Z.of_nat (S n)) == 1 + inject_Z (Z.of_nat n))%Q.
Proof. rewrite Nat2Z.inj_succ, <- Z.add_1_l, inject_Z_plus. reflexivity. Qed.

(* a weighted sum of binaries is the sum of the weights of the active ones *)
Lemma bin_weighted {A} (a : asg) (key : A -> slot) (w : A -> Q) (L : list A) :
  (forall x, In x L -> is_bin (a (vcn (key x)))) ->
  (eval_lin a (map (fun x => (w x, vcn (key x))) L) == qsum (map w (filter (fun x => on a (key x)) L)))%Q.
Proof.
  induction L as [|x L IH]; intros Hb; cbn [map eval_lin filter qsum].
  - reflexivity.
  - rewrite IH by (intros y Hy; apply Hb; right; exact Hy).
    destruct (on_bin a (key x) (Hb x (or_introl eq_refl))) as [[E V]|[E V]]; rewrite E, V; cbn [map qsum]; ring.
Qed.

Lemma qsum_ones {A} (l : list A) : (qsum (map (fun _ => 1%Q) l) == inject_Z (Z.of_nat (length l)))%Q.
Proof.
  induction l as [|x l IH]; [reflexivity|]. cbn [map qsum length]. rewrite IH, inject_S. reflexivity.
Qed.

Lemma bin_count (a : asg) (L : list slot) :
  (forall x, In x L -> is_bin (a (vcn x))) ->
  (eval_lin a (map (fun x => (1%Q, vcn x)) L) == inject_Z (Z.of_nat (length (filter (on a) L))))%Q.
Proof.
  intros Hb. rewrite (bin_weighted a (fun x => x) (fun _ => 1%Q) L Hb). apply qsum_ones.
Qed.

(* ---------- what membership in the generated model gives ---------- *)
Section Feasible.
  Variables (c : consts) (i : cn_inst) (a : asg).
  Hypothesis Hf : feasible (gen c i) a.

  Lemma gen_slot_bin x : In x (slots i) -> is_bin (a (vcn x)).
  Proof.
    intros Hx. destruct Hf as [Hv _]. rewrite Forall_forall in Hv.
    specialize (Hv (vcn x, KBin)). apply Hv. unfold gen. cbn [lp_vars].
    apply in_or_app. left. apply in_map_iff. exists x. split; [reflexivity|exact Hx].
  Qed.

  Lemma gen_row r : In r (lp_rows (gen c i)) -> sat_row a r.
  Proof. destruct Hf as [_ Hr]. rewrite Forall_forall in Hr. apply Hr. Qed.

  Lemma rows_cdiplo r : In r (cdiplo (slots i)) -> sat_row a r.
  Proof. intros H. apply gen_row. unfold gen. cbn [lp_rows]. apply in_or_app. left. exact H. Qed.
  Lemma rows_cdel r : In r (cdel (i_del i) (slots i)) -> sat_row a r.
  Proof. intros H. apply gen_row. unfold gen. cbn [lp_rows]. apply in_or_app. right. apply in_or_app. left. exact H. Qed.
  Lemma rows_cord r : In r (cord (slots i)) -> sat_row a r.
  Proof.
    intros H. apply gen_row. unfold gen. cbn [lp_rows]. apply in_or_app. right. apply in_or_app. right.
    apply in_or_app. left. exact H.
  Qed.
  Lemma rows_region rc r : In rc (used_cov i) -> In r (region_rows (structures i) rc) -> sat_row a r.
  Proof.
    intros Hrc H. apply gen_row. unfold gen. cbn [lp_rows]. apply in_or_app. right. apply in_or_app. right.
    apply in_or_app. right. apply in_or_app. left. apply in_flat_map. exists rc. split; assumption.
  Qed.
  Lemma rows_abs_err r : In r (abssum_rows (map verr (map fst (used_cov i)))) -> sat_row a r.
  Proof.
    intros H. apply gen_row. unfold gen. cbn [lp_rows]. do 4 (apply in_or_app; right). apply in_or_app. left. exact H.
  Qed.
  Lemma rows_abs_errg r : In r (abssum_rows (map verrg (map fst (used_cov i)))) -> sat_row a r.
  Proof.
    intros H. apply gen_row. unfold gen. cbn [lp_rows]. do 5 (apply in_or_app; right). exact H.
  Qed.

  (* CDIPLO: exactly two complete slots are active *)
  Lemma two_complete : length (filter (on a) (filter is_complete (slots i))) = 2%nat.
  Proof.
    assert (Hb : forall x, In x (filter is_complete (slots i)) -> is_bin (a (vcn x))).
    { intros x Hx. apply filter_In in Hx. apply gen_slot_bin. tauto. }
    pose proof (bin_count a _ Hb) as E.
    pose proof (rows_cdiplo (row_le (diplo_lin (slots i)) 2) (or_introl eq_refl)) as H1.
    pose proof (rows_cdiplo (row_ge (diplo_lin (slots i)) 2) (or_intror (or_introl eq_refl))) as H2.
    unfold sat_row, row_le, row_ge in H1, H2. cbn [r_rel r_lin r_rhs] in H1, H2. unfold diplo_lin in H1, H2.
    rewrite E in H1, H2.
    assert (E2 : (inject_Z (Z.of_nat (length (filter (on a) (filter is_complete (slots i))))) == inject_Z 2)%Q).
    { apply Qle_antisym; [exact H1 | exact H2]. }
    unfold Qeq in E2. cbn [inject_Z Qnum Qden] in E2. lia.
  Qed.

  (* CORD *)
  Lemma cord_second n : In (n, -1) (slots i) -> (a (vcn (n, (-1)%Z)) <= a (vcn (n, 0%Z)))%Q.
  Proof.
    intros Hx.
    assert (H : sat_row a (row_le [(1%Q, vcn (n, -1)); ((-1)%Q, vcn (n, 0))] 0)).
    { apply rows_cord. unfold cord. apply in_flat_map. exists (n, -1). split; [exact Hx|].
      unfold cord_rows. cbn [fst snd]. left. reflexivity. }
    unfold sat_row, row_le in H. cbn [r_rel r_lin r_rhs eval_lin] in H. lra.
  Qed.
  Lemma cord_prefix n k : 1 < k -> In (n, k) (slots i) -> (a (vcn (n, k)) <= a (vcn (n, (k - 1)%Z)))%Q.
  Proof.
    intros Hk Hx.
    assert (H : sat_row a (row_le [(1%Q, vcn (n, k)); ((-1)%Q, vcn (n, k - 1))] 0)).
    { apply rows_cord. unfold cord. apply in_flat_map. exists (n, k). split; [exact Hx|].
      unfold cord_rows. cbn [fst snd]. destruct (k =? -1) eqn:E1; [lia|].
      destruct (1 <? k) eqn:E2; [|lia]. left. reflexivity. }
    unfold sat_row, row_le in H. cbn [r_rel r_lin r_rhs eval_lin] in H. lra.
  Qed.
  (* CDEL *)
  Lemma cdel_excl d x : i_del i = Some d -> In x (slots i) -> fst x <> d -> (a (vcn x) + a (vcn (d, (-1)%Z)) <= 1)%Q.
  Proof.
    intros Hd Hx Hn.
    assert (H : sat_row a (row_le [(1%Q, vcn x); (1%Q, vcn (d, -1))] 1)).
    { apply rows_cdel. rewrite Hd. unfold cdel. apply in_map_iff. exists x. split; [reflexivity|].
      apply filter_In. split; [exact Hx|]. rewrite str_eqb_neq by exact Hn. reflexivity. }
    unfold sat_row, row_le in H. cbn [r_rel r_lin r_rhs eval_lin] in H. lra.
  Qed.
End Feasible.

(* ---------- which slots exist (cn.py:154-181) ---------- *)
Lemma pseudo_slots_in i x : In x (map fst (pseudo_slots i)) -> fst x = PSEUDO /\ 1 <= snd x <= i_max_cn i.
Proof.
  unfold pseudo_slots. destruct (i_del i); [|intros []]. destruct (1 <? i_ngenes i); [|intros []].
  destruct (find _ _); [|intros []]. rewrite map_map. cbn [fst]. intros H. apply in_map_iff in H as [k [<- Hk]].
  apply in_zrange in Hk. cbn [fst snd]. split; [reflexivity|lia].
Qed.
Lemma pseudo_slots_prev i n k : In (n, k) (map fst (pseudo_slots i)) -> 1 < k -> In (n, k - 1) (map fst (pseudo_slots i)).
Proof.
  unfold pseudo_slots. destruct (i_del i); [|intros []]. destruct (1 <? i_ngenes i); [|intros []].
  destruct (find _ _); [|intros []]. rewrite map_map. cbn [fst]. intros H Hk. apply in_map_iff in H as [j [E Hj]].
  injection E as <- <-. apply in_zrange in Hj. apply in_map_iff. exists (j - 1). split; [f_equal; lia|].
  apply in_zrange. lia.
Qed.

Lemma in_slots i x : In x (slots i) ->
  (exists c, In c (kept i) /\ x = (cf_name c, 0)) \/
  (exists c, In c (kept i) /\ (x = (cf_name c, -1) \/
                               (is_default (cf_kind c) = true /\ fst x = cf_name c /\ 1 <= snd x < i_max_cn i))) \/
  In x (map fst (pseudo_slots i)).
Proof.
  unfold slots, structures. rewrite !map_app. intros H. apply in_app_or in H as [H|H]; [|apply in_app_or in H as [H|H]].
  - left. rewrite map_map in H. cbn [fst] in H. apply in_map_iff in H as [c [<- Hc]]. exists c. auto.
  - right. left. apply in_map_iff in H as [st [<- Hst]]. apply in_flat_map in Hst as [c [Hc Hst]]. exists c. split; [exact Hc|].
    unfold second_and_extras in Hst. destruct Hst as [<-|Hst]; [left; reflexivity|].
    destruct (is_default (cf_kind c)) eqn:D; [|destruct Hst]. right. apply in_map_iff in Hst as [k [<- Hk]].
    apply in_zrange in Hk. cbn [fst snd]. auto.
  - right. right. exact H.
Qed.

Lemma slots_first i c : In c (kept i) -> In (cf_name c, 0) (slots i).
Proof.
  intros Hc. unfold slots, structures. rewrite !map_app. apply in_or_app. left. rewrite map_map. cbn [fst].
  apply in_map_iff. exists c. auto.
Qed.
Lemma slots_extra i c k : In c (kept i) -> is_default (cf_kind c) = true -> 1 <= k < i_max_cn i -> In (cf_name c, k) (slots i).
Proof.
  intros Hc D Hk. unfold slots, structures. rewrite !map_app. apply in_or_app. right. apply in_or_app. left.
  apply in_map_iff. exists ((cf_name c, k), weaken (cf_cn c)). split; [reflexivity|]. apply in_flat_map. exists c. split; [exact Hc|].
  unfold second_and_extras. right. rewrite D. apply in_map_iff. exists k. split; [reflexivity|]. apply in_zrange. lia.
Qed.
Lemma slots_pseudo i x : In x (map fst (pseudo_slots i)) -> In x (slots i).
Proof. intros H. unfold slots, structures. rewrite !map_app. apply in_or_app. right. apply in_or_app. right. exact H. Qed.

Lemma slots_second_first i n : In (n, -1) (slots i) -> In (n, 0) (slots i).
Proof.
  intros H. apply in_slots in H as [[c [Hc E]]|[[c [Hc [E|[_ [_ E]]]]]|H]].
  - injection E as _ E. lia.
  - injection E as ->. apply slots_first. exact Hc.
  - cbn [snd] in E. lia.
  - apply pseudo_slots_in in H. cbn [snd] in H. lia.
Qed.
Lemma slots_prev i n k : In (n, k) (slots i) -> 1 < k -> In (n, k - 1) (slots i).
Proof.
  intros H Hk. apply in_slots in H as [[c [Hc E]]|[[c [Hc [E|[D [E1 E2]]]]]|H]].
  - injection E as _ E. lia.
  - injection E as _ E. lia.
  - cbn [fst snd] in E1, E2. subst n. apply slots_extra; [exact Hc|exact D|lia].
  - apply slots_pseudo. apply pseudo_slots_prev; assumption.
Qed.

Lemma filter_comm {A} (f g : A -> bool) (l : list A) : filter f (filter g l) = filter g (filter f l).
Proof.
  induction l as [|x l IH]; [reflexivity|]. cbn [filter].
  destruct (g x) eqn:G, (f x) eqn:Fx; cbn [filter]; rewrite ?G, ?Fx, IH; reflexivity.
Qed.

(* ---------- every feasible assignment has a well-formed active set ---------- *)
Section Feasible2.
  Variables (c : consts) (i : cn_inst) (a : asg).
  Hypothesis Hf : feasible (gen c i) a.

  Lemma act_In x : In x (act i a) <-> In x (slots i) /\ (a (vcn x) == 1)%Q.
  Proof. unfold act. rewrite filter_In. unfold on, Qeqb. rewrite Qeq_bool_iff. reflexivity. Qed.

  Lemma up_to_one x y : In y (slots i) -> (a (vcn x) == 1)%Q -> (a (vcn x) <= a (vcn y))%Q -> (a (vcn y) == 1)%Q.
  Proof.
    intros Hy Hx Hle. destruct (gen_slot_bin c i a Hf y Hy) as [E|E]; [|exact E]. rewrite E, Hx in Hle.
    exfalso. revert Hle. apply Qlt_not_le. reflexivity.
  Qed.

  Lemma act_second_first n : In (n, -1) (act i a) -> In (n, 0) (act i a).
  Proof.
    rewrite !act_In. intros [Hs Hv]. split; [apply slots_second_first; exact Hs|].
    apply (up_to_one (n, -1)); [apply slots_second_first; exact Hs|exact Hv|apply (cord_second c i a Hf); exact Hs].
  Qed.
  Lemma act_prev n k : 1 < k -> In (n, k) (act i a) -> In (n, k - 1) (act i a).
  Proof.
    intros Hk. rewrite !act_In. intros [Hs Hv]. split; [apply slots_prev; assumption|].
    apply (up_to_one (n, k)); [apply slots_prev; assumption|exact Hv|apply (cord_prefix c i a Hf); assumption].
  Qed.
  (* extras (and PSEUDO slots) form a prefix 1..k *)
  Lemma act_prefix n k j : In (n, k) (act i a) -> 1 <= j <= k -> In (n, j) (act i a).
  Proof.
    intros Hk Hj. assert (forall m : nat, 1 <= k - Z.of_nat m -> In (n, k - Z.of_nat m) (act i a)) as H.
    { induction m as [|m IH]; intros Hm.
      - replace (k - Z.of_nat 0) with k by lia. exact Hk.
      - replace (k - Z.of_nat (S m)) with (k - Z.of_nat m - 1) by lia. apply act_prev; [lia|]. apply IH. lia. }
    replace j with (k - Z.of_nat (Z.to_nat (k - j))) by lia. apply H. lia.
  Qed.
  Lemma act_double_deletion d x : i_del i = Some d -> In (d, -1) (act i a) -> In x (act i a) -> fst x = d.
  Proof.
    intros Hd. rewrite !act_In. intros [_ Hv] [Hs Hx].
    destruct (str_eqb (fst x) d) eqn:E; [apply str_eqb_eq; exact E|]. exfalso.
    assert (fst x <> d) as Hn by (intros Heq; rewrite Heq, str_eqb_refl in E; discriminate).
    pose proof (cdel_excl c i a Hf d x Hd Hs Hn) as H. rewrite Hv, Hx in H. revert H. apply Qlt_not_le. reflexivity.
  Qed.

  Theorem feasible_form_ok : form_ok i (act i a) = true.
  Proof.
    unfold form_ok. rewrite !andb_true_iff. split; [split|].
    - unfold act. rewrite filter_comm. rewrite (two_complete c i a Hf). reflexivity.
    - apply forallb_forall. intros [n k] Hx. unfold ord_ok. cbn [fst snd].
      destruct (k =? -1) eqn:E1.
      + apply Z.eqb_eq in E1. subst k. apply has_In. apply act_second_first. exact Hx.
      + destruct (1 <? k) eqn:E2; [|reflexivity]. apply has_In. apply act_prev; [lia|exact Hx].
    - unfold del_ok. destruct (i_del i) as [d|] eqn:Hd; [|reflexivity].
      destruct (has (act i a) (d, -1)) eqn:Hh; [|reflexivity]. apply has_In in Hh.
      apply forallb_forall. intros x Hx. apply str_eqb_eq. apply (act_double_deletion d x Hd Hh Hx).
  Qed.
End Feasible2.

(* ---------- the folded structure of a feasible assignment is well-formed ---------- *)
Definition is_pseudo (x : slot) : bool := str_eqb (fst x) PSEUDO.
Definition deletions (i : cn_inst) (A : list slot) : list slot := filter (fun x => is_del_name i (fst x)) A.
Definition extras (A : list slot) : list slot := filter (fun x => negb (is_complete x) && negb (is_pseudo x)) A.
Definition default_name (i : cn_inst) (n : str) : bool :=
  existsb (fun c => str_eqb (cf_name c) n && is_default (cf_kind c)) (kept i).
(* the names of the configurations are not the reserved word PSEUDO, and the deletion allele is not a default configuration *)
Definition names_ok (i : cn_inst) : bool :=
  negb (memb str_eqb PSEUDO (map cf_name (i_configs i))) && negb (is_del_name i PSEUDO) &&
  forallb (fun c => negb (is_del_name i (cf_name c) && is_default (cf_kind c))) (i_configs i).

Lemma insert_perm n l : Permutation (insert_name n l) (n :: l).
Proof.
  induction l as [|m l IH]; cbn [insert_name]; [apply Permutation_refl|].
  destruct (str_ltb m n); [|apply Permutation_refl].
  apply perm_trans with (m :: n :: l); [apply perm_skip; exact IH | apply perm_swap].
Qed.
Lemma sort_names_perm l : Permutation (sort_names l) l.
Proof.
  induction l as [|n l IH]; cbn [sort_names fold_right]; [apply perm_nil|].
  fold (sort_names l). eapply perm_trans; [apply insert_perm|]. apply perm_skip. exact IH.
Qed.
Lemma perm_filter_length {A} (f : A -> bool) l l' : Permutation l l' -> length (filter f l) = length (filter f l').
Proof.
  induction 1 as [|x l l' H IH|x y l|l l' l'' H1 IH1 H2 IH2]; cbn [filter].
  - reflexivity.
  - destruct (f x); cbn [length]; rewrite IH; reflexivity.
  - destruct (f x), (f y); reflexivity.
  - rewrite IH1. exact IH2.
Qed.
Lemma filter_split_length {A} (f g : A -> bool) l :
  (length (filter (fun x => f x && g x) l) + length (filter (fun x => f x && negb (g x)) l) = length (filter f l))%nat.
Proof.
  induction l as [|x l IH]; [reflexivity|]. cbn [filter]. destruct (f x), (g x); cbn [andb negb length]; lia.
Qed.
Lemma filter_ext_in_len {A} (f g : A -> bool) l : (forall x, In x l -> f x = g x) -> filter f l = filter g l.
Proof.
  induction l as [|x l IH]; intros H; [reflexivity|]. cbn [filter]. rewrite (H x (or_introl eq_refl)).
  rewrite IH by (intros y Hy; apply H; right; exact Hy). reflexivity.
Qed.
Lemma filter_map_comm {A B} (f : B -> bool) (g : A -> B) l : filter f (map g l) = map g (filter (fun x => f (g x)) l).
Proof. induction l as [|x l IH]; [reflexivity|]. cbn [map filter]. destruct (f (g x)); cbn [map]; rewrite IH; reflexivity. Qed.
Lemma filter_le_length {A} (f : A -> bool) l : (length (filter f l) <= length l)%nat.
Proof. induction l as [|x l IH]; [apply le_n|]. cbn [filter]. destruct (f x); cbn [length]; lia. Qed.

Lemma kept_in i c : In c (kept i) -> In c (i_configs i).
Proof. unfold kept. intros H. apply filter_In in H. tauto. Qed.

Section Wellformed.
  Variables (c : consts) (i : cn_inst) (a : asg).
  Hypothesis Hn : names_ok i = true.
  Hypothesis Hf : feasible (gen c i) a.

  Lemma names_ok_parts :
    ~ In PSEUDO (map cf_name (i_configs i)) /\ is_del_name i PSEUDO = false /\
    (forall k, In k (i_configs i) -> is_del_name i (cf_name k) = true -> is_default (cf_kind k) = false).
  Proof.
    unfold names_ok in Hn. rewrite !andb_true_iff, !negb_true_iff in Hn. destruct Hn as [[H1 H2] H3]. split; [|split].
    - intros H. unfold memb in H1. assert (existsb (str_eqb PSEUDO) (map cf_name (i_configs i)) = true) as E.
      { apply existsb_exists. exists PSEUDO. split; [exact H|apply str_eqb_refl]. }
      rewrite E in H1. discriminate.
    - exact H2.
    - intros k Hk Hd. rewrite forallb_forall in H3. specialize (H3 k Hk). rewrite Hd in H3. cbn [andb] in H3.
      apply negb_true_iff in H3. exact H3.
  Qed.

  (* a slot of a configuration name: complete slots are never PSEUDO, deletion slots are always complete *)
  Lemma complete_not_pseudo x : In x (slots i) -> is_complete x = true -> is_pseudo x = false.
  Proof.
    destruct names_ok_parts as [Hp _]. intros Hx Hc. unfold is_complete in Hc. unfold is_pseudo.
    destruct (str_eqb (fst x) PSEUDO) eqn:E; [|reflexivity]. apply str_eqb_eq in E. exfalso.
    apply in_slots in Hx as [[k [Hk ->]]|[[k [Hk [->|[_ [_ Hr]]]]]|Hx]].
    - apply Hp. cbn [fst] in E. rewrite <- E. apply in_map. apply kept_in. exact Hk.
    - apply Hp. cbn [fst] in E. rewrite <- E. apply in_map. apply kept_in. exact Hk.
    - lia.
    - apply pseudo_slots_in in Hx. lia.
  Qed.
  Lemma deletion_complete x : In x (slots i) -> is_del_name i (fst x) = true -> is_complete x = true.
  Proof.
    destruct names_ok_parts as [_ [Hp Hd]]. intros Hx Hdel. unfold is_complete.
    apply in_slots in Hx as [[k [Hk ->]]|[[k [Hk [->|[D [E Hr]]]]]|Hx]]; cbn [snd]; try reflexivity.
    - exfalso. rewrite E in Hdel. rewrite (Hd k (kept_in i k Hk) Hdel) in D. discriminate.
    - exfalso. apply pseudo_slots_in in Hx as [E _]. rewrite E, Hp in Hdel. discriminate.
  Qed.
  Lemma extra_default x : In x (slots i) -> is_complete x = false -> is_pseudo x = false -> default_name i (fst x) = true.
  Proof.
    intros Hx Hc Hp. unfold is_complete in Hc. unfold default_name. apply existsb_exists.
    apply in_slots in Hx as [[k [Hk ->]]|[[k [Hk [->|[D [E Hr]]]]]|Hx]]; cbn [snd] in Hc; try lia.
    - exists k. split; [exact Hk|]. rewrite E, str_eqb_refl, D. reflexivity.
    - apply pseudo_slots_in in Hx as [E _]. unfold is_pseudo in Hp. rewrite E, str_eqb_refl in Hp. discriminate.
  Qed.
  Lemma nondefault_complete x : In x (slots i) -> default_name i (fst x) = false -> is_pseudo x = false -> is_complete x = true.
  Proof.
    intros Hx Hd Hp. destruct (is_complete x) eqn:E; [reflexivity|]. rewrite (extra_default x Hx E Hp) in Hd. discriminate.
  Qed.

  Let A := act i a.
  Lemma act_slots x : In x A -> In x (slots i).
  Proof. unfold A, act. intros H. apply filter_In in H. tauto. Qed.

  Lemma complete_two : length (filter is_complete A) = 2%nat.
  Proof. unfold A, act. rewrite filter_comm. apply (two_complete c i a Hf). Qed.

  Lemma fold_length : (length (fold_form i A) + length (deletions i A) = 2 + length (extras A))%nat.
  Proof.
    unfold fold_form. rewrite (Permutation_length (sort_names_perm _)), filter_map_comm, map_length.
    (* visible = complete and not a deletion, or an extra *)
    pose proof (filter_split_length (fun x => visible i (fst x)) is_complete A) as P1.
    assert (filter (fun x => visible i (fst x) && negb (is_complete x)) A = extras A) as E1.
    { unfold extras. apply filter_ext_in_len. intros x Hx. pose proof (act_slots x Hx) as Hs. unfold visible. fold (is_pseudo x).
      destruct (is_complete x) eqn:Cx; cbn [negb andb]; [rewrite !andb_false_r; reflexivity|].
      rewrite !andb_true_r. destruct (is_del_name i (fst x)) eqn:D; [|reflexivity].
      rewrite (deletion_complete x Hs D) in Cx. discriminate. }
    assert (filter (fun x => visible i (fst x) && is_complete x) A = filter (fun x => is_complete x && negb (is_del_name i (fst x))) A) as E2.
    { apply filter_ext_in_len. intros x Hx. pose proof (act_slots x Hx) as Hs. unfold visible. fold (is_pseudo x).
      destruct (is_complete x) eqn:Cx; cbn [andb]; [|rewrite andb_false_r; reflexivity].
      rewrite (complete_not_pseudo x Hs Cx). cbn [negb]. rewrite !andb_true_r. reflexivity. }
    pose proof (filter_split_length is_complete (fun x => is_del_name i (fst x)) A) as P2.
    assert (filter (fun x => is_complete x && is_del_name i (fst x)) A = deletions i A) as E3.
    { unfold deletions. apply filter_ext_in_len. intros x Hx. pose proof (act_slots x Hx) as Hs.
      destruct (is_del_name i (fst x)) eqn:D; [|apply andb_false_r]. rewrite (deletion_complete x Hs D). reflexivity. }
    cbv beta in P1, P2. rewrite E1, E2 in P1. rewrite E3, complete_two in P2. unfold slot in *. lia.
  Qed.

  Lemma fold_count n : default_name i n = false -> (length (filter (str_eqb n) (fold_form i A)) <= 2)%nat.
  Proof.
    intros Hd. unfold fold_form. rewrite (perm_filter_length _ _ _ (sort_names_perm _)), !filter_map_comm, map_length.
    set (L := filter (fun x => str_eqb n (fst x)) (filter (fun x => visible i (fst x)) A)).
    assert (forall x, In x L -> is_complete x = true) as Hc.
    { intros x Hx. unfold L in Hx. apply filter_In in Hx as [Hx Hnm]. apply filter_In in Hx as [Hx Hv].
      apply str_eqb_eq in Hnm. subst n. apply nondefault_complete; [apply act_slots; exact Hx|exact Hd|].
      unfold visible in Hv. apply andb_true_iff in Hv as [_ Hv]. apply negb_true_iff in Hv. exact Hv. }
    assert (filter is_complete L = L) as E.
    { clear -Hc. induction L as [|x l IH]; [reflexivity|]. cbn [filter]. rewrite (Hc x (or_introl eq_refl)).
      rewrite IH by (intros y Hy; apply Hc; right; exact Hy). reflexivity. }
    rewrite <- E. unfold L.
    rewrite (filter_comm is_complete (fun x => str_eqb n (fst x))).
    rewrite (filter_comm is_complete (fun x => visible i (fst x))).
    eapply Nat.le_trans; [apply filter_le_length|]. eapply Nat.le_trans; [apply filter_le_length|].
    apply Nat.eq_le_incl. exact complete_two.
  Qed.

  Lemma fold_double_deletion d : i_del i = Some d -> In (d, -1) A -> fold_form i A = [] /\ forall x, In x A -> fst x = d.
  Proof.
    intros Hd Hin. assert (forall x, In x A -> fst x = d) as Hall by (intros x; apply (act_double_deletion c i a Hf d x Hd Hin)).
    split; [|exact Hall]. unfold fold_form.
    assert (filter (visible i) (map fst A) = []) as E.
    { rewrite filter_map_comm. assert (filter (fun x => visible i (fst x)) A = []) as ->; [|reflexivity].
      clear Hin. induction A as [|x l IH]; [reflexivity|]. cbn [filter].
      assert (visible i (fst x) = false) as ->.
      { unfold visible, is_del_name. rewrite Hd, (Hall x (or_introl eq_refl)), str_eqb_refl. reflexivity. }
      apply IH. intros y Hy. apply Hall. right. exact Hy. }
    rewrite E. reflexivity.
  Qed.

  Theorem cn_wellformed_thm :
    (length (fold_form i A) + length (deletions i A) = 2 + length (extras A))%nat /\
    (forall x, In x (deletions i A) -> is_complete x = true) /\
    (forall x, In x (extras A) -> default_name i (fst x) = true) /\
    (forall n, default_name i n = false -> (length (filter (str_eqb n) (fold_form i A)) <= 2)%nat) /\
    (forall n k j, In (n, k) A -> 1 <= j <= k -> In (n, j) A) /\
    (forall n, In (n, -1) A -> In (n, 0) A) /\
    (forall d, i_del i = Some d -> In (d, -1) A -> fold_form i A = [] /\ forall x, In x A -> fst x = d).
  Proof.
    split; [exact fold_length|]. split; [|split; [|split; [exact fold_count|split; [|split]]]].
    - intros x Hx. unfold deletions in Hx. apply filter_In in Hx as [Hx D]. apply deletion_complete; [apply act_slots; exact Hx|exact D].
    - intros x Hx. unfold extras in Hx. apply filter_In in Hx as [Hx E]. apply andb_true_iff in E as [E1 E2].
      apply negb_true_iff in E1, E2. apply extra_default; [apply act_slots; exact Hx|exact E1|exact E2].
    - intros n k j. apply (act_prefix c i a Hf).
    - intros n. apply (act_second_first c i a Hf).
    - exact fold_double_deletion.
  Qed.
End Wellformed.

(* ---------- the continuous part: errors are determined, the objective is bounded below by the documented one ---------- *)
Lemma Qabs'_nonneg x : (0 <= Qabs' x)%Q.
Proof.
  unfold Qabs'. destruct (Qle_bool 0 x) eqn:E.
  - apply Qle_bool_iff. exact E.
  - assert (~ (0 <= x)%Q) as H by (intros H; apply Qle_bool_iff in H; rewrite H in E; discriminate). lra.
Qed.
Lemma Qabs'_le x y : (0 <= y + x)%Q -> (0 <= y - x)%Q -> (Qabs' x <= y)%Q.
Proof. intros H1 H2. unfold Qabs'. destruct (Qle_bool 0 x); lra. Qed.
Lemma Qabs'_compat x y : (x == y)%Q -> (Qabs' x == Qabs' y)%Q.
Proof.
  intros H. unfold Qabs'. destruct (Qle_bool 0 x) eqn:E1, (Qle_bool 0 y) eqn:E2; try (rewrite H; reflexivity).
  - apply Qle_bool_iff in E1. assert (~ (0 <= y)%Q) as H2 by (intros H2; apply Qle_bool_iff in H2; rewrite H2 in E2; discriminate). lra.
  - apply Qle_bool_iff in E2. assert (~ (0 <= x)%Q) as H2 by (intros H2; apply Qle_bool_iff in H2; rewrite H2 in E1; discriminate). lra.
Qed.
Lemma Qabs'_self x : (0 <= Qabs' x + x)%Q /\ (0 <= Qabs' x - x)%Q.
Proof.
  unfold Qabs'. destruct (Qle_bool 0 x) eqn:E.
  - apply Qle_bool_iff in E. lra.
  - assert (~ (0 <= x)%Q) as H by (intros H; apply Qle_bool_iff in H; rewrite H in E; discriminate). lra.
Qed.

Lemma qsum_inZ {A} (g : A -> Z) l : (qsum (map (fun x => inZ (g x)) l) == inZ (sumz g l))%Q.
Proof.
  unfold sumz, inZ. induction l as [|x l IH]; [reflexivity|]. cbn [map qsum zsum fold_right].
  rewrite IH, <- inject_Z_plus. reflexivity.
Qed.
Lemma qsum_scale {A} (k : Q) (w : A -> Q) l : (qsum (map (fun x => k * w x) l) == k * qsum (map w l))%Q.
Proof. induction l as [|x l IH]; cbn [map qsum]; [ring|]. rewrite IH. ring. Qed.
Lemma inZ_sub x y : (inject_Z (x - y) == inject_Z x - inject_Z y)%Q.
Proof. unfold Z.sub, Qminus. rewrite inject_Z_plus, inject_Z_opp. reflexivity. Qed.
Lemma qsum_diff_div {A} (g p : A -> Z) (sc : Q) l :
  (qsum (map (fun x => (inZ (g x) - inZ (p x)) / sc) l) == inZ (sumz g l - sumz p l) / sc)%Q.
Proof.
  unfold sumz, zsum, inZ, Qdiv. induction l as [|x l IH]; cbn [map qsum zsum fold_right].
  - rewrite inZ_sub. ring.
  - rewrite IH. rewrite !inZ_sub, !inject_Z_plus. ring.
Qed.
Lemma sumr_qsum {A} (f : A -> Q) l : (sumr f l == qsum (map f l))%Q.
Proof. unfold sumr. induction l as [|x l IH]; cbn [fold_right map qsum]; [reflexivity|]. rewrite Qred_correct, IH. reflexivity. Qed.
Lemma qsum_le {A} (f g : A -> Q) l : (forall x, In x l -> (f x <= g x)%Q) -> (qsum (map f l) <= qsum (map g l))%Q.
Proof.
  induction l as [|x l IH]; intros H; cbn [map qsum]; [apply Qle_refl|].
  apply Qplus_le_compat; [apply H; left; reflexivity | apply IH; intros y Hy; apply H; right; exact Hy].
Qed.
Lemma qsum_eq {A} (f g : A -> Q) l : (forall x, In x l -> (f x == g x)%Q) -> (qsum (map f l) == qsum (map g l))%Q.
Proof.
  induction l as [|x l IH]; intros H; cbn [map qsum]; [reflexivity|].
  rewrite (H x (or_introl eq_refl)), IH by (intros y Hy; apply H; right; exact Hy). reflexivity.
Qed.
Lemma eval_lin_map {A} (a : asg) (w : A -> Q) (k : A -> vkey) l :
  (eval_lin a (map (fun x => (w x, k x)) l) == qsum (map (fun x => w x * a (k x)) l))%Q.
Proof. induction l as [|x l IH]; cbn [map eval_lin qsum]; [reflexivity|]. rewrite IH. reflexivity. Qed.

Definition par_nonneg (i : cn_inst) : Prop :=
  (0 <= p_cn_diff (i_par i) /\ 0 <= p_cn_fit (i_par i) /\ 0 <= p_cn_pce (i_par i))%Q.

Lemma n_unique_pos i : inst_ok i = true -> (0 < n_unique i)%Q.
Proof.
  unfold inst_ok. rewrite !andb_true_iff. intros [[[_ _] H] _]. apply negb_true_iff in H. apply Nat.eqb_neq in H.
  unfold n_unique, inZ, Qlt. cbn [inject_Z Qnum Qden]. lia.
Qed.
Lemma div_nonneg x y : (0 <= x)%Q -> (0 < y)%Q -> (0 <= x / y)%Q.
Proof. intros Hx Hy. apply Qle_shift_div_l; [exact Hy|]. lra. Qed.

Section Continuous.
  Variables (c : consts) (i : cn_inst) (a : asg).
  Hypothesis Hf : feasible (gen c i) a.
  Let F := act_structs i a.

  Lemma structs_bin st : In st (structures i) -> is_bin (a (vcn (fst st))).
  Proof. intros H. apply (gen_slot_bin c i a Hf). unfold slots. apply in_map. exact H. Qed.

  Lemma errg_determined rc : In rc (used_cov i) -> (a (verrg (fst rc)) == errg_of F rc)%Q.
  Proof.
    intros Hrc.
    pose proof (rows_region c i a Hf rc _ Hrc (or_introl eq_refl)) as H1.
    pose proof (rows_region c i a Hf rc _ Hrc (or_intror (or_introl eq_refl))) as H2.
    unfold sat_row, row_le, row_ge in H1, H2. cbn [r_rel r_lin r_rhs] in H1, H2. unfold gene_lin in H1, H2.
    rewrite eval_lin_app in H1, H2. cbn [eval_lin] in H1, H2.
    rewrite (bin_weighted a fst (gcoef (fst rc)) (structures i) structs_bin) in H1, H2.
    fold (act_structs i a) in H1, H2. fold F in H1, H2. unfold gcoef in H1, H2. rewrite qsum_inZ in H1, H2.
    unfold errg_of, errg_gp, copies. cbn [fst]. set (z := inZ _) in *. clearbody z. lra.
  Qed.
  Lemma err_determined rc : In rc (used_cov i) -> (a (verr (fst rc)) == err_of F rc)%Q.
  Proof.
    intros Hrc.
    pose proof (rows_region c i a Hf rc _ Hrc (or_intror (or_intror (or_introl eq_refl)))) as H1.
    pose proof (rows_region c i a Hf rc _ Hrc (or_intror (or_intror (or_intror (or_introl eq_refl))))) as H2.
    unfold sat_row, row_le, row_ge in H1, H2. cbn [r_rel r_lin r_rhs] in H1, H2. unfold diff_lin in H1, H2.
    rewrite eval_lin_app in H1, H2. cbn [eval_lin] in H1, H2.
    rewrite (bin_weighted a fst (fun st => ((gcoef (fst rc) st - pcoef (fst rc) st) / scale_of (snd rc))%Q) (structures i) structs_bin) in H1, H2.
    fold (act_structs i a) in H1, H2. fold F in H1, H2. unfold gcoef, pcoef in H1, H2. rewrite qsum_diff_div in H1, H2.
    unfold err_of, err_gp, copies. cbn [fst snd].
    unfold structure in *. remember (scale_of (snd rc)) as s eqn:Es.
    match type of H1 with (?zz / _ + _ <= _)%Q => remember zz as z eqn:Ez end.
    remember ((fst (snd rc) - snd (snd rc)) / s)%Q as u eqn:Eu. remember (z / s)%Q as w eqn:Ew.
    assert (a (verr (fst rc)) == u - w)%Q as E by lra.
    rewrite E, Eu, Ew. unfold Qdiv. ring.
  Qed.

  Lemma err_var_bounds k : In k (flat_map (fun r => [verrg r; verr r]) (map fst (used_cov i))) ->
    (- p_cn_max (i_par i) <= a k /\ a k <= p_cn_max (i_par i))%Q.
  Proof.
    intros Hk. destruct Hf as [Hv _]. rewrite Forall_forall in Hv. specialize (Hv (err_var i k)).
    cbn [err_var fst snd in_kind] in Hv. apply Hv. unfold gen. cbn [lp_vars]. apply in_or_app. right. apply in_or_app. left.
    apply in_flat_map in Hk as [r [Hr Hk]]. apply in_flat_map. exists r. split; [exact Hr|].
    destruct Hk as [<-|[<-|[]]]; [left|right; left]; reflexivity.
  Qed.

  Theorem feasible_bounds_ok : bounds_ok i F = true.
  Proof.
    unfold bounds_ok. apply forallb_forall. intros rc Hrc. unfold in_bounds, Qleb. rewrite !andb_true_iff, !Qle_bool_iff.
    assert (In (fst rc) (map fst (used_cov i))) as Hr by (apply in_map; exact Hrc).
    pose proof (err_var_bounds (verrg (fst rc))) as B1. pose proof (err_var_bounds (verr (fst rc))) as B2.
    rewrite <- (errg_determined rc Hrc), <- (err_determined rc Hrc).
    split; [apply B1|apply B2]; apply in_flat_map; exists (fst rc); (split; [exact Hr|]); [left|right; left]; reflexivity.
  Qed.

  Lemma abs_above (keyf : str -> vkey) rc :
    In rc (used_cov i) ->
    (forall r, In r (abssum_rows (map keyf (map fst (used_cov i)))) -> sat_row a r) ->
    (Qabs' (a (keyf (fst rc))) <= a (abs_key (keyf (fst rc))))%Q.
  Proof.
    intros Hrc Hrows. set (v := keyf (fst rc)).
    assert (In v (map keyf (map fst (used_cov i)))) as Hv by (apply in_map; apply in_map; exact Hrc).
    assert (H1 : sat_row a {| r_lin := [(1%Q, abs_key v); (1%Q, v)]; r_rel := RGe; r_rhs := 0%Q |}).
    { apply Hrows. unfold abssum_rows. apply in_flat_map. exists v. split; [exact Hv|left; reflexivity]. }
    assert (H2 : sat_row a {| r_lin := [(1%Q, abs_key v); ((-1)%Q, v)]; r_rel := RGe; r_rhs := 0%Q |}).
    { apply Hrows. unfold abssum_rows. apply in_flat_map. exists v. split; [exact Hv|right; left; reflexivity]. }
    unfold sat_row in H1, H2. cbn [r_rel r_lin r_rhs eval_lin] in H1, H2. apply Qabs'_le; lra.
  Qed.

  Hypothesis Hok : inst_ok i = true.
  Hypothesis Hpar : par_nonneg i.

  Lemma pars_part :
    (eval_lin a (map (fun x => ((p_cn_pars (i_par i) * penalty c i (fst x))%Q, vcn x)) (slots i)) == pars_cost c i F)%Q.
  Proof.
    rewrite (bin_weighted a (fun x => x) (fun x => (p_cn_pars (i_par i) * penalty c i (fst x))%Q) (slots i) (gen_slot_bin c i a Hf)).
    cbv beta. change (filter (fun x => on a x) (slots i)) with (act i a).
    unfold pars_cost. rewrite sumr_qsum, qsum_scale. unfold F. rewrite <- act_structs_fst, map_map. reflexivity.
  Qed.

  Lemma diff_part :
    (diff_cost i F <= eval_lin a (map (fun r => ((diff_coeff i * pce_coeff i r)%Q, abs_key (verr r))) (map fst (used_cov i))))%Q.
  Proof.
    destruct Hpar as [Hd [_ Hp]]. pose proof (n_unique_pos i Hok) as HU.
    rewrite map_map, (eval_lin_map a (fun rc => (diff_coeff i * pce_coeff i (fst rc))%Q) (fun rc => abs_key (verr (fst rc)))).
    unfold diff_cost. rewrite sumr_qsum, <- qsum_scale. apply qsum_le. intros rc Hrc.
    pose proof (abs_above verr rc Hrc (rows_abs_err c i a Hf)) as Ha. rewrite (Qabs'_compat _ _ (err_determined rc Hrc)) in Ha.
    assert (0 <= diff_coeff i)%Q as H1 by (apply div_nonneg; assumption).
    assert (0 <= pce_coeff i (fst rc))%Q as H2 by (unfold pce_coeff; destruct (str_eqb (fst rc) PCE); [exact Hp|lra]).
    set (x := Qabs' (err_of F rc)) in *. set (y := a (abs_key (verr (fst rc)))) in *.
    set (d := diff_coeff i) in *. set (p := pce_coeff i (fst rc)) in *.
    assert (0 <= d * p)%Q as H3 by (apply Qmult_le_0_compat; assumption).
    rewrite Qmult_assoc. setoid_replace (d * p * x)%Q with (x * (d * p))%Q by ring.
    setoid_replace (d * p * y)%Q with (y * (d * p))%Q by ring. apply Qmult_le_compat_r; assumption.
  Qed.
  Lemma fit_part :
    (fit_cost i F <= eval_lin a (map (fun r => (fit_coeff i, abs_key (verrg r))) (map fst (used_cov i))))%Q.
  Proof.
    destruct Hpar as [_ [Hd _]]. pose proof (n_unique_pos i Hok) as HU.
    rewrite map_map, (eval_lin_map a (fun _ => fit_coeff i) (fun rc => abs_key (verrg (fst rc)))).
    unfold fit_cost. rewrite sumr_qsum, <- qsum_scale. apply qsum_le. intros rc Hrc.
    pose proof (abs_above verrg rc Hrc (rows_abs_errg c i a Hf)) as Ha. rewrite (Qabs'_compat _ _ (errg_determined rc Hrc)) in Ha.
    assert (0 <= fit_coeff i)%Q as H1 by (apply div_nonneg; assumption).
    set (x := Qabs' (errg_of F rc)) in *. set (y := a (abs_key (verrg (fst rc)))) in *. set (d := fit_coeff i) in *.
    setoid_replace (d * x)%Q with (x * d)%Q by ring. setoid_replace (d * y)%Q with (y * d)%Q by ring.
    apply Qmult_le_compat_r; assumption.
  Qed.

  (* the objective of the LP at a feasible point is at least the documented objective of its active set *)
  Theorem objective_lower : (form_objective c i F <= objective (gen c i) a)%Q.
  Proof.
    unfold objective, gen. cbn [lp_obj lp_const]. rewrite !eval_lin_app. unfold form_objective.
    pose proof diff_part as H1. pose proof fit_part as H2. pose proof pars_part as H3. fold (slots i).
    set (e1 := eval_lin a _) in H1. set (e2 := eval_lin a _) in H2. set (e3 := eval_lin a _) in H3.
    fold e1 e2 e3. lra.
  Qed.
End Continuous.

(* ---------- converse: a well-formed active set with errors inside the bounds extends to a feasible point
              whose LP objective is exactly the documented objective ---------- *)
Definition find_cov (i : cn_inst) (r : str) : option (str * (Q * Q)) := find (fun rc => str_eqb (fst rc) r) (used_cov i).
Definition chosen (i : cn_inst) (b : slot -> bool) : form := filter (fun st => b (fst st)) (structures i).
Definition base_asg (i : cn_inst) (b : slot -> bool) : asg := fun k =>
  match k with
  | t :: rest =>
      if t =? 0 then match rest with idx :: name => if b (name, idx) then 1%Q else 0%Q | [] => 0%Q end
      else if t =? 1 then match find_cov i rest with Some rc => err_of (chosen i b) rc | None => 0%Q end
      else if t =? 2 then match find_cov i rest with Some rc => errg_of (chosen i b) rc | None => 0%Q end
      else 0%Q
  | [] => 0%Q
  end.
Definition canon_asg (i : cn_inst) (b : slot -> bool) : asg := fun k =>
  match k with
  | t :: rest => if t =? -1 then Qabs' (base_asg i b rest) else base_asg i b k
  | [] => 0%Q
  end.

Lemma find_cov_in i rc : NoDup (map fst (used_cov i)) -> In rc (used_cov i) -> find_cov i (fst rc) = Some rc.
Proof.
  unfold find_cov. induction (used_cov i) as [|x l IH]; intros Hnd Hin; [destruct Hin|].
  cbn [map] in Hnd. inversion Hnd as [|? ? Hx Hl]; subst. cbn [find]. destruct Hin as [->|Hin].
  - rewrite str_eqb_refl. reflexivity.
  - destruct (str_eqb (fst x) (fst rc)) eqn:E.
    + apply str_eqb_eq in E. exfalso. apply Hx. rewrite E. apply in_map. exact Hin.
    + apply IH; assumption.
Qed.

Section Converse.
  Variables (c : consts) (i : cn_inst) (b : slot -> bool).
  Hypothesis Hb : forall x, b x = true -> In x (slots i).
  Hypothesis Hnd : NoDup (map fst (used_cov i)).
  Hypothesis Hform : form_ok i (filter b (slots i)) = true.
  Hypothesis Hbounds : bounds_ok i (chosen i b) = true.
  Let a := canon_asg i b.
  Let F := chosen i b.

  Lemma canon_slot x : a (vcn x) = if b x then 1%Q else 0%Q.
  Proof. destruct x as [n k]. reflexivity. Qed.
  Lemma canon_on x : on a x = b x.
  Proof. unfold on. rewrite canon_slot. destruct (b x); reflexivity. Qed.
  Lemma canon_bin x : is_bin (a (vcn x)).
  Proof. rewrite canon_slot. destruct (b x); [right|left]; reflexivity. Qed.
  Lemma canon_err rc : In rc (used_cov i) -> a (verr (fst rc)) = err_of F rc.
  Proof. intros H. unfold a, canon_asg, verr, base_asg. cbn [Z.eqb]. rewrite (find_cov_in i rc Hnd H). reflexivity. Qed.
  Lemma canon_errg rc : In rc (used_cov i) -> a (verrg (fst rc)) = errg_of F rc.
  Proof. intros H. unfold a, canon_asg, verrg, base_asg. cbn [Z.eqb]. rewrite (find_cov_in i rc Hnd H). reflexivity. Qed.
  Lemma canon_abs v : a (abs_key v) = Qabs' (base_asg i b v).
  Proof. reflexivity. Qed.
  Lemma canon_abs_err rc : In rc (used_cov i) -> a (abs_key (verr (fst rc))) = Qabs' (err_of F rc).
  Proof. intros H. rewrite canon_abs. pose proof (canon_err rc H) as E. unfold a, canon_asg, verr in E. cbn [Z.eqb] in E. unfold verr. rewrite E. reflexivity. Qed.
  Lemma canon_abs_errg rc : In rc (used_cov i) -> a (abs_key (verrg (fst rc))) = Qabs' (errg_of F rc).
  Proof. intros H. rewrite canon_abs. pose proof (canon_errg rc H) as E. unfold a, canon_asg, verrg in E. cbn [Z.eqb] in E. unfold verrg. rewrite E. reflexivity. Qed.

  Lemma chosen_filter : filter (fun st => on a (fst st)) (structures i) = F.
  Proof. unfold F, chosen. apply filter_ext_in_len. intros st _. apply canon_on. Qed.
  Lemma active_filter : filter (on a) (slots i) = filter b (slots i).
  Proof. apply filter_ext_in_len. intros x _. apply canon_on. Qed.

  Lemma form_parts :
    length (filter is_complete (filter b (slots i))) = 2%nat /\
    (forall x, In x (slots i) -> b x = true -> ord_ok (filter b (slots i)) x = true) /\
    del_ok (i_del i) (filter b (slots i)) = true.
  Proof.
    unfold form_ok in Hform. rewrite !andb_true_iff in Hform. destruct Hform as [[H1 H2] H3]. split; [|split].
    - apply Nat.eqb_eq. exact H1.
    - intros x Hx Hbx. rewrite forallb_forall in H2. apply H2. apply filter_In. auto.
    - exact H3.
  Qed.
  Lemma b_has x : has (filter b (slots i)) x = true -> b x = true.
  Proof. intros H. apply has_In in H. apply filter_In in H. tauto. Qed.

  Lemma canon_rows_ok r : In r (lp_rows (gen c i)) -> sat_row a r.
  Proof.
    destruct form_parts as [P1 [P2 P3]].
    unfold gen. cbn [lp_rows]. intros H.
    apply in_app_or in H as [H|H]; [|apply in_app_or in H as [H|H]; [|apply in_app_or in H as [H|H];
      [|apply in_app_or in H as [H|H]; [|apply in_app_or in H as [H|H]]]]].
    - (* CDIPLO *)
      assert (eval_lin a (diplo_lin (slots i)) == 2)%Q as E.
      { unfold diplo_lin. rewrite (bin_count a _ (fun x _ => canon_bin x)).
        rewrite (filter_ext_in_len (on a) b) by (intros; apply canon_on). rewrite filter_comm, P1. reflexivity. }
      destruct H as [<-|[<-|[]]]; unfold sat_row, row_le, row_ge; cbn [r_rel r_lin r_rhs]; rewrite E; apply Qle_refl.
    - (* CDEL *)
      unfold cdel in H. destruct (i_del i) as [d|] eqn:Hd; [|destruct H]. apply in_map_iff in H as [x [<- Hx]].
      apply filter_In in Hx as [Hx Hne]. apply negb_true_iff in Hne.
      unfold sat_row, row_le. cbn [r_rel r_lin r_rhs eval_lin]. rewrite !canon_slot.
      destruct (b (d, -1)) eqn:Bd; [|destruct (b x); lra].
      assert (b x = false) as ->; [|lra].
      destruct (b x) eqn:Bx; [|reflexivity]. exfalso.
      unfold del_ok in P3. assert (has (filter b (slots i)) (d, -1) = true) as Hh.
      { apply has_In. apply filter_In. split; [apply Hb; exact Bd|exact Bd]. }
      rewrite Hh in P3. rewrite forallb_forall in P3. specialize (P3 x). rewrite Hne in P3.
      assert (false = true) as Habs by (apply P3; apply filter_In; auto). discriminate.
    - (* CORD *)
      unfold cord in H. apply in_flat_map in H as [x [Hx H]]. unfold cord_rows in H.
      destruct (snd x =? -1) eqn:E1; [|destruct (1 <? snd x) eqn:E2; [|destruct H]]; destruct H as [<-|[]];
        unfold sat_row, row_le; cbn [r_rel r_lin r_rhs eval_lin]; rewrite !canon_slot;
        (destruct (b x) eqn:Bx; [|match goal with |- context [if ?t then _ else _] => destruct t end; lra]);
        pose proof (P2 x Hx Bx) as Ho; unfold ord_ok in Ho; rewrite E1, ?E2 in Ho; apply b_has in Ho; rewrite Ho; lra.
    - (* per-region equations *)
      apply in_flat_map in H as [rc [Hrc H]].
      assert (eval_lin a (gene_lin (structures i) (fst rc)) == fst (snd rc))%Q as Eg.
      { unfold gene_lin. rewrite eval_lin_app. cbn [eval_lin].
        rewrite (bin_weighted a fst (gcoef (fst rc)) (structures i) (fun st _ => canon_bin (fst st))).
        rewrite chosen_filter, (canon_errg rc Hrc). unfold gcoef. rewrite qsum_inZ. unfold errg_of, errg_gp, copies. cbn [fst].
        unfold structure in *. set (z := inZ _). ring. }
      assert (eval_lin a (diff_lin (structures i) (fst rc) (snd rc)) == (fst (snd rc) - snd (snd rc)) / scale_of (snd rc))%Q as Ed.
      { unfold diff_lin. rewrite eval_lin_app. cbn [eval_lin].
        rewrite (bin_weighted a fst (fun st => ((gcoef (fst rc) st - pcoef (fst rc) st) / scale_of (snd rc))%Q) (structures i) (fun st _ => canon_bin (fst st))).
        rewrite chosen_filter, (canon_err rc Hrc). unfold gcoef, pcoef. rewrite qsum_diff_div.
        unfold err_of, err_gp, copies. cbn [fst snd]. unfold structure in *. set (z := inZ _). unfold Qdiv. ring. }
      unfold region_rows in H. destruct H as [<-|[<-|[<-|[<-|[]]]]]; unfold sat_row, row_le, row_ge; cbn [r_rel r_lin r_rhs];
        rewrite ?Eg, ?Ed; apply Qle_refl.
    - (* abssum of E *)
      unfold abssum_rows in H. apply in_flat_map in H as [v [Hv H]].
      destruct (Qabs'_self (base_asg i b v)) as [A1 A2].
      destruct H as [<-|[<-|[]]]; unfold sat_row; cbn [r_rel r_lin r_rhs eval_lin]; rewrite canon_abs;
        apply in_map_iff in Hv as [r [<- _]]; change (a (verr r)) with (base_asg i b (verr r)); lra.
    - (* abssum of EG *)
      unfold abssum_rows in H. apply in_flat_map in H as [v [Hv H]].
      destruct (Qabs'_self (base_asg i b v)) as [A1 A2].
      destruct H as [<-|[<-|[]]]; unfold sat_row; cbn [r_rel r_lin r_rhs eval_lin]; rewrite canon_abs;
        apply in_map_iff in Hv as [r [<- _]]; change (a (verrg r)) with (base_asg i b (verrg r)); lra.
  Qed.

  Lemma canon_vars_ok kv : In kv (lp_vars (gen c i)) -> in_kind (snd kv) (a (fst kv)).
  Proof.
    unfold gen. cbn [lp_vars]. intros H.
    apply in_app_or in H as [H|H]; [|apply in_app_or in H as [H|H]; [|apply in_app_or in H as [H|H]]].
    - apply in_map_iff in H as [x [<- _]]. cbn [fst snd in_kind]. apply canon_bin.
    - apply in_flat_map in H as [r [Hr H]]. apply in_map_iff in Hr as [rc [<- Hrc]].
      unfold bounds_ok in Hbounds. rewrite forallb_forall in Hbounds. specialize (Hbounds rc Hrc).
      unfold in_bounds, Qleb in Hbounds. rewrite !andb_true_iff, !Qle_bool_iff in Hbounds. fold F in Hbounds.
      destruct H as [<-|[<-|[]]]; cbn [err_var fst snd in_kind]; [rewrite (canon_errg rc Hrc)|rewrite (canon_err rc Hrc)]; tauto.
    - unfold abssum_vars in H. apply in_map_iff in H as [v [<- _]]. cbn [fst snd in_kind]. rewrite canon_abs. split; [apply Qabs'_nonneg|exact I].
    - unfold abssum_vars in H. apply in_map_iff in H as [v [<- _]]. cbn [fst snd in_kind]. rewrite canon_abs. split; [apply Qabs'_nonneg|exact I].
  Qed.

  Theorem canon_feasible : feasible (gen c i) a.
  Proof. split; apply Forall_forall; [exact canon_vars_ok | exact canon_rows_ok]. Qed.

  Theorem canon_objective : (objective (gen c i) a == form_objective c i F)%Q.
  Proof.
    unfold objective, gen. cbn [lp_obj lp_const]. rewrite !eval_lin_app. unfold form_objective. fold (slots i).
    assert (eval_lin a (map (fun r => ((diff_coeff i * pce_coeff i r)%Q, abs_key (verr r))) (map fst (used_cov i))) == diff_cost i F)%Q as E1.
    { rewrite map_map, (eval_lin_map a (fun rc => (diff_coeff i * pce_coeff i (fst rc))%Q) (fun rc => abs_key (verr (fst rc)))).
      unfold diff_cost. rewrite sumr_qsum, <- qsum_scale. apply qsum_eq. intros rc Hrc. rewrite (canon_abs_err rc Hrc). ring. }
    assert (eval_lin a (map (fun r => (fit_coeff i, abs_key (verrg r))) (map fst (used_cov i))) == fit_cost i F)%Q as E2.
    { rewrite map_map, (eval_lin_map a (fun _ => fit_coeff i) (fun rc => abs_key (verrg (fst rc)))).
      unfold fit_cost. rewrite sumr_qsum, <- qsum_scale. apply qsum_eq. intros rc Hrc. rewrite (canon_abs_errg rc Hrc). reflexivity. }
    assert (eval_lin a (map (fun x => ((p_cn_pars (i_par i) * penalty c i (fst x))%Q, vcn x)) (slots i)) == pars_cost c i F)%Q as E3.
    { rewrite (bin_weighted a (fun x => x) (fun x => (p_cn_pars (i_par i) * penalty c i (fst x))%Q) (slots i) (fun x _ => canon_bin x)).
      cbv beta. unfold pars_cost. rewrite sumr_qsum, qsum_scale.
      assert (map fst F = filter (fun x => on a x) (slots i)) as <-.
      { rewrite <- chosen_filter. apply act_structs_fst. }
      rewrite map_map. reflexivity. }
    rewrite E1, E2, E3. ring.
  Qed.
End Converse.

(* ---------- the two directions together ---------- *)
Theorem cn_feasible_iff_thm c i (b : slot -> bool) :
  (forall x, b x = true -> In x (slots i)) -> NoDup (map fst (used_cov i)) ->
  ((exists a, feasible (gen c i) a /\ forall x, In x (slots i) -> on a x = b x) <->
   (form_ok i (filter b (slots i)) = true /\ bounds_ok i (chosen i b) = true)).
Proof.
  intros Hb Hnd. split.
  - intros [a [Hf Hon]]. split.
    + rewrite <- (filter_ext_in_len (on a) b (slots i) Hon). apply (feasible_form_ok c i a Hf).
    + assert (chosen i b = act_structs i a) as ->.
      { unfold chosen, act_structs. apply filter_ext_in_len. intros st Hst. symmetry. apply Hon. unfold slots. apply in_map. exact Hst. }
      apply (feasible_bounds_ok c i a Hf).
  - intros [H1 H2]. exists (canon_asg i b). split.
    + apply canon_feasible; assumption.
    + intros x _. apply canon_on.
Qed.

Theorem cn_objective_thm c i a :
  inst_ok i = true -> par_nonneg i -> NoDup (map fst (used_cov i)) -> feasible (gen c i) a ->
  (form_objective c i (act_structs i a) <= objective (gen c i) a)%Q /\
  exists a', feasible (gen c i) a' /\ (forall x, In x (slots i) -> on a' x = on a x) /\
             (objective (gen c i) a' == form_objective c i (act_structs i a))%Q.
Proof.
  intros Hok Hpar Hnd Hf. split; [apply objective_lower; assumption|].
  set (b := fun x => on a x && memb slot_eqb x (slots i)).
  assert (forall x, In x (slots i) -> b x = on a x) as Hbx.
  { intros x Hx. unfold b. assert (memb slot_eqb x (slots i) = true) as ->; [|apply andb_true_r].
    apply (has_In (slots i) x). exact Hx. }
  assert (forall x, b x = true -> In x (slots i)) as Hb.
  { intros x H. unfold b in H. apply andb_true_iff in H as [_ H]. apply (has_In (slots i) x). exact H. }
  assert (filter b (slots i) = act i a) as E1 by (apply filter_ext_in_len; exact Hbx).
  assert (chosen i b = act_structs i a) as E2.
  { unfold chosen, act_structs. apply filter_ext_in_len. intros st Hst. apply Hbx. unfold slots. apply in_map. exact Hst. }
  assert (form_ok i (filter b (slots i)) = true) as F1 by (rewrite E1; apply (feasible_form_ok c i a Hf)).
  assert (bounds_ok i (chosen i b) = true) as F2 by (rewrite E2; apply (feasible_bounds_ok c i a Hf)).
  exists (canon_asg i b). split; [apply canon_feasible; assumption|]. split.
  - intros x Hx. rewrite canon_on. apply Hbx. exact Hx.
  - rewrite <- E2. apply canon_objective; assumption.
Qed.

(* ---------- the evaluator used by the harness computes the same scored list ---------- *)
Lemma flat_map_map' {A B C} (g : B -> list C) (h : A -> B) l : flat_map g (map h l) = flat_map (fun x => g (h x)) l.
Proof. induction l as [|x l IH]; [reflexivity|]. cbn [map flat_map]. rewrite IH. reflexivity. Qed.
Lemma map_flat_map {A B C} (h : B -> C) (g : A -> list B) l : map h (flat_map g l) = flat_map (fun x => map h (g x)) l.
Proof. induction l as [|x l IH]; [reflexivity|]. cbn [flat_map]. rewrite map_app, IH. reflexivity. Qed.
Lemma flat_map_ext' {A B} (f g : A -> list B) l : (forall x, f x = g x) -> flat_map f l = flat_map g l.
Proof. intros H. induction l as [|x l IH]; [reflexivity|]. cbn [flat_map]. rewrite H, IH. reflexivity. Qed.
Lemma pairs_map {A B} (f : A -> B) l : pairs (map f l) = map (fun p => (f (fst p), f (snd p))) (pairs l).
Proof.
  induction l as [|x l IH]; [reflexivity|]. cbn [map pairs]. rewrite map_app, IH, !map_map. reflexivity.
Qed.
Lemma prefixes_map {A B} (f : A -> B) l : prefixes (map f l) = map (map f) (prefixes l).
Proof.
  induction l as [|x l IH]; [reflexivity|]. cbn [map prefixes]. f_equal. rewrite IH, !map_map. reflexivity.
Qed.
Lemma product_map {A B} (f : A -> B) ls : product (map (map (map f)) ls) = map (map f) (product ls).
Proof.
  induction ls as [|l ls IH]; [reflexivity|]. cbn [map product]. rewrite IH, flat_map_map', map_flat_map.
  apply flat_map_ext'. intros x. rewrite !map_map. apply map_ext. intros y. rewrite map_app. reflexivity.
Qed.
Lemma candidates_of_map {A B} (f : A -> B) comp ex ps :
  candidates_of (map f comp) (map (map f) ex) (map f ps) = map (map f) (candidates_of comp ex ps).
Proof.
  unfold candidates_of.
  assert (product (map prefixes (map (map f) ex)) = map (map f) (product (map prefixes ex))) as ->.
  { rewrite <- product_map. f_equal. rewrite !map_map. apply map_ext. intros e. apply prefixes_map. }
  rewrite prefixes_map, pairs_map, flat_map_map', map_flat_map. apply flat_map_ext'. intros p. cbn [fst snd].
  rewrite flat_map_map', map_flat_map. apply flat_map_ext'. intros e. rewrite !map_map. apply map_ext. intros q.
  cbn [map]. rewrite map_app. reflexivity.
Qed.

Lemma vadd_map {A} (g h : A -> Z * Z) l :
  vadd (map g l) (map h l) = map (fun x => (fst (g x) + fst (h x), snd (g x) + snd (h x))) l.
Proof.
  induction l as [|x l IH]; [reflexivity|]. cbn [map vadd]. destruct (g x), (h x). cbn [fst snd]. rewrite IH. reflexivity.
Qed.
Lemma vsum_compile c i (F : form) : vsum i (map (compile c i) F) = map (copies F) (used_cov i).
Proof.
  unfold vsum. induction F as [|st F IH]; cbn [map fold_right].
  - apply map_ext. intros rc. reflexivity.
  - rewrite IH. unfold compile at 1. cbn [fst snd]. rewrite vadd_map. apply map_ext. intros rc.
    unfold copies, sumz. cbn [map zsum fold_right fst snd]. reflexivity.
Qed.
Lemma combine_map_self {A B} (h : A -> B) l : combine l (map h l) = map (fun x => (x, h x)) l.
Proof. induction l as [|x l IH]; [reflexivity|]. cbn [map combine]. rewrite IH. reflexivity. Qed.
Lemma forallb_map' {A B} (f : B -> bool) (g : A -> B) l : forallb f (map g l) = forallb (fun x => f (g x)) l.
Proof. induction l as [|x l IH]; [reflexivity|]. cbn [map forallb]. rewrite IH. reflexivity. Qed.
Lemma sumr_map {A B} (f : B -> Q) (g : A -> B) l : sumr f (map g l) = sumr (fun x => f (g x)) l.
Proof. unfold sumr. induction l as [|x l IH]; [reflexivity|]. cbn [map fold_right]. rewrite IH. reflexivity. Qed.
Lemma flat_map_if {A B} (p : A -> bool) (g : A -> B) l : flat_map (fun x => if p x then [g x] else []) l = map g (filter p l).
Proof. induction l as [|x l IH]; [reflexivity|]. cbn [flat_map filter]. destruct (p x); cbn [app map]; rewrite IH; reflexivity. Qed.

Lemma map_fst_compile c i (F : form) : map fst (map (compile c i) F) = map fst F.
Proof. rewrite map_map. reflexivity. Qed.

Theorem scored_fast_eq c i : scored_fast c i = scored c i.
Proof.
  unfold scored_fast, scored, forms, ccandidates, candidates.
  rewrite candidates_of_map, flat_map_map'.
  rewrite <- (flat_map_if (fun F => form_ok i (map fst F) && bounds_ok i F) (fun F => (Qred (form_objective c i F), map fst F))).
  apply flat_map_ext'. intros F. cbv zeta. rewrite map_fst_compile, vsum_compile.
  destruct (form_ok i (map fst F)); [|reflexivity]. cbn [andb].
  assert (fast_bounds_ok i (map (copies F) (used_cov i)) = bounds_ok i F) as ->.
  { unfold fast_bounds_ok, bounds_ok. rewrite combine_map_self, forallb_map'. reflexivity. }
  destruct (bounds_ok i F); [|reflexivity].
  assert (fast_objective i (map (compile c i) F) (map (copies F) (used_cov i)) = form_objective c i F) as ->; [|reflexivity].
  unfold fast_objective, form_objective, diff_cost, fit_cost, pars_cost. rewrite combine_map_self, !sumr_map. reflexivity.
Qed.
Corollary solve_cn_fast_eq c i : solve_cn_fast c i = solve_cn c i.
Proof. unfold solve_cn_fast, solve_cn. rewrite scored_fast_eq. reflexivity. Qed.
Corollary estimate_cn_fast_eq c e : estimate_cn_fast c e = estimate_cn c e.
Proof.
  unfold estimate_cn_fast, estimate_cn, estimate_cn_with. destruct (e_user e); [|reflexivity].
  destruct (negb (e_do_cn e)); [reflexivity|]. destruct (est_to_inst e) as [i|]; [|reflexivity].
  destruct (low_coverage e i) as [[|]|]; try reflexivity. destruct (inst_ok i); [|reflexivity]. rewrite solve_cn_fast_eq. reflexivity.
Qed.

(* ---------- the enumeration with exclusion cuts (spec level) ---------- *)
From Coq Require Import Sorting.Sorted.

Lemma argmin_none l : argmin l = None -> l = [].
Proof. destruct l as [|x l]; [reflexivity|]. cbn [argmin]. destruct (argmin l) as [y|]; [destruct (Qleb (fst x) (fst y))|]; discriminate. Qed.
Lemma argmin_spec l y : argmin l = Some y -> In y l /\ forall x, In x l -> (fst y <= fst x)%Q.
Proof.
  revert y. induction l as [|x l IH]; intros y H; [discriminate|]. cbn [argmin] in H.
  destruct (argmin l) as [z|] eqn:E.
  - destruct (IH z eq_refl) as [Hz Hmin]. destruct (Qleb (fst x) (fst z)) eqn:L; injection H as <-.
    + apply Qle_bool_iff in L. split; [left; reflexivity|]. intros w [<-|Hw]; [apply Qle_refl|].
      eapply Qle_trans; [exact L|apply Hmin; exact Hw].
    + assert (fst z < fst x)%Q as Hlt.
      { apply Qnot_le_lt. intros Hle. apply Qle_bool_iff in Hle. unfold Qleb in L. rewrite Hle in L. discriminate. }
      split; [right; exact Hz|]. intros w [<-|Hw]; [apply Qlt_le_weak; exact Hlt|apply Hmin; exact Hw].
  - injection H as <-. apply argmin_none in E. subst l. split; [left; reflexivity|]. intros w [<-|[]]. apply Qle_refl.
Qed.

Lemma subset_refl F : subset F F = true.
Proof. unfold subset. apply forallb_forall. intros x Hx. apply has_In. exact Hx. Qed.
Lemma subset_incl A B : subset A B = true <-> incl A B.
Proof.
  unfold subset, incl. rewrite forallb_forall. split; intros H x Hx.
  - apply has_In. apply H. exact Hx.
  - apply has_In. apply H. exact Hx.
Qed.
Lemma filter_length_lt {A} (p : A -> bool) l z : In z l -> p z = false -> (length (filter p l) < length l)%nat.
Proof.
  induction l as [|x l IH]; intros Hz Hp; [destruct Hz|]. cbn [filter length]. destruct Hz as [->|Hz].
  - rewrite Hp. pose proof (filter_le_length p l). lia.
  - specialize (IH Hz Hp). destruct (p x); cbn [length]; lia.
Qed.

Definition le_obj (x y : Q * list slot) : Prop := (fst x <= fst y)%Q.
Definition not_super (x y : Q * list slot) : Prop := subset (snd x) (snd y) = false.

Lemma cut_loop_in fuel : forall rem y, In y (cut_loop fuel rem) -> In y rem.
Proof.
  induction fuel as [|f IH]; intros rem y H; [destruct H|]. cbn [cut_loop] in H.
  destruct (argmin rem) as [[o F0]|] eqn:E; [|destruct H]. destruct H as [<-|H].
  - apply (argmin_spec rem _ E).
  - apply IH in H. apply filter_In in H. tauto.
Qed.
Lemma cut_loop_sorted fuel : forall rem, StronglySorted le_obj (cut_loop fuel rem).
Proof.
  induction fuel as [|f IH]; intros rem; [constructor|]. cbn [cut_loop].
  destruct (argmin rem) as [[o F0]|] eqn:E; [|constructor]. constructor; [apply IH|].
  apply Forall_forall. intros z Hz. apply cut_loop_in in Hz. apply filter_In in Hz as [Hz _].
  apply (argmin_spec rem _ E). exact Hz.
Qed.
Lemma cut_loop_nosuper fuel : forall rem, StronglySorted not_super (cut_loop fuel rem).
Proof.
  induction fuel as [|f IH]; intros rem; [constructor|]. cbn [cut_loop].
  destruct (argmin rem) as [[o F0]|] eqn:E; [|constructor]. constructor; [apply IH|].
  apply Forall_forall. intros z Hz. apply cut_loop_in in Hz. apply filter_In in Hz as [_ Hz].
  unfold not_cut in Hz. apply negb_true_iff in Hz. exact Hz.
Qed.
Lemma cut_loop_complete fuel : forall rem, (length rem <= fuel)%nat -> forall x, In x rem ->
  exists y, In y (cut_loop fuel rem) /\ subset (snd y) (snd x) = true /\ (fst y <= fst x)%Q.
Proof.
  induction fuel as [|f IH]; intros rem Hlen x Hx.
  - destruct rem; [destruct Hx|cbn [length] in Hlen; lia].
  - cbn [cut_loop]. destruct (argmin rem) as [[o F0]|] eqn:E.
    + destruct (argmin_spec rem _ E) as [Hin Hmin].
      destruct (subset F0 (snd x)) eqn:S.
      * exists (o, F0). split; [left; reflexivity|]. split; [exact S|apply (Hmin x Hx)].
      * assert (In x (filter (not_cut F0) rem)) as Hx' by (apply filter_In; split; [exact Hx|unfold not_cut; rewrite S; reflexivity]).
        assert (length (filter (not_cut F0) rem) <= f)%nat as Hl.
        { pose proof (filter_length_lt (not_cut F0) rem (o, F0) Hin) as Hlt. unfold not_cut in Hlt at 1. cbn [snd] in Hlt.
          rewrite subset_refl in Hlt. specialize (Hlt eq_refl). lia. }
        destruct (IH _ Hl x Hx') as [y [Hy HH]]. exists y. split; [right; exact Hy|exact HH].
    + apply argmin_none in E. subst rem. destruct Hx.
Qed.

(* accept is "objective below (1+gap)*best + SOLVER_PRECISON" *)
Lemma Qle_bool_false x y : Qle_bool x y = false -> (y < x)%Q.
Proof. intros H. apply Qnot_le_lt. intros Hle. apply Qle_bool_iff in Hle. rewrite Hle in H. discriminate. Qed.
Lemma accept_iff c gap m o : (0 < c_solver_precision c)%Q ->
  (accept c gap m o = true <-> (o < (1 + gap) * m + c_solver_precision c)%Q).
Proof.
  intros Hp. unfold accept, Qleb, Qltb. set (ub := ((1 + gap) * m)%Q). set (p := c_solver_precision c) in *.
  rewrite negb_true_iff. unfold Qabs'. destruct (Qle_bool o ub) eqn:B; cbn [negb].
  - rewrite andb_false_r. apply Qle_bool_iff in B. split; [intros _; lra|reflexivity].
  - rewrite andb_true_r. apply Qle_bool_false in B.
    assert (Qle_bool 0 (o - ub) = true) as -> by (apply Qle_bool_iff; lra).
    split.
    + intros H. apply Qle_bool_false in H. lra.
    + intros H. destruct (Qle_bool p (o - ub)) eqn:E; [|reflexivity]. apply Qle_bool_iff in E. lra.
Qed.

Section Enumeration.
  Variables (c : consts) (i : cn_inst) (sc : list (Q * list slot)).
  Hypothesis Hprec : (0 < c_solver_precision c)%Q.
  Hypothesis Hgap : (0 <= p_gap (i_par i))%Q.
  Hypothesis Hnonneg : forall x, In x sc -> (0 <= fst x)%Q.
  Let gap := p_gap (i_par i).

  Lemma within_spec x : In x (within c gap sc) <->
    In x sc /\ exists y, argmin sc = Some y /\ accept c gap (fst y) (fst x) = true.
  Proof.
    unfold within. destruct (argmin sc) as [[m F0]|] eqn:E.
    - rewrite filter_In. cbn [fst]. split.
      + intros [H1 H2]. split; [exact H1|]. exists (m, F0). auto.
      + intros [H1 [y [Hy H2]]]. injection Hy as <-. auto.
    - split; [intros []|]. intros [_ [y [Hy _]]]. discriminate.
  Qed.

  Theorem yields_sound y : In y (yields_of c i sc) ->
    In y sc /\ exists m, argmin sc = Some m /\ (fst y < (1 + gap) * fst m + c_solver_precision c)%Q.
  Proof.
    unfold yields_of. intros H. apply cut_loop_in in H. apply within_spec in H as [H1 [m [Hm H2]]].
    split; [exact H1|]. exists m. split; [exact Hm|]. apply accept_iff; assumption.
  Qed.
  Theorem yields_sorted : StronglySorted le_obj (yields_of c i sc).
  Proof. apply cut_loop_sorted. Qed.
  Theorem yields_no_superset : StronglySorted not_super (yields_of c i sc).
  Proof. apply cut_loop_nosuper. Qed.
  Theorem yields_complete x : In x sc ->
    (forall m, argmin sc = Some m -> (fst x < (1 + gap) * fst m + c_solver_precision c)%Q) ->
    exists y, In y (yields_of c i sc) /\ subset (snd y) (snd x) = true /\ (fst y <= fst x)%Q.
  Proof.
    intros Hx Hacc. unfold yields_of. apply cut_loop_complete; [apply le_n|].
    apply within_spec. split; [exact Hx|]. destruct (argmin sc) as [m|] eqn:E.
    - exists m. split; [reflexivity|]. apply accept_iff; [exact Hprec|]. apply Hacc. reflexivity.
    - apply argmin_none in E. subst sc. destruct Hx.
  Qed.
  (* the optimum itself is always inside the gap, so the first yield is a global optimum *)
  Theorem yields_first_optimal y t : yields_of c i sc = y :: t -> forall x, In x sc -> (fst y <= fst x)%Q.
  Proof.
    intros Hy x Hx. destruct (argmin sc) as [m|] eqn:E; [|apply argmin_none in E; subst sc; destruct Hx].
    destruct (argmin_spec sc m E) as [Hm Hmin].
    assert (fst m < (1 + gap) * fst m + c_solver_precision c)%Q as Hacc.
    { pose proof (Hnonneg m Hm) as H0. assert (0 <= gap * fst m)%Q by (apply Qmult_le_0_compat; assumption). lra. }
    destruct (yields_complete m Hm) as [z [Hz [_ Hle]]].
    { intros m' Hm'. rewrite E in Hm'. injection Hm' as <-. exact Hacc. }
    rewrite Hy in Hz. pose proof yields_sorted as Hs. rewrite Hy in Hs. inversion Hs as [|? ? _ Hall]; subst.
    assert (fst y <= fst z)%Q as H1.
    { destruct Hz as [<-|Hz]; [apply Qle_refl|]. rewrite Forall_forall in Hall. apply (Hall z Hz). }
    eapply Qle_trans; [exact H1|]. eapply Qle_trans; [exact Hle|]. apply Hmin. exact Hx.
  Qed.
End Enumeration.

(* ---------- folding the yields into configuration multisets (cn.py:271-276) ---------- *)
Lemma names_eqb_eq a : forall b, names_eqb a b = true <-> a = b.
Proof.
  unfold names_eqb. induction a as [|x a IH]; intros [|y b]; cbn [length combine forallb Nat.eqb fst snd];
    split; intros H; try reflexivity; try discriminate.
  - apply andb_true_iff in H as [H1 H2]. apply andb_true_iff in H2 as [H2 H3]. apply str_eqb_eq in H2. subst y.
    f_equal. apply IH. rewrite H1, H3. reflexivity.
  - injection H as -> ->. rewrite str_eqb_refl. cbn [andb]. apply IH. reflexivity.
Qed.
Lemma key_in_acc (acc : list (list str * Q)) k :
  existsb (fun e => names_eqb (fst e) k) acc = true <-> In k (map fst acc).
Proof.
  rewrite existsb_exists. split.
  - intros [e [He E]]. apply names_eqb_eq in E. subst k. apply in_map. exact He.
  - intros H. apply in_map_iff in H as [e [<- He]]. exists e. split; [exact He|apply names_eqb_eq; reflexivity].
Qed.

Lemma collect_prefix i ys : forall acc, exists new, collect i ys acc = acc ++ new.
Proof.
  induction ys as [|[o F] t IH]; intros acc; cbn [collect].
  - exists []. rewrite app_nil_r. reflexivity.
  - destruct (existsb _ acc); [apply IH|]. destruct (IH (acc ++ [(fold_form i F, o)])) as [new E].
    exists ((fold_form i F, o) :: new). rewrite E, <- app_assoc. reflexivity.
Qed.
Lemma collect_in i ys : forall acc k o, In (k, o) (collect i ys acc) ->
  In (k, o) acc \/ exists F, In (o, F) ys /\ fold_form i F = k.
Proof.
  induction ys as [|[o1 F1] t IH]; intros acc k o H; cbn [collect] in H; [left; exact H|].
  destruct (existsb _ acc).
  - destruct (IH _ _ _ H) as [Ha|[F [HF E]]]; [left; exact Ha|right; exists F; split; [right; exact HF|exact E]].
  - destruct (IH _ _ _ H) as [Ha|[F [HF E]]].
    + apply in_app_or in Ha as [Ha|[Ha|[]]]; [left; exact Ha|]. injection Ha as <- <-. right. exists F1. split; [left; reflexivity|reflexivity].
    + right. exists F. split; [right; exact HF|exact E].
Qed.
Lemma NoDup_snoc {A} (l : list A) x : NoDup l -> ~ In x l -> NoDup (l ++ [x]).
Proof. intros H1 H2. apply (Permutation_NoDup (Permutation_cons_append l x)). constructor; assumption. Qed.
Lemma collect_nodup i ys : forall acc, NoDup (map fst acc) -> NoDup (map fst (collect i ys acc)).
Proof.
  induction ys as [|[o F] t IH]; intros acc H; cbn [collect]; [exact H|].
  destruct (existsb _ acc) eqn:E; [apply IH; exact H|]. apply IH. rewrite map_app. cbn [map fst].
  apply NoDup_snoc; [exact H|]. intros Hin. apply key_in_acc in Hin. rewrite Hin in E. discriminate.
Qed.
(* with the yields in non-decreasing order, every yield's structure is reported with a score that is not larger *)
Lemma collect_covers i ys : forall acc, StronglySorted le_obj ys ->
  (forall e y, In e acc -> In y ys -> (snd e <= fst y)%Q) ->
  forall o F, In (o, F) ys -> exists o', In (fold_form i F, o') (collect i ys acc) /\ (o' <= o)%Q.
Proof.
  induction ys as [|[o1 F1] t IH]; intros acc Hs Hacc o F Hin; [destruct Hin|].
  inversion Hs as [|? ? Hs' Hall]; subst. rewrite Forall_forall in Hall. cbn [collect].
  destruct (existsb (fun e => names_eqb (fst e) (fold_form i F1)) acc) eqn:E.
  - destruct Hin as [Heq|Hin].
    + injection Heq as <- <-. apply existsb_exists in E as [[k o'] [He Hk]]. cbn [fst] in Hk. apply names_eqb_eq in Hk. subst k.
      exists o'. split.
      * destruct (collect_prefix i t acc) as [new ->]. apply in_or_app. left. exact He.
      * apply (Hacc (fold_form i F1, o') (o1, F1) He (or_introl eq_refl)).
    + apply (IH acc Hs'); [|exact Hin]. intros e y He Hy. apply (Hacc e y He). right. exact Hy.
  - destruct Hin as [Heq|Hin].
    + injection Heq as <- <-. exists o1. split; [|apply Qle_refl].
      destruct (collect_prefix i t (acc ++ [(fold_form i F1, o1)])) as [new ->]. apply in_or_app. left. apply in_or_app. right. left. reflexivity.
    + apply (IH _ Hs'); [|exact Hin]. intros e y He Hy. apply in_app_or in He as [He|[<-|[]]].
      * apply (Hacc e y He). right. exact Hy.
      * cbn [snd]. apply (Hall y Hy).
Qed.

Section Reported.
  Variables (c : consts) (i : cn_inst) (sc : list (Q * list slot)).
  Hypothesis Hprec : (0 < c_solver_precision c)%Q.
  Hypothesis Hgap : (0 <= p_gap (i_par i))%Q.
  Hypothesis Hnonneg : forall x, In x sc -> (0 <= fst x)%Q.
  Let gap := p_gap (i_par i).
  Let res := solve_from c i sc.

  (* the score of a reported structure is the objective of a scored form folding to it, inside the gap *)
  Theorem reported_sound k o : In (k, o) res ->
    exists F, In (o, F) sc /\ fold_form i F = k /\
              exists m, argmin sc = Some m /\ (o < (1 + gap) * fst m + c_solver_precision c)%Q.
  Proof.
    unfold res, solve_from. intros H. apply collect_in in H as [[]|[F [HF E]]].
    destruct (yields_sound c i sc Hprec (o, F) HF) as [H1 H2]. exists F. auto.
  Qed.
  (* nothing is reported twice *)
  Theorem reported_nodup : NoDup (map fst res).
  Proof. unfold res, solve_from. apply collect_nodup. constructor. Qed.
  (* the first reported structure is a global optimum over all scored forms *)
  Theorem reported_first_optimal k o t : res = (k, o) :: t -> forall x, In x sc -> (o <= fst x)%Q.
  Proof.
    unfold res, solve_from. destruct (yields_of c i sc) as [|[o1 F1] ys] eqn:E; cbn [collect]; [discriminate|].
    cbn [existsb]. destruct (collect_prefix i ys ([] ++ [(fold_form i F1, o1)])) as [new ->]. cbn [app].
    intros H. injection H as _ <- _. intros x Hx.
    apply (yields_first_optimal c i sc Hprec Hgap Hnonneg (o1, F1) ys E x Hx).
  Qed.
  (* completeness by containment: a scored form inside the gap contains (as a set of slots) a yielded form whose structure
     is reported with a score that is not larger *)
  Theorem reported_complete x : In x sc ->
    (forall m, argmin sc = Some m -> (fst x < (1 + gap) * fst m + c_solver_precision c)%Q) ->
    exists F0 o0 o', In (o0, F0) sc /\ subset F0 (snd x) = true /\ In (fold_form i F0, o') res /\ (o' <= o0)%Q /\ (o0 <= fst x)%Q.
  Proof.
    intros Hx Hacc. destruct (yields_complete c i sc Hprec Hnonneg x Hx Hacc) as [[o0 F0] [Hy [Hsub Hle]]].
    destruct (collect_covers i (yields_of c i sc) [] (yields_sorted c i sc)) with (o := o0) (F := F0) as [o' [Hin Hle']].
    - intros e y [].
    - exact Hy.
    - exists F0, o0, o'. cbn [fst snd] in *. destruct (yields_sound c i sc Hprec (o0, F0) Hy) as [H1 _]. auto.
  Qed.
  (* the reported score of a structure is the least objective among the yields folding to it *)
  Theorem reported_least k o : In (k, o) res -> forall o2 F2, In (o2, F2) (yields_of c i sc) -> fold_form i F2 = k -> (o <= o2)%Q.
  Proof.
    intros Hin o2 F2 Hy Hk.
    destruct (collect_covers i (yields_of c i sc) [] (yields_sorted c i sc)) with (o := o2) (F := F2) as [o' [Hin' Hle]].
    - intros e y [].
    - exact Hy.
    - rewrite Hk in Hin'. fold (solve_from c i sc) in Hin'. fold res in Hin'.
      assert (o' = o) as <-; [|exact Hle].
      pose proof reported_nodup as Hnd. clear -Hin Hin' Hnd. induction res as [|[k1 o1] l IH]; [destruct Hin|].
      cbn [map fst] in Hnd. inversion Hnd as [|? ? Hk1 Hl]; subst.
      destruct Hin as [E1|H1], Hin' as [E2|H2].
      + congruence.
      + injection E1 as -> ->. exfalso. apply Hk1. apply (in_map fst) in H2. exact H2.
      + injection E2 as -> ->. exfalso. apply Hk1. apply (in_map fst) in H1. exact H1.
      + apply IH; assumption.
  Qed.
End Reported.

(* folding is monotone: a duplicate-free active set contained in another folds to a sub-multiset *)
Lemma fold_monotone i (F0 F : list slot) n : NoDup F0 -> incl F0 F ->
  (length (filter (str_eqb n) (fold_form i F0)) <= length (filter (str_eqb n) (fold_form i F)))%nat.
Proof.
  intros Hnd Hincl. unfold fold_form.
  rewrite !(perm_filter_length _ _ _ (sort_names_perm _)), !filter_map_comm, !map_length.
  apply NoDup_incl_length.
  - apply NoDup_filter. apply NoDup_filter. exact Hnd.
  - intros x Hx. apply filter_In in Hx as [Hx H1]. apply filter_In in Hx as [Hx H2].
    apply filter_In. split; [apply filter_In; split; [apply Hincl; exact Hx|exact H2]|exact H1].
Qed.

(* what a scored entry is *)
Lemma scored_spec c i o sl : In (o, sl) (scored c i) ->
  exists F, In F (candidates i) /\ sl = map fst F /\ form_ok i sl = true /\ bounds_ok i F = true /\ (o == form_objective c i F)%Q.
Proof.
  unfold scored, forms. intros H. apply in_map_iff in H as [F [E HF]].
  assert (o = Qred (form_objective c i F)) as -> by congruence. assert (sl = map fst F) as -> by congruence. clear E.
  apply filter_In in HF as [HF Hok]. apply andb_true_iff in Hok as [H1 H2].
  exists F. split; [exact HF|]. split; [reflexivity|]. split; [exact H1|]. split; [exact H2|]. exact (Qred_correct _).
Qed.

(* ---------- estimate_cn: user-supplied list, unknown names, default copies ---------- *)
Definition known (e : est_inst) (n : str) : bool := existsb (fun g => str_eqb (cf_name g) n) (e_gene_configs e).

Lemma parse_user_known e sols : (forall n, In n sols -> known e n = true) -> parse_user (e_gene_configs e) sols = Sols [(sols, 0%Q)].
Proof.
  intros H. unfold parse_user. destruct (find _ sols) as [n|] eqn:E; [|reflexivity].
  apply find_some in E as [Hn E]. unfold known in H. rewrite (H n Hn) in E. discriminate.
Qed.
Lemma parse_user_unknown e sols n : In n sols -> known e n = false ->
  exists m, parse_user (e_gene_configs e) sols = ErrUnknown m /\ In m sols /\ known e m = false.
Proof.
  intros Hn Hk. unfold parse_user. destruct (find _ sols) as [m|] eqn:E.
  - apply find_some in E as [Hm E]. exists m. split; [reflexivity|]. split; [exact Hm|]. apply negb_true_iff in E. exact E.
  - pose proof (find_none _ _ E n Hn) as H. unfold known in Hk. cbv beta in H. rewrite Hk in H. discriminate.
Qed.

Theorem user_verbatim c e : e_user e <> [] -> (forall n, In n (e_user e) -> known e n = true) ->
  estimate_cn c e = Sols [(e_user e, 0%Q)].
Proof.
  intros Hne Hk. unfold estimate_cn, estimate_cn_with. destruct (e_user e) as [|n t] eqn:E; [contradiction|].
  apply parse_user_known. exact Hk.
Qed.
Theorem user_unknown_rejected c e n : In n (e_user e) -> known e n = false ->
  exists m, estimate_cn c e = ErrUnknown m /\ In m (e_user e) /\ known e m = false.
Proof.
  intros Hn Hk. unfold estimate_cn, estimate_cn_with. destruct (e_user e) as [|n0 t] eqn:E; [destruct Hn|].
  apply parse_user_unknown with (n := n); assumption.
Qed.
Theorem default_copies_thm c e g rest : e_user e = [] -> e_do_cn e = false ->
  filter (fun g => is_default (cf_kind g)) (e_gene_configs e) = g :: rest ->
  estimate_cn c e = Sols [(repeat (cf_name g) (Z.to_nat (default_copies e)), 0%Q)] /\
  (default_copies e = if e_male e && (str_eqb (e_chr e) Xs || str_eqb (e_chr e) Ys) then 1 else 2).
Proof.
  intros Hu Hd Hg. split; [|reflexivity]. unfold estimate_cn, estimate_cn_with. rewrite Hu, Hd, Hg. cbn [negb].
  apply parse_user_known. intros n Hn. apply repeat_spec in Hn. subst n. unfold known. apply existsb_exists.
  exists g. split; [|apply str_eqb_refl].
  assert (In g (filter (fun g => is_default (cf_kind g)) (e_gene_configs e))) as H by (rewrite Hg; left; reflexivity).
  apply filter_In in H. tauto.
Qed.

(* ---------- decidable side conditions (evaluated by the harness on every instance) ---------- *)
Fixpoint nodupb (l : list str) : bool :=
  match l with [] => true | x :: t => negb (memb str_eqb x t) && nodupb t end.
Lemma nodupb_NoDup l : nodupb l = true -> NoDup l.
Proof.
  induction l as [|x l IH]; intros H; [constructor|]. cbn [nodupb] in H. apply andb_true_iff in H as [H1 H2].
  constructor; [|apply IH; exact H2]. intros Hin. apply negb_true_iff in H1. unfold memb in H1.
  assert (existsb (str_eqb x) l = true) as E by (apply existsb_exists; exists x; split; [exact Hin|apply str_eqb_refl]).
  rewrite E in H1. discriminate.
Qed.
Definition pars_nonneg (i : cn_inst) : Prop :=
  (0 <= p_cn_pars (i_par i) /\ 0 <= p_fus_left (i_par i) /\ 0 <= p_fus_right (i_par i))%Q.
Definition hyps_ok (i : cn_inst) : bool :=
  inst_ok i && names_ok i && nodupb (map fst (used_cov i)) &&
  Qleb 0 (p_cn_diff (i_par i)) && Qleb 0 (p_cn_fit (i_par i)) && Qleb 0 (p_cn_pce (i_par i)) &&
  Qleb 0 (p_cn_pars (i_par i)) && Qleb 0 (p_fus_left (i_par i)) && Qleb 0 (p_fus_right (i_par i)) && Qleb 0 (p_gap (i_par i)).
Lemma hyps_ok_spec i : hyps_ok i = true ->
  inst_ok i = true /\ names_ok i = true /\ NoDup (map fst (used_cov i)) /\ par_nonneg i /\ pars_nonneg i /\ (0 <= p_gap (i_par i))%Q.
Proof.
  unfold hyps_ok, Qleb. rewrite !andb_true_iff, !Qle_bool_iff. intros [[[[[[[[[H1 H2] H3] H4] H5] H6] H7] H8] H9] H10].
  unfold par_nonneg, pars_nonneg. repeat split; try assumption. apply nodupb_NoDup. exact H3.
Qed.

Lemma Qltb_lt x y : Qltb x y = true -> (x < y)%Q.
Proof. unfold Qltb. intros H. apply negb_true_iff in H. apply Qle_bool_false. exact H. Qed.
Lemma consts_wf_cn c : consts_wf c = true ->
  (0 < c_solver_precision c /\ 0 < c_cn_pars_num c /\ 0 < c_cn_pars_factor c)%Q.
Proof.
  unfold consts_wf. rewrite !andb_true_iff. intros H.
  repeat match type of H with _ /\ _ => let A := fresh "A" in destruct H as [H A] end.
  repeat split; apply Qltb_lt; assumption.
Qed.

Lemma qsum_nonneg {A} (f : A -> Q) l : (forall x, In x l -> (0 <= f x)%Q) -> (0 <= qsum (map f l))%Q.
Proof.
  induction l as [|x l IH]; intros H; cbn [map qsum]; [apply Qle_refl|].
  assert (0 <= f x)%Q by (apply H; left; reflexivity). assert (0 <= qsum (map f l))%Q by (apply IH; intros y Hy; apply H; right; exact Hy). lra.
Qed.
Lemma sumr_nonneg {A} (f : A -> Q) l : (forall x, In x l -> (0 <= f x)%Q) -> (0 <= sumr f l)%Q.
Proof. intros H. rewrite sumr_qsum. apply qsum_nonneg. exact H. Qed.

Lemma penalty_nonneg c i n : consts_wf c = true -> inst_ok i = true -> pars_nonneg i -> (0 <= penalty c i n)%Q.
Proof.
  intros Hc Hok [_ [Hl Hr]]. destruct (consts_wf_cn c Hc) as [_ [Hn Hfa]]. pose proof (n_unique_pos i Hok) as HU.
  assert (0 <= pars_penalty c i)%Q as HP.
  { unfold pars_penalty. apply Qmult_le_0_compat; [apply div_nonneg; [apply Qlt_le_weak; exact Hn|exact HU]|apply Qlt_le_weak; exact Hfa]. }
  unfold penalty. set (P := pars_penalty c i) in *.
  assert (0 <= P * p_fus_right (i_par i))%Q by (apply Qmult_le_0_compat; assumption).
  assert (0 <= P * p_fus_left (i_par i))%Q by (apply Qmult_le_0_compat; assumption).
  destruct (find _ _) as [g|]; [destruct (cf_kind g)|]; lra.
Qed.
Lemma form_objective_nonneg c i F : consts_wf c = true -> inst_ok i = true -> par_nonneg i -> pars_nonneg i ->
  (0 <= form_objective c i F)%Q.
Proof.
  intros Hc Hok [Hd [Hf Hp]] Hpars. pose proof (n_unique_pos i Hok) as HU. unfold form_objective.
  assert (0 <= diff_cost i F)%Q.
  { unfold diff_cost. apply Qmult_le_0_compat; [apply div_nonneg; assumption|]. apply sumr_nonneg. intros rc _.
    apply Qmult_le_0_compat; [|apply Qabs'_nonneg]. unfold pce_coeff. destruct (str_eqb (fst rc) PCE); [exact Hp|lra]. }
  assert (0 <= fit_cost i F)%Q.
  { unfold fit_cost. apply Qmult_le_0_compat; [apply div_nonneg; assumption|]. apply sumr_nonneg. intros rc _. apply Qabs'_nonneg. }
  assert (0 <= pars_cost c i F)%Q.
  { unfold pars_cost. destruct Hpars as [Hpp ?]. apply Qmult_le_0_compat; [exact Hpp|]. apply sumr_nonneg. intros st _.
    apply penalty_nonneg; try assumption. split; assumption. }
  lra.
Qed.
Lemma scored_nonneg c i : consts_wf c = true -> inst_ok i = true -> par_nonneg i -> pars_nonneg i ->
  forall x, In x (scored c i) -> (0 <= fst x)%Q.
Proof.
  intros Hc Hok Hp Hpp [o sl] Hx. apply scored_spec in Hx as [F [_ [_ [_ [_ E]]]]]. cbn [fst]. rewrite E.
  apply form_objective_nonneg; assumption.
Qed.

(* ---------- what solve_cn reports, for the scored list of the instance itself ---------- *)
Section Solve.
  Variables (c : consts) (i : cn_inst).
  Hypothesis Hc : consts_wf c = true.
  Hypothesis Hh : hyps_ok i = true.
  Let gap := p_gap (i_par i).

  Definition in_gap (o : Q) : Prop :=
    forall m, argmin (scored c i) = Some m -> (o < (1 + gap) * fst m + c_solver_precision c)%Q.

  Theorem solve_scores k o : In (k, o) (solve_cn c i) ->
    exists F, In F (candidates i) /\ form_ok i (map fst F) = true /\ bounds_ok i F = true /\
              fold_form i (map fst F) = k /\ (o == form_objective c i F)%Q /\ in_gap o.
  Proof.
    destruct (hyps_ok_spec i Hh) as [Hok [_ [_ [Hp [Hpp Hg]]]]]. destruct (consts_wf_cn c Hc) as [Hprec _].
    intros H. destruct (reported_sound c i (scored c i) Hprec k o H) as [sl [Hsc [Hk [m [Hm Hlt]]]]].
    apply scored_spec in Hsc as [F [HF [-> [H1 [H2 E]]]]]. exists F. repeat (split; [assumption|]).
    intros m' Hm'. rewrite Hm in Hm'. injection Hm' as <-. exact Hlt.
  Qed.
  Theorem solve_nodup : NoDup (map fst (solve_cn c i)).
  Proof. apply reported_nodup. Qed.
  Theorem solve_first_optimal k o t : solve_cn c i = (k, o) :: t ->
    forall F, In F (candidates i) -> form_ok i (map fst F) = true -> bounds_ok i F = true -> (o <= form_objective c i F)%Q.
  Proof.
    destruct (hyps_ok_spec i Hh) as [Hok [_ [_ [Hp [Hpp Hg]]]]]. destruct (consts_wf_cn c Hc) as [Hprec _].
    intros H F HF H1 H2.
    assert (In (Qred (form_objective c i F), map fst F) (scored c i)) as Hin.
    { unfold scored, forms. apply in_map_iff. exists F. split; [reflexivity|]. apply filter_In. split; [exact HF|]. rewrite H1, H2. reflexivity. }
    pose proof (reported_first_optimal c i (scored c i) Hprec Hg (scored_nonneg c i Hc Hok Hp Hpp) k o t H _ Hin) as Hle.
    cbn [fst] in Hle. rewrite Qred_correct in Hle. exact Hle.
  Qed.
  Theorem solve_complete F : In F (candidates i) -> form_ok i (map fst F) = true -> bounds_ok i F = true ->
    in_gap (form_objective c i F) ->
    exists F0 o', In F0 (candidates i) /\ form_ok i (map fst F0) = true /\ bounds_ok i F0 = true /\
                  incl (map fst F0) (map fst F) /\ In (fold_form i (map fst F0), o') (solve_cn c i) /\
                  (o' <= form_objective c i F0)%Q /\ (form_objective c i F0 <= form_objective c i F)%Q.
  Proof.
    destruct (hyps_ok_spec i Hh) as [Hok [_ [_ [Hp [Hpp Hg]]]]]. destruct (consts_wf_cn c Hc) as [Hprec _].
    intros HF H1 H2 Hgap.
    assert (In (Qred (form_objective c i F), map fst F) (scored c i)) as Hin.
    { unfold scored, forms. apply in_map_iff. exists F. split; [reflexivity|]. apply filter_In. split; [exact HF|]. rewrite H1, H2. reflexivity. }
    destruct (reported_complete c i (scored c i) Hprec (scored_nonneg c i Hc Hok Hp Hpp) _ Hin) as [sl0 [o0 [o' [Hs0 [Hsub [Hrep [Hle1 Hle2]]]]]]].
    { intros m Hm. cbn [fst]. rewrite Qred_correct. apply Hgap. exact Hm. }
    apply scored_spec in Hs0 as [F0 [HF0 [-> [G1 [G2 E]]]]]. cbn [fst snd] in *. rewrite Qred_correct in Hle2. rewrite E in Hle1, Hle2.
    exists F0, o'. repeat (split; [assumption|]). split; [apply subset_incl; exact Hsub|]. split; [exact Hrep|]. split; assumption.
  Qed.
End Solve.
