(* Tied_norm.v — the regenerated decision expressions of /repo (gen/Exprs_norm.v, written by harness/gen_exprs.py from the Python
   AST on every run) are the expressions the hand-written model uses.  Every lemma is an obligation of the tie: when an
   expression of the code changes, the generated file changes with it and the lemma stops compiling even if no sampled input
   tells old and new behaviour apart.  Statements: the model's definition equals the translated expression, for all arguments. *)
From Aldy Require Import Base Consts Norm Exprs_norm TieTac.
Import List.
Open Scope Q_scope.

(* ---- coverage.py: _normalize_coverage *)
Lemma norm_region_tied : forall ratio s pd,
  (region_value ratio s pd == let p := (pd / norm_profile_div)%Q in if Qeqb p 0 then 0 else norm_region ratio (inZ s) p)%Q.
Proof. first [reflexivity | intros; unfold region_value, norm_region, norm_profile_div; tie_q]. Qed.

Lemma norm_ratio_tied : forall nv regions cn dg dn, range_sum dn (fst cn) (snd cn) <> 0%Z ->
  Qeqb (norm_ratio nv (inZ (range_sum dn (fst cn) (snd cn)))) 0 = false ->
  normalize nv regions cn dg dn =
  NOk (map (fun rp => ((nr_gene (fst rp), nr_name (fst rp)),
                       region_value (norm_ratio nv (inZ (range_sum dn (fst cn) (snd cn))))
                                    (range_sum dg (nr_start (fst rp)) (nr_end (fst rp))) (snd rp))) regions).
Proof.
  intros nv regions cn dg dn H1 H2. unfold normalize.
  destruct (Z.eqb_spec (range_sum dn (fst cn) (snd cn)) 0) as [E|E]; [contradiction|].
  unfold norm_ratio in H2. rewrite H2. reflexivity.
Qed.

