(* PileupMnpTableProofs.v — C06, table level, for the COMPONENTS of a catalogued multi-nucleotide substitution:
   the count under a component substitution is the number of eligible reads that show that base but not the whole
   multi-substitution (those are counted once, under the multi-substitution itself: mnp_table_count), and the reference count at a
   later position of the multi-substitution additionally holds the reads that show all of it (sam.py:704-723 re-appends the
   later components as reference observations).  Completes what props/C06.v called C06_mnp_table_count_partial. *)
From Aldy Require Import Base Consts Pileup PileupProofs.
Import List.
Open Scope Z_scope.

Lemma raw_count_sub g c r x b : in_gene g x = true -> b <> base g x ->
  count (fun o => key_eqb (fst o) (x, sub_op (base g x) b)) (at_pos x (raw_obs g c r)) = if shows r x b then 1 else 0.
Proof.
  intros G Hb. destruct (raw_at g c r x) as [gq E]. rewrite E.
  unfold read_exp_at, exp_at, shows, base_at. destruct (aligned (r_cigar r) (r_start r) 0 x) as [j|].
  - rewrite count_single. unfold key_eqb. cbn [fst snd]. rewrite Z.eqb_refl. cbn [andb]. unfold classify. rewrite G. cbn [andb].
    destruct (base g x =? nth j (r_seq r) 78) eqn:E1; cbn [negb].
    + rewrite str_eqb_ref_sub. apply Z.eqb_eq in E1. destruct (nth j (r_seq r) 78 =? b) eqn:E2; [|reflexivity].
      apply Z.eqb_eq in E2. exfalso. apply Hb. congruence.
    + rewrite str_eqb_sub_sub. reflexivity.
  - destruct (covered (r_cigar r) (r_start r) x); [|reflexivity].
    rewrite count_single. unfold key_eqb. cbn [fst snd]. rewrite str_eqb_gap_sub, andb_false_r. reflexivity.
Qed.
Lemma raw_count_ref g c r x : in_gene g x = true ->
  count (fun o => key_eqb (fst o) (x, ref_op)) (at_pos x (raw_obs g c r)) = if shows r x (base g x) then 1 else 0.
Proof.
  intros G. destruct (raw_at g c r x) as [gq E]. rewrite E.
  unfold read_exp_at, exp_at, shows, base_at. destruct (aligned (r_cigar r) (r_start r) 0 x) as [j|].
  - rewrite count_single. unfold key_eqb. cbn [fst snd]. rewrite Z.eqb_refl. cbn [andb]. unfold classify. rewrite G. cbn [andb].
    rewrite (Z.eqb_sym (nth j (r_seq r) 78)).
    destruct (base g x =? nth j (r_seq r) 78) eqn:E1; cbn [negb]; [reflexivity | rewrite str_eqb_sub_ref; reflexivity].
  - destruct (covered (r_cigar r) (r_start r) x); [|reflexivity].
    rewrite count_single. unfold key_eqb. cbn [fst snd]. replace (str_eqb gap_op ref_op) with false by reflexivity.
    rewrite andb_false_r. reflexivity.
Qed.

Section Comp.
  Variables (g : gview) (c : consts) (m : Z * (str * str)) (ck : nat * key) (b : Z).
  Hypothesis W : multi_wf g = true.
  Hypothesis I : In m (g_multi g).
  Hypothesis C : In ck (comps m).
  Let x := fst (snd ck).
  Hypothesis K : snd ck = (x, sub_op (base g x) b).
  Hypothesis G : in_gene g x = true.
  Hypothesis Hb : b <> base g x.

  Lemma Wm : multi_wf1 m = true.
  Proof. pose proof W as W'. unfold multi_wf in W'. apply andb_true_iff in W'. destruct W' as [W1 _]. rewrite forallb_forall in W1. apply W1, I. Qed.

  (* per read: the component substitution *)
  Lemma comp_read_sub r : kcount (read_obs g c r) (snd ck) = if shows r x b && negb (shows_allb g c r m) then 1 else 0.
  Proof.
    destruct (mnp_counted_once g c r m W I) as [Y _]. unfold shows_allb.
    destruct (matched (dump_of (read_events g c r)) m) eqn:E.
    - rewrite andb_false_r. destruct Y as (_ & Z & _); [apply (matched_iff_shows_all g c r m Wm); exact E|]. apply Z. exact C.
    - rewrite andb_true_r. rewrite K, kcount_at by apply is_ins_sub.
      assert (NS : ~ shows_all g c r m).
      { intros S. apply (matched_iff_shows_all g c r m Wm) in S. rewrite S in E. discriminate. }
      unfold x. rewrite (proj2 (read_at_comp g c r m ck W I C) NS). apply raw_count_sub; assumption.
  Qed.
  (* per read: the reference at a later position of the multi-substitution *)
  Lemma comp_read_ref r : fst ck <> O ->
    kcount (read_obs g c r) (x, ref_op) = if shows r x (base g x) || shows_allb g c r m then 1 else 0.
  Proof.
    intros NZ. destruct (mnp_counted_once g c r m W I) as [Y _]. unfold shows_allb.
    destruct (matched (dump_of (read_events g c r)) m) eqn:E.
    - rewrite orb_true_r. destruct Y as (_ & _ & Z); [apply (matched_iff_shows_all g c r m Wm); exact E|]. apply (Z ck C NZ).
    - rewrite orb_false_r. rewrite kcount_at by reflexivity.
      assert (NS : ~ shows_all g c r m).
      { intros S. apply (matched_iff_shows_all g c r m Wm) in S. rewrite S in E. discriminate. }
      unfold x. rewrite (proj2 (read_at_comp g c r m ck W I C) NS). apply raw_count_ref; assumption.
  Qed.

  (* table level *)
  Theorem mnp_component_table_count rs indels : alookup key_eqb (snd ck) indels = None ->
    cov_coverage (sample_table g c rs) indels (snd ck) = count (fun r => eligible g r && (shows r x b && negb (shows_allb g c r m))) rs.
  Proof.
    intros A. unfold cov_coverage. rewrite A. rewrite table_kcount.
    - rewrite kcount_pile. apply zsum_ind_count. intros r. destruct (eligible g r); cbn [andb]; [apply comp_read_sub|reflexivity].
    - rewrite K. cbn [fst]. apply in_gene_in_bounds. exact G.
    - rewrite K. cbn [snd]. apply is_ins_sub.
  Qed.
  Theorem mnp_component_table_ref rs indels : fst ck <> O -> alookup key_eqb (x, ref_op) indels = None ->
    cov_coverage (sample_table g c rs) indels (x, ref_op) = count (fun r => eligible g r && (shows r x (base g x) || shows_allb g c r m)) rs.
  Proof.
    intros NZ A. unfold cov_coverage. rewrite A. rewrite table_kcount.
    - rewrite kcount_pile. apply zsum_ind_count. intros r. destruct (eligible g r); cbn [andb]; [apply comp_read_ref; exact NZ|reflexivity].
    - cbn [fst]. apply in_gene_in_bounds. exact G.
    - reflexivity.
  Qed.
End Comp.

(* the premises of the two component theorems as ONE decidable condition on the gene view (evaluated by the harness on every gene
   used): each component of each catalogued multi-substitution is a substitution OF THE GENE'S REFERENCE BASE, inside the gene *)
Definition comp_ok (g : gview) (m : Z * (str * str)) (ck : nat * key) : bool :=
  let x := fst (snd ck) in let b := nth (fst ck) (snd (snd m)) 0 in
  key_eqb (snd ck) (x, sub_op (base g x) b) && in_gene g x && negb (b =? base g x).
Definition multi_ref_ok (g : gview) : bool := forallb (fun m => forallb (comp_ok g m) (comps m)) (g_multi g).

Theorem mnp_component_counts g c m ck rs indels : multi_wf g = true -> multi_ref_ok g = true -> In m (g_multi g) -> In ck (comps m) ->
  let x := fst (snd ck) in let b := nth (fst ck) (snd (snd m)) 0 in
  (alookup key_eqb (snd ck) indels = None ->
   cov_coverage (sample_table g c rs) indels (snd ck) = count (fun r => eligible g r && (shows r x b && negb (shows_allb g c r m))) rs) /\
  (fst ck <> O -> alookup key_eqb (x, ref_op) indels = None ->
   cov_coverage (sample_table g c rs) indels (x, ref_op) = count (fun r => eligible g r && (shows r x (base g x) || shows_allb g c r m)) rs).
Proof.
  intros W R I C x b. unfold multi_ref_ok in R. rewrite forallb_forall in R. specialize (R m I). rewrite forallb_forall in R.
  specialize (R ck C). unfold comp_ok in R. fold x b in R. apply andb_true_iff in R. destruct R as [R Nb].
  apply andb_true_iff in R. destruct R as [Kb G].
  destruct (key_eqb_spec (snd ck) (x, sub_op (base g x) b)) as [K|]; [|discriminate].
  assert (Hb : b <> base g x). { intros e. rewrite e, Z.eqb_refl in Nb. discriminate. }
  split.
  - intros A. apply (mnp_component_table_count g c m ck b W I C K G Hb rs indels A).
  - intros NZ A. apply (mnp_component_table_ref g c m ck W I C G rs indels NZ A).
Qed.
