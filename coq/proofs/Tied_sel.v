(* Tied_sel.v — the regenerated decision expressions of /repo (gen/Exprs_sel TieTac.v, written by harness/gen_exprs.py from the Python
   AST on every run) are the expressions the hand-written model uses.  Every lemma is an obligation of the tie: when an
   expression of the code changes, the generated file changes with it and the lemma stops compiling even if no sampled input
   tells old and new behaviour apart.  Statements: the model's definition equals the translated expression, for all arguments. *)
From Aldy Require Import Base Consts Select Exprs_sel Consts_here TieTac.
Import List.
Open Scope Q_scope.

(* ---- genotype.py / minor.py: selection *)
(* m.score - min - profile.gap < SOLUTION_PRECISION  (major and minor filters) *)
Lemma sel_major_keep_tied : forall (A : Type) (score : A -> Q) (c : consts) gap mn a,
  within score (c_solution_precision c) gap mn a = sel_major_keep (score a) mn gap (c_solver_precision c) (c_solution_precision c).
Proof. first [reflexivity | intros; unfold within, sel_major_keep; tie_sem]. Qed.
Lemma sel_minor_keep_tied : forall (A : Type) (score : A -> Q) (c : consts) gap mn a,
  within score (c_solution_precision c) gap mn a = sel_minor_keep (score a) mn gap (c_solver_precision c) (c_solution_precision c).
Proof. first [reflexivity | intros; unfold within, sel_minor_keep; tie_sem]. Qed.

(* s.score += cn_sol.score - min_cn_score *)
Lemma sel_major_carry_tied : forall min_cn cns j, In j (major_candidates min_cn cns) ->
  (jc_score j == ma_raw (jc_in j) + sel_major_carry (cn_score (jc_cn j)) min_cn)%Q.
Proof.
  intros min_cn cns j H. unfold major_candidates in H. apply in_flat_map in H. destruct H as (cn & _ & H).
  apply in_map_iff in H. destruct H as (m & <- & _). first [reflexivity | cbn [jc_score jc_in jc_cn]; unfold sel_major_carry; tie_q].
Qed.

(* minor.py s.score += major_sol.score - min_score ; genotype.py m.score * ((cn.score + SLACK) / (min_cn_score + SLACK)) *)
Lemma sel_combined_tied : forall c min_cn min_major j m,
  (combined c min_cn min_major j m ==
   sel_rescale (mi_raw m + sel_minor_carry (jc_score j) min_major) (cn_score (jc_cn j)) min_cn (c_slack c))%Q.
Proof. first [reflexivity | intros; unfold combined, sel_rescale, sel_minor_carry; tie_q]. Qed.

(* int(1000 * m.score): the three sort keys use the translated scale *)
Lemma sel_sort_key_tied : forall (A : Type) (name : A -> str) (score : A -> Q) (a : A) (k : nat), (k < 3)%nat ->
  key_of name score (scale_at here k) a = (qtrunc (sel_sort_key (score a)), name a).
Proof. intros A name score a k H. destruct k as [|[|[|k]]]; try lia; reflexivity. Qed.

