(* LpReadbackProofs.v — the typed read-back of lpinterface.py (CBC.getValue / is_binary, lines 317-329 and 339-340):
   a variable is treated as a BINARY (its value is returned as a bool, solutions() lists it among the active names and the
   exclusion cut ranges over it) exactly when OR-tools reports it integral and its bounds lie within SOLUTION_PRECISION of
   [0, 1].  The model's notion is Lp.binaries (kind KBin).  Theorems: with integral bounds and 0 < precision <= 1 the test
   holds iff the bounds ARE 0 and 1; hence on every model whose general integer variables have integral bounds other than
   [0, 1] the variables the read-back treats as binaries are the model's binaries, and the names it lists at a point are
   Lp.active of that point. *)
From Aldy Require Import Base Consts Lp.
Import List. Import ListNotations.
Open Scope Q_scope.

(* the test of getValue, on the bounds of an integral variable *)
Definition reads_binary (prec lb ub : Q) : bool := Qltb (Qabs' lb) prec && Qltb (Qabs' (1 - ub)) prec.

(* what OR-tools holds for a variable of each kind: integrality flag and bounds (BoolVar = integral with bounds 0, 1) *)
Definition kind_reads_binary (prec : Q) (k : vkind) : bool :=
  match k with
  | KBin => reads_binary prec 0 1
  | KInt lb ub => reads_binary prec lb ub
  | KCont _ _ => false                              (* var.integer() is False: the value is returned as it is *)
  end.
Definition read_binaries (prec : Q) (m : lp) : list vkey :=
  map fst (filter (fun kv => kind_reads_binary prec (snd kv)) (lp_vars m)).
(* the names solutions() collects at a point: binaries (by the read-back's test) whose value is 1 *)
Definition read_active (prec : Q) (m : lp) (a : asg) : list vkey := filter (fun v => Qeqb (a v) 1) (read_binaries prec m).

Lemma Qabs'_lt_1_int : forall z : Z, Qltb (Qabs' (inject_Z z)) 1 = true -> z = 0%Z.
Proof.
  intros z. unfold Qltb, Qabs'. destruct (Qle_bool 0 (inject_Z z)) eqn:E.
  - rewrite Bool.negb_true_iff. intros H. apply Qle_bool_iff in E.
    assert (~ 1 <= inject_Z z) by (intro C; apply Qle_bool_iff in C; congruence).
    unfold Qle, inject_Z in *. cbn in *. lia.
  - rewrite Bool.negb_true_iff. intros H.
    assert (~ 0 <= inject_Z z) by (intro C; apply Qle_bool_iff in C; congruence).
    assert (~ 1 <= - inject_Z z) by (intro C; apply Qle_bool_iff in C; congruence).
    unfold Qle, Qopp, inject_Z in *. cbn in *. lia.
Qed.

Lemma Qltb_mono_r : forall a p q, p <= q -> Qltb a p = true -> Qltb a q = true.
Proof.
  intros a p q L. unfold Qltb. rewrite !Bool.negb_true_iff. intros H.
  destruct (Qle_bool q a) eqn:E; [|reflexivity]. apply Qle_bool_iff in E.
  assert (C : p <= a) by (eapply Qle_trans; eassumption). apply Qle_bool_iff in C. congruence.
Qed.

Lemma Qltb_proper : forall a b p, a == b -> Qltb a p = Qltb b p.
Proof.
  intros a b p E. unfold Qltb. f_equal.
  destruct (Qle_bool p a) eqn:A, (Qle_bool p b) eqn:B; try reflexivity.
  - apply Qle_bool_iff in A. rewrite E in A. apply Qle_bool_iff in A. congruence.
  - apply Qle_bool_iff in B. rewrite <- E in B. apply Qle_bool_iff in B. congruence.
Qed.

Lemma Qabs'_proper : forall a b, a == b -> Qabs' a == Qabs' b.
Proof.
  intros a b E. unfold Qabs'.
  destruct (Qle_bool 0 a) eqn:A, (Qle_bool 0 b) eqn:B; try (rewrite E; reflexivity).
  - apply Qle_bool_iff in A. rewrite E in A. apply Qle_bool_iff in A. congruence.
  - apply Qle_bool_iff in B. rewrite <- E in B. apply Qle_bool_iff in B. congruence.
Qed.

Lemma Qabs'_zero_lt : forall prec x, 0 < prec -> x == 0 -> Qltb (Qabs' x) prec = true.
Proof.
  intros prec x P0 E. rewrite (Qltb_proper _ 0 _).
  - unfold Qltb. rewrite Bool.negb_true_iff. destruct (Qle_bool prec 0) eqn:C; [|reflexivity].
    apply Qle_bool_iff in C. exfalso. eapply Qlt_not_le; eassumption.
  - rewrite (Qabs'_proper _ _ E). reflexivity.
Qed.

(* the test is exact on integral bounds *)
Theorem reads_binary_exact : forall prec lb ub (zl zu : Z),
  0 < prec -> prec <= 1 -> lb == inject_Z zl -> ub == inject_Z zu ->
  (reads_binary prec lb ub = true <-> zl = 0%Z /\ zu = 1%Z).
Proof.
  intros prec lb ub zl zu P0 P1 El Eu. unfold reads_binary. rewrite Bool.andb_true_iff. split.
  - intros [A B]. split.
    + apply Qabs'_lt_1_int. apply Qltb_mono_r with (p := prec); [exact P1|].
      rewrite <- (Qltb_proper _ _ _ (Qabs'_proper _ _ El)). exact A.
    + assert (E1 : 1 - ub == inject_Z (1 - zu)).
      { rewrite Eu. unfold Z.sub. rewrite inject_Z_plus, inject_Z_opp. reflexivity. }
      assert (Z0 : (1 - zu = 0)%Z).
      { apply Qabs'_lt_1_int. apply Qltb_mono_r with (p := prec); [exact P1|].
        rewrite <- (Qltb_proper _ _ _ (Qabs'_proper _ _ E1)). exact B. }
      lia.
  - intros [-> ->]. split.
    + apply Qabs'_zero_lt; [exact P0|exact El].
    + apply Qabs'_zero_lt; [exact P0|]. rewrite Eu. reflexivity.
Qed.

(* general integer variables of a model: integral bounds that are not [0, 1] (an integer variable of [0, 1] IS a binary, for
   OR-tools and for the interface alike) *)
Definition int_kinds_proper (m : lp) : Prop :=
  forall kv, In kv (lp_vars m) -> match snd kv with
                                 | KInt lb ub => exists zl zu : Z, lb == inject_Z zl /\ ub == inject_Z zu /\ ~ (zl = 0%Z /\ zu = 1%Z)
                                 | _ => True end.

Lemma kind_reads_binary_iff : forall prec k, 0 < prec -> prec <= 1 ->
  match k with KInt lb ub => exists zl zu : Z, lb == inject_Z zl /\ ub == inject_Z zu /\ ~ (zl = 0%Z /\ zu = 1%Z) | _ => True end ->
  kind_reads_binary prec k = match k with KBin => true | _ => false end.
Proof.
  intros prec k P0 P1 H. destruct k as [|lb ub|lb ub]; cbn [kind_reads_binary].
  - apply (reads_binary_exact prec 0 1 0 1 P0 P1); [reflexivity|reflexivity|split; reflexivity].
  - destruct H as (zl & zu & El & Eu & N).
    destruct (reads_binary prec lb ub) eqn:R; [|reflexivity].
    exfalso. apply N. apply (reads_binary_exact prec lb ub zl zu P0 P1 El Eu). exact R.
  - reflexivity.
Qed.

Theorem read_binaries_are_binaries : forall prec m, 0 < prec -> prec <= 1 -> int_kinds_proper m ->
  read_binaries prec m = binaries m.
Proof.
  intros prec m P0 P1 H. unfold read_binaries, binaries. f_equal.
  apply filter_ext_in. intros kv I. apply kind_reads_binary_iff; [exact P0|exact P1|exact (H kv I)].
Qed.

Theorem read_active_is_active : forall prec m a, 0 < prec -> prec <= 1 -> int_kinds_proper m ->
  read_active prec m a = active m a.
Proof. intros. unfold read_active, active. rewrite read_binaries_are_binaries; auto. Qed.

(* the precision of the current tree satisfies the premise *)
From Aldy Require Import Consts_here.
Open Scope Q_scope.
Lemma here_precision_ok : (0 < c_solution_precision here)%Q /\ (c_solution_precision here <= 1)%Q.
Proof. split; vm_compute; congruence. Qed.

(* non-vacuity and sharpness: an integer variable of [0, 3] next to two binaries is not read as a binary; with the test of a
   one-sided bound (max(|lb|, 1 - ub) < precision) it would be *)
Example readback_example :
  let m := {| lp_vars := [([1;0]%Z, KBin); ([3;0]%Z, KInt 0 3); ([2;0]%Z, KCont None None); ([1;1]%Z, KBin)];
              lp_rows := []; lp_obj := []; lp_const := 0 |} in
  read_binaries (c_solution_precision here) m = [[1;0]%Z; [1;1]%Z] /\ int_kinds_proper m /\
  Qltb (Qmax' (Qabs' 0) (1 - 3)) (c_solution_precision here) = true.
Proof.
  cbv zeta. split; [vm_compute; reflexivity|]. split; [|vm_compute; reflexivity].
  intros kv I. cbn in I. destruct I as [<-|[<-|[<-|[<-|[]]]]]; cbn; auto.
  exists 0%Z, 3%Z. repeat split; try reflexivity. intros [_ C]. discriminate C.
Qed.
