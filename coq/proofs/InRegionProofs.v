(* InRegionProofs.v — sam._in_region(region, read, prefix) in full (sam.py:1023-1033), including the two guards the pileup model
   takes as given flags: the read is mapped (reference_id <> -1) to the contig named EXACTLY prefix + region.chr, and htslib
   reports an end for it.  Theorems: the test holds iff all of that and the two closed intervals meet; a contig whose name merely
   ends with (or starts with) the wanted name never passes; with the flags of Pileup.read set as the harness sets them the test IS
   Pileup.in_region. *)
From Coq Require Import Lia ZifyBool.
From Aldy Require Import Base Consts Pileup Exprs_region Tied_region DiplotypeProofs.
Import List. Import ListNotations.
Open Scope Z_scope.

Definition meets (a0 a1 b0 b1 : Z) : bool := ((a0 <=? b0) && (b0 <=? a1)) || ((b0 <=? a0) && (a0 <=? b1)).

Definition in_region_named (prefix chr name : str) (unmapped : bool) (st : Z) (en : option Z) (b0 b1 : Z) : bool :=
  if unmapped || negb (str_eqb name (prefix ++ chr)) then false
  else match en with None => false | Some e => meets st e b0 b1 end.

Theorem in_region_named_iff : forall prefix chr name unmapped st en b0 b1,
  in_region_named prefix chr name unmapped st en b0 b1 = true <->
  unmapped = false /\ name = prefix ++ chr /\ exists e, en = Some e /\ ((st <= b0 <= e) \/ (b0 <= st <= b1)).
Proof.
  intros. unfold in_region_named, meets. split.
  - destruct unmapped; cbn [orb]; [discriminate|].
    destruct (str_eqb name (prefix ++ chr)) eqn:E; cbn [negb]; [|discriminate].
    apply seqb_eq in E. destruct en as [e|]; [|discriminate]. intros H.
    split; [reflexivity|]. split; [exact E|]. exists e. split; [reflexivity|]. lia.
  - intros (-> & -> & e & -> & H). rewrite seqb_refl. cbn [orb negb]. lia.
Qed.

(* a contig whose name has extra characters in front of, or behind, the wanted name never passes *)
Theorem longer_names_rejected : forall prefix chr x y unmapped st en b0 b1, (x <> [] \/ y <> []) ->
  in_region_named prefix chr (x ++ (prefix ++ chr) ++ y) unmapped st en b0 b1 = false.
Proof.
  intros prefix chr x y unmapped st en b0 b1 H. unfold in_region_named.
  assert (N : str_eqb (x ++ (prefix ++ chr) ++ y) (prefix ++ chr) = false).
  { apply seqb_neq. intros E. apply (f_equal (@length Z)) in E. rewrite !app_length in E.
    destruct H as [H|H]; [destruct x|destruct y]; try (apply H; reflexivity); cbn [length] in E; lia. }
  rewrite N. destruct unmapped; reflexivity.
Qed.

(* the interval part is the translated expression of the current tree *)
Lemma meets_tied : forall a0 a1 b0 b1, meets a0 a1 b0 b1 = region_overlap (inZ a0) (inZ a1) (inZ b0) (inZ b1).
Proof. intros. unfold meets, region_overlap. rewrite !Qleb_inZ. reflexivity. Qed.

(* Pileup.in_region is this test, with the read's flags read as: off-target = the contig name differs, unmapped-flag reads have
   no end (pysam: reference_end is None) *)
Theorem pileup_in_region_is_named : forall g r prefix chr name,
  r_offtarget r = negb (str_eqb name (prefix ++ chr)) ->
  in_region g r = in_region_named prefix chr name false (r_start r) (if r_funmap r then None else Some (ref_end r))
                                  (fst (g_wide g)) (snd (g_wide g)).
Proof.
  intros g r prefix chr name H. unfold in_region, in_region_named, meets. rewrite H. cbn [orb].
  destruct (str_eqb name (prefix ++ chr)); cbn [negb andb]; [|reflexivity].
  destruct (r_funmap r); reflexivity.
Qed.

(* ---- common.chr_prefix(ch, chrs): "chr" when the header lacks the bare name and has the prefixed one, else "" ---- *)
Definition smem (x : str) (l : list str) : bool := existsb (str_eqb x) l.
Definition CHR : str := [99; 104; 114].
Definition chr_prefix (ch : str) (chrs : list str) : str := if negb (smem ch chrs) && smem (CHR ++ ch) chrs then CHR else [].

Lemma smem_In : forall x l, smem x l = true <-> In x l.
Proof.
  intros x l. unfold smem. rewrite existsb_exists. split.
  - intros (y & I & E). apply seqb_eq in E. subst. exact I.
  - intros I. exists x. split; [exact I|apply seqb_refl].
Qed.

(* the name the loader looks for is a contig of the header whenever the header has the gene's contig under either spelling;
   the bare name is preferred when both are present *)
Theorem chr_prefix_names_a_contig : forall ch chrs, In ch chrs \/ In (CHR ++ ch) chrs -> In (chr_prefix ch chrs ++ ch) chrs.
Proof.
  intros ch chrs H. unfold chr_prefix. destruct (smem ch chrs) eqn:A; cbn [negb andb].
  - apply smem_In. exact A.
  - destruct (smem (CHR ++ ch) chrs) eqn:B.
    + apply smem_In. exact B.
    + exfalso. destruct H as [H|H]; apply smem_In in H; congruence.
Qed.

Theorem chr_prefix_prefers_bare : forall ch chrs, In ch chrs -> chr_prefix ch chrs = [].
Proof. intros ch chrs H. unfold chr_prefix. apply smem_In in H. rewrite H. reflexivity. Qed.

Example in_region_named_example :
  in_region_named [] [50;48] [50;48] false 100 (Some 150) 120 400 = true /\
  in_region_named [] [50;48] [49;50;48] false 100 (Some 150) 120 400 = false /\
  in_region_named [99;104;114] [50;48] [50;48] false 100 (Some 150) 120 400 = false /\
  in_region_named [] [50;48] [50;48] false 100 None 120 400 = false.
Proof. vm_compute. repeat split; reflexivity. Qed.
