(* MinorSpecPointProofs.v — from the combinatorial specification to a feasible point of the minor-stage ILP (C04).
   For EVERY admissible assignment of MinorSpec over the instance's own allele copies there is a feasible point of
   MinorModel.gen whose objective is the assignment's score (tie-breaker included).  The point [Y] is written as a
   function of the variable key (selectors as the assignment says, every helper variable at the value its rows force,
   each read mode on a selected informative copy with the fewest disagreements), so that its value at every key of the
   model is obtained by decoding the key, not by searching a list. *)
From Aldy Require Import Base Consts Lp MinorModel MinorSpec Consts_here MinorProofs MinorPointProofs.
From Coq Require Import Lqa Qabs.
Open Scope Q_scope.

(* ------------------------------------------------------------------------------------------ *)
(* decoding keys                                                                               *)
(* ------------------------------------------------------------------------------------------ *)
Definition find_mut (i : inst) (id : Z) : option mutn := find (fun m => (m_id m =? id)%Z) (i_muts i).
Definition find_site (i : inst) (p : Z) : option site := find (fun s => (s_pos s =? p)%Z) (i_sites i).
Definition find_inst (i : inst) (cid idx : Z) : option ainst :=
  match lookup_cand i cid with Some cd => Some (cd, idx) | None => None end.
Definition find_idx {A} (j : Z) (l : list A) : option A :=
  match find (fun kv : Z * A => (fst kv =? j)%Z) (enumerate 0 l) with Some kv => Some (snd kv) | None => None end.

Lemma find_first {A} (p : A -> bool) (l : list A) y :
  In y l -> p y = true -> (forall z, In z l -> p z = true -> z = y) -> find p l = Some y.
Proof.
  induction l as [|z t IH]; intros H P U; [contradiction|]. cbn [find]. destruct (p z) eqn:E.
  - f_equal. apply U; [left; reflexivity|exact E].
  - destruct H as [->|H]; [congruence|]. apply IH; [exact H|exact P|]. intros w Hw. apply U. right. exact Hw.
Qed.
Lemma find_mut_ok i m : NoDup (map m_id (i_muts i)) -> In m (i_muts i) -> find_mut i (m_id m) = Some m.
Proof.
  intros ND H. unfold find_mut. apply find_first; [exact H|apply Z.eqb_refl|].
  intros z Hz E. apply Z.eqb_eq in E. apply (m_id_inj (i_muts i)); assumption.
Qed.
Lemma find_inst_ok i a : NoDup (map c_id (i_cands i)) -> In a (insts i) -> find_inst i (c_id (fst a)) (snd a) = Some a.
Proof.
  intros ND H. unfold find_inst, lookup_cand. rewrite (find_first _ _ (fst a)).
  - destruct a; reflexivity.
  - apply insts_cand. exact H.
  - apply Z.eqb_refl.
  - intros z Hz E. apply Z.eqb_eq in E. apply (c_id_inj (i_cands i)); [exact ND|exact Hz|apply insts_cand; exact H|exact E].
Qed.
Lemma s_pos_inj (l : list site) s s' : NoDup (map s_pos l) -> In s l -> In s' l -> s_pos s = s_pos s' -> s = s'.
Proof.
  induction l as [|y t IH]; intros ND H H' E; [contradiction|]. cbn [map] in ND. inversion ND as [|? ? Hn ND']; subst.
  destruct H as [->|H], H' as [->|H'].
  - reflexivity.
  - exfalso. apply Hn. rewrite E. apply in_map. exact H'.
  - exfalso. apply Hn. rewrite <- E. apply in_map. exact H.
  - apply IH; assumption.
Qed.
Lemma find_site_ok i s : NoDup (map s_pos (i_sites i)) -> In s (i_sites i) -> find_site i (s_pos s) = Some s.
Proof.
  intros ND H. unfold find_site. apply find_first; [exact H|apply Z.eqb_refl|].
  intros z Hz E. apply Z.eqb_eq in E. apply (s_pos_inj (i_sites i)); assumption.
Qed.
Lemma enumerate_ge {A} (l : list A) : forall k j v, In (j, v) (enumerate k l) -> (k <= j)%Z.
Proof.
  induction l as [|y t IH]; intros k j v H; [contradiction|]. cbn [enumerate] in H. destruct H as [E|H].
  - injection E as <- _. lia.
  - apply IH in H. lia.
Qed.
Lemma find_enumerate {A} (l : list A) : forall k j v, In (j, v) (enumerate k l) ->
  find (fun kv : Z * A => (fst kv =? j)%Z) (enumerate k l) = Some (j, v).
Proof.
  induction l as [|y t IH]; intros k j v H; [contradiction|]. cbn [enumerate find fst]. cbn [enumerate] in H.
  destruct H as [E|H].
  - injection E as <- <-. rewrite Z.eqb_refl. reflexivity.
  - pose proof (enumerate_ge t _ _ _ H). destruct (k =? j)%Z eqn:Q; [apply Z.eqb_eq in Q; lia|]. apply IH. exact H.
Qed.
Lemma find_idx_ok {A} (l : list A) j v : In (j, v) (enumerate 0 l) -> find_idx j l = Some v.
Proof. intros H. unfold find_idx. rewrite (find_enumerate l 0%Z j v H). reflexivity. Qed.

(* ------------------------------------------------------------------------------------------ *)
(* the point of an assignment, as a function of the key                                        *)
(* ------------------------------------------------------------------------------------------ *)
Definition ysel (i : inst) (asg : assignment) (k : vkey) : Q :=
  match k with
  | tag :: cid :: idx :: rest =>
      match find_inst i cid idx with
      | None => 0
      | Some a =>
          if (tag =? 1)%Z then match rest with [] => b2q (sel_on asg a) | _ => 0 end
          else match rest with
               | [mid] =>
                   match find_mut i mid with
                   | None => 0
                   | Some m => if (tag =? 2)%Z || (tag =? 3)%Z then b2q (kept_on asg a m)
                               else if (tag =? 4)%Z || (tag =? 5)%Z then b2q (added_on asg a m) else 0
                   end
               | _ => 0
               end
      end
  | _ => 0
  end.
Definition yph (i : inst) (asg : assignment) (a : ainst) (ri : Z) : Q :=
  match find_idx ri (modes i) with
  | Some rn => b2q (ph_active i a (fst rn) && match ph_choice i asg (fst rn) with Some a' => ainst_eqb a a' | None => false end)
  | None => 0
  end.
Definition Y0 (i : inst) (asg : assignment) (k : vkey) : Q :=
  match k with
  | [6%Z; mid] => match find_mut i mid with Some m => obs_mut m - carr (ysel i asg) i m | None => 0 end
  | [7%Z; pos] => match find_site i pos with Some s => obs_site s - refc (ysel i asg) i pos | None => 0 end
  | [11%Z; mid] => match find_mut i mid with Some m => qmax_list (map (ysel i asg) (vo_vars i m)) | None => 0 end
  | [8%Z; cid; idx; ri] => match find_inst i cid idx with Some a => yph i asg a ri | None => 0 end
  | [9%Z; cid; idx; ri; j] =>
      match find_inst i cid idx, find_idx ri (modes i) with
      | Some a, Some rn => match find_idx j (ph_pos i a (fst rn)) with Some v => yph i asg a ri * ysel i asg v | None => 0 end
      | _, _ => 0
      end
  | [10%Z; cid; idx; ri; j] =>
      match find_inst i cid idx, find_idx ri (modes i) with
      | Some a, Some rn => match find_idx j (ph_neg i a (fst rn)) with Some v => yph i asg a ri * ysel i asg v | None => 0 end
      | _, _ => 0
      end
  | _ => ysel i asg k
  end.
Definition Y (i : inst) (asg : assignment) (k : vkey) : Q :=
  match k with
  | (-1)%Z :: k' => Qabs' (Y0 i asg k')
  | _ => Y0 i asg k
  end.

Section Values.
  Variables (i : inst) (asg : assignment).
  Hypothesis W : inst_wf i = true.

  Let NDcv : NoDup (map c_id (i_cands i)) := NDc i W.
  Let NDmv : NoDup (map m_id (i_muts i)) := inst_wf_nodup i W.
  Lemma NDs : NoDup (map s_pos (i_sites i)).
  Proof.
    pose proof W as W0. unfold inst_wf in W0. do 5 (apply andb_true_iff in W0 as [W0 _]). apply andb_true_iff in W0 as [_ W'].
    apply nodupb_NoDup. exact W'.
  Qed.

  Lemma Y_A a : In a (insts i) -> Y i asg (kA a) = b2q (sel_on asg a).
  Proof. intros Ha. unfold Y, Y0, ysel, kA. rewrite (find_inst_ok i a NDcv Ha). reflexivity. Qed.
  Lemma ysel_A a : In a (insts i) -> ysel i asg (kA a) = b2q (sel_on asg a).
  Proof. intros Ha. unfold ysel, kA. rewrite (find_inst_ok i a NDcv Ha). reflexivity. Qed.
  Lemma ysel_K a m : In a (insts i) -> In m (i_muts i) -> ysel i asg (kK a m) = b2q (kept_on asg a m).
  Proof. intros Ha Hm. unfold ysel, kK. rewrite (find_inst_ok i a NDcv Ha), (find_mut_ok i m NDmv Hm). reflexivity. Qed.
  Lemma ysel_MK a m : In a (insts i) -> In m (i_muts i) -> ysel i asg (kMK a m) = b2q (kept_on asg a m).
  Proof. intros Ha Hm. unfold ysel, kMK. rewrite (find_inst_ok i a NDcv Ha), (find_mut_ok i m NDmv Hm). reflexivity. Qed.
  Lemma ysel_N a m : In a (insts i) -> In m (i_muts i) -> ysel i asg (kN a m) = b2q (added_on asg a m).
  Proof. intros Ha Hm. unfold ysel, kN. rewrite (find_inst_ok i a NDcv Ha), (find_mut_ok i m NDmv Hm). reflexivity. Qed.
  Lemma ysel_MN a m : In a (insts i) -> In m (i_muts i) -> ysel i asg (kMN a m) = b2q (added_on asg a m).
  Proof. intros Ha Hm. unfold ysel, kMN. rewrite (find_inst_ok i a NDcv Ha), (find_mut_ok i m NDmv Hm). reflexivity. Qed.
  Lemma Y_K a m : In a (insts i) -> In m (i_muts i) -> Y i asg (kK a m) = b2q (kept_on asg a m).
  Proof. intros Ha Hm. rewrite <- (ysel_K a m Ha Hm). reflexivity. Qed.
  Lemma Y_MK a m : In a (insts i) -> In m (i_muts i) -> Y i asg (kMK a m) = b2q (kept_on asg a m).
  Proof. intros Ha Hm. rewrite <- (ysel_MK a m Ha Hm). reflexivity. Qed.
  Lemma Y_N a m : In a (insts i) -> In m (i_muts i) -> Y i asg (kN a m) = b2q (added_on asg a m).
  Proof. intros Ha Hm. rewrite <- (ysel_N a m Ha Hm). reflexivity. Qed.
  Lemma Y_MN a m : In a (insts i) -> In m (i_muts i) -> Y i asg (kMN a m) = b2q (added_on asg a m).
  Proof. intros Ha Hm. rewrite <- (ysel_MN a m Ha Hm). reflexivity. Qed.
  Lemma Y_E m : In m (i_muts i) -> Y i asg (kE m) = obs_mut m - carr (ysel i asg) i m.
  Proof. intros Hm. unfold Y, Y0, kE. rewrite (find_mut_ok i m NDmv Hm). reflexivity. Qed.
  Lemma Y_R s : In s (i_sites i) -> Y i asg (kR s) = obs_site s - refc (ysel i asg) i (s_pos s).
  Proof. intros Hs. unfold Y, Y0, kR. rewrite (find_site_ok i s NDs Hs). reflexivity. Qed.
  Lemma Y_VO m : In m (i_muts i) -> Y i asg (kVO m) = qmax_list (map (ysel i asg) (vo_vars i m)).
  Proof. intros Hm. unfold Y, Y0, kVO. rewrite (find_mut_ok i m NDmv Hm). reflexivity. Qed.
  Lemma Y_PH a ri : In a (insts i) -> Y i asg (kPH a ri) = yph i asg a ri.
  Proof. intros Ha. unfold Y, Y0, kPH. rewrite (find_inst_ok i a NDcv Ha). reflexivity. Qed.
  Lemma Y_P2 a ri r n j v : In a (insts i) -> In (ri, (r, n)) (enumerate 0 (modes i)) -> In (j, v) (enumerate 0 (ph_pos i a r)) ->
    Y i asg (kP2 a ri j) = yph i asg a ri * ysel i asg v.
  Proof.
    intros Ha Hr Hj. unfold Y, Y0, kP2. rewrite (find_inst_ok i a NDcv Ha), (find_idx_ok _ _ _ Hr). cbn [fst].
    rewrite (find_idx_ok _ _ _ Hj). reflexivity.
  Qed.
  Lemma Y_P3 a ri r n j v : In a (insts i) -> In (ri, (r, n)) (enumerate 0 (modes i)) -> In (j, v) (enumerate 0 (ph_neg i a r)) ->
    Y i asg (kP3 a ri j) = yph i asg a ri * ysel i asg v.
  Proof.
    intros Ha Hr Hj. unfold Y, Y0, kP3. rewrite (find_inst_ok i a NDcv Ha), (find_idx_ok _ _ _ Hr). cbn [fst].
    rewrite (find_idx_ok _ _ _ Hj). reflexivity.
  Qed.
  Lemma Y_abs k : plain k = true -> Y i asg (abs_key k) = Qabs' (Y i asg k).
  Proof.
    intros P. unfold abs_key. cbn [Y]. f_equal. unfold Y. destruct k as [|z t]; [reflexivity|].
    cbn [plain] in P. destruct z as [|p|p]; try reflexivity. destruct p; try reflexivity. cbn in P. discriminate.
  Qed.
End Values.

(* ------------------------------------------------------------------------------------------ *)
(* structure of an admissible assignment                                                       *)
(* ------------------------------------------------------------------------------------------ *)
Lemma NoDup_map_eq {A B} (f : A -> B) l y z : NoDup (map f l) -> In y l -> In z l -> f y = f z -> y = z.
Proof.
  induction l as [|w t IH]; intros ND Hy Hz E; [contradiction|]. cbn [map] in ND. inversion ND as [|? ? Hn ND']; subst.
  destruct Hy as [->|Hy], Hz as [->|Hz].
  - reflexivity.
  - exfalso. apply Hn. rewrite E. apply in_map. exact Hz.
  - exfalso. apply Hn. rewrite <- E. apply in_map. exact Hy.
  - apply IH; assumption.
Qed.
Lemma nodup_from_count (l : assignment) :
  (forall ch, In ch l -> (length (filter (fun ch' => ainst_eqb (ch_a ch') (ch_a ch)) l) <= 1)%nat) -> NoDup (map ch_a l).
Proof.
  induction l as [|ch t IH]; intros H; [constructor|]. cbn [map]. constructor.
  - intros Hin. apply in_map_iff in Hin as (ch2 & E & H2).
    pose proof (H ch (or_introl eq_refl)) as C. cbn [filter] in C. rewrite ainst_eqb_refl in C. cbn [length] in C.
    assert (In ch2 (filter (fun ch' => ainst_eqb (ch_a ch') (ch_a ch)) t)).
    { apply filter_In. split; [exact H2|]. rewrite E. apply ainst_eqb_refl. }
    destruct (filter (fun ch' => ainst_eqb (ch_a ch') (ch_a ch)) t); [contradiction|]. cbn [length] in C. lia.
  - apply IH. intros ch' Hc. pose proof (H ch' (or_intror Hc)) as C. cbn [filter] in C.
    destruct (ainst_eqb (ch_a ch) (ch_a ch')); cbn [length] in C; lia.
Qed.

Lemma fold_min_in t : forall x, In (fold_left Qmin' t x) (x :: t).
Proof.
  induction t as [|z t IH]; intros x; cbn [fold_left]; [left; reflexivity|].
  destruct (IH (Qmin' x z)) as [E|H].
  - rewrite <- E. unfold Qmin'. destruct (Qle_bool x z); [left|right; left]; reflexivity.
  - right. right. exact H.
Qed.
Lemma qmin_list_in l q : qmin_list l = Some q -> In q l.
Proof. destruct l as [|x t]; [discriminate|]. cbn [qmin_list]. intros E. injection E as <-. apply fold_min_in. Qed.
Lemma fold_oadd_eq {A} (f : A -> option Q) (g : A -> Q) l : forall acc,
  (forall y, In y l -> exists q, f y = Some q /\ q == g y) ->
  exists ph, fold_left (fun a y => oadd a (f y)) l (Some acc) = Some ph /\ ph == acc + qsum (map g l).
Proof.
  induction l as [|z t IH]; intros acc H; cbn [fold_left map qsum].
  - exists acc. split; [reflexivity|lra].
  - destruct (H z (or_introl eq_refl)) as (q & E & L). rewrite E. cbn [oadd].
    destruct (IH (acc + q) (fun y Hy => H y (or_intror Hy))) as (ph & Ep & Lp). exists ph. split; [exact Ep|lra].
Qed.
Lemma ainst_eqb_sym a b : ainst_eqb a b = ainst_eqb b a.
Proof. unfold ainst_eqb. rewrite (Z.eqb_sym (c_id (fst a))), (Z.eqb_sym (snd a)). reflexivity. Qed.

Lemma fold_oadd_none {A} (f : A -> option Q) l : fold_left (fun a y => oadd a (f y)) l None = None.
Proof. induction l as [|z t IH]; [reflexivity|]. cbn [fold_left oadd]. exact IH. Qed.
Lemma fold_oadd_some {A} (f : A -> option Q) l : forall acc ph,
  fold_left (fun a y => oadd a (f y)) l (Some acc) = Some ph -> forall y, In y l -> exists q, f y = Some q.
Proof.
  induction l as [|z t IH]; intros acc ph E y Hy; [contradiction|]. cbn [fold_left] in E. destruct (f z) as [q|] eqn:Fz.
  - cbn [oadd] in E. destruct Hy as [<-|Hy]; [exists q; exact Fz|]. apply (IH _ _ E y Hy).
  - cbn [oadd] in E. rewrite fold_oadd_none in E. discriminate.
Qed.
Lemma b2q_le b1 b2 : (b1 = true -> b2 = true) -> b2q b1 <= b2q b2.
Proof. destruct b1, b2; cbn; intros H; try lra; specialize (H eq_refl); discriminate. Qed.
Lemma b2q_and a b : b2q (a && b) == b2q a * b2q b.
Proof. destruct a, b; cbn; lra. Qed.
Lemma bin_mul p q : is_bin p -> is_bin q -> is_bin (p * q).
Proof. intros [A|A] [B|B]; [left|left|left|right]; rewrite A, B; lra. Qed.
Lemma qmax_le_sum l : (forall q, In q l -> 0 <= q) -> qmax_list l <= qsum l.
Proof.
  induction l as [|q t IH]; intros H; cbn [qmax_list fold_right qsum]; [lra|]. fold (qmax_list t).
  assert (qmax_list t <= qsum t) by (apply IH; intros z Hz; apply H; right; exact Hz).
  assert (0 <= q) by (apply H; left; reflexivity). pose proof (qmax_list_nonneg t).
  assert (0 <= qsum t) by (rewrite <- (map_id t); apply qsum_nonneg; intros z Hz; apply H; right; exact Hz).
  destruct (Qmax'_cases q (qmax_list t)) as [[-> L]|[-> L]]; lra.
Qed.
Lemma find_exists {A} (p : A -> bool) l : existsb p l = true -> exists y, find p l = Some y.
Proof.
  induction l as [|z t IH]; cbn [existsb find]; [discriminate|]. destruct (p z); [intros _; exists z; reflexivity|exact IH].
Qed.

(* sum with one distinguished member *)
Lemma qsum_pick {A} (eqb : A -> A -> bool) (l : list A) (b : A) (v : Q) (h : A -> Q) :
  NoDup l -> In b l -> (forall a, In a l -> eqb b a = true -> a = b) -> eqb b b = true -> h b == 0 ->
  qsum (map (fun a => if eqb b a then v else h a) l) == v + qsum (map h l).
Proof.
  induction l as [|y t IH]; intros ND Hb U R Z; [contradiction|]. inversion ND as [|? ? Hn ND']; subst. cbn [map qsum].
  destruct Hb as [->|Hb].
  - rewrite R, Z. rewrite (qsum_map_ext (fun a => if eqb b a then v else h a) h); [lra|].
    intros a Ha. destruct (eqb b a) eqn:E; [|reflexivity]. exfalso. apply Hn. rewrite <- (U a (or_intror Ha) E). exact Ha.
  - destruct (eqb b y) eqn:E.
    + exfalso. apply Hn. rewrite (U y (or_introl eq_refl) E). exact Hb.
    + rewrite IH; [lra|exact ND'|exact Hb| |exact R|exact Z]. intros a Ha. apply U. right. exact Ha.
Qed.

Lemma rows_cref_in i r : In r (rows_cref i) -> insts i <> [] /\ exists st, In st (i_sites i) /\
  r = if Qeqb (s_pcn st) 0 then mkrow (site_expr i (s_pos st)) RLe 0
      else mkrow (site_expr i (s_pos st)) RLe (Qmax' (Qmax' (s_pcn st) (s_cov st)) (max_mut i (s_pos st))).
Proof.
  unfold rows_cref. destruct (insts i) as [|a0 t]; [contradiction|]. intros H. split; [discriminate|].
  apply in_map_iff in H as (st & <- & Hs). exists st. split; [exact Hs|reflexivity].
Qed.
Lemma ref_ok_unfold i asg s : insts i <> [] -> ref_ok i asg s =
  let e := qsum (map (fun ch => (qlen (site_e i (s_pos s) (ch_a ch)) - qlen (carried_at i ch (s_pos s)))%Q) asg) in
  if Qeqb (s_pcn s) 0 then Qleb e 0 else Qleb e (Qmax' (Qmax' (s_pcn s) (s_cov s)) (max_mut i (s_pos s))).
Proof. unfold ref_ok. destruct (insts i); [congruence|reflexivity]. Qed.

Section Spec.
  Variables (c : consts) (i : inst) (asg : assignment).
  Hypothesis W : inst_wf i = true.
  Hypothesis IN : forall ch, In ch asg -> In (ch_a ch) (insts i).
  Hypothesis ADM : admissible i asg = true.

  Let NDcs : NoDup (map c_id (i_cands i)) := NDc i W.
  Let NDms : NoDup (map m_id (i_muts i)) := inst_wf_nodup i W.
  Let NDi : NoDup (insts i) := NoDup_insts i (NDc i W).

  Lemma adm_sel : sel_ok i asg = true.
  Proof. pose proof ADM as A. unfold admissible, admissible_core in A. rewrite !andb_true_iff in A. tauto. Qed.
  Lemma adm_choice ch : In ch asg -> choice_ok i ch = true.
  Proof. pose proof ADM as A. unfold admissible, admissible_core in A. rewrite !andb_true_iff in A.
    destruct A as [[[[_ A] _] _] _]. rewrite forallb_forall in A. apply A. Qed.
  Lemma adm_reads m : In m (i_muts i) -> reads_ok asg m = true.
  Proof. pose proof ADM as A. unfold admissible, admissible_core in A. rewrite !andb_true_iff in A.
    destruct A as [[[_ A] _] _]. rewrite forallb_forall in A. apply A. Qed.
  Lemma adm_ref s : In s (i_sites i) -> ref_ok i asg s = true.
  Proof. pose proof ADM as A. unfold admissible, admissible_core in A. rewrite !andb_true_iff in A.
    destruct A as [[_ A] _]. rewrite forallb_forall in A. apply A. Qed.
  Lemma adm_phase : exists ph, phase_disagreement i asg = Some ph.
  Proof. pose proof ADM as A. unfold admissible in A. apply andb_true_iff in A as [_ A].
    destruct (phase_disagreement i asg) as [ph|]; [exists ph; reflexivity|discriminate]. Qed.

  Lemma ND_asg : NoDup (map ch_a asg).
  Proof.
    apply nodup_from_count. intros ch Hch. pose proof adm_sel as S. unfold sel_ok in S. rewrite !andb_true_iff in S.
    destruct S as [[[[_ S] _] _] _]. rewrite forallb_forall in S. specialize (S ch Hch). apply Nat.eqb_eq in S. lia.
  Qed.
  Lemma find_ch_some a ch : In a (insts i) -> find_ch asg a = Some ch -> In ch asg /\ ch_a ch = a.
  Proof.
    intros Ha E. unfold find_ch in E. apply find_some in E as [Hc E]. split; [exact Hc|].
    apply (ainst_eqb_eq i _ _ NDcs (IN ch Hc) Ha E).
  Qed.
  Lemma find_ch_in ch : In ch asg -> find_ch asg (ch_a ch) = Some ch.
  Proof.
    intros Hc. unfold find_ch. apply find_first; [exact Hc|apply ainst_eqb_refl|].
    intros z Hz E. apply (NoDup_map_eq ch_a asg z ch ND_asg Hz Hc). apply (ainst_eqb_eq i _ _ NDcs (IN z Hz) (IN ch Hc) E).
  Qed.
  Lemma find_ch_none a ch : find_ch asg a = None -> In ch asg -> ch_a ch <> a.
  Proof. intros E Hc Ea. rewrite <- Ea in E. rewrite (find_ch_in ch Hc) in E. discriminate. Qed.

  (* sum over the assignment = sum over all allele copies, through find_ch *)
  Lemma reindex (g : choice -> Q) :
    qsum (map g asg) == qsum (map (fun a => match find_ch asg a with Some ch => g ch | None => 0 end) (insts i)).
  Proof.
    assert (G : forall l, (forall ch, In ch l -> In (ch_a ch) (insts i)) -> NoDup (map ch_a l) ->
                qsum (map g l) == qsum (map (fun a => match find_ch l a with Some ch => g ch | None => 0 end) (insts i))).
    { induction l as [|ch t IH]; intros Hin ND.
      - cbn [map qsum find_ch find]. rewrite qsum_const. lra.
      - cbn [map] in ND. inversion ND as [|? ? Hn ND']; subst. cbn [map qsum]. rewrite (IH (fun z Hz => Hin z (or_intror Hz)) ND').
        rewrite (qsum_map_ext (fun a => match find_ch (ch :: t) a with Some ch0 => g ch0 | None => 0 end)
                              (fun a => if ainst_eqb (ch_a ch) a then g ch else match find_ch t a with Some ch0 => g ch0 | None => 0 end)).
        2:{ intros a _. unfold find_ch. cbn [find]. destruct (ainst_eqb (ch_a ch) a); reflexivity. }
        symmetry. apply (qsum_pick ainst_eqb (insts i) (ch_a ch) (g ch)
                           (fun a => match find_ch t a with Some ch0 => g ch0 | None => 0 end)).
        + exact NDi.
        + apply Hin. left. reflexivity.
        + intros a Ha E. symmetry. apply (ainst_eqb_eq i _ _ NDcs (Hin ch (or_introl eq_refl)) Ha E).
        + apply ainst_eqb_refl.
        + destruct (find_ch t (ch_a ch)) as [ch2|] eqn:E; [|reflexivity]. exfalso. unfold find_ch in E. apply find_some in E as [H2 E2].
          apply Hn. assert (ch_a ch2 = ch_a ch).
          { apply (ainst_eqb_eq i _ _ NDcs (Hin ch2 (or_intror H2)) (Hin ch (or_introl eq_refl)) E2). }
          rewrite <- H. apply in_map. exact H2. }
    apply G; [exact IN|exact ND_asg].
  Qed.

  (* ---- the selector values of Y ---- *)
  Let y := Y i asg.
  Let ys := ysel i asg.

  Lemma carried_split ch m : carried ch m = (in_def (ch_a ch) m && kept ch m) || (is_new (ch_a ch) m && added ch m).
  Proof. reflexivity. Qed.
  Lemma carr_spec m : In m (i_muts i) -> carr ys i m == carriers asg m.
  Proof.
    intros Hm. unfold carriers. rewrite cnt_as_sum, (reindex (fun ch => b2q (carried ch m))). unfold carr.
    apply qsum_map_ext. intros a Ha. unfold ys. rewrite (ysel_K i asg W a m Ha Hm), (ysel_N i asg W a m Ha Hm).
    unfold kept_on, added_on. destruct (find_ch asg a) as [ch|] eqn:E.
    - destruct (find_ch_some a ch Ha E) as [_ Ea]. rewrite carried_split, Ea. unfold is_new.
      destruct (in_def a m), (has_cov a (m_pos m)); cbn [andb orb negb]; try rewrite orb_false_r; reflexivity.
    - destruct (in_def a m), (has_cov a (m_pos m)); reflexivity.
  Qed.

  Lemma sel_on_some a ch : find_ch asg a = Some ch -> sel_on asg a = true.
  Proof. intros E. unfold sel_on. rewrite E. reflexivity. Qed.
  Lemma refc_spec pos : refc ys i pos == exp_ref i asg pos.
  Proof.
    unfold exp_ref. rewrite (reindex (exp_ref_ch i pos)). unfold refc. apply qsum_map_ext. intros a Ha.
    unfold refc_a, ys. rewrite (ysel_A i asg W a Ha). unfold sel_on. destruct (find_ch asg a) as [ch|] eqn:E.
    - destruct (find_ch_some a ch Ha E) as [Hc Ea]. unfold exp_ref_ch. rewrite Ea. destruct (has_cov a pos); [|reflexivity].
      assert (G : b2q true - qsum (map (fun m => ysel i asg (kN a m)) (nonins_at pos (news i a))) ==
                  1 - cnt (added ch) (nonins_at pos (news i a))).
      { rewrite cnt_as_sum. apply Qplus_comp; [reflexivity|]. apply Qopp_comp. apply qsum_map_ext. intros m Hm.
        apply nonins_in in Hm. apply news_in in Hm as (Hm & _). rewrite (ysel_N i asg W a m Ha Hm). unfold added_on. rewrite E. reflexivity. }
      destruct (nonins_at pos (defs i a)) as [|p [|q t]] eqn:D; [exact G| |exact G].
      assert (Hp : In p (i_muts i)).
      { assert (In p (defs i a)) by (apply (nonins_in pos); rewrite D; left; reflexivity). apply defs_in in H. tauto. }
      rewrite (ysel_K i asg W a p Ha Hp). unfold kept_on. rewrite E. reflexivity.
    - destruct (has_cov a pos); [|reflexivity].
      assert (G : b2q false - qsum (map (fun m => ysel i asg (kN a m)) (nonins_at pos (news i a))) == 0).
      { rewrite (qsum_map_ext _ (fun _ => 0)); [rewrite qsum_const; cbn; lra|]. intros m Hm.
        apply nonins_in in Hm. apply news_in in Hm as (Hm & _). rewrite (ysel_N i asg W a m Ha Hm). unfold added_on. rewrite E. reflexivity. }
      destruct (nonins_at pos (defs i a)) as [|p [|q t]] eqn:D; [exact G| |exact G].
      assert (Hp : In p (i_muts i)).
      { assert (In p (defs i a)) by (apply (nonins_in pos); rewrite D; left; reflexivity). apply defs_in in H. tauto. }
      rewrite (ysel_K i asg W a p Ha Hp). unfold kept_on. rewrite E. cbn. lra.
  Qed.
  Lemma fit_spec : pt_fit ys i == fit_error i asg.
  Proof.
    unfold fit_error, pt_fit. apply Qplus_comp; apply qsum_map_ext.
    - intros m Hm. apply Qabs'_comp. rewrite (carr_spec m Hm). reflexivity.
    - intros s _. apply Qabs'_comp. rewrite (refc_spec (s_pos s)). reflexivity.
  Qed.
  Lemma dropped_spec : pt_dropped ys i == dropped i asg.
  Proof.
    unfold dropped. rewrite (reindex (fun ch => qlen (defs i (ch_a ch)) - cnt (kept ch) (defs i (ch_a ch)))). unfold pt_dropped.
    apply qsum_map_ext. intros a Ha. unfold ys. rewrite (ysel_A i asg W a Ha). unfold sel_on.
    destruct (find_ch asg a) as [ch|] eqn:E.
    - destruct (find_ch_some a ch Ha E) as [_ Ea]. rewrite Ea, cnt_as_sum, qlen_as_sum.
      rewrite (qsum_map_ext (fun m => b2q true - ysel i asg (kK a m)) (fun m => 1 + (-1) * b2q (kept ch m))).
      + rewrite qsum_plus, qsum_scale. lra.
      + intros m Hm. apply defs_in in Hm as [Hm _]. rewrite (ysel_K i asg W a m Ha Hm). unfold kept_on. rewrite E. cbn. lra.
    - rewrite (qsum_map_ext _ (fun _ => 0)); [rewrite qsum_const; lra|].
      intros m Hm. apply defs_in in Hm as [Hm _]. rewrite (ysel_K i asg W a m Ha Hm). unfold kept_on. rewrite E. cbn. lra.
  Qed.
  Lemma added_spec : pt_added c ys i == add_weight c i true asg.
  Proof.
    unfold add_weight, pt_added. apply qsum_map_ext. intros [k [a m]] H. cbn [fst snd].
    apply (enumerate_in_snd 0%Z) in H. cbn [snd] in H. apply new_pairs_in in H as [Ha Hm]. apply news_in in Hm as (Hm & _).
    unfold ys. rewrite (ysel_N i asg W a m Ha Hm). unfold is_added, added_on. cbn [fst snd].
    destruct (find_ch asg a) as [ch|]; [destruct (added ch m)|]; cbn [b2q]; lra.
  Qed.
  Lemma novel_spec : pt_novel ys i == novel_core i asg.
  Proof.
    unfold novel_core, pt_novel, vo_muts. rewrite cnt_as_sum, qsum_filter_ite. apply qsum_map_ext. intros m Hm.
    assert (VN : forall v, In v (vo_vars i m) -> exists a, In a (insts i) /\ novel_on a m = true /\ v = kN a m).
    { intros v Hv. unfold vo_vars in Hv. apply in_map_iff in Hv as (a & <- & Ha). apply filter_In in Ha as [Ha P]. exists a. auto. }
    assert (Bv : forall q, In q (map ys (vo_vars i m)) -> is_bin q).
    { intros q Hq. apply in_map_iff in Hq as (v & <- & Hv). destruct (VN v Hv) as (a & Ha & _ & ->).
      unfold ys. rewrite (ysel_N i asg W a m Ha Hm). apply b2q_bin. }
    assert (EQ : existsb (fun q => Qeqb q 1) (map ys (vo_vars i m)) =
                 existsb (fun ch => added ch m && is_new (ch_a ch) m && m_func m && negb (in_core (ch_a ch) m)) asg).
    { apply eq_true_iff_eq. rewrite !existsb_exists. split.
      - intros (q & Hq & Q1). apply in_map_iff in Hq as (v & <- & Hv). destruct (VN v Hv) as (a & Ha & P & ->).
        unfold ys in Q1. rewrite (ysel_N i asg W a m Ha Hm) in Q1. unfold added_on in Q1.
        destruct (find_ch asg a) as [ch|] eqn:E; [|cbn in Q1; discriminate].
        destruct (find_ch_some a ch Ha E) as [Hc Ea]. exists ch. split; [exact Hc|]. rewrite Ea.
        destruct (added ch m); [|cbn in Q1; discriminate]. unfold novel_on in P. rewrite <- !andb_assoc in *. exact P.
      - intros (ch & Hc & P). rewrite <- !andb_assoc in P. apply andb_true_iff in P as [Ad P].
        exists 1. split; [|reflexivity]. apply in_map_iff. exists (kN (ch_a ch) m). split.
        + unfold ys. rewrite (ysel_N i asg W _ m (IN ch Hc) Hm). unfold added_on. rewrite (find_ch_in ch Hc), Ad. reflexivity.
        + unfold vo_vars. apply (in_map (fun a => kN a m)). apply filter_In. split; [apply IN; exact Hc|].
          rewrite <- !andb_assoc. exact P. }
    rewrite <- EQ, <- (qmax_list_bin _ Bv).
    destruct (vo_vars i m) as [|v t]; reflexivity.
  Qed.

  (* ---- phase ---- *)
  Lemma ys_sel_var a ch m : In a (insts i) -> find_ch asg a = Some ch -> In m (i_muts i) -> has_cov a (m_pos m) = true ->
    ys (sel_var a m) = b2q (carried ch m).
  Proof.
    intros Ha E Hm Hc. destruct (find_ch_some a ch Ha E) as [_ Ea]. unfold sel_var, ys. rewrite carried_split, Ea. unfold is_new. rewrite Hc.
    destruct (in_def a m); [rewrite (ysel_K i asg W a m Ha Hm)|rewrite (ysel_N i asg W a m Ha Hm)]; unfold kept_on, added_on; rewrite E;
      cbn [andb orb negb]; try rewrite orb_false_r; reflexivity.
  Qed.
  Lemma mismatches_spec a ch r : In a (insts i) -> find_ch asg a = Some ch ->
    qsum (map (fun v => 1 - ys v) (ph_pos i a r)) + qsum (map ys (ph_neg i a r)) == mismatches i ch r.
  Proof.
    intros Ha E. destruct (find_ch_some a ch Ha E) as [_ Ea]. unfold mismatches, ph_pos, ph_neg. rewrite Ea.
    rewrite !cnt_as_sum, !qsum_map_map, !qsum_filter_ite.
    apply Qplus_comp; apply qsum_map_ext; intros m Hm; apply (informative_in i a r m) in Hm as [Hm Hc];
      rewrite (ys_sel_var a ch m Ha E Hm Hc); pose proof (b2q_negb (carried ch m)) as NB;
      destruct (agrees r m); cbn [andb negb]; cbn [negb] in NB; try (cbn [b2q]; lra); lra.
  Qed.
  Lemma y_PH a ri r n : In a (insts i) -> In (ri, (r, n)) (enumerate 0 (modes i)) ->
    y (kPH a ri) = b2q (ph_active i a r && match ph_choice i asg r with Some a' => ainst_eqb a a' | None => false end).
  Proof. intros Ha Hr. unfold y. rewrite (Y_PH i asg W a ri Ha). unfold yph. rewrite (find_idx_ok _ _ _ Hr). reflexivity. Qed.
  Lemma y_sel_keys a r v : In a (insts i) -> In v (ph_pos i a r ++ ph_neg i a r) -> y v = ys v.
  Proof.
    intros Ha Hv. assert (exists m, v = sel_var a m) as (m & ->).
    { apply in_app_or in Hv as [Hv|Hv]; unfold ph_pos, ph_neg in Hv; apply in_map_iff in Hv as (m & <- & _); exists m; reflexivity. }
    unfold sel_var. destruct (in_def a m); reflexivity.
  Qed.
  (* the copy a read mode is put on: a selected informative copy with the fewest disagreements *)
  Lemma ph_choice_spec r q : qmin_list (map (fun ch => mismatches i ch r) (filter (fun ch => ph_active i (ch_a ch) r) asg)) = Some q ->
    exists ch, In ch asg /\ ph_active i (ch_a ch) r = true /\ mismatches i ch r == q /\ ph_choice i asg r = Some (ch_a ch).
  Proof.
    intros E. unfold ph_choice. rewrite E. pose proof (qmin_list_in _ _ E) as Hq. apply in_map_iff in Hq as (ch0 & E0 & H0).
    destruct (find (fun ch => Qeqb (mismatches i ch r) q) (filter (fun ch => ph_active i (ch_a ch) r) asg)) as [ch|] eqn:Fd.
    - apply find_some in Fd as [Hc Q]. apply filter_In in Hc as [Hc Act]. exists ch. repeat split; try assumption.
      unfold Qeqb in Q. apply Qeq_bool_iff in Q. exact Q.
    - exfalso. pose proof (find_none _ _ Fd ch0 H0) as N. cbn beta in N. rewrite E0 in N. unfold Qeqb in N.
      assert (Qeq_bool q q = true) by (apply Qeq_bool_iff; reflexivity). congruence.
  Qed.
  Lemma phase_mode_spec ri r n : In (ri, (r, n)) (enumerate 0 (modes i)) -> forall q0, phase_mode i asg (r, n) = Some q0 ->
    q0 == inject_Z n * qsum (map (pt_phase_a y i ri r) (insts i)).
  Proof.
    intros Hrm q0. unfold phase_mode. cbn [fst snd]. destruct (existsb (fun a => ph_active i a r) (insts i)) eqn:EX.
    - destruct (qmin_list _) as [q|] eqn:Eq; [|discriminate]. intros E0. injection E0 as <-.
      destruct (ph_choice_spec r q Eq) as (ch & Hc & Act & Mq & Pc).
      assert (Ha' : In (ch_a ch) (insts i)) by (apply IN; exact Hc).
      rewrite (qsum_map_ext (pt_phase_a y i ri r)
                 (fun a => if ainst_eqb (ch_a ch) a then mismatches i ch r else 0)).
      + rewrite (qsum_pick ainst_eqb (insts i) (ch_a ch) (mismatches i ch r) (fun _ => 0) NDi Ha').
        * rewrite qsum_const, Mq. lra.
        * intros a Ha E. symmetry. apply (ainst_eqb_eq i _ _ NDcs Ha' Ha E).
        * apply ainst_eqb_refl.
        * reflexivity.
      + intros a Ha. unfold pt_phase_a. destruct (ph_active i a r) eqn:Aa.
        * rewrite (y_PH a ri r n Ha Hrm), Aa, Pc, (ainst_eqb_sym a (ch_a ch)). cbn [andb].
          destruct (ainst_eqb (ch_a ch) a) eqn:E; cbn [b2q]; [|lra].
          assert (a = ch_a ch) by (symmetry; apply (ainst_eqb_eq i _ _ NDcs Ha' Ha E)). subst a.
          rewrite (qsum_map_ext (fun v => 1 - y v) (fun v => 1 - ys v)), (qsum_map_ext y ys).
          -- rewrite (mismatches_spec (ch_a ch) ch r Ha' (find_ch_in ch Hc)). lra.
          -- intros v Hv. rewrite (y_sel_keys (ch_a ch) r v Ha'); [reflexivity|apply in_or_app; right; exact Hv].
          -- intros v Hv. rewrite (y_sel_keys (ch_a ch) r v Ha'); [reflexivity|apply in_or_app; left; exact Hv].
        * destruct (ainst_eqb (ch_a ch) a) eqn:E; [|reflexivity]. exfalso.
          assert (a = ch_a ch) by (symmetry; apply (ainst_eqb_eq i _ _ NDcs Ha' Ha E)). subst a. congruence.
    - intros E0. injection E0 as <-. rewrite (qsum_map_ext (pt_phase_a y i ri r) (fun _ => 0)).
      + rewrite qsum_const. lra.
      + intros a Ha. unfold pt_phase_a. destruct (ph_active i a r) eqn:Act; [|reflexivity]. exfalso.
        assert (existsb (fun a => ph_active i a r) (insts i) = true) by (apply existsb_exists; exists a; auto). congruence.
  Qed.

  Lemma phase_spec : exists ph, phase_disagreement i asg = Some ph /\ pt_phase y i == ph.
  Proof.
    destruct adm_phase as (ph0 & E0). exists ph0. split; [exact E0|]. unfold phase_disagreement in E0. unfold pt_phase.
    assert (E : fold_left (fun acc rm => match acc, phase_mode i asg rm with Some u, Some v => Some (u + v) | _, _ => None end) (modes i) (Some 0) =
                fold_left (fun a (y : Z * (mode * Z)) => oadd a (phase_mode i asg (snd y))) (enumerate 0 (modes i)) (Some 0)).
    { rewrite <- (enumerate_snd 0%Z (modes i)) at 1. generalize (enumerate 0%Z (modes i)) (Some 0).
      induction l as [|z t IH]; intros acc; [reflexivity|]. cbn [map fold_left]. rewrite IH. reflexivity. }
    rewrite E in E0.
    destruct (fold_oadd_eq (fun y : Z * (mode * Z) => phase_mode i asg (snd y))
                           (fun rm => inject_Z (snd (snd rm)) * qsum (map (pt_phase_a y i (fst rm) (fst (snd rm))) (insts i)))
                           (enumerate 0 (modes i)) 0) as (ph & Ep & Lp).
    - intros [ri [r n]] H. cbn [fst snd]. destruct (fold_oadd_some _ _ _ _ E0 (ri, (r, n)) H) as (q & Eq). cbn [snd] in Eq.
      exists q. split; [exact Eq|]. apply (phase_mode_spec ri r n H q Eq).
    - rewrite E0 in Ep. injection Ep as <-. lra.
  Qed.

  Lemma pt_sel_same : pt_fit y i = pt_fit ys i /\ pt_dropped y i = pt_dropped ys i /\ pt_added c y i = pt_added c ys i.
  Proof. repeat split. Qed.
  Lemma pt_novel_same : pt_novel y i = pt_novel ys i.
  Proof.
    unfold pt_novel. apply f_equal. apply map_ext_in. intros m _. apply f_equal. apply map_ext_in. intros v Hv.
    unfold vo_vars in Hv. apply in_map_iff in Hv as (a & <- & _). reflexivity.
  Qed.
  Theorem score_spec : exists q, score c i true asg = Some q /\ pt_score c y i == q.
  Proof.
    destruct phase_spec as (ph & Ep & Lp). unfold score. rewrite Ep. eexists. split; [reflexivity|].
    unfold pt_score. destruct pt_sel_same as (-> & -> & ->). rewrite pt_novel_same.
    rewrite fit_spec, dropped_spec, added_spec, novel_spec, Lp. reflexivity.
  Qed.

  (* ------------------------------------------------------------------------------------------ *)
  (* feasibility of Y                                                                            *)
  (* ------------------------------------------------------------------------------------------ *)
  Lemma kept_on_sel a m : kept_on asg a m = true -> sel_on asg a = true.
  Proof. unfold kept_on, sel_on. destruct (find_ch asg a); [reflexivity|discriminate]. Qed.
  Lemma added_on_sel a m : added_on asg a m = true -> sel_on asg a = true.
  Proof. unfold added_on, sel_on. destruct (find_ch asg a); [reflexivity|discriminate]. Qed.
  Lemma sel_on_find a : sel_on asg a = true -> exists ch, find_ch asg a = Some ch.
  Proof. unfold sel_on. destruct (find_ch asg a) as [ch|]; [exists ch; reflexivity|discriminate]. Qed.
  Lemma defs_mut a m : In m (defs i a) -> In m (i_muts i).
  Proof. intros H. apply defs_in in H. tauto. Qed.
  Lemma news_mut a m : In m (news i a) -> In m (i_muts i).
  Proof. intros H. apply news_in in H. tauto. Qed.
  Lemma ys_bin_sel a m : In a (insts i) -> In m (i_muts i) -> is_bin (ys (sel_var a m)).
  Proof.
    intros Ha Hm. unfold sel_var, ys. destruct (in_def a m); [rewrite (ysel_K i asg W a m Ha Hm)|rewrite (ysel_N i asg W a m Ha Hm)]; apply b2q_bin.
  Qed.
  Lemma ph_keys_bin a r v : In a (insts i) -> In v (ph_pos i a r ++ ph_neg i a r) -> is_bin (ys v).
  Proof.
    intros Ha Hv. apply in_app_or in Hv as [Hv|Hv]; unfold ph_pos, ph_neg in Hv; apply in_map_iff in Hv as (m & <- & Hm);
      apply filter_In in Hm as [Hm _]; apply (informative_in i a r m) in Hm as [Hm _]; apply ys_bin_sel; assumption.
  Qed.
  Lemma yph_bin a ri : is_bin (yph i asg a ri).
  Proof. unfold yph. destruct (find_idx ri (modes i)); [apply b2q_bin|left; reflexivity]. Qed.

  Lemma Y_kinds kv : In kv (gen_vars i) -> in_kind (snd kv) (y (fst kv)).
  Proof.
    unfold gen_vars. rewrite !in_app_iff. intros [H|[H|[H|[H|[H|[H|H]]]]]].
    - apply in_map_iff in H as (a & <- & Ha). cbn [fst snd in_kind]. unfold y. rewrite (Y_A i asg W a Ha). apply b2q_bin.
    - apply in_flat_map in H as (a & Ha & H). apply in_flat_map in H as (m & Hm & H). apply defs_mut in Hm.
      destruct H as [<-|[<-|[]]]; cbn [fst snd in_kind]; unfold y; [rewrite (Y_K i asg W a m Ha Hm)|rewrite (Y_MK i asg W a m Ha Hm)]; apply b2q_bin.
    - apply in_flat_map in H as (a & Ha & H). apply in_flat_map in H as (m & Hm & H). apply news_mut in Hm.
      destruct H as [<-|[<-|[]]]; cbn [fst snd in_kind]; unfold y; [rewrite (Y_N i asg W a m Ha Hm)|rewrite (Y_MN i asg W a m Ha Hm)]; apply b2q_bin.
    - apply in_map_iff in H as (k & <- & _). cbn [fst snd in_kind]. split; exact I.
    - unfold vars_phase in H. apply in_flat_map in H as ([ri [r n]] & Hr & H). cbn [fst snd] in H.
      apply in_flat_map in H as (a & Ha & H). destruct (ph_active i a r) eqn:Act; [|contradiction].
      destruct H as [<-|H]; [cbn [fst snd in_kind]; unfold y; rewrite (Y_PH i asg W a ri Ha); apply yph_bin|].
      apply in_app_or in H as [H|H]; apply in_map_iff in H as ([j v] & <- & Hj); cbn [fst snd in_kind]; unfold y.
      + rewrite (Y_P2 i asg W a ri r n j v Ha Hr Hj). apply bin_mul; [apply yph_bin|].
        apply (ph_keys_bin a r). exact Ha. apply in_or_app. left. apply (enumerate_in_snd 0%Z) in Hj. exact Hj.
      + rewrite (Y_P3 i asg W a ri r n j v Ha Hr Hj). apply bin_mul; [apply yph_bin|].
        apply (ph_keys_bin a r). exact Ha. apply in_or_app. right. apply (enumerate_in_snd 0%Z) in Hj. exact Hj.
    - unfold abssum_vars in H. apply in_map_iff in H as (k & <- & Hk). cbn [fst snd in_kind]. unfold y.
      rewrite (Y_abs i asg k (err_keys_plain i k Hk)). split; [apply Qabs'_nonneg|exact I].
    - apply in_map_iff in H as (m & <- & Hm). cbn [fst snd in_kind]. unfold y.
      assert (Hm' : In m (i_muts i)) by (unfold vo_muts in Hm; apply filter_In in Hm; tauto).
      rewrite (Y_VO i asg W m Hm').
      assert (Bv : forall q, In q (map (ysel i asg) (vo_vars i m)) -> is_bin q).
      { intros q Hq. apply in_map_iff in Hq as (v & <- & Hv). unfold vo_vars in Hv. apply in_map_iff in Hv as (a & <- & Ha).
        apply filter_In in Ha as [Ha _]. rewrite (ysel_N i asg W a m Ha Hm'). apply b2q_bin. }
      pose proof (qmax_list_bin _ Bv) as E. destruct (b2q_bin (existsb (fun q => Qeqb q 1) (map (ysel i asg) (vo_vars i m)))) as [Z|O];
        [left|right]; lra.
  Qed.

  Lemma yA a : In a (insts i) -> y (kA a) = b2q (sel_on asg a).
  Proof. intros Ha. unfold y. apply (Y_A i asg W a Ha). Qed.
  Lemma yK a m : In a (insts i) -> In m (i_muts i) -> y (kK a m) = b2q (kept_on asg a m).
  Proof. intros Ha Hm. unfold y. apply (Y_K i asg W a m Ha Hm). Qed.
  Lemma yMK a m : In a (insts i) -> In m (i_muts i) -> y (kMK a m) = b2q (kept_on asg a m).
  Proof. intros Ha Hm. unfold y. apply (Y_MK i asg W a m Ha Hm). Qed.
  Lemma yN a m : In a (insts i) -> In m (i_muts i) -> y (kN a m) = b2q (added_on asg a m).
  Proof. intros Ha Hm. unfold y. apply (Y_N i asg W a m Ha Hm). Qed.
  Lemma yMN a m : In a (insts i) -> In m (i_muts i) -> y (kMN a m) = b2q (added_on asg a m).
  Proof. intros Ha Hm. unfold y. apply (Y_MN i asg W a m Ha Hm). Qed.

  Lemma sel_parts :
    (forall ch, In ch asg -> (snd (ch_a ch) =? 0)%Z = true \/
                             existsb (fun ch' => ainst_eqb (ch_a ch') (fst (ch_a ch), (snd (ch_a ch) - 1)%Z)) asg = true) /\
    (forall mc, In mc (i_majors i) -> Z.of_nat (length (filter (fun ch => of_major (fst mc) (ch_a ch)) asg)) = snd mc) /\
    (Z.of_nat (length asg) <= total_copies i)%Z.
  Proof.
    pose proof adm_sel as S. unfold sel_ok in S. rewrite !andb_true_iff in S. destruct S as [[[[_ _] S3] S4] S5]. repeat split.
    - intros ch Hc. rewrite forallb_forall in S3. specialize (S3 ch Hc). apply orb_true_iff in S3. exact S3.
    - intros mc Hm. rewrite forallb_forall in S4. specialize (S4 mc Hm). apply Z.eqb_eq in S4. exact S4.
    - apply Z.leb_le. exact S5.
  Qed.

  Lemma row_cord r : In r (rows_cord i) -> sat_row y r.
  Proof.
    unfold rows_cord. intros H. apply in_flat_map in H as (a & Ha & H). destruct (0 <? snd a)%Z eqn:P; [|contradiction].
    destruct H as [<-|[]]. apply Z.ltb_lt in P. unfold sat_row. cbn [mkrow r_rel r_lin r_rhs eval_lin].
    assert (Z0 : snd a <> 0%Z) by lia. destruct (insts_prev i a Ha Z0) as [Hp _].
    rewrite (yA a Ha), (yA _ Hp).
    assert (L : b2q (sel_on asg a) <= b2q (sel_on asg (fst a, (snd a - 1)%Z))).
    { apply b2q_le. intros S. apply sel_on_find in S as (ch & E). destruct (find_ch_some a ch Ha E) as [Hc Ea].
      destruct sel_parts as [S3 _]. destruct (S3 ch Hc) as [Z1|X]; [rewrite Ea in Z1; apply Z.eqb_eq in Z1; lia|].
      rewrite Ea in X. apply find_exists in X as (ch' & F'). unfold sel_on, find_ch. rewrite F'. reflexivity. }
    lra.
  Qed.
  Lemma sum_sel_major mj :
    qsum (map y (map kA (filter (of_major mj) (insts i)))) == inject_Z (Z.of_nat (length (filter (fun ch => of_major mj (ch_a ch)) asg))).
  Proof.
    rewrite count_as_sum, (reindex (fun ch => b2q (of_major mj (ch_a ch)))), qsum_map_map, qsum_filter_ite.
    apply qsum_map_ext. intros a Ha. rewrite (yA a Ha). unfold sel_on. destruct (find_ch asg a) as [ch|] eqn:E.
    - destruct (find_ch_some a ch Ha E) as [_ Ea]. rewrite Ea. destruct (of_major mj a); cbn; lra.
    - destruct (of_major mj a); cbn; lra.
  Qed.
  Lemma row_ccnt r : In r (rows_ccnt i) -> sat_row y r.
  Proof.
    unfold rows_ccnt. intros H. apply in_flat_map in H as ([mj cnt] & Hm & H). cbn [fst snd] in H.
    destruct sel_parts as (_ & S4 & _). specialize (S4 (mj, cnt) Hm). cbn [fst snd] in S4.
    pose proof (sum_sel_major mj) as E. rewrite S4 in E.
    destruct H as [<-|[<-|[]]]; unfold sat_row; cbn [mkrow r_rel r_lin r_rhs]; rewrite eval_sumv, E; lra.
  Qed.
  Lemma row_other r : In r (rows_other i) -> sat_row y r.
  Proof.
    unfold rows_other. intros [<-|[]]. unfold sat_row. cbn [mkrow r_rel r_lin r_rhs]. rewrite eval_sumv, qsum_map_map.
    assert (E : qsum (map (fun a => y (kA a)) (insts i)) == inject_Z (Z.of_nat (length asg))).
    { rewrite <- (map_length (fun _ : choice => 1) asg). unfold qlen.
      assert (Q1 : forall l : list choice, inject_Z (Z.of_nat (length (map (fun _ => 1) l))) == qsum (map (fun _ => 1) l)).
      { intros l. rewrite map_length. apply (qlen_as_sum l). }
      rewrite Q1, (reindex (fun _ => 1)). apply qsum_map_ext. intros a Ha. rewrite (yA a Ha). unfold sel_on.
      destruct (find_ch asg a); reflexivity. }
    rewrite E. destruct sel_parts as (_ & _ & S5). rewrite <- Zle_Qle. exact S5.
  Qed.
  Lemma row_prod r : In r (rows_prod i) -> sat_row y r.
  Proof.
    unfold rows_prod. intros H. apply in_flat_map in H as (m & Hm & H). apply in_flat_map in H as (a & Ha & H).
    destruct (in_def a m) eqn:D.
    - assert (P : Forall (sat_row y) (prod_rows (kMK a m) [kA a; kK a m])).
      { apply prod2_exact; rewrite ?(yMK a m Ha Hm), ?(yA a Ha), ?(yK a m Ha Hm); try apply b2q_bin.
        destruct (kept_on asg a m) eqn:K; [rewrite (kept_on_sel a m K)|]; cbn; lra. }
      rewrite Forall_forall in P. apply P. exact H.
    - destruct (has_cov a (m_pos m)) eqn:C; [|contradiction].
      assert (P : Forall (sat_row y) (prod_rows (kMN a m) [kA a; kN a m])).
      { apply prod2_exact; rewrite ?(yMN a m Ha Hm), ?(yA a Ha), ?(yN a m Ha Hm); try apply b2q_bin.
        destruct (added_on asg a m) eqn:K; [rewrite (added_on_sel a m K)|]; cbn; lra. }
      rewrite Forall_forall in P. apply P. exact H.
  Qed.
  Lemma row_cvk r : In r (rows_cvk i) -> sat_row y r.
  Proof.
    unfold rows_cvk. intros H. apply in_flat_map in H as (a & Ha & H). apply in_map_iff in H as (m & <- & Hm). apply defs_mut in Hm.
    unfold sat_row. cbn [mkrow r_rel r_lin r_rhs eval_lin]. rewrite (yK a m Ha Hm), (yA a Ha).
    pose proof (b2q_le _ _ (kept_on_sel a m)). lra.
  Qed.
  Lemma row_cvn r : In r (rows_cvn i) -> sat_row y r.
  Proof.
    unfold rows_cvn. intros H. apply in_flat_map in H as (a & Ha & H). apply in_map_iff in H as (m & <- & Hm). apply news_mut in Hm.
    unfold sat_row. cbn [mkrow r_rel r_lin r_rhs eval_lin]. rewrite (yN a m Ha Hm), (yA a Ha).
    pose proof (b2q_le _ _ (added_on_sel a m)). lra.
  Qed.
  Lemma choice_parts a ch : In a (insts i) -> find_ch asg a = Some ch ->
    (forall m, In m (defs i a) -> m_func m = true -> kept ch m = true) /\
    (forall m, In m (defs i a) -> kept ch m = true -> has_cov a (m_pos m) = true) /\
    (forall s, In s (i_sites i) -> (length (carried_at i ch (s_pos s)) <= 1)%nat).
  Proof.
    intros Ha E. destruct (find_ch_some a ch Ha E) as [Hc Ea]. pose proof (adm_choice ch Hc) as C. unfold choice_ok in C.
    rewrite Ea in C. rewrite !andb_true_iff in C. destruct C as [[[[_ _] C2] C3] C4]. repeat split.
    - intros m Hm Hf. rewrite forallb_forall in C2. apply C2. apply filter_In. auto.
    - intros m Hm K. rewrite forallb_forall in C3. specialize (C3 m Hm). rewrite K in C3. exact C3.
    - intros s Hs. rewrite forallb_forall in C4. specialize (C4 s Hs). apply Nat.leb_le in C4. exact C4.
  Qed.
  Lemma row_cfunc r : In r (rows_cfunc i) -> sat_row y r.
  Proof.
    unfold rows_cfunc. intros H. apply in_flat_map in H as (a & Ha & H). apply in_map_iff in H as (m & <- & Hm).
    apply filter_In in Hm as [Hm Hf]. unfold sat_row. cbn [mkrow r_rel r_lin r_rhs eval_lin].
    rewrite (yK a m Ha (defs_mut a m Hm)), (yA a Ha).
    assert (L : b2q (sel_on asg a) <= b2q (kept_on asg a m)).
    { apply b2q_le. intros S. apply sel_on_find in S as (ch & E). unfold kept_on. rewrite E.
      destruct (choice_parts a ch Ha E) as (C2 & _). apply C2; assumption. }
    lra.
  Qed.
  Lemma row_czero r : In r (rows_czero i) -> sat_row y r.
  Proof.
    unfold rows_czero. intros H. apply in_flat_map in H as (a & Ha & H). apply in_map_iff in H as (m & <- & Hm).
    apply filter_In in Hm as [Hm Hc]. apply negb_true_iff in Hc. unfold sat_row. cbn [mkrow r_rel r_lin r_rhs eval_lin].
    rewrite (yK a m Ha (defs_mut a m Hm)). unfold kept_on. destruct (find_ch asg a) as [ch|] eqn:E; [|cbn; lra].
    destruct (kept ch m) eqn:K; [|cbn; lra]. destruct (choice_parts a ch Ha E) as (_ & C3 & _). rewrite (C3 m Hm K) in Hc. discriminate.
  Qed.

  (* ---- sums over the variants of one site on one allele copy ---- *)
  Lemma site_mp_sum a pos : In a (insts i) ->
    qsum (map y (site_mp i pos a)) == qsum (map (fun m => if (m_pos m =? pos)%Z && in_def a m then b2q (kept_on asg a m) else 0) (i_muts i)).
  Proof.
    intros Ha. unfold site_mp. rewrite qsum_map_map.
    rewrite (qsum_map_ext (fun m => y (kMK a m)) (fun m => b2q (kept_on asg a m))).
    2:{ intros m Hm. apply at_pos_in in Hm. apply defs_mut in Hm. rewrite (yMK a m Ha Hm). reflexivity. }
    unfold at_pos, defs. rewrite filter_filter', qsum_filter_ite. apply qsum_map_ext. intros m _. rewrite andb_comm. reflexivity.
  Qed.
  Lemma site_ma_sum a pos : In a (insts i) ->
    qsum (map y (site_ma i pos a)) == qsum (map (fun m => if (m_pos m =? pos)%Z && is_new a m then b2q (added_on asg a m) else 0) (i_muts i)).
  Proof.
    intros Ha. unfold site_ma. rewrite qsum_map_map.
    rewrite (qsum_map_ext (fun m => y (kMN a m)) (fun m => b2q (added_on asg a m))).
    2:{ intros m Hm. apply at_pos_in in Hm. apply news_mut in Hm. rewrite (yMN a m Ha Hm). reflexivity. }
    unfold at_pos, news. rewrite filter_filter', qsum_filter_ite. apply qsum_map_ext. intros m _. rewrite andb_comm. reflexivity.
  Qed.
  Lemma site_sum a pos : In a (insts i) ->
    qsum (map y (site_mp i pos a)) + qsum (map y (site_ma i pos a)) ==
    match find_ch asg a with Some ch => qlen (carried_at i ch pos) | None => 0 end.
  Proof.
    intros Ha. rewrite (site_mp_sum a pos Ha), (site_ma_sum a pos Ha), <- qsum_plus. unfold kept_on, added_on.
    destruct (find_ch asg a) as [ch|] eqn:E.
    - destruct (find_ch_some a ch Ha E) as [_ Ea]. unfold carried_at, qlen, at_pos. rewrite count_as_sum, qsum_filter_ite.
      apply qsum_map_ext. intros m _. rewrite carried_split, Ea. unfold is_new.
      destruct (m_pos m =? pos)%Z, (in_def a m), (has_cov a (m_pos m)), (kept ch m), (added ch m); cbn; lra.
    - rewrite (qsum_map_ext _ (fun _ => 0)); [rewrite qsum_const; lra|]. intros m _.
      destruct ((m_pos m =? pos)%Z && in_def a m), ((m_pos m =? pos)%Z && is_new a m); cbn; lra.
  Qed.
  Lemma site_parts_nonneg a pos : In a (insts i) -> 0 <= qsum (map y (site_mp i pos a)) /\ 0 <= qsum (map y (site_ma i pos a)).
  Proof.
    intros Ha. rewrite (site_mp_sum a pos Ha), (site_ma_sum a pos Ha). split; apply qsum_nonneg; intros m _.
    - destruct (_ && _); [destruct (kept_on asg a m); cbn|]; lra.
    - destruct (_ && _); [destruct (added_on asg a m); cbn|]; lra.
  Qed.
  Lemma site_le_one a st : In a (insts i) -> In st (i_sites i) ->
    qsum (map y (site_mp i (s_pos st) a)) + qsum (map y (site_ma i (s_pos st) a)) <= 1.
  Proof.
    intros Ha Hs. rewrite (site_sum a (s_pos st) Ha). destruct (find_ch asg a) as [ch|] eqn:E; [|lra].
    destruct (choice_parts a ch Ha E) as (_ & _ & C4). specialize (C4 st Hs). unfold qlen. change 1 with (inject_Z 1).
    rewrite <- Zle_Qle. lia.
  Qed.
  Lemma row_csingle r : In r (rows_csingle i) -> sat_row y r.
  Proof.
    unfold rows_csingle. intros H. apply in_flat_map in H as (st & Hs & H). apply in_flat_map in H as (a & Ha & H). cbv zeta in H.
    pose proof (site_le_one a st Ha Hs) as L. destruct (site_parts_nonneg a (s_pos st) Ha) as [P1 P2].
    apply in_app_or in H as [H|H].
    - destruct (1 <? length (site_ma i (s_pos st) a))%nat; [|contradiction]. destruct H as [<-|[]].
      unfold sat_row. cbn [mkrow r_rel r_lin r_rhs]. rewrite eval_sumv. lra.
    - destruct (1 <? _)%nat; [|contradiction]. destruct H as [<-|[]].
      unfold sat_row. cbn [mkrow r_rel r_lin r_rhs]. rewrite eval_sumv, map_app, qsum_app. lra.
  Qed.
  Lemma row_cone r : In r (rows_cone i) -> sat_row y r.
  Proof.
    unfold rows_cone. intros H. apply in_flat_map in H as (st & Hs & H). apply in_flat_map in H as (a & Ha & H).
    destruct (has_cov a (s_pos st)); [|contradiction].
    assert (G : sat_row y (mkrow (sumv (map (kN a) (nonins_at (s_pos st) (news i a)))) RLe 1)).
    { unfold sat_row. cbn [mkrow r_rel r_lin r_rhs]. rewrite eval_sumv, qsum_map_map.
      pose proof (site_le_one a st Ha Hs) as L. destruct (site_parts_nonneg a (s_pos st) Ha) as [P1 _].
      assert (M : qsum (map (fun m => y (kN a m)) (nonins_at (s_pos st) (news i a))) <= qsum (map y (site_ma i (s_pos st) a))).
      { unfold site_ma. rewrite qsum_map_map.
        rewrite (qsum_map_ext (fun m => y (kMN a m)) (fun m => y (kN a m))).
        2:{ intros m Hm. apply at_pos_in in Hm. apply news_mut in Hm. rewrite (yMN a m Ha Hm), (yN a m Ha Hm). reflexivity. }
        unfold nonins_at, at_pos. rewrite !qsum_filter_ite. apply qsum_le_pointwise. intros m Hm. apply news_mut in Hm.
        rewrite (yN a m Ha Hm). destruct (m_pos m =? s_pos st)%Z, (m_ins m), (added_on asg a m); cbn; lra. }
      lra. }
    destruct (nonins_at (s_pos st) (defs i a)) as [|p [|q t]]; [destruct H as [<-|[]]; exact G|contradiction|destruct H as [<-|[]]; exact G].
  Qed.
  Lemma eval_site_expr pos :
    eval_lin y (site_expr i pos) == qsum (map (fun ch => qlen (site_e i pos (ch_a ch)) - qlen (carried_at i ch pos)) asg).
  Proof.
    rewrite (reindex (fun ch => qlen (site_e i pos (ch_a ch)) - qlen (carried_at i ch pos))). unfold site_expr. rewrite eval_flat_map.
    apply qsum_map_ext. intros a Ha. cbn [eval_lin]. rewrite eval_negv. unfold site_e at 2. rewrite map_app, qsum_app, (site_sum a pos Ha), (yA a Ha).
    unfold sel_on. destruct (find_ch asg a) as [ch|] eqn:E.
    - destruct (find_ch_some a ch Ha E) as [_ Ea]. rewrite Ea. cbn [b2q]. lra.
    - cbn [b2q]. lra.
  Qed.
  Lemma row_cref r : In r (rows_cref i) -> sat_row y r.
  Proof.
    intros H. apply rows_cref_in in H as (NE & st & Hs & ->). pose proof (adm_ref st Hs) as R. rewrite (ref_ok_unfold i asg st NE) in R.
    cbv zeta in R. pose proof (eval_site_expr (s_pos st)) as E.
    destruct (Qeqb (s_pcn st) 0); unfold sat_row; cbn [mkrow r_rel r_lin r_rhs]; unfold Qleb in R; apply Qle_bool_iff in R; rewrite E; exact R.
  Qed.

  (* ---- coverage equations, rule 5 ---- *)
  Lemma mut_keys_sum m : In m (i_muts i) -> qsum (map y (mut_keys i m)) == carr ys i m.
  Proof.
    intros Hm. unfold mut_keys, carr. rewrite qsum_flat_map. apply qsum_map_ext. intros a Ha. unfold ys.
    destruct (in_def a m); [cbn [map qsum]; rewrite (yMK a m Ha Hm), (ysel_K i asg W a m Ha Hm); lra|].
    destruct (has_cov a (m_pos m)); [cbn [map qsum]; rewrite (yMN a m Ha Hm), (ysel_N i asg W a m Ha Hm); lra|reflexivity].
  Qed.
  Lemma eval_ref_terms pos : eval_lin y (ref_terms i pos) == refc ys i pos.
  Proof.
    unfold ref_terms, refc. rewrite eval_flat_map. apply qsum_map_ext. intros a Ha. unfold ref_terms_a, refc_a.
    destruct (has_cov a pos); [|reflexivity].
    assert (G : eval_lin y ((1, kA a) :: negv (map (kMN a) (nonins_at pos (news i a)))) ==
                ys (kA a) - qsum (map (fun m => ys (kN a m)) (nonins_at pos (news i a)))).
    { cbn [eval_lin]. rewrite eval_negv, qsum_map_map.
      rewrite (qsum_map_ext (fun m => y (kMN a m)) (fun m => ys (kN a m))).
      - change (y (kA a)) with (ys (kA a)). lra.
      - intros m Hm. apply nonins_in in Hm. apply news_mut in Hm. unfold ys. rewrite (yMN a m Ha Hm), (ysel_N i asg W a m Ha Hm). reflexivity. }
    destruct (nonins_at pos (defs i a)) as [|p [|q t]] eqn:D; [exact G| |exact G].
    assert (Hp : In p (i_muts i)).
    { assert (In p (defs i a)) by (apply (nonins_in pos); rewrite D; left; reflexivity). apply defs_mut in H. exact H. }
    cbn [eval_lin]. unfold ys. rewrite (yMK a p Ha Hp), (ysel_K i asg W a p Ha Hp). change (y (kA a)) with (ysel i asg (kA a)). lra.
  Qed.
  Lemma row_ccov r : In r (rows_ccov i) -> sat_row y r.
  Proof.
    unfold rows_ccov. intros H. apply in_app_or in H as [H|H].
    - apply in_flat_map in H as (m & Hm & H). cbv zeta in H.
      assert (E : eval_lin y (mut_terms i m ++ [(1, kE m)]) == obs_mut m).
      { rewrite eval_lin_app. unfold mut_terms. rewrite eval_sumv, (mut_keys_sum m Hm). cbn [eval_lin]. unfold y.
        rewrite (Y_E i asg W m Hm). fold ys. lra. }
      destruct H as [<-|[<-|[]]]; unfold sat_row; cbn [mkrow r_rel r_lin r_rhs]; rewrite E; lra.
    - apply in_flat_map in H as (st & Hs & H). cbv zeta in H.
      assert (E : eval_lin y (ref_terms i (s_pos st) ++ [(1, kR st)]) == obs_site st).
      { rewrite eval_lin_app, (eval_ref_terms (s_pos st)). cbn [eval_lin]. unfold y. rewrite (Y_R i asg W st Hs). fold ys. lra. }
      destruct H as [<-|[<-|[]]]; unfold sat_row; cbn [mkrow r_rel r_lin r_rhs]; rewrite E; lra.
  Qed.
  Lemma row_cmut r : In r (rows_cmut i) -> sat_row y r.
  Proof.
    unfold rows_cmut. intros H. apply in_flat_map in H as (m & Hm & H). cbv zeta in H.
    assert (E : eval_lin y (mut_terms i m) == carriers asg m).
    { unfold mut_terms. rewrite eval_sumv, (mut_keys_sum m Hm). apply carr_spec. exact Hm. }
    pose proof (adm_reads m Hm) as R. unfold reads_ok in R. destruct (no_reads m).
    - destruct H as [<-|[]]. unfold sat_row. cbn [mkrow r_rel r_lin r_rhs]. unfold Qeqb in R. apply Qeq_bool_iff in R. rewrite E, R. lra.
    - apply andb_true_iff in R as [R1 R2]. unfold Qleb in R1, R2. apply Qle_bool_iff in R1, R2.
      destruct H as [<-|[<-|[]]]; unfold sat_row; cbn [mkrow r_rel r_lin r_rhs]; rewrite E; assumption.
  Qed.
  Lemma row_abssum r : In r (abssum_rows (err_keys i)) -> sat_row y r.
  Proof.
    unfold abssum_rows. intros H. apply in_flat_map in H as (k & Hk & H). pose proof (Qabs'_ge (y k)) as [G1 G2].
    destruct H as [<-|[<-|[]]]; unfold sat_row; cbn [r_rel r_lin r_rhs eval_lin]; unfold y in *;
      rewrite (Y_abs i asg k (err_keys_plain i k Hk)); lra.
  Qed.
  Lemma row_vnewor r : In r (rows_vnewor i) -> sat_row y r.
  Proof.
    unfold rows_vnewor. intros H. apply in_flat_map in H as (m & Hv & H).
    assert (Hm : In m (i_muts i)) by (unfold vo_muts in Hv; apply filter_In in Hv; tauto).
    assert (VY : map y (vo_vars i m) = map ys (vo_vars i m)).
    { apply map_ext_in. intros v Hin. unfold vo_vars in Hin. apply in_map_iff in Hin as (a & <- & _). reflexivity. }
    assert (NN : forall q, In q (map ys (vo_vars i m)) -> 0 <= q).
    { intros q Hq. apply in_map_iff in Hq as (v & <- & Hin). unfold vo_vars in Hin. apply in_map_iff in Hin as (a & <- & Ha).
      apply filter_In in Ha as [Ha _]. unfold ys. rewrite (ysel_N i asg W a m Ha Hm). destruct (added_on asg a m); cbn; lra. }
    destruct H as [<-|H].
    - unfold sat_row. cbn [mkrow r_rel r_lin r_rhs eval_lin]. rewrite eval_negv, VY. unfold y. rewrite (Y_VO i asg W m Hm). fold ys.
      pose proof (qmax_le_sum _ NN). lra.
    - apply in_map_iff in H as (v & <- & Hin). unfold sat_row. cbn [mkrow r_rel r_lin r_rhs eval_lin]. unfold y at 1.
      rewrite (Y_VO i asg W m Hm). fold ys.
      assert (y v <= qmax_list (map ys (vo_vars i m))).
      { apply qmax_list_ge. rewrite <- VY. apply in_map. exact Hin. }
      lra.
  Qed.

  (* ---- rule 7: phase ---- *)
  Lemma phase_fold_eq : phase_disagreement i asg =
    fold_left (fun a (rm : Z * (mode * Z)) => oadd a (phase_mode i asg (snd rm))) (enumerate 0 (modes i)) (Some 0).
  Proof.
    unfold phase_disagreement. rewrite <- (enumerate_snd 0%Z (modes i)) at 1. generalize (enumerate 0%Z (modes i)) (Some 0).
    induction l as [|z t IH]; intros acc; [reflexivity|]. cbn [map fold_left]. rewrite IH. reflexivity.
  Qed.
  Lemma phase_mode_some ri r n : In (ri, (r, n)) (enumerate 0 (modes i)) -> exists q, phase_mode i asg (r, n) = Some q.
  Proof.
    intros H. destruct adm_phase as (ph0 & E0). rewrite phase_fold_eq in E0.
    destruct (fold_oadd_some _ _ _ _ E0 (ri, (r, n)) H) as (q & Eq). exists q. exact Eq.
  Qed.
  Lemma ph_choice_in r a' : ph_choice i asg r = Some a' -> exists ch, In ch asg /\ a' = ch_a ch /\ ph_active i a' r = true.
  Proof.
    unfold ph_choice. destruct (qmin_list _) as [q|]; [|discriminate].
    destruct (find _ _) as [ch|] eqn:Fd; [|discriminate]. intros E. injection E as <-.
    apply find_some in Fd as [Hc _]. apply filter_In in Hc as [Hc Act]. exists ch. auto.
  Qed.
  Lemma y_ph_sel a ri r n : In a (insts i) -> In (ri, (r, n)) (enumerate 0 (modes i)) -> y (kPH a ri) <= y (kA a).
  Proof.
    intros Ha Hr. rewrite (y_PH a ri r n Ha Hr), (yA a Ha). apply b2q_le. intros P. apply andb_true_iff in P as [_ P].
    destruct (ph_choice i asg r) as [a'|] eqn:Pc; [|discriminate]. destruct (ph_choice_in r a' Pc) as (ch & Hc & -> & _).
    assert (a = ch_a ch) by (apply (ainst_eqb_eq i _ _ NDcs Ha (IN ch Hc) P)). subst a.
    unfold sel_on. rewrite (find_ch_in ch Hc). reflexivity.
  Qed.
  Lemma row_phase rr : In rr (rows_phase i) -> sat_row y rr.
  Proof.
    unfold rows_phase. intros H. apply in_flat_map in H as ([ri [r n]] & Hr & H). cbn [fst snd] in H. apply in_app_or in H as [H|H].
    - apply in_flat_map in H as (a & Ha & H). destruct (ph_active i a r) eqn:Act; [|contradiction]. destruct H as [<-|H].
      + unfold sat_row. cbn [mkrow r_rel r_lin r_rhs eval_lin]. pose proof (y_ph_sel a ri r n Ha Hr). lra.
      + assert (BPH : is_bin (y (kPH a ri))) by (unfold y; rewrite (Y_PH i asg W a ri Ha); apply yph_bin).
        apply in_app_or in H as [H|H]; apply in_flat_map in H as ([j v] & Hj & H); cbn [fst snd] in H.
        * assert (Hv : In v (ph_pos i a r ++ ph_neg i a r)) by (apply in_or_app; left; apply (enumerate_in_snd 0%Z) in Hj; exact Hj).
          assert (P : Forall (sat_row y) (prod_rows (kP2 a ri j) [kPH a ri; v])).
          { apply prod2_exact.
            - unfold y. rewrite (Y_P2 i asg W a ri r n j v Ha Hr Hj). apply bin_mul; [apply yph_bin|apply (ph_keys_bin a r v Ha Hv)].
            - exact BPH.
            - rewrite (y_sel_keys a r v Ha Hv). apply (ph_keys_bin a r v Ha Hv).
            - unfold y. rewrite (Y_P2 i asg W a ri r n j v Ha Hr Hj), (Y_PH i asg W a ri Ha). fold y. rewrite (y_sel_keys a r v Ha Hv). reflexivity. }
          rewrite Forall_forall in P. apply P. exact H.
        * assert (Hv : In v (ph_pos i a r ++ ph_neg i a r)) by (apply in_or_app; right; apply (enumerate_in_snd 0%Z) in Hj; exact Hj).
          assert (P : Forall (sat_row y) (prod_rows (kP3 a ri j) [kPH a ri; v])).
          { apply prod2_exact.
            - unfold y. rewrite (Y_P3 i asg W a ri r n j v Ha Hr Hj). apply bin_mul; [apply yph_bin|apply (ph_keys_bin a r v Ha Hv)].
            - exact BPH.
            - rewrite (y_sel_keys a r v Ha Hv). apply (ph_keys_bin a r v Ha Hv).
            - unfold y. rewrite (Y_P3 i asg W a ri r n j v Ha Hr Hj), (Y_PH i asg W a ri Ha). fold y. rewrite (y_sel_keys a r v Ha Hv). reflexivity. }
          rewrite Forall_forall in P. apply P. exact H.
    - assert (NE : existsb (fun a => ph_active i a r) (insts i) = true).
      { destruct (filter (fun a => ph_active i a r) (insts i)) as [|a1 t] eqn:Fl; [contradiction|].
        assert (In a1 (filter (fun a => ph_active i a r) (insts i))) by (rewrite Fl; left; reflexivity).
        apply filter_In in H0 as [H1 A1]. apply existsb_exists. exists a1. auto. }
      destruct (phase_mode_some ri r n Hr) as (q0 & E0). unfold phase_mode in E0. cbn [fst snd] in E0. rewrite NE in E0.
      destruct (qmin_list _) as [q|] eqn:Eq; [|discriminate].
      destruct (ph_choice_spec r q Eq) as (ch & Hc & Act & _ & Pc).
      assert (Ha' : In (ch_a ch) (insts i)) by (apply IN; exact Hc).
      assert (ONE : qsum (map y (map (fun a => kPH a ri) (filter (fun a => ph_active i a r) (insts i)))) == 1).
      { rewrite qsum_map_map, qsum_filter_ite.
        rewrite (qsum_map_ext _ (fun a => if ainst_eqb (ch_a ch) a then 1 else 0)).
        - rewrite (qsum_pick ainst_eqb (insts i) (ch_a ch) 1 (fun _ => 0) NDi Ha').
          + rewrite qsum_const. lra.
          + intros a Ha E. symmetry. apply (ainst_eqb_eq i _ _ NDcs Ha' Ha E).
          + apply ainst_eqb_refl.
          + reflexivity.
        - intros a Ha. destruct (ph_active i a r) eqn:Aa.
          + rewrite (y_PH a ri r n Ha Hr), Aa, Pc, (ainst_eqb_sym a (ch_a ch)). cbn [andb]. destruct (ainst_eqb (ch_a ch) a); reflexivity.
          + destruct (ainst_eqb (ch_a ch) a) eqn:E; [|reflexivity]. exfalso.
            assert (a = ch_a ch) by (symmetry; apply (ainst_eqb_eq i _ _ NDcs Ha' Ha E)). subst a. congruence. }
      destruct (filter (fun a => ph_active i a r) (insts i)) as [|a1 t]; [contradiction|].
      destruct H as [<-|[<-|[]]]; unfold sat_row; cbn [mkrow r_rel r_lin r_rhs]; rewrite eval_sumv, ONE; lra.
  Qed.

  (* ---- the point is feasible, and its objective is the score of the assignment ---- *)
  Theorem spec_point_feasible : feasible (gen c i) y.
  Proof.
    split; cbn [gen lp_vars lp_rows]; apply Forall_forall.
    - intros kv H. apply Y_kinds. exact H.
    - intros r H. unfold gen_rows in H. rewrite !in_app_iff in H.
      destruct H as [H|[H|[H|[H|[H|[H|[H|[H|[H|[H|[H|[H|[H|[H|[H|H]]]]]]]]]]]]]]].
      + apply row_cord; exact H.
      + apply row_ccnt; exact H.
      + apply row_other; exact H.
      + apply row_prod; exact H.
      + apply row_cone; exact H.
      + apply row_ccov; exact H.
      + apply row_cvk; exact H.
      + apply row_cvn; exact H.
      + apply row_cfunc; exact H.
      + apply row_czero; exact H.
      + apply row_csingle; exact H.
      + apply row_cmut; exact H.
      + apply row_cref; exact H.
      + apply row_phase; exact H.
      + apply row_abssum; exact H.
      + apply row_vnewor; exact H.
  Qed.
  Theorem spec_point_objective : exists q, score c i true asg = Some q /\ objective (gen c i) y == q.
  Proof.
    destruct score_spec as (q & E & L). exists q. split; [exact E|]. rewrite <- L.
    apply (minor_objective_tight c i y spec_point_feasible). intros k Hk. unfold y. rewrite (Y_abs i asg k (err_keys_plain i k Hk)). reflexivity.
  Qed.
End Spec.

(* every admissible assignment over the instance's own allele copies is realised by a feasible point of the ILP whose
   objective is the assignment's score *)
Theorem minor_spec_point c i asg : inst_wf i = true -> (forall ch, In ch asg -> In (ch_a ch) (insts i)) -> admissible i asg = true ->
  exists y q, feasible (gen c i) y /\ score c i true asg = Some q /\ objective (gen c i) y == q.
Proof.
  intros W IN ADM. destruct (spec_point_objective c i asg W IN ADM) as (q & E & L).
  exists (Y i asg), q. split; [apply (spec_point_feasible c i asg W IN ADM)|]. split; assumption.
Qed.

(* ------------------------------------------------------------------------------------------ *)
(* the minor stage reports an optimal admissible assignment with its score                      *)
(* ------------------------------------------------------------------------------------------ *)
Definition over_copies (i : inst) (b : assignment) : Prop := forall ch, In ch b -> In (ch_a ch) (insts i).
Lemma point_asg_over i x : over_copies i (point_asg i x).
Proof. intros ch H. apply in_point_asg in H as (a & Ha & _ & ->). exact Ha. Qed.

Theorem minor_optimal c i x : inst_wf i = true -> 0 <= i_phase i -> feasible (gen c i) x ->
  (forall y, feasible (gen c i) y -> objective (gen c i) x <= objective (gen c i) y) ->
  admissible i (point_asg i x) = true /\
  (exists q, score c i true (point_asg i x) = Some q /\ q == objective (gen c i) x) /\
  (forall b q, over_copies i b -> admissible i b = true -> score c i true b = Some q -> objective (gen c i) x <= q).
Proof.
  intros W Hp F Opt. destruct (minor_point_spec c i x F W Hp) as (Adm & q0 & E0 & _ & L0). split; [exact Adm|]. split.
  - exists q0. split; [exact E0|].
    destruct (minor_spec_point c i (point_asg i x) W (point_asg_over i x) Adm) as (y & q1 & Fy & E1 & Oy).
    rewrite E0 in E1. injection E1 as <-. pose proof (Opt y Fy). lra.
  - intros b q Ob Ab Eb. destruct (minor_spec_point c i b W Ob Ab) as (y & q1 & Fy & E1 & Oy).
    rewrite Eb in E1. injection E1 as <-. pose proof (Opt y Fy). lra.
Qed.

(* the hypotheses are satisfiable: the phased TOY witness *)
Lemma minor_optimal_example : inst_wf witness_p = true /\ 0 <= i_phase witness_p /\
  over_copies witness_p (solver_asg witness_p witness_p_solver) /\ admissible witness_p (solver_asg witness_p witness_p_solver) = true.
Proof.
  split; [vm_compute; reflexivity|]. split; [vm_compute; discriminate|]. split; [|vm_compute; reflexivity].
  intros ch H. vm_compute in H. destruct H as [<-|[<-|[]]]; vm_compute; tauto.
Qed.
