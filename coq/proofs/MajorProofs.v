(* MajorProofs.v — theorems about the major-stage ILP (MajorModel.gen) and its combinatorial specification (MajorSpec).
   Every fact about a feasible point is obtained from membership of a row in [rows ...] of the one generator. *)
From Aldy Require Import Base Consts Lp Filter MajorModel MajorSpec FilterProofs.
From Coq Require Import Lqa.
Open Scope Z_scope.

(* ---------- sums ---------- *)
Lemma qsum_app l1 l2 : (qsum (l1 ++ l2) == qsum l1 + qsum l2)%Q.
Proof. induction l1 as [|x l1 IH]; cbn [app qsum]; [lra | rewrite IH; lra]. Qed.
Lemma qsum_nonneg l : Forall (fun x => 0 <= x)%Q l -> (0 <= qsum l)%Q.
Proof. induction 1 as [|x l Hx _ IH]; cbn [qsum]; lra. Qed.
Lemma qsum_ge_elem l x : Forall (fun x => 0 <= x)%Q l -> In x l -> (x <= qsum l)%Q.
Proof.
  induction 1 as [|y l Hy Hl IH]; cbn [qsum]; intros Hin; [destruct Hin|].
  pose proof (qsum_nonneg l Hl). destruct Hin as [-> | Hin]; [lra | specialize (IH Hin); lra].
Qed.
Lemma qsum_zero l : Forall (fun x => x == 0)%Q l -> (qsum l == 0)%Q.
Proof. induction 1 as [|x l Hx _ IH]; cbn [qsum]; lra. Qed.
Lemma qsum_map_ext {A} (f g : A -> Q) l : (forall x, In x l -> (f x == g x)%Q) -> (qsum (map f l) == qsum (map g l))%Q.
Proof.
  induction l as [|x l IH]; cbn [map qsum]; intros H; [lra|].
  rewrite (H x (or_introl eq_refl)), IH; [lra|]. intros y Hy. apply H. right. exact Hy.
Qed.
Lemma qsum_flat_map {A B} (f : A -> list B) (g : B -> Q) l :
  (qsum (map g (flat_map f l)) == qsum (map (fun x => qsum (map g (f x))) l))%Q.
Proof. induction l as [|x l IH]; cbn [flat_map map qsum]; [lra|]. rewrite map_app, qsum_app, IH. lra. Qed.
Lemma qsum_two {A} (f : A -> Q) l x y :
  NoDup l -> In x l -> In y l -> x <> y -> (forall z, In z l -> (0 <= f z)%Q) -> (f x + f y <= qsum (map f l))%Q.
Proof.
  induction l as [|z l IH]; intros Hn Hx Hy Hxy Hpos; [destruct Hx|].
  inversion Hn as [|? ? Hz Hn']; subst. cbn [map qsum].
  assert (Hl : Forall (fun x => 0 <= x)%Q (map f l)).
  { apply Forall_forall. intros q Hq. apply in_map_iff in Hq as (w & <- & Hw). apply Hpos. right. exact Hw. }
  destruct Hx as [-> | Hx], Hy as [-> | Hy].
  - contradiction.
  - pose proof (qsum_ge_elem _ _ Hl (in_map f _ _ Hy)). lra.
  - pose proof (qsum_ge_elem _ _ Hl (in_map f _ _ Hx)). lra.
  - assert (0 <= f z)%Q by (apply Hpos; left; reflexivity).
    assert (f x + f y <= qsum (map f l))%Q by (apply IH; auto; intros w Hw; apply Hpos; right; exact Hw). lra.
Qed.

Lemma qsum_map_le {A} (f g : A -> Q) l : (forall x, In x l -> (f x <= g x)%Q) -> (qsum (map f l) <= qsum (map g l))%Q.
Proof.
  induction l as [|x l IH]; cbn [map qsum]; intros H; [lra|].
  pose proof (H x (or_introl eq_refl)). assert (qsum (map f l) <= qsum (map g l))%Q by (apply IH; intros y Hy; apply H; right; exact Hy). lra.
Qed.
Lemma Qabs'_compat x y : (x == y)%Q -> (Qabs' x == Qabs' y)%Q.
Proof.
  intros E. unfold Qabs'. destruct (Qle_bool 0 x) eqn:Ex, (Qle_bool 0 y) eqn:Ey; try lra.
  - apply Qle_bool_iff in Ex. assert (~ (0 <= y)%Q) by (intros H; apply Qle_bool_iff in H; rewrite H in Ey; discriminate). lra.
  - apply Qle_bool_iff in Ey. assert (~ (0 <= x)%Q) by (intros H; apply Qle_bool_iff in H; rewrite H in Ex; discriminate). lra.
Qed.
Lemma Qabs'_nonneg x : (0 <= Qabs' x)%Q.
Proof.
  unfold Qabs'. destruct (Qle_bool 0 x) eqn:Ex; [apply Qle_bool_iff in Ex; exact Ex|].
  assert (~ (0 <= x)%Q) by (intros H; apply Qle_bool_iff in H; rewrite H in Ex; discriminate). lra.
Qed.
Lemma Qabs'_zero x : (x == 0)%Q -> (Qabs' x == 0)%Q.
Proof. intros E. rewrite (Qabs'_compat x 0 E). reflexivity. Qed.

(* ---------- linear expressions ---------- *)
Lemma eval_app a l1 l2 : (eval_lin a (l1 ++ l2) == eval_lin a l1 + eval_lin a l2)%Q.
Proof. induction l1 as [|[c v] l1 IH]; cbn [app eval_lin]; [lra | rewrite IH; lra]. Qed.
Lemma eval_sumlin a ks : (eval_lin a (sumlin ks) == qsum (map a ks))%Q.
Proof. unfold sumlin. induction ks as [|k ks IH]; cbn [map eval_lin qsum]; [lra | rewrite IH; lra]. Qed.
Lemma eval_neglin a ks : (eval_lin a (neglin ks) == - qsum (map a ks))%Q.
Proof. unfold neglin. induction ks as [|k ks IH]; cbn [map eval_lin qsum]; [lra | rewrite IH; lra]. Qed.
Lemma eval_scaled {A} a (c : Q) (k : A -> vkey) l :
  (eval_lin a (map (fun x => (c, k x)) l) == c * qsum (map (fun x => a (k x)) l))%Q.
Proof. induction l as [|x l IH]; cbn [map eval_lin qsum]; [lra | rewrite IH; lra]. Qed.

(* ---------- binaries ---------- *)
Lemma bin_cases q : is_bin q -> (q == 0 \/ q == 1)%Q. Proof. exact (fun H => H). Qed.
Lemma bin_bounds q : is_bin q -> (0 <= q <= 1)%Q. Proof. intros [H | H]; lra. Qed.
Lemma bin_sum_pos {A} (f : A -> Q) l :
  (forall x, In x l -> is_bin (f x)) -> (1 <= qsum (map f l))%Q -> exists x, In x l /\ (f x == 1)%Q.
Proof.
  induction l as [|x l IH]; cbn [map qsum]; intros Hb Hs; [lra|].
  destruct (Hb x (or_introl eq_refl)) as [H0 | H1].
  - destruct IH as (y & Hy & E); [intros y Hy; apply Hb; right; exact Hy | lra |].
    exists y. split; [right; exact Hy | exact E].
  - exists x. split; [left; reflexivity | exact H1].
Qed.

(* ---------- dedup ---------- *)
Lemma dedup_In_Z x l : In x (dedup Z.eqb l) <-> In x l.
Proof.
  induction l as [|y l IH]; cbn [dedup]; [reflexivity|]. split.
  - intros [-> | H]; [left; reflexivity|]. apply filter_In in H as [H _]. right. apply IH. exact H.
  - intros [-> | H]; [left; reflexivity|]. destruct (Z.eq_dec y x) as [-> | Hne]; [left; reflexivity|].
    right. apply filter_In. split; [apply IH; exact H|]. apply negb_true_iff. apply Z.eqb_neq. exact Hne.
Qed.
Lemma dedup_NoDup_Z l : NoDup (dedup Z.eqb l).
Proof.
  induction l as [|y l IH]; cbn [dedup]; constructor.
  - intros H. apply filter_In in H as [_ H]. rewrite Z.eqb_refl in H. discriminate.
  - apply NoDup_filter. exact IH.
Qed.

(* ---------- selectors: regrouping a sum over selected copies by allele ---------- *)
Section Sel.
  Variables (cands : list allele) (struct : list (str * Z)).
  Notation sels := (sels cands struct).
  Notation ncopies := (ncopies struct).

  Notation copy_sum := (copy_sum struct).

  Lemma sel_filter_sum (p : allele -> bool) (g : allele * Z -> Q) :
    (qsum (map g (filter (fun sl : allele * Z => p (fst sl)) sels)) ==
     qsum (map (fun al => if p al then copy_sum g al else 0) cands))%Q.
  Proof.
    unfold MajorModel.sels, MajorSpec.copy_sum. induction cands as [|al cs IH]; cbn [flat_map filter map qsum]; [lra|].
    rewrite filter_app, map_app, qsum_app, IH.
    assert (E : filter (fun sl : allele * Z => p (fst sl)) (map (fun j => (al, Z.of_nat j)) (seq 0 (ncopies al))) =
                if p al then map (fun j => (al, Z.of_nat j)) (seq 0 (ncopies al)) else []).
    { generalize (seq 0 (ncopies al)). intros l. induction l as [|j l IHl]; cbn [map filter fst]; [destruct (p al); reflexivity|].
      rewrite IHl. destruct (p al); reflexivity. }
    rewrite E. destruct (p al); cbn [map qsum]; [rewrite map_map; lra | lra].
  Qed.

  Lemma in_sels al j : In al cands -> (j < ncopies al)%nat -> In (al, Z.of_nat j) sels.
  Proof.
    intros Ha Hj. unfold MajorModel.sels. apply in_flat_map. exists al. split; [exact Ha|].
    apply in_map_iff. exists j. split; [reflexivity|]. apply in_seq. lia.
  Qed.
  Lemma sels_inv sl : In sl sels -> In (fst sl) cands /\ exists j, snd sl = Z.of_nat j /\ (j < ncopies (fst sl))%nat.
  Proof.
    unfold MajorModel.sels. intros H. apply in_flat_map in H as (al & Ha & H). apply in_map_iff in H as (j & <- & Hj).
    apply in_seq in Hj. cbn [fst snd]. split; [exact Ha|]. exists j. split; [reflexivity | lia].
  Qed.
End Sel.

(* ==================================================================================================
   Facts about any feasible point of the generated model
   ================================================================================================== *)
Section Feasible.
  Variables (cands : list allele) (struct : list (str * Z)) (fm : list mut) (obsf : mut -> Q)
            (hcov : str -> Z -> bool) (pen unit : Q).
  Notation G := (gen_core cands struct fm obsf hcov pen unit).
  Notation sels := (sels cands struct).
  Notation carr_sel := (carr_sel cands struct).
  Notation ref_sel := (ref_sel cands struct hcov).
  Notation cfg_sel := (cfg_sel cands struct).
  Notation sites := (sites fm).
  Notation site_novel := (site_novel fm).
  Notation rows := (rows cands struct fm obsf hcov).
  Notation vars := (vars cands struct fm).

  Variable a : asg.
  Hypothesis feas : feasible G a.

  Lemma row_sat r : In r rows -> sat_row a r.
  Proof. destruct feas as [_ H]. cbn [lp_rows gen_core] in H. rewrite Forall_forall in H. apply H. Qed.
  Lemma var_kind k kd : In (k, kd) vars -> in_kind kd (a k).
  Proof. destruct feas as [H _]. cbn [lp_vars gen_core] in H. rewrite Forall_forall in H. intros Hin. apply (H _ Hin). Qed.

  (* membership of each family in the generator's row list *)
  Lemma in_cord r : In r (rows_cord cands struct) -> In r rows.
  Proof. intros H. unfold MajorModel.rows. apply in_or_app. left. exact H. Qed.
  Lemma in_cone r : In r (rows_cone fm) -> In r rows.
  Proof. intros H. unfold MajorModel.rows. apply in_or_app. right. apply in_or_app. left. exact H. Qed.
  Lemma in_cfunc r : In r (rows_cfunc cands struct fm obsf hcov) -> In r rows.
  Proof. intros H. unfold MajorModel.rows. do 2 (apply in_or_app; right). apply in_or_app. left. exact H. Qed.
  Lemma in_csat r : In r (rows_csat cands struct) -> In r rows.
  Proof. intros H. unfold MajorModel.rows. do 3 (apply in_or_app; right). apply in_or_app. left. exact H. Qed.
  Lemma in_corxor r m : In m fm -> In r (rows_cor cands struct m ++ rows_cxor m) -> In r rows.
  Proof.
    intros Hm H. unfold MajorModel.rows. do 4 (apply in_or_app; right). apply in_or_app. left.
    apply in_flat_map. exists m. split; assumption.
  Qed.
  Lemma in_abs r : In r (abssum_rows (errs fm)) -> In r rows.
  Proof. intros H. unfold MajorModel.rows. do 5 (apply in_or_app; right). apply in_or_app. left. exact H. Qed.
  Lemma in_novel r : In r (rows_novel fm) -> In r rows.
  Proof. intros H. unfold MajorModel.rows. do 6 (apply in_or_app; right). exact H. Qed.

  (* binaries *)
  Lemma bin_A sl : In sl sels -> is_bin (a (vA sl)).
  Proof.
    intros H. apply (var_kind _ KBin). unfold MajorModel.vars. apply in_or_app. left.
    apply in_map_iff. exists sl. split; [reflexivity | exact H].
  Qed.
  Lemma bin_N m : In m fm -> is_bin (a (kN m)).
  Proof.
    intros H. apply (var_kind _ KBin). unfold MajorModel.vars. do 2 (apply in_or_app; right). apply in_or_app. left.
    apply in_map_iff. exists m. split; [reflexivity | exact H].
  Qed.
  Lemma bin_OR m : In m fm -> is_bin (a (kOR m)).
  Proof.
    intros H. apply (var_kind _ KBin). unfold MajorModel.vars. do 4 (apply in_or_app; right). apply in_or_app. left.
    apply in_flat_map. exists m. split; [exact H | left; reflexivity].
  Qed.
  Lemma bin_XOR m : In m fm -> is_bin (a (kXOR m)).
  Proof.
    intros H. apply (var_kind _ KBin). unfold MajorModel.vars. do 4 (apply in_or_app; right). apply in_or_app. left.
    apply in_flat_map. exists m. split; [exact H | right; left; reflexivity].
  Qed.
  Lemma bin_NOVEL : is_bin (a kNOVEL).
  Proof.
    apply (var_kind _ KBin). unfold MajorModel.vars. do 6 (apply in_or_app; right). left. reflexivity.
  Qed.
  Lemma abs_nonneg e : In e (errs fm) -> (0 <= a (abs_key e))%Q.
  Proof.
    intros H. assert (K : in_kind (KCont (Some 0%Q) None) (a (abs_key e))).
    { apply var_kind. unfold MajorModel.vars. do 5 (apply in_or_app; right). apply in_or_app. left.
      unfold abssum_vars. apply in_map_iff. exists e. split; [reflexivity | exact H]. }
    cbn [in_kind] in K. apply K.
  Qed.

  (* ---- C02 clause 1: every configuration gets exactly its number of selected copies ---- *)
  Theorem copies_per_config cfg cnt :
    In (cfg, cnt) struct -> (qsum (map (fun sl => a (vA sl)) (cfg_sel cfg)) == inZ cnt)%Q.
  Proof.
    intros H.
    assert (R1 : In (mk (sumlin (map vA (cfg_sel cfg))) RLe (inZ cnt)) rows).
    { apply in_csat. unfold rows_csat. apply in_flat_map. exists (cfg, cnt). split; [exact H | left; reflexivity]. }
    assert (R2 : In (mk (sumlin (map vA (cfg_sel cfg))) RGe (inZ cnt)) rows).
    { apply in_csat. unfold rows_csat. apply in_flat_map. exists (cfg, cnt). split; [exact H | right; left; reflexivity]. }
    apply row_sat in R1. apply row_sat in R2. unfold sat_row, mk in R1, R2. cbn [r_rel r_lin r_rhs] in R1, R2.
    rewrite eval_sumlin, map_map in R1, R2. lra.
  Qed.
  (* the same, counted per allele: sum over the alleles of the configuration of their number of selected copies *)
  Theorem copies_per_config_alleles cfg cnt :
    In (cfg, cnt) struct ->
    (qsum (map (fun al => if str_eqb (a_cfg al) cfg then copy_sum struct (fun sl => a (vA sl)) al else 0) cands) == inZ cnt)%Q.
  Proof.
    intros H. rewrite <- (copies_per_config cfg cnt H). unfold MajorModel.cfg_sel.
    symmetry. apply (sel_filter_sum cands struct (fun al => str_eqb (a_cfg al) cfg)).
  Qed.

  (* ---- C02 clause 2: carried xor novel ---- *)
  Lemma xor_fact m : In m fm -> (a (kN m) + a (kOR m) == 1)%Q.
  Proof.
    intros Hm.
    assert (R1 : In (mk [(1%Q, kXOR m); ((-1)%Q, kN m); ((-1)%Q, kOR m)] RLe 0%Q) rows)
      by (apply (in_corxor _ m Hm); apply in_or_app; right; left; reflexivity).
    assert (R2 : In (mk [(1%Q, kXOR m); (1%Q, kN m); (1%Q, kOR m)] RLe 2%Q) rows)
      by (apply (in_corxor _ m Hm); apply in_or_app; right; right; left; reflexivity).
    assert (R5 : In (mk [(1%Q, kXOR m)] RGe 1%Q) rows)
      by (apply (in_corxor _ m Hm); apply in_or_app; right; do 4 right; left; reflexivity).
    apply row_sat in R1. apply row_sat in R2. apply row_sat in R5.
    unfold sat_row, mk in *. cbn [r_rel r_lin r_rhs eval_lin] in *. lra.
  Qed.
  Lemma or_upper m : In m fm -> (a (kOR m) <= qsum (map (fun sl => a (vA sl)) (carr_sel m)))%Q.
  Proof.
    intros Hm.
    assert (R : In (mk ((1%Q, kOR m) :: neglin (map vA (carr_sel m))) RLe 0%Q) rows)
      by (apply (in_corxor _ m Hm); apply in_or_app; left; left; reflexivity).
    apply row_sat in R. unfold sat_row, mk in R. cbn [r_rel r_lin r_rhs eval_lin] in R.
    rewrite eval_neglin, map_map in R. lra.
  Qed.
  Lemma or_lower m sl : In m fm -> In sl (carr_sel m) -> (a (vA sl) <= a (kOR m))%Q.
  Proof.
    intros Hm Hs.
    assert (R : In (mk [(1%Q, kOR m); ((-1)%Q, vA sl)] RGe 0%Q) rows).
    { apply (in_corxor _ m Hm). apply in_or_app. left. right. apply in_map_iff. exists sl. split; [reflexivity | exact Hs]. }
    apply row_sat in R. unfold sat_row, mk in R. cbn [r_rel r_lin r_rhs eval_lin] in R. lra.
  Qed.
  Lemma carr_sel_sels m sl : In sl (carr_sel m) -> In sl sels.
  Proof. unfold MajorModel.carr_sel. intros H. apply filter_In in H. apply H. Qed.

  (* novel(m) = 1 exactly when no selected copy carries m *)
  Theorem novel_iff_uncarried m :
    In m fm -> ((a (kN m) == 1)%Q <-> forall sl, In sl (carr_sel m) -> (a (vA sl) == 0)%Q).
  Proof.
    intros Hm. pose proof (xor_fact m Hm) as X. split.
    - intros HN sl Hs. pose proof (or_lower m sl Hm Hs) as L.
      destruct (bin_A sl (carr_sel_sels m sl Hs)) as [H0 | H1]; [exact H0 | lra].
    - intros Hall. pose proof (or_upper m Hm) as U.
      assert (Z0 : (qsum (map (fun sl => a (vA sl)) (carr_sel m)) == 0)%Q).
      { apply qsum_zero. apply Forall_forall. intros q Hq. apply in_map_iff in Hq as (sl & <- & Hs). apply Hall. exact Hs. }
      destruct (bin_OR m Hm) as [H0 | H1]; lra.
  Qed.
  (* novel(m) = 0 exactly when some selected copy carries m: never both, never neither *)
  Theorem carried_iff_not_novel m :
    In m fm -> ((a (kN m) == 0)%Q <-> exists sl, In sl (carr_sel m) /\ (a (vA sl) == 1)%Q).
  Proof.
    intros Hm. pose proof (xor_fact m Hm) as X. split.
    - intros HN. pose proof (or_upper m Hm) as U.
      apply (bin_sum_pos (fun sl => a (vA sl))); [intros sl Hs; apply bin_A; apply (carr_sel_sels m); exact Hs | lra].
    - intros (sl & Hs & E). pose proof (or_lower m sl Hm Hs) as L.
      destruct (bin_OR m Hm) as [H0 | H1]; lra.
  Qed.
  Theorem novel_xor_carried m : In m fm ->
    ((a (kN m) == 1)%Q /\ (forall sl, In sl (carr_sel m) -> (a (vA sl) == 0)%Q)) \/
    ((a (kN m) == 0)%Q /\ exists sl, In sl (carr_sel m) /\ (a (vA sl) == 1)%Q).
  Proof.
    intros Hm. destruct (bin_N m Hm) as [H0 | H1].
    - right. split; [exact H0|]. apply (carried_iff_not_novel m Hm). exact H0.
    - left. split; [exact H1|]. apply (novel_iff_uncarried m Hm). exact H1.
  Qed.

  (* ---- C02 clause 2b: at most one novel non-insertion per site ---- *)
  Theorem one_novel_per_site m1 m2 :
    NoDup fm -> In m1 fm -> In m2 fm -> fst m1 = fst m2 -> is_ins (snd m1) = false -> is_ins (snd m2) = false ->
    (a (kN m1) == 1)%Q -> (a (kN m2) == 1)%Q -> m1 = m2.
  Proof.
    intros Hn H1 H2 Hp I1 I2 N1 N2.
    destruct (mut_eqb m1 m2) eqn:E; [apply mut_eqb_eq; exact E|]. exfalso.
    assert (Hne : m1 <> m2) by (intros ->; rewrite mut_eqb_refl in E; discriminate).
    set (pos := fst m1).
    assert (Hs : In pos sites) by (unfold MajorModel.sites; apply dedup_In_Z; apply in_map; exact H1).
    assert (R : In (mk (sumlin (map kN (site_novel pos))) RLe 1%Q) rows).
    { apply in_cone. unfold rows_cone. apply in_map_iff. exists pos. split; [reflexivity | exact Hs]. }
    apply row_sat in R. unfold sat_row, mk in R. cbn [r_rel r_lin r_rhs] in R. rewrite eval_sumlin, map_map in R.
    assert (S1 : In m1 (site_novel pos)).
    { unfold MajorModel.site_novel. apply filter_In. split; [exact H1|]. unfold pos. rewrite Z.eqb_refl, I1. reflexivity. }
    assert (S2 : In m2 (site_novel pos)).
    { unfold MajorModel.site_novel. apply filter_In. split; [exact H2|]. unfold pos. rewrite Hp, Z.eqb_refl, I2. reflexivity. }
    assert (Hnd : NoDup (site_novel pos)) by (unfold MajorModel.site_novel; apply NoDup_filter; exact Hn).
    pose proof (qsum_two (fun m => a (kN m)) (site_novel pos) m1 m2 Hnd S1 S2 Hne) as T.
    assert (Hpos : forall z, In z (site_novel pos) -> (0 <= a (kN z))%Q).
    { intros z Hz. unfold MajorModel.site_novel in Hz. apply filter_In in Hz as [Hz _]. apply bin_bounds. apply bin_N. exact Hz. }
    specialize (T Hpos). cbv beta in T. lra.
  Qed.

  (* ---- the error variables are determined by the binaries; the helpers bound their absolute values ---- *)
  Lemma err_func m : In m fm ->
    (a (kE m) == obsf m - qsum (map (fun sl => a (vA sl)) (carr_sel m)) - a (kN m))%Q.
  Proof.
    intros Hm.
    assert (R1 : In (mk (func_lin cands struct m) RLe (obsf m)) rows).
    { apply in_cfunc. unfold rows_cfunc. apply in_or_app. left. apply in_flat_map. exists m. split; [exact Hm | left; reflexivity]. }
    assert (R2 : In (mk (func_lin cands struct m) RGe (obsf m)) rows).
    { apply in_cfunc. unfold rows_cfunc. apply in_or_app. left. apply in_flat_map. exists m. split; [exact Hm | right; left; reflexivity]. }
    apply row_sat in R1. apply row_sat in R2. unfold sat_row, mk, func_lin in R1, R2. cbn [r_rel r_lin r_rhs] in R1, R2.
    rewrite eval_app, eval_sumlin, map_map in R1, R2. cbn [eval_lin] in R1, R2. lra.
  Qed.
  Lemma err_ref pos : In pos sites ->
    (a (kE (ref_mut pos)) == obsf (ref_mut pos) - qsum (map (fun sl => a (vA sl)) (ref_sel pos)))%Q.
  Proof.
    intros Hp.
    assert (R1 : In (mk (ref_lin cands struct hcov pos) RLe (obsf (ref_mut pos))) rows).
    { apply in_cfunc. unfold rows_cfunc. apply in_or_app. right. apply in_flat_map. exists pos. split; [exact Hp | left; reflexivity]. }
    assert (R2 : In (mk (ref_lin cands struct hcov pos) RGe (obsf (ref_mut pos))) rows).
    { apply in_cfunc. unfold rows_cfunc. apply in_or_app. right. apply in_flat_map. exists pos. split; [exact Hp | right; left; reflexivity]. }
    apply row_sat in R1. apply row_sat in R2. unfold sat_row, mk, ref_lin in R1, R2. cbn [r_rel r_lin r_rhs] in R1, R2.
    rewrite eval_app, eval_sumlin, map_map in R1, R2. cbn [eval_lin] in R1, R2. lra.
  Qed.
  Lemma abs_ge e : In e (errs fm) -> (Qabs' (a e) <= a (abs_key e))%Q.
  Proof.
    intros He.
    assert (R1 : In {| r_lin := [(1%Q, abs_key e); (1%Q, e)]; r_rel := RGe; r_rhs := 0%Q |} rows).
    { apply in_abs. unfold abssum_rows. apply in_flat_map. exists e. split; [exact He | left; reflexivity]. }
    assert (R2 : In {| r_lin := [(1%Q, abs_key e); ((-1)%Q, e)]; r_rel := RGe; r_rhs := 0%Q |} rows).
    { apply in_abs. unfold abssum_rows. apply in_flat_map. exists e. split; [exact He | right; left; reflexivity]. }
    apply row_sat in R1. apply row_sat in R2. unfold sat_row in R1, R2. cbn [r_rel r_lin r_rhs eval_lin] in R1, R2.
    unfold Qabs'. destruct (Qle_bool 0 (a e)); lra.
  Qed.

  (* the NOVEL flag is 1 exactly when some variant is novel *)
  Lemma novel_flag : (a kNOVEL == if any_novel fm (fun m => a (kN m)) then 1 else 0)%Q.
  Proof.
    unfold any_novel. destruct (existsb (fun m => Qeqb (a (kN m)) 1) fm) eqn:E.
    - apply existsb_exists in E as (m & Hm & E). apply Qeq_bool_iff in E.
      assert (R : In (mk [(1%Q, kNOVEL); ((-1)%Q, kN m)] RGe 0%Q) rows).
      { apply in_novel. unfold rows_novel. apply in_or_app. left. apply in_map_iff. exists m. split; [reflexivity | exact Hm]. }
      apply row_sat in R. unfold sat_row, mk in R. cbn [r_rel r_lin r_rhs eval_lin] in R.
      destruct bin_NOVEL as [H0 | H1]; lra.
    - assert (R : In (mk ((1%Q, kNOVEL) :: neglin (map kN fm)) RLe 0%Q) rows).
      { apply in_novel. unfold rows_novel. apply in_or_app. right. left. reflexivity. }
      apply row_sat in R. unfold sat_row, mk in R. cbn [r_rel r_lin r_rhs eval_lin] in R. rewrite eval_neglin, map_map in R.
      assert (Z0 : (qsum (map (fun m => a (kN m)) fm) == 0)%Q).
      { apply qsum_zero. apply Forall_forall. intros q Hq. apply in_map_iff in Hq as (m & <- & Hm).
        destruct (bin_N m Hm) as [H0 | H1]; [exact H0|]. exfalso.
        assert (existsb (fun m => Qeqb (a (kN m)) 1) fm = true).
        { apply existsb_exists. exists m. split; [exact Hm|]. apply Qeq_bool_iff. exact H1. }
        rewrite H in E. discriminate. }
      destruct bin_NOVEL as [H0 | H1]; lra.
  Qed.

  (* the combination a feasible point stands for *)
  Notation cnt_of_asg := (cnt_of_asg struct a).
  Notation nov_of_asg := (nov_of_asg a).

  Lemma carriers_asg m : (carriers cands cnt_of_asg m == qsum (map (fun sl => a (vA sl)) (carr_sel m)))%Q.
  Proof. unfold carriers, MajorModel.carr_sel, cnt_of_asg. symmetry. apply (sel_filter_sum cands struct (fun al => has_mut al m)). Qed.
  Lemma refcopies_asg pos : (refcopies cands hcov cnt_of_asg pos == qsum (map (fun sl => a (vA sl)) (ref_sel pos)))%Q.
  Proof. unfold refcopies, MajorModel.ref_sel, cnt_of_asg. symmetry. apply (sel_filter_sum cands struct (fun al => shows_ref hcov al pos)). Qed.

  Lemma objective_expand :
    (objective G a == qsum (map (fun e => a (abs_key e)) (errs fm)) + pen * a kNOVEL + unit * qsum (map (fun m => a (kN m)) fm))%Q.
  Proof.
    unfold objective. cbn [lp_obj lp_const gen_core]. unfold obj, abssum_lin.
    rewrite !eval_app. rewrite (eval_scaled a 1%Q abs_key (errs fm)), (eval_scaled a unit kN fm). cbn [eval_lin]. lra.
  Qed.

  Lemma in_errs_func m : In m fm -> In (kE m) (errs fm).
  Proof. intros H. unfold errs. apply in_or_app. left. apply in_map. exact H. Qed.
  Lemma in_errs_ref pos : In pos sites -> In (kE (ref_mut pos)) (errs fm).
  Proof. intros H. unfold errs. apply in_or_app. right. apply in_map_iff. exists pos. split; [reflexivity | exact H]. Qed.

  Lemma fit_le_abs :
    (fit cands fm obsf hcov cnt_of_asg nov_of_asg <= qsum (map (fun e => a (abs_key e)) (errs fm)))%Q.
  Proof.
    unfold fit, errs. rewrite map_app, qsum_app, !map_map.
    assert (F1 : (qsum (map (fun m => Qabs' (obsf m - carriers cands cnt_of_asg m - nov_of_asg m)) fm) <=
                  qsum (map (fun x => a (abs_key (kE x))) fm))%Q).
    { apply qsum_map_le. intros m Hm.
      rewrite (Qabs'_compat _ (a (kE m))); [apply abs_ge; apply in_errs_func; exact Hm|].
      rewrite carriers_asg, (err_func m Hm). unfold nov_of_asg. lra. }
    assert (F2 : (qsum (map (fun pos => Qabs' (obsf (ref_mut pos) - refcopies cands hcov cnt_of_asg pos)) sites) <=
                  qsum (map (fun x => a (abs_key (kE (ref_mut x)))) sites))%Q).
    { apply qsum_map_le. intros pos Hp.
      rewrite (Qabs'_compat _ (a (kE (ref_mut pos)))); [apply abs_ge; apply in_errs_ref; exact Hp|].
      rewrite refcopies_asg, (err_ref pos Hp). lra. }
    lra.
  Qed.
  Lemma fit_eq_abs : (forall e, In e (errs fm) -> (a (abs_key e) == Qabs' (a e))%Q) ->
    (fit cands fm obsf hcov cnt_of_asg nov_of_asg == qsum (map (fun e => a (abs_key e)) (errs fm)))%Q.
  Proof.
    intros T. unfold fit, errs. rewrite map_app, qsum_app, !map_map.
    assert (F1 : (qsum (map (fun m => Qabs' (obsf m - carriers cands cnt_of_asg m - nov_of_asg m)) fm) ==
                  qsum (map (fun x => a (abs_key (kE x))) fm))%Q).
    { apply qsum_map_ext. intros m Hm. rewrite (T _ (in_errs_func m Hm)). apply Qabs'_compat.
      rewrite carriers_asg, (err_func m Hm). unfold nov_of_asg. lra. }
    assert (F2 : (qsum (map (fun pos => Qabs' (obsf (ref_mut pos) - refcopies cands hcov cnt_of_asg pos)) sites) ==
                  qsum (map (fun x => a (abs_key (kE (ref_mut x)))) sites))%Q).
    { apply qsum_map_ext. intros pos Hp. rewrite (T _ (in_errs_ref pos Hp)). apply Qabs'_compat.
      rewrite refcopies_asg, (err_ref pos Hp). lra. }
    lra.
  Qed.
  Lemma penalty_asg :
    (penalty fm pen unit nov_of_asg == pen * a kNOVEL + unit * qsum (map (fun m => a (kN m)) fm))%Q.
  Proof. unfold penalty. rewrite novel_flag. unfold nov_of_asg. destruct (any_novel fm (fun m => a (kN m))); lra. Qed.

  (* ---- C02 clause 3: the objective of a feasible point is at least the score of its combination, with equality
          exactly when every abssum helper is tight (which every minimiser achieves, see canon_* below) ---- *)
  Theorem objective_ge_score : (score cands fm obsf hcov pen unit cnt_of_asg nov_of_asg <= objective G a)%Q.
  Proof. rewrite objective_expand. unfold score. rewrite penalty_asg. pose proof fit_le_abs. lra. Qed.
  Theorem objective_eq_score : (forall e, In e (errs fm) -> (a (abs_key e) == Qabs' (a e))%Q) ->
    (objective G a == score cands fm obsf hcov pen unit cnt_of_asg nov_of_asg)%Q.
  Proof. intros T. rewrite objective_expand. unfold score. rewrite penalty_asg. pose proof (fit_eq_abs T). lra. Qed.
End Feasible.

(* ==================================================================================================
   From a combination to a feasible point: the canonical assignment
   ================================================================================================== *)
Lemma ind_sum n c : 0 <= c ->
  (qsum (map (fun j => if Z.of_nat j <? c then 1%Q else 0%Q) (seq 0 n)) == inZ (Z.min c (Z.of_nat n)))%Q.
Proof.
  intros Hc. induction n as [|n IH].
  - cbn [seq map qsum]. replace (Z.min c (Z.of_nat 0)) with 0 by lia. reflexivity.
  - rewrite seq_S, map_app, qsum_app, IH. cbn [plus map qsum]. unfold inZ.
    destruct (Z.of_nat n <? c) eqn:E.
    + apply Z.ltb_lt in E. replace (Z.min c (Z.of_nat (S n))) with (Z.min c (Z.of_nat n) + 1) by lia.
      rewrite inject_Z_plus. change (inject_Z 1) with 1%Q. lra.
    + apply Z.ltb_ge in E. replace (Z.min c (Z.of_nat (S n))) with (Z.min c (Z.of_nat n)) by lia. lra.
Qed.
Lemma qsum_if_filter {A} (p : A -> bool) (f : A -> Q) l :
  (qsum (map (fun x => if p x then f x else 0%Q) l) == qsum (map f (filter p l)))%Q.
Proof. induction l as [|x l IH]; cbn [map filter qsum]; [lra|]. destruct (p x); cbn [map qsum]; rewrite IH; lra. Qed.
Lemma inZ_zsum l : (inZ (zsum l) == qsum (map inZ l))%Q.
Proof.
  unfold inZ, zsum. induction l as [|x l IH]; cbn [fold_right map qsum]; [reflexivity|].
  rewrite inject_Z_plus, IH. reflexivity.
Qed.
Lemma qsum_indicator {A} (p : A -> bool) l :
  (qsum (map (fun x => if p x then 1%Q else 0%Q) l) == inZ (Z.of_nat (length (filter p l))))%Q.
Proof.
  unfold inZ. induction l as [|x l IH]; cbn [map filter qsum]; [reflexivity|]. rewrite IH.
  destruct (p x); cbn [length]; [|lra]. rewrite Nat2Z.inj_succ. unfold Z.succ. rewrite inject_Z_plus. change (inject_Z 1) with 1%Q. lra.
Qed.
Lemma zsum_nonneg l : Forall (fun z => 0 <= z) l -> 0 <= zsum l.
Proof. unfold zsum. induction 1 as [|x l Hx _ IH]; cbn [fold_right]; lia. Qed.
Lemma zsum_ge_elem l x : Forall (fun z => 0 <= z) l -> In x l -> x <= zsum l.
Proof.
  unfold zsum. induction 1 as [|y l Hy Hl IH]; cbn [fold_right]; intros Hin; [destruct Hin|].
  pose proof (zsum_nonneg l Hl) as P. unfold zsum in P. destruct Hin as [-> | Hin]; [lia | specialize (IH Hin); lia].
Qed.
Lemma inZ_le x y : x <= y -> (inZ x <= inZ y)%Q.
Proof. intros H. unfold inZ. rewrite <- Zle_Qle. exact H. Qed.
Lemma existsb_false {A} (f : A -> bool) l : existsb f l = false -> forall x, In x l -> f x = false.
Proof.
  intros H x Hx. destruct (f x) eqn:E; [|reflexivity].
  assert (existsb f l = true) by (apply existsb_exists; exists x; split; assumption). rewrite H0 in H. discriminate.
Qed.

Lemma Qeqb_true x y : Qeqb x y = true <-> (x == y)%Q. Proof. unfold Qeqb. apply Qeq_bool_iff. Qed.
Lemma Qeqb_false x y : Qeqb x y = false <-> ~ (x == y)%Q.
Proof. unfold Qeqb. split; [intros E H; apply Qeq_bool_iff in H; rewrite H in E; discriminate|].
  intros H. destruct (Qeq_bool x y) eqn:E; [apply Qeq_bool_iff in E; contradiction | reflexivity]. Qed.
Lemma Qeqb_compat x x' y : (x == x')%Q -> Qeqb x y = Qeqb x' y.
Proof.
  intros E. destruct (Qeqb x' y) eqn:E'.
  - apply Qeqb_true. apply Qeqb_true in E'. lra.
  - apply Qeqb_false. apply Qeqb_false in E'. intros H. apply E'. lra.
Qed.

Lemma existsb_ext_in {A} (f g : A -> bool) l : (forall x, In x l -> f x = g x) -> existsb f l = existsb g l.
Proof.
  induction l as [|x l IH]; intros H; [reflexivity|]. cbn [existsb]. rewrite (H x (or_introl eq_refl)), IH; [reflexivity|].
  intros y Hy. apply H. right. exact Hy.
Qed.
Lemma existsb_ext' {A} (f g : A -> bool) l : (forall x, f x = g x) -> existsb f l = existsb g l.
Proof. intros H. induction l as [|x l IH]; [reflexivity|]. cbn [existsb]. rewrite (H x), IH. reflexivity. Qed.

Lemma score_ext cands fm obsf hcov pen unit cnt cnt' nov nov' :
  (forall al, In al cands -> (cnt al == cnt' al)%Q) -> (forall m, In m fm -> (nov m == nov' m)%Q) ->
  (score cands fm obsf hcov pen unit cnt nov == score cands fm obsf hcov pen unit cnt' nov')%Q.
Proof.
  intros Hc Hn.
  assert (C : forall m, (carriers cands cnt m == carriers cands cnt' m)%Q).
  { intros m. unfold carriers. apply qsum_map_ext. intros al Hal. destruct (has_mut al m); [apply Hc; exact Hal | reflexivity]. }
  assert (R : forall pos, (refcopies cands hcov cnt pos == refcopies cands hcov cnt' pos)%Q).
  { intros pos. unfold refcopies. apply qsum_map_ext. intros al Hal. destruct (shows_ref hcov al pos); [apply Hc; exact Hal | reflexivity]. }
  unfold score, fit, penalty, any_novel.
  assert (F1 : (qsum (map (fun m => Qabs' (obsf m - carriers cands cnt m - nov m)) fm) ==
                qsum (map (fun m => Qabs' (obsf m - carriers cands cnt' m - nov' m)) fm))%Q).
  { apply qsum_map_ext. intros m Hm. apply Qabs'_compat. rewrite (C m), (Hn m Hm). reflexivity. }
  assert (F2 : (qsum (map (fun pos => Qabs' (obsf (ref_mut pos) - refcopies cands hcov cnt pos)) (sites fm)) ==
                qsum (map (fun pos => Qabs' (obsf (ref_mut pos) - refcopies cands hcov cnt' pos)) (sites fm)))%Q).
  { apply qsum_map_ext. intros pos _. apply Qabs'_compat. rewrite (R pos). reflexivity. }
  assert (E1 : existsb (fun m => Qeqb (nov m) 1) fm = existsb (fun m => Qeqb (nov' m) 1) fm).
  { apply existsb_ext_in. intros m Hm. apply Qeqb_compat. apply Hn. exact Hm. }
  assert (E2 : (qsum (map nov fm) == qsum (map nov' fm))%Q) by (apply qsum_map_ext; exact Hn).
  rewrite F1, F2, E1, E2. reflexivity.
Qed.

Section Canon.
  Variables (cands : list allele) (struct : list (str * Z)) (fm : list mut) (obsf : mut -> Q)
            (hcov : str -> Z -> bool) (pen unit : Q).
  Variables (counts : list (str * Z)) (novel : list mut).
  Notation G := (gen_core cands struct fm obsf hcov pen unit).
  Notation sels := (sels cands struct).

  Hypothesis adm : admissible cands struct fm counts novel = true.
  Hypothesis cands_in_struct : forall al, In al cands -> amem str_eqb (a_cfg al) struct = true.
  Hypothesis no_ref_op : forall m, In m fm -> is_ref (snd m) = false.

  Definition cz (name : str) : Z := match alookup str_eqb name counts with Some z => z | None => 0 end.
  Notation cntQ := (cnt_of counts).
  Notation novQ := (nov_of novel).
  Definition err (m : mut) : Q :=
    if is_ref (snd m) then (obsf m - refcopies cands hcov cntQ (fst m))%Q
    else (obsf m - carriers cands cntQ m - novQ m)%Q.

  (* selectors in prefix form, novel flags as given, OR = 1 - N, XOR = 1, errors forced, helpers tight *)
  Definition canon (k : vkey) : Q :=
    match k with
    | t :: p :: r =>
      if t =? 1 then (if p <? cz r then 1 else 0)
      else if t =? 2 then err (p, r)
      else if t =? 3 then novQ (p, r)
      else if t =? 4 then 1 - novQ (p, r)
      else if t =? 5 then 1
      else if t =? -1 then (match r with p' :: r' => if p =? 2 then Qabs' (err (p', r')) else 0 | [] => 0 end)
      else 0
    | [t] => if t =? 6 then (if any_novel fm novQ then 1 else 0) else 0
    | [] => 0
    end%Q.

  Lemma canon_A sl : canon (vA sl) = if snd sl <? cz (a_name (fst sl)) then 1%Q else 0%Q.
  Proof. reflexivity. Qed.
  Lemma canon_E m : canon (kE m) = err m. Proof. destruct m. reflexivity. Qed.
  Lemma canon_N m : canon (kN m) = novQ m. Proof. destruct m. reflexivity. Qed.
  Lemma canon_OR m : canon (kOR m) = (1 - novQ m)%Q. Proof. destruct m. reflexivity. Qed.
  Lemma canon_XOR m : canon (kXOR m) = 1%Q. Proof. destruct m. reflexivity. Qed.
  Lemma canon_NOVEL : canon kNOVEL = if any_novel fm novQ then 1%Q else 0%Q. Proof. reflexivity. Qed.
  Lemma canon_ABS m : canon (abs_key (kE m)) = Qabs' (err m). Proof. destruct m. reflexivity. Qed.

  Lemma novQ_cases m : (novQ m = 1%Q /\ memb mut_eqb m novel = true) \/ (novQ m = 0%Q /\ memb mut_eqb m novel = false).
  Proof. unfold nov_of. destruct (memb mut_eqb m novel); [left | right]; split; reflexivity. Qed.

  (* unpacking [admissible] *)
  Lemma adm_nonneg al : In al cands -> 0 <= count_z counts al.
  Proof.
    unfold admissible in adm. repeat (apply andb_true_iff in adm as [adm ?]).
    rewrite forallb_forall in adm. intros H'. apply Z.leb_le. apply adm. exact H'.
  Qed.
  Lemma adm_cfg cfg cnt : In (cfg, cnt) struct -> cfg_count cands counts cfg = cnt.
  Proof.
    unfold admissible in adm. repeat (apply andb_true_iff in adm as [adm ?]).
    rewrite forallb_forall in H2. intros H'. apply Z.eqb_eq. apply (H2 _ H').
  Qed.
  Lemma adm_novel m : In m fm -> memb mut_eqb m novel = Qeqb (carriers cands cntQ m) 0.
  Proof.
    unfold admissible in adm. repeat (apply andb_true_iff in adm as [adm ?]).
    rewrite forallb_forall in H1. intros H'. apply eqb_prop. apply (H1 _ H').
  Qed.
  Lemma adm_site pos : In pos (sites fm) -> (length (filter (fun m => memb mut_eqb m novel) (site_novel fm pos)) <= 1)%nat.
  Proof.
    unfold admissible in adm. repeat (apply andb_true_iff in adm as [adm ?]).
    unfold one_per_site in H. rewrite forallb_forall in H. intros H'. apply Nat.leb_le. apply (H _ H').
  Qed.

  Lemma count_le_copies al : In al cands -> count_z counts al <= Z.of_nat (ncopies struct al).
  Proof.
    intros Hal. pose proof (cands_in_struct al Hal) as Hs. unfold amem in Hs. unfold ncopies, struct_cn.
    destruct (alookup str_eqb (a_cfg al) struct) as [cnt|] eqn:L; [|discriminate].
    assert (Hin : In (a_cfg al, cnt) struct) by (apply (alookup_In str_eqb seqb_eq); exact L).
    pose proof (adm_cfg _ _ Hin) as Hc. unfold cfg_count in Hc.
    assert (count_z counts al <= cnt).
    { rewrite <- Hc. apply zsum_ge_elem.
      - apply Forall_forall. intros z Hz. apply in_map_iff in Hz as (al' & <- & Hal'). apply filter_In in Hal' as [Hal' _].
        apply adm_nonneg. exact Hal'.
      - apply in_map. apply filter_In. split; [exact Hal | apply seqb_refl]. }
    lia.
  Qed.

  (* the selected copies of an allele add up to its count *)
  Lemma copy_sum_canon al : In al cands -> (copy_sum struct (fun sl => canon (vA sl)) al == cntQ al)%Q.
  Proof.
    intros Hal. unfold copy_sum.
    rewrite (qsum_map_ext _ (fun j => if Z.of_nat j <? count_z counts al then 1%Q else 0%Q)) by (intros j _; reflexivity).
    rewrite (ind_sum _ _ (adm_nonneg al Hal)). pose proof (count_le_copies al Hal) as Hle. pose proof (adm_nonneg al Hal).
    unfold cnt_of. rewrite Z.min_l by lia. reflexivity.
  Qed.
  Lemma sel_sum_canon (p : allele -> bool) :
    (qsum (map (fun sl => canon (vA sl)) (filter (fun sl : allele * Z => p (fst sl)) sels)) ==
     qsum (map (fun al => if p al then cntQ al else 0) cands))%Q.
  Proof.
    rewrite (sel_filter_sum cands struct p (fun sl => canon (vA sl))).
    apply qsum_map_ext. intros al Hal. destruct (p al); [apply copy_sum_canon; exact Hal | reflexivity].
  Qed.
  Lemma carr_sum_canon m : (qsum (map (fun sl => canon (vA sl)) (carr_sel cands struct m)) == carriers cands cntQ m)%Q.
  Proof. unfold MajorModel.carr_sel, carriers. apply (sel_sum_canon (fun al => has_mut al m)). Qed.
  Lemma ref_sum_canon pos : (qsum (map (fun sl => canon (vA sl)) (ref_sel cands struct hcov pos)) == refcopies cands hcov cntQ pos)%Q.
  Proof. unfold MajorModel.ref_sel, refcopies. apply (sel_sum_canon (fun al => shows_ref hcov al pos)). Qed.

  (* carriers is a non-negative integer *)
  Lemma carriers_int m :
    (carriers cands cntQ m == inZ (zsum (map (count_z counts) (filter (fun al => has_mut al m) cands))))%Q.
  Proof. unfold carriers. rewrite qsum_if_filter, inZ_zsum, map_map. reflexivity. Qed.
  Lemma carriers_z_nonneg m : 0 <= zsum (map (count_z counts) (filter (fun al => has_mut al m) cands)).
  Proof.
    apply zsum_nonneg. apply Forall_forall. intros z Hz. apply in_map_iff in Hz as (al & <- & Hal).
    apply filter_In in Hal as [Hal _]. apply adm_nonneg. exact Hal.
  Qed.
  Lemma carriers_nonneg m : (0 <= carriers cands cntQ m)%Q.
  Proof. rewrite carriers_int. apply (inZ_le 0). apply carriers_z_nonneg. Qed.
  Lemma not_novel_carried m : In m fm -> memb mut_eqb m novel = false -> (1 <= carriers cands cntQ m)%Q.
  Proof.
    intros Hm Hn. rewrite (adm_novel m Hm) in Hn. rewrite carriers_int in *.
    pose proof (carriers_z_nonneg m) as P. set (K := zsum _) in *.
    destruct (Z.eq_dec K 0) as [E | E].
    - rewrite E in Hn. discriminate.
    - apply (inZ_le 1). lia.
  Qed.
  Lemma novel_uncarried m sl : In m fm -> memb mut_eqb m novel = true -> In sl (carr_sel cands struct m) -> canon (vA sl) = 0%Q.
  Proof.
    intros Hm Hn Hs. rewrite (adm_novel m Hm) in Hn. unfold Qeqb in Hn. apply Qeq_bool_iff in Hn. rewrite carriers_int in Hn.
    unfold MajorModel.carr_sel in Hs. apply filter_In in Hs as [Hs Hc]. apply sels_inv in Hs as (Hal & j & Hj & _).
    assert (K0 : zsum (map (count_z counts) (filter (fun al => has_mut al m) cands)) = 0).
    { unfold inZ in Hn. apply inject_Z_injective. exact Hn. }
    assert (count_z counts (fst sl) <= 0).
    { rewrite <- K0. apply zsum_ge_elem.
      - apply Forall_forall. intros z Hz. apply in_map_iff in Hz as (al & <- & Hal'). apply filter_In in Hal' as [Hal' _].
        apply adm_nonneg. exact Hal'.
      - apply in_map. apply filter_In. split; assumption. }
    rewrite canon_A. unfold count_z in H. fold (cz (a_name (fst sl))) in H.
    destruct (snd sl <? cz (a_name (fst sl))) eqn:E; [|reflexivity]. apply Z.ltb_lt in E. lia.
  Qed.

  Lemma abs_rows_ok x : (0 <= 1 * Qabs' x + (1 * x + 0) /\ 0 <= 1 * Qabs' x + (-1 * x + 0))%Q.
  Proof.
    unfold Qabs'. destruct (Qle_bool 0 x) eqn:E.
    - apply Qle_bool_iff in E. split; lra.
    - assert (~ (0 <= x)%Q) by (intros H; apply Qle_bool_iff in H; rewrite H in E; discriminate). split; lra.
  Qed.

  (* ---- every variable is of its kind ---- *)
  Lemma canon_kinds : Forall (fun kv : vkey * vkind => in_kind (snd kv) (canon (fst kv))) (vars cands struct fm).
  Proof.
    unfold vars. repeat rewrite Forall_app. repeat split; apply Forall_forall; intros [k kd] Hin; cbn [fst snd].
    - apply in_map_iff in Hin as (sl & E & _). injection E as <- <-. rewrite canon_A. cbn [in_kind]. unfold is_bin.
      destruct (snd sl <? cz (a_name (fst sl))); [right | left]; reflexivity.
    - apply in_map_iff in Hin as (m & E & _). injection E as <- <-. cbn [in_kind]. split; exact I.
    - apply in_map_iff in Hin as (m & E & _). injection E as <- <-. rewrite canon_N. cbn [in_kind]. unfold is_bin.
      destruct (novQ_cases m) as [[-> _] | [-> _]]; [right | left]; reflexivity.
    - apply in_map_iff in Hin as (pos & E & _). injection E as <- <-. cbn [in_kind]. split; exact I.
    - apply in_flat_map in Hin as (m & _ & [E | [E | []]]); injection E as <- <-; cbn [in_kind]; unfold is_bin.
      + rewrite canon_OR. destruct (novQ_cases m) as [[-> _] | [-> _]]; [left | right]; lra.
      + rewrite canon_XOR. right. reflexivity.
    - unfold abssum_vars in Hin. apply in_map_iff in Hin as (e & E & He). injection E as <- <-. cbn [in_kind]. split; [|exact I].
      apply in_app_or in He as [He | He].
      + apply in_map_iff in He as (m & <- & _). rewrite canon_ABS. apply Qabs'_nonneg.
      + apply in_map_iff in He as (pos & <- & _). rewrite canon_ABS. apply Qabs'_nonneg.
    - destruct Hin as [E | []]. injection E as <- <-. rewrite canon_NOVEL. cbn [in_kind]. unfold is_bin.
      destruct (any_novel fm novQ); [right | left]; reflexivity.
  Qed.

  Lemma in_errs_inv e : In e (errs fm) -> exists m, e = kE m.
  Proof.
    unfold errs. intros H. apply in_app_or in H as [H | H].
    - apply in_map_iff in H as (m & <- & _). exists m. reflexivity.
    - apply in_map_iff in H as (pos & <- & _). exists (ref_mut pos). reflexivity.
  Qed.
  Lemma err_ref_mut pos : err (ref_mut pos) = (obsf (ref_mut pos) - refcopies cands hcov cntQ pos)%Q.
  Proof. reflexivity. Qed.

  (* ---- every row holds ---- *)
  Lemma canon_rows : Forall (sat_row canon) (rows cands struct fm obsf hcov).
  Proof.
    unfold rows. repeat rewrite Forall_app. repeat split; apply Forall_forall; intros r Hin.
    - (* CORD *)
      unfold rows_cord in Hin. apply in_flat_map in Hin as (sl & Hs & Hin).
      destruct (0 <? snd sl) eqn:E; [|destruct Hin]. destruct Hin as [<- | []].
      unfold sat_row, mk. cbn [r_rel r_lin r_rhs eval_lin]. rewrite canon_A.
      change (canon (kA (a_name (fst sl)) (snd sl - 1))) with (if snd sl - 1 <? cz (a_name (fst sl)) then 1%Q else 0%Q).
      destruct (snd sl <? cz (a_name (fst sl))) eqn:E1, (snd sl - 1 <? cz (a_name (fst sl))) eqn:E2; try lra.
      apply Z.ltb_lt in E1. apply Z.ltb_ge in E2. lia.
    - (* CONE *)
      unfold rows_cone in Hin. apply in_map_iff in Hin as (pos & <- & Hp).
      unfold sat_row, mk. cbn [r_rel r_lin r_rhs]. rewrite eval_sumlin, map_map.
      assert (S : (qsum (map (fun x => canon (kN x)) (site_novel fm pos)) ==
                   inZ (Z.of_nat (length (filter (fun m => memb mut_eqb m novel) (site_novel fm pos)))))%Q).
      { rewrite <- qsum_indicator. apply qsum_map_ext. intros m _. rewrite canon_N. reflexivity. }
      rewrite S. pose proof (adm_site pos Hp) as Hl. change 1%Q with (inZ 1). apply inZ_le. lia.
    - (* CFUNC *)
      unfold rows_cfunc in Hin. apply in_app_or in Hin as [Hin | Hin].
      + apply in_flat_map in Hin as (m & Hm & [<- | [<- | []]]); unfold sat_row, mk, func_lin; cbn [r_rel r_lin r_rhs];
          rewrite eval_app, eval_sumlin, map_map, carr_sum_canon; cbn [eval_lin]; rewrite canon_N, canon_E; unfold err;
          rewrite (no_ref_op m Hm); lra.
      + apply in_flat_map in Hin as (pos & Hp & [<- | [<- | []]]); unfold sat_row, mk, ref_lin; cbn [r_rel r_lin r_rhs];
          rewrite eval_app, eval_sumlin, map_map, ref_sum_canon; cbn [eval_lin]; rewrite canon_E, err_ref_mut; lra.
    - (* CSAT *)
      unfold rows_csat in Hin. apply in_flat_map in Hin as ([cfg cnt] & Hs & Hin). cbn [fst snd] in Hin.
      assert (S : (qsum (map (fun sl => canon (vA sl)) (cfg_sel cands struct cfg)) == inZ cnt)%Q).
      { unfold MajorModel.cfg_sel. rewrite (sel_sum_canon (fun al => str_eqb (a_cfg al) cfg)), qsum_if_filter.
        rewrite <- (adm_cfg cfg cnt Hs). unfold cfg_count. rewrite inZ_zsum, map_map. reflexivity. }
      destruct Hin as [<- | [<- | []]]; unfold sat_row, mk; cbn [r_rel r_lin r_rhs]; rewrite eval_sumlin, map_map, S; lra.
    - (* COR, CXOR *)
      apply in_flat_map in Hin as (m & Hm & Hin). apply in_app_or in Hin as [Hin | Hin].
      + unfold rows_cor in Hin. destruct Hin as [<- | Hin].
        * unfold sat_row, mk. cbn [r_rel r_lin r_rhs eval_lin]. rewrite eval_neglin, map_map, carr_sum_canon, canon_OR.
          destruct (novQ_cases m) as [[E Hn] | [E Hn]]; rewrite E.
          -- pose proof (carriers_nonneg m). lra.
          -- pose proof (not_novel_carried m Hm Hn). lra.
        * apply in_map_iff in Hin as (sl & <- & Hs). unfold sat_row, mk. cbn [r_rel r_lin r_rhs eval_lin]. rewrite canon_OR.
          destruct (novQ_cases m) as [[E Hn] | [E Hn]]; rewrite E.
          -- rewrite (novel_uncarried m sl Hm Hn Hs). lra.
          -- rewrite canon_A. destruct (snd sl <? cz (a_name (fst sl))); lra.
      + unfold rows_cxor in Hin.
        destruct Hin as [<- | [<- | [<- | [<- | [<- | []]]]]]; unfold sat_row, mk; cbn [r_rel r_lin r_rhs eval_lin];
          rewrite ?canon_XOR, ?canon_N, ?canon_OR; destruct (novQ_cases m) as [[E _] | [E _]]; rewrite ?E; lra.
    - (* abssum *)
      unfold abssum_rows in Hin. apply in_flat_map in Hin as (e & He & Hin). apply in_errs_inv in He as (m & ->).
      destruct Hin as [<- | [<- | []]]; unfold sat_row; cbn [r_rel r_lin r_rhs eval_lin]; rewrite canon_ABS, canon_E;
        apply abs_rows_ok.
    - (* NOVEL *)
      unfold rows_novel in Hin. apply in_app_or in Hin as [Hin | Hin].
      + apply in_map_iff in Hin as (m & <- & Hm). unfold sat_row, mk. cbn [r_rel r_lin r_rhs eval_lin].
        rewrite canon_NOVEL, canon_N. destruct (any_novel fm novQ) eqn:E.
        * destruct (novQ_cases m) as [[E' _] | [E' _]]; rewrite E'; lra.
        * unfold any_novel in E. pose proof (existsb_false _ _ E m Hm) as F. cbv beta in F.
          destruct (novQ_cases m) as [[E' _] | [E' _]]; rewrite E' in *; [discriminate | lra].
      + destruct Hin as [<- | []]. unfold sat_row, mk. cbn [r_rel r_lin r_rhs eval_lin].
        rewrite eval_neglin, map_map, canon_NOVEL.
        assert (P : Forall (fun x => 0 <= x)%Q (map (fun m => canon (kN m)) fm)).
        { apply Forall_forall. intros q Hq. apply in_map_iff in Hq as (m & <- & _). rewrite canon_N.
          destruct (novQ_cases m) as [[E' _] | [E' _]]; rewrite E'; lra. }
        destruct (any_novel fm novQ) eqn:E.
        * unfold any_novel in E. apply existsb_exists in E as (m & Hm & E). apply Qeq_bool_iff in E.
          assert (In (canon (kN m)) (map (fun m => canon (kN m)) fm)) by (apply in_map_iff; exists m; split; [reflexivity | exact Hm]).
          pose proof (qsum_ge_elem _ _ P H) as Q1. rewrite canon_N in Q1. lra.
        * pose proof (qsum_nonneg _ P). lra.
  Qed.

  (* ---- C02: an admissible combination extends to a feasible point ... ---- *)
  Theorem canon_feasible : feasible G canon.
  Proof. split; [exact canon_kinds | exact canon_rows]. Qed.
  (* ... which stands for exactly that combination ... *)
  Theorem canon_counts al : In al cands -> (cnt_of_asg struct canon al == cntQ al)%Q.
  Proof. intros H. unfold cnt_of_asg. apply copy_sum_canon. exact H. Qed.
  Theorem canon_novel m : nov_of_asg canon m = novQ m.
  Proof. unfold nov_of_asg. apply canon_N. Qed.
  (* ... and whose objective is the score of the combination: the minimum over all extensions (objective_ge_score) is attained *)
  Theorem canon_objective : (objective G canon == score cands fm obsf hcov pen unit cntQ novQ)%Q.
  Proof.
    rewrite (objective_eq_score cands struct fm obsf hcov pen unit canon canon_feasible).
    - apply score_ext; [apply canon_counts | intros m _; rewrite canon_novel; reflexivity].
    - intros e He. apply in_errs_inv in He as (m & ->). rewrite canon_ABS, canon_E. reflexivity.
  Qed.
End Canon.

(* ==================================================================================================
   From a feasible point to its combination: it is admissible
   ================================================================================================== *)
Lemma bin_sum_count {A} (f : A -> Q) l :
  (forall x, In x l -> is_bin (f x)) ->
  (qsum (map f l) == inZ (Z.of_nat (length (filter (fun x => Qeqb (f x) 1) l))))%Q.
Proof.
  intros Hb. rewrite <- qsum_indicator. apply qsum_map_ext. intros x Hx. unfold Qeqb.
  destruct (Hb x Hx) as [H0 | H1].
  - destruct (Qeq_bool (f x) 1) eqn:E; [apply Qeq_bool_iff in E; lra | exact H0].
  - destruct (Qeq_bool (f x) 1) eqn:E; [exact H1|]. apply Qeq_bool_iff in H1. rewrite H1 in E. discriminate.
Qed.
Lemma alookup_map_name {V} (f : allele -> V) cs al :
  NoDup (map a_name cs) -> In al cs -> alookup str_eqb (a_name al) (map (fun x => (a_name x, f x)) cs) = Some (f al).
Proof.
  induction cs as [|x cs IH]; intros Hn Hal; [destruct Hal|].
  cbn [map alookup]. inversion Hn as [|? ? Hx Hn']; subst.
  destruct Hal as [-> | Hal]; [rewrite seqb_refl; reflexivity|].
  destruct (str_eqb (a_name al) (a_name x)) eqn:E.
  - apply seqb_eq in E. exfalso. apply Hx. rewrite <- E. apply in_map. exact Hal.
  - apply IH; assumption.
Qed.

Section ToComb.
  Variables (cands : list allele) (struct : list (str * Z)) (fm : list mut) (obsf : mut -> Q)
            (hcov : str -> Z -> bool) (pen unit : Q).
  Notation G := (gen_core cands struct fm obsf hcov pen unit).
  Variable a : asg.
  Hypothesis feas : feasible G a.
  Hypothesis names_nodup : NoDup (map a_name cands).

  (* number of selected copies of an allele; the novel variants *)
  Notation zcount := (zcount struct a).
  Notation counts_of_asg := (counts_of_asg cands struct a).
  Notation novel_of_asg := (novel_of_asg fm a).

  Lemma count_z_asg al : In al cands -> count_z counts_of_asg al = zcount al.
  Proof.
    intros Hal. unfold count_z, counts_of_asg. rewrite (alookup_map_name zcount cands al names_nodup Hal). reflexivity.
  Qed.

  Lemma copy_sum_count al : In al cands -> (cnt_of_asg struct a al == inZ (zcount al))%Q.
  Proof.
    intros Hal. unfold cnt_of_asg, copy_sum, zcount. apply (bin_sum_count (fun j => a (vA (al, Z.of_nat j)))).
    intros j Hj. apply in_seq in Hj. apply (bin_A cands struct fm obsf hcov pen unit a feas).
    apply in_sels; [exact Hal | lia].
  Qed.
  Lemma cntQ_asg al : In al cands -> (cnt_of counts_of_asg al == cnt_of_asg struct a al)%Q.
  Proof. intros Hal. unfold cnt_of. rewrite (count_z_asg al Hal), (copy_sum_count al Hal). reflexivity. Qed.
  Lemma carriers_comb m :
    (carriers cands (cnt_of counts_of_asg) m == qsum (map (fun sl => a (vA sl)) (carr_sel cands struct m)))%Q.
  Proof.
    rewrite <- (carriers_asg cands struct a m). unfold carriers. apply qsum_map_ext. intros al Hal.
    destruct (has_mut al m); [apply cntQ_asg; exact Hal | reflexivity].
  Qed.
  Lemma memb_novel_asg m : In m fm -> memb mut_eqb m novel_of_asg = Qeqb (a (kN m)) 1.
  Proof.
    intros Hm. unfold novel_of_asg. destruct (Qeqb (a (kN m)) 1) eqn:E.
    - apply (memb_In mut_eqb mut_eqb_eq). apply filter_In. split; assumption.
    - destruct (memb mut_eqb m (filter (fun m0 => Qeqb (a (kN m0)) 1) fm)) eqn:M; [|reflexivity].
      apply (memb_In mut_eqb mut_eqb_eq) in M. apply filter_In in M as [_ M]. rewrite M in E. discriminate.
  Qed.

  (* ---- C02: the binaries of any feasible point encode an admissible combination ---- *)
  Theorem feasible_admissible : admissible cands struct fm counts_of_asg novel_of_asg = true.
  Proof.
    unfold admissible. repeat (apply andb_true_iff; split).
    - apply forallb_forall. intros al Hal. apply Z.leb_le. rewrite (count_z_asg al Hal). unfold zcount. lia.
    - apply forallb_forall. intros [cfg cnt] Hs. cbn [fst snd]. apply Z.eqb_eq.
      pose proof (copies_per_config_alleles cands struct fm obsf hcov pen unit a feas cfg cnt Hs) as C.
      unfold cfg_count. apply inject_Z_injective. fold (inZ cnt). rewrite <- C. fold (inZ (zsum (map (count_z counts_of_asg)
        (filter (fun al => str_eqb (a_cfg al) cfg) cands)))). rewrite inZ_zsum, map_map, <- qsum_if_filter.
      apply qsum_map_ext. intros al Hal. destruct (str_eqb (a_cfg al) cfg); [|reflexivity].
      rewrite (count_z_asg al Hal). symmetry. apply copy_sum_count. exact Hal.
    - apply forallb_forall. intros m Hm. rewrite (memb_novel_asg m Hm), (Qeqb_compat _ _ 0 (carriers_comb m)).
      destruct (novel_xor_carried cands struct fm obsf hcov pen unit a feas m Hm) as [[N1 Hall] | [N0 (sl & Hs & E)]].
      + assert (Z0 : (qsum (map (fun sl => a (vA sl)) (carr_sel cands struct m)) == 0)%Q).
        { apply qsum_zero. apply Forall_forall. intros q Hq. apply in_map_iff in Hq as (sl & <- & Hs). apply Hall. exact Hs. }
        apply Qeqb_true in N1. apply Qeqb_true in Z0. rewrite N1, Z0. reflexivity.
      + assert (P : Forall (fun x => 0 <= x)%Q (map (fun sl => a (vA sl)) (carr_sel cands struct m))).
        { apply Forall_forall. intros q Hq. apply in_map_iff in Hq as (sl' & <- & Hs'). apply bin_bounds.
          apply (bin_A cands struct fm obsf hcov pen unit a feas). apply (carr_sel_sels cands struct m). exact Hs'. }
        assert (In (a (vA sl)) (map (fun sl => a (vA sl)) (carr_sel cands struct m)))
          by (apply in_map_iff; exists sl; split; [reflexivity | exact Hs]).
        pose proof (qsum_ge_elem _ _ P H) as Q1.
        assert (F1 : Qeqb (a (kN m)) 1 = false) by (apply Qeqb_false; lra).
        assert (F2 : Qeqb (qsum (map (fun sl => a (vA sl)) (carr_sel cands struct m))) 0 = false) by (apply Qeqb_false; lra).
        rewrite F1, F2. reflexivity.
    - apply forallb_forall. intros m Hm. apply (memb_In mut_eqb mut_eqb_eq). unfold novel_of_asg in Hm.
      apply filter_In in Hm. apply Hm.
    - unfold one_per_site. apply forallb_forall. intros pos Hp. apply Nat.leb_le.
      assert (R : In (mk (sumlin (map kN (site_novel fm pos))) RLe 1%Q) (rows cands struct fm obsf hcov)).
      { apply in_cone. unfold rows_cone. apply in_map_iff. exists pos. split; [reflexivity | exact Hp]. }
      apply (row_sat cands struct fm obsf hcov pen unit a feas) in R. unfold sat_row, mk in R. cbn [r_rel r_lin r_rhs] in R.
      rewrite eval_sumlin, map_map in R.
      assert (Hb : forall m, In m (site_novel fm pos) -> is_bin (a (kN m))).
      { intros m Hm. unfold site_novel in Hm. apply filter_In in Hm as [Hm _].
        apply (bin_N cands struct fm obsf hcov pen unit a feas). exact Hm. }
      rewrite (bin_sum_count (fun m => a (kN m)) _ Hb) in R.
      assert (E : filter (fun m => memb mut_eqb m novel_of_asg) (site_novel fm pos) =
                  filter (fun m => Qeqb (a (kN m)) 1) (site_novel fm pos)).
      { apply filter_ext_in. intros m Hm. apply memb_novel_asg. unfold site_novel in Hm. apply filter_In in Hm. apply Hm. }
      rewrite E. set (L := length (filter (fun m => Qeqb (a (kN m)) 1) (site_novel fm pos))) in *.
      assert (H1 : (inject_Z (Z.of_nat L) <= inject_Z 1)%Q) by exact R. rewrite <- Zle_Qle in H1. lia.
  Qed.
End ToComb.

(* ==================================================================================================
   Instance level: MajorModel.gen on a well-formed instance
   ================================================================================================== *)
Lemma NoDup_map_filter {A B} (f : A -> B) (p : A -> bool) l : NoDup (map f l) -> NoDup (map f (filter p l)).
Proof.
  induction l as [|x l IH]; cbn [map filter]; intros H; [constructor|].
  inversion H as [|? ? Hx Hn]; subst. destruct (p x); cbn [map]; [|apply IH; exact Hn].
  constructor; [|apply IH; exact Hn]. intros Hin. apply Hx. apply in_map_iff in Hin as (y & E & Hy).
  apply filter_In in Hy as [Hy _]. apply in_map_iff. exists y. split; assumption.
Qed.
Lemma existsb_const_false {A} (l : list A) : existsb (fun _ => false) l = false.
Proof. induction l; [reflexivity | exact IHl]. Qed.
Lemma qsum_zero_each l : Forall (fun x => 0 <= x)%Q l -> (qsum l == 0)%Q -> Forall (fun x => x == 0)%Q l.
Proof.
  induction 1 as [|x l Hx Hl IH]; cbn [qsum]; intros H; constructor.
  - pose proof (qsum_nonneg l Hl). lra.
  - apply IH. pose proof (qsum_nonneg l Hl). lra.
Qed.

Section Inst.
  Variables (c : consts) (I : inst).
  Hypothesis wf : inst_wf I = true.
  Notation cands := (candidates I).
  Notation fm := (func_muts I).
  Notation struct := (i_struct I).
  Notation pen := (i_major_novel I).
  Notation unit := (c_major_novel_unit c).
  Notation G := (gen c I).

  Lemma gen_eq : G = gen_core cands struct fm (obs_cn I) (hascov I) pen unit.
  Proof. reflexivity. Qed.

  Lemma wf_names : NoDup (map a_name (i_alleles I)).
  Proof. unfold inst_wf in wf. repeat (apply andb_true_iff in wf as [wf ?]). apply (nodupb_NoDup str_eqb seqb_eq). exact wf. Qed.
  Lemma wf_struct : NoDup (map fst struct).
  Proof. unfold inst_wf in wf. repeat (apply andb_true_iff in wf as [wf ?]). apply (nodupb_NoDup str_eqb seqb_eq). assumption. Qed.
  Lemma wf_muts : NoDup (map fst (i_muts I)).
  Proof. unfold inst_wf in wf. repeat (apply andb_true_iff in wf as [wf ?]). apply (nodupb_NoDup mut_eqb mut_eqb_eq). assumption. Qed.
  Lemma wf_cover : cover_wf (i_cover I) = true.
  Proof. unfold inst_wf in wf. repeat (apply andb_true_iff in wf as [wf ?]). assumption. Qed.
  Lemma wf_table : table_wf (cv_tab (i_cover I)) = true.
  Proof. pose proof wf_cover as H. unfold cover_wf in H. apply andb_true_iff in H. apply H. Qed.
  Lemma wf_cand_muts al m : In al cands -> In m (a_muts al) -> alookup mut_eqb m (i_muts I) = Some true.
  Proof.
    unfold inst_wf in wf. repeat (apply andb_true_iff in wf as [wf ?]). intros Hal Hm.
    rewrite forallb_forall in H1. specialize (H1 al Hal). rewrite forallb_forall in H1. specialize (H1 m Hm).
    destruct (alookup mut_eqb m (i_muts I)) as [[|]|]; try discriminate. reflexivity.
  Qed.
  Lemma wf_no_ref mf : In mf (i_muts I) -> is_ref (snd (fst mf)) = false.
  Proof.
    unfold inst_wf in wf. repeat (apply andb_true_iff in wf as [wf ?]). intros Hm.
    rewrite forallb_forall in H. apply negb_true_iff. apply H. exact Hm.
  Qed.

  Lemma cand_inv al : In al cands -> In al (i_alleles I) /\ amem str_eqb (a_cfg al) struct = true /\ expressed (mcov I) al = true.
  Proof.
    unfold candidates, cands_cv. intros H. apply filter_In in H as [H1 H2]. apply andb_true_iff in H2 as [H2 H3]. auto.
  Qed.
  Lemma cand_in_struct al : In al cands -> amem str_eqb (a_cfg al) struct = true.
  Proof. intros H. apply cand_inv in H. apply H. Qed.
  Lemma cand_expressed al m : In al cands -> In m (a_muts al) -> 0 < coverage (mcov I) m.
  Proof.
    intros Hal Hm. apply cand_inv in Hal as (_ & _ & E). unfold expressed in E. rewrite forallb_forall in E.
    apply Z.ltb_lt. apply E. exact Hm.
  Qed.
  Lemma cand_names_nodup : NoDup (map a_name cands).
  Proof. unfold candidates, cands_cv. apply NoDup_map_filter. exact wf_names. Qed.
  Lemma fm_inv m : In m fm -> In (m, true) (i_muts I) /\ 0 < coverage (mcov I) m.
  Proof.
    unfold func_muts, fm_cv. intros H. apply in_map_iff in H as ([m' b] & E & H). cbn [fst] in E. subst m'.
    apply filter_In in H as [H1 H2]. cbn [fst snd] in H2. apply andb_true_iff in H2 as [-> H2]. apply Z.ltb_lt in H2. auto.
  Qed.
  Lemma fm_nodup : NoDup fm.
  Proof. unfold func_muts, fm_cv. apply NoDup_map_filter. exact wf_muts. Qed.
  Lemma fm_no_ref m : In m fm -> is_ref (snd m) = false.
  Proof. intros H. apply fm_inv in H as [H _]. apply (wf_no_ref _ H). Qed.
  (* every core variant of a candidate allele is an observed core variant *)
  Lemma cand_muts_observed al m : In al cands -> In m (a_muts al) -> In m fm.
  Proof.
    intros Hal Hm. pose proof (wf_cand_muts al m Hal Hm) as L. apply (alookup_In mut_eqb mut_eqb_eq) in L.
    unfold func_muts, fm_cv. apply in_map_iff. exists (m, true). split; [reflexivity|]. apply filter_In. split; [exact L|].
    cbn [fst snd]. apply Z.ltb_lt. apply (cand_expressed al m Hal Hm).
  Qed.

  (* ---- admissible <-> extends to a feasible point (with the objective identity) ---- *)
  Theorem major_admissible_feasible counts novel :
    admissible cands struct fm counts novel = true ->
    exists a, feasible G a /\
              (forall al, In al cands -> (cnt_of_asg struct a al == cnt_of counts al)%Q) /\
              (forall m, nov_of_asg a m = nov_of novel m) /\
              (objective G a == score cands fm (obs_cn I) (hascov I) pen unit (cnt_of counts) (nov_of novel))%Q.
  Proof.
    intros adm. exists (canon cands fm (obs_cn I) (hascov I) counts novel).
    pose proof (canon_feasible cands struct fm (obs_cn I) (hascov I) pen unit counts novel adm cand_in_struct fm_no_ref) as F.
    split; [exact F|]. split; [|split].
    - intros al Hal. apply (canon_counts cands struct fm (obs_cn I) (hascov I) counts novel adm cand_in_struct). exact Hal.
    - intros m. apply canon_novel.
    - apply (canon_objective cands struct fm (obs_cn I) (hascov I) pen unit counts novel adm cand_in_struct fm_no_ref).
  Qed.
  Theorem major_feasible_admissible a :
    feasible G a ->
    admissible cands struct fm (counts_of_asg cands struct a) (novel_of_asg fm a) = true /\
    (score cands fm (obs_cn I) (hascov I) pen unit (cnt_of (counts_of_asg cands struct a)) (nov_of (novel_of_asg fm a)) <= objective G a)%Q.
  Proof.
    intros F. split.
    - apply (feasible_admissible cands struct fm (obs_cn I) (hascov I) pen unit a F cand_names_nodup).
    - eapply Qle_trans; [|apply (objective_ge_score cands struct fm (obs_cn I) (hascov I) pen unit a F)].
      apply Qle_lteq. right. apply score_ext.
      + intros al Hal. apply (cntQ_asg cands struct fm (obs_cn I) (hascov I) pen unit a F cand_names_nodup al Hal).
      + intros m Hm. unfold nov_of, MajorSpec.nov_of_asg. rewrite (memb_novel_asg fm a m Hm).
        destruct (bin_N cands struct fm (obs_cn I) (hascov I) pen unit a F m Hm) as [H0 | H1].
        * assert (E : Qeqb (a (kN m)) 1 = false) by (apply Qeqb_false; lra). rewrite E. lra.
        * assert (E : Qeqb (a (kN m)) 1 = true) by (apply Qeqb_true; exact H1). rewrite E. lra.
  Qed.

  (* ---- scores are non-negative ---- *)
  Lemma Qltb_lt x y : Qltb x y = true -> (x < y)%Q.
  Proof.
    unfold Qltb. intros H. apply negb_true_iff in H. apply Qnot_le_lt. intros Hle. apply Qle_bool_iff in Hle.
    rewrite Hle in H. discriminate.
  Qed.
  Lemma unit_pos : consts_wf c = true -> (0 < unit)%Q.
  Proof. unfold consts_wf. intros H. repeat (apply andb_true_iff in H as [H ?]). apply Qltb_lt. assumption. Qed.

  Lemma fit_nonneg cnt nov : (0 <= fit cands fm (obs_cn I) (hascov I) cnt nov)%Q.
  Proof.
    unfold fit.
    assert (A : (0 <= qsum (map (fun m => Qabs' (obs_cn I m - carriers cands cnt m - nov m)) fm))%Q).
    { apply qsum_nonneg. apply Forall_forall. intros q Hq. apply in_map_iff in Hq as (m & <- & _). apply Qabs'_nonneg. }
    assert (B : (0 <= qsum (map (fun pos => Qabs' (obs_cn I (ref_mut pos) - refcopies cands (hascov I) cnt pos)) (sites fm)))%Q).
    { apply qsum_nonneg. apply Forall_forall. intros q Hq. apply in_map_iff in Hq as (m & <- & _). apply Qabs'_nonneg. }
    lra.
  Qed.
  Lemma penalty_nonneg nov : consts_wf c = true -> (0 <= pen)%Q -> (forall m, In m fm -> (0 <= nov m)%Q) ->
    (0 <= pen * (if any_novel fm nov then 1 else 0))%Q /\ (0 <= unit * qsum (map nov fm))%Q.
  Proof.
    intros Hc Hp Hn. pose proof (unit_pos Hc) as Hu.
    assert (S : (0 <= qsum (map nov fm))%Q).
    { apply qsum_nonneg. apply Forall_forall. intros q Hq. apply in_map_iff in Hq as (m & <- & Hm). apply Hn. exact Hm. }
    split; [destruct (any_novel fm nov); lra | nra].
  Qed.
  Theorem major_objective_nonneg a : consts_wf c = true -> (0 <= pen)%Q -> feasible G a -> (0 <= objective G a)%Q.
  Proof.
    intros Hc Hp F. pose proof (objective_ge_score cands struct fm (obs_cn I) (hascov I) pen unit a F) as L.
    change (gen_core cands struct fm (obs_cn I) (hascov I) pen unit) with G in L.
    unfold score, penalty in L. pose proof (fit_nonneg (cnt_of_asg struct a) (nov_of_asg a)) as F1.
    destruct (penalty_nonneg (nov_of_asg a) Hc Hp) as [P1 P2].
    { intros m Hm. apply bin_bounds. apply (bin_N cands struct fm (obs_cn I) (hascov I) pen unit a F m Hm). }
    lra.
  Qed.

  (* ---- a feasible point of objective 0 calls no novel variant and carries every observed core variant with exactly
          the observed number of copies ---- *)
  Lemma Qabs'_zero_inv x : (Qabs' x == 0)%Q -> (x == 0)%Q.
  Proof.
    unfold Qabs'. destruct (Qle_bool 0 x) eqn:E; intros H; [exact H|]. lra.
  Qed.
  Theorem major_zero_objective a : consts_wf c = true -> (0 <= pen)%Q -> feasible G a -> (objective G a == 0)%Q ->
    forall m, In m fm -> (a (kN m) == 0)%Q /\ (carriers cands (cnt_of_asg struct a) m == obs_cn I m)%Q.
  Proof.
    intros Hc Hp F O.
    pose proof (objective_ge_score cands struct fm (obs_cn I) (hascov I) pen unit a F) as L.
    change (gen_core cands struct fm (obs_cn I) (hascov I) pen unit) with G in L.
    unfold score, penalty, fit in L.
    set (S1 := qsum (map (fun m => Qabs' (obs_cn I m - carriers cands (cnt_of_asg struct a) m - nov_of_asg a m)) fm)) in *.
    set (S2 := qsum (map (fun pos => Qabs' (obs_cn I (ref_mut pos) - refcopies cands (hascov I) (cnt_of_asg struct a) pos)) (sites fm))) in *.
    assert (A1 : Forall (fun x => 0 <= x)%Q (map (fun m => Qabs' (obs_cn I m - carriers cands (cnt_of_asg struct a) m - nov_of_asg a m)) fm)).
    { apply Forall_forall. intros q Hq. apply in_map_iff in Hq as (m & <- & _). apply Qabs'_nonneg. }
    assert (A2 : (0 <= S2)%Q).
    { apply qsum_nonneg. apply Forall_forall. intros q Hq. apply in_map_iff in Hq as (m & <- & _). apply Qabs'_nonneg. }
    assert (A3 : Forall (fun x => 0 <= x)%Q (map (nov_of_asg a) fm)).
    { apply Forall_forall. intros q Hq. apply in_map_iff in Hq as (m & <- & Hm). apply bin_bounds.
      apply (bin_N cands struct fm (obs_cn I) (hascov I) pen unit a F m Hm). }
    destruct (penalty_nonneg (nov_of_asg a) Hc Hp) as [P1 P2].
    { intros m Hm. apply bin_bounds. apply (bin_N cands struct fm (obs_cn I) (hascov I) pen unit a F m Hm). }
    pose proof (qsum_nonneg _ A1) as A1'. fold S1 in A1'. pose proof (qsum_nonneg _ A3) as A3'. pose proof (unit_pos Hc) as Hu.
    assert (Z1 : (S1 == 0)%Q) by lra.
    assert (Z3 : (qsum (map (nov_of_asg a) fm) == 0)%Q) by nra.
    pose proof (qsum_zero_each _ A1 Z1) as E1. pose proof (qsum_zero_each _ A3 Z3) as E3.
    rewrite Forall_forall in E1, E3.
    intros m Hm.
    assert (N0 : (a (kN m) == 0)%Q) by (apply (E3 (nov_of_asg a m)); apply in_map; exact Hm).
    split; [exact N0|].
    assert (T : (Qabs' (obs_cn I m - carriers cands (cnt_of_asg struct a) m - nov_of_asg a m) == 0)%Q).
    { apply E1. apply in_map_iff. exists m. split; [reflexivity | exact Hm]. }
    apply Qabs'_zero_inv in T. unfold MajorSpec.nov_of_asg in T. lra.
  Qed.

  (* ---- noise-free evidence: the planted combination is admissible with score 0, hence a feasible point of objective 0,
          hence (objective >= 0 everywhere) an optimum ---- *)
  Theorem major_noise_free counts :
    forallb (fun b : bool => b) (planted_ok c I counts) = true ->
    admissible cands struct fm counts [] = true /\
    (score cands fm (obs_cn I) (hascov I) pen unit (cnt_of counts) (nov_of []) == 0)%Q /\
    exists a, feasible G a /\ (objective G a == 0)%Q /\
              (forall al, In al cands -> (cnt_of_asg struct a al == cnt_of counts al)%Q) /\ (forall m, a (kN m) = 0%Q).
  Proof.
    intros H. unfold planted_ok in H. cbv zeta in H. cbn [forallb] in H.
    apply andb_true_iff in H as [P1 H]. apply andb_true_iff in H as [P2 H]. apply andb_true_iff in H as [P3 H].
    apply andb_true_iff in H as [P4 H]. apply andb_true_iff in H as [P5 _].
    apply andb_true_iff in P1 as [P1 _].
    rewrite forallb_forall in P1, P2, P3, P4, P5.
    assert (ADM : admissible cands struct fm counts [] = true).
    { unfold admissible. repeat (apply andb_true_iff; split).
      - apply forallb_forall. intros al _. apply Z.leb_le. unfold count_z.
        destruct (alookup str_eqb (a_name al) counts) as [z|] eqn:L; [|lia].
        apply (alookup_In str_eqb seqb_eq) in L. specialize (P1 _ L). cbn [fst snd] in P1.
        apply andb_true_iff in P1 as [_ P1]. apply Z.ltb_lt in P1. lia.
      - apply forallb_forall. intros kv Hkv. apply (P2 kv Hkv).
      - apply forallb_forall. intros m Hm. specialize (P5 m Hm). apply negb_true_iff in P5.
        change (carriers (cands_cv I (mcov I)) (cnt_of counts) m) with (carriers cands (cnt_of counts) m) in P5.
        rewrite P5. reflexivity.
      - reflexivity.
      - unfold one_per_site. apply forallb_forall. intros pos _.
        assert (E : filter (fun m => memb mut_eqb m []) (site_novel fm pos) = []).
        { induction (site_novel fm pos) as [|m l IH]; [reflexivity | exact IH]. }
        rewrite E. reflexivity. }
    assert (SC : (score cands fm (obs_cn I) (hascov I) pen unit (cnt_of counts) (nov_of []) == 0)%Q).
    { unfold score, fit, penalty.
      assert (F1 : (qsum (map (fun m => Qabs' (obs_cn I m - carriers cands (cnt_of counts) m - nov_of [] m)) fm) == 0)%Q).
      { apply qsum_zero. apply Forall_forall. intros q Hq. apply in_map_iff in Hq as (m & <- & Hm). apply Qabs'_zero.
        specialize (P3 m Hm). apply Qeqb_true in P3.
        change (obs_cv I (mcov I) m) with (obs_cn I m) in P3.
        change (carriers (cands_cv I (mcov I)) (cnt_of counts) m) with (carriers cands (cnt_of counts) m) in P3.
        change (nov_of [] m) with 0%Q. lra. }
      assert (F2 : (qsum (map (fun pos => Qabs' (obs_cn I (ref_mut pos) - refcopies cands (hascov I) (cnt_of counts) pos)) (sites fm)) == 0)%Q).
      { apply qsum_zero. apply Forall_forall. intros q Hq. apply in_map_iff in Hq as (pos & <- & Hp). apply Qabs'_zero.
        specialize (P4 pos Hp). apply Qeqb_true in P4.
        change (obs_cv I (mcov I) (ref_mut pos)) with (obs_cn I (ref_mut pos)) in P4.
        change (refcopies (cands_cv I (mcov I)) (hascov I) (cnt_of counts) pos) with (refcopies cands (hascov I) (cnt_of counts) pos) in P4.
        lra. }
      assert (F3 : any_novel fm (nov_of []) = false).
      { unfold any_novel. rewrite (existsb_ext' _ (fun _ => false)) by (intros m; reflexivity). apply existsb_const_false. }
      assert (F4 : (qsum (map (nov_of []) fm) == 0)%Q).
      { apply qsum_zero. apply Forall_forall. intros q Hq. apply in_map_iff in Hq as (m & <- & _). reflexivity. }
      rewrite F1, F2, F3, F4. lra. }
    split; [exact ADM|]. split; [exact SC|].
    destruct (major_admissible_feasible counts [] ADM) as (a & Fa & Ca & Na & Oa).
    exists a. split; [exact Fa|]. split; [rewrite Oa; exact SC|]. split; [exact Ca|]. intros m. apply (Na m).
  Qed.
End Inst.

(* ==================================================================================================
   C15 at the level of the major stage
   ================================================================================================== *)
Section LowQ.
  Variables (c : consts) (I : inst) (t' : table).
  Hypothesis sim : tab_sim (i_par I) (cv_tab (i_cover I)) t'.

  Lemma mcov_lowq : mcov (set_tab I t') = mcov I.
  Proof. unfold mcov. exact (major_cov_lowq (i_par I) (pcn I) (i_cover I) t' sim). Qed.

  (* candidates, observed core variants, the generated ILP, the admissible combinations, their scores and what has to be
     reported do not depend on observations below either quality threshold *)
  Theorem major_ignores_lowq :
    candidates (set_tab I t') = candidates I /\ func_muts (set_tab I t') = func_muts I /\
    gen c (set_tab I t') = gen c I /\ all_combs c (set_tab I t') = all_combs c I /\ run c (set_tab I t') = run c I.
  Proof.
    unfold run, all_combs, gen, candidates, func_muts. rewrite mcov_lowq. repeat split; reflexivity.
  Qed.
End LowQ.

Section Support.
  Variables (c : consts) (I : inst).
  Hypothesis wf : inst_wf I = true.

  (* every core variant of a candidate allele, hence of every called allele, is supported *)
  Theorem called_core_supported al m :
    In al (candidates I) -> In m (a_muts al) -> supported (i_par I) (pcn I) (i_cover I) m = true.
  Proof.
    intros Hal Hm. pose proof (cand_expressed I al m Hal Hm) as H. unfold mcov in H.
    apply (major_cov_supported (i_par I) (pcn I) (i_cover I) m (wf_table I wf) H).
  Qed.
  (* every observed core variant, hence every variant that can be flagged novel, is supported *)
  Theorem novel_supported m : In m (func_muts I) -> supported (i_par I) (pcn I) (i_cover I) m = true.
  Proof.
    intros Hm. apply (fm_inv I) in Hm as [_ H]. unfold mcov in H.
    apply (major_cov_supported (i_par I) (pcn I) (i_cover I) m (wf_table I wf) H).
  Qed.
  (* an allele with a core variant that has no qualifying support is not a candidate *)
  Theorem unsupported_never_candidate al m :
    In m (a_muts al) -> coverage (filtered_q (i_par I) (i_cover I)) m <= 0 -> ~ In al (candidates I).
  Proof.
    intros Hm Hc Hal. pose proof (cand_expressed I al m Hal Hm) as H. unfold mcov in H.
    pose proof (no_support_no_coverage (i_par I) (pcn I) (i_cover I) m (wf_table I wf) Hc). lia.
  Qed.
End Support.

(* ==================================================================================================
   The enumeration of MajorSpec: exactly the admissible combinations
   ================================================================================================== *)
Section ASet.
  Context {V : Type}.
  Implicit Types (l : list (str * V)).
  Lemma aset_keys' k v l : In k (map fst l) -> map fst (aset str_eqb k v l) = map fst l.
  Proof.
    induction l as [|[k' v'] l IH]; cbn [aset map fst]; intros H; [destruct H|].
    destruct (str_eqb k k') eqn:E; cbn [map fst]; [reflexivity|]. f_equal. apply IH.
    destruct H as [H | H]; [subst; rewrite seqb_refl in E; discriminate | exact H].
  Qed.
  Lemma aset_In_inv k v l k' v' :
    NoDup (map fst l) -> In (k', v') (aset str_eqb k v l) -> (k' = k /\ v' = v) \/ (k' <> k /\ In (k', v') l).
  Proof.
    induction l as [|[k0 v0] l IH]; cbn [aset map fst]; intros Hn H.
    - destruct H as [H | []]. injection H as <- <-. left. split; reflexivity.
    - inversion Hn as [|? ? Hk Hn']; subst. destruct (str_eqb k k0) eqn:E.
      + apply seqb_eq in E. subst k0. destruct H as [H | H].
        * injection H as <- <-. left. split; reflexivity.
        * right. split; [|right; exact H]. intros ->. apply Hk. apply (in_map fst) in H. exact H.
      + destruct H as [H | H].
        * injection H as <- <-. right. split; [|left; reflexivity]. intros ->. rewrite seqb_refl in E. discriminate.
        * destruct (IH Hn' H) as [L | [L1 L2]]; [left; exact L | right; split; [exact L1 | right; exact L2]].
  Qed.
  Lemma aset_In_same k v l : In k (map fst l) -> In (k, v) (aset str_eqb k v l).
  Proof.
    induction l as [|[k' v'] l IH]; cbn [aset map fst]; intros H; [destruct H|].
    destruct (str_eqb k k') eqn:E.
    - apply seqb_eq in E. subst. left. reflexivity.
    - right. apply IH. destruct H as [H | H]; [subst; rewrite seqb_refl in E; discriminate | exact H].
  Qed.
  Lemma aset_In_other k v l k' v' : k' <> k -> In (k', v') l -> In (k', v') (aset str_eqb k v l).
  Proof.
    induction l as [|[k0 v0] l IH]; cbn [aset]; intros Hne H; [destruct H|].
    destruct (str_eqb k k0) eqn:E.
    - apply seqb_eq in E. subst k0. destruct H as [H | H]; [injection H as -> ->; contradiction | right; exact H].
    - destruct H as [H | H]; [left; exact H | right; apply IH; assumption].
  Qed.
  Lemma alookup_NoDup_In k v l : NoDup (map fst l) -> In (k, v) l -> alookup str_eqb k l = Some v.
  Proof.
    induction l as [|[k0 v0] l IH]; cbn [alookup map fst]; intros Hn H; [destruct H|].
    inversion Hn as [|? ? Hk Hn']; subst. destruct H as [H | H].
    - injection H as -> ->. rewrite seqb_refl. reflexivity.
    - destruct (str_eqb k k0) eqn:E; [|apply IH; assumption].
      apply seqb_eq in E. subst. exfalso. apply Hk. apply (in_map fst) in H. exact H.
  Qed.
  Lemma In_keys_lookup k l : In k (map fst l) -> exists v, alookup str_eqb k l = Some v /\ In (k, v) l.
  Proof.
    induction l as [|[k0 v0] l IH]; cbn [alookup map fst]; intros H; [destruct H|].
    destruct (str_eqb k k0) eqn:E.
    - apply seqb_eq in E. subst. exists v0. split; [reflexivity | left; reflexivity].
    - destruct H as [H | H]; [subst; rewrite seqb_refl in E; discriminate|].
      destruct (IH H) as (v & L & Hin). exists v. split; [exact L | right; exact Hin].
  Qed.
End ASet.

Lemma count_z_cons_other nm k counts al : a_name al <> nm -> count_z ((nm, k) :: counts) al = count_z counts al.
Proof. intros H. unfold count_z. cbn [alookup]. rewrite (seqb_neq _ _ H). reflexivity. Qed.
Lemma count_z_cons_same k counts al : count_z ((a_name al, k) :: counts) al = k.
Proof. unfold count_z. cbn [alookup]. rewrite seqb_refl. reflexivity. Qed.

Lemma cfg_count_cons al t k counts cfg :
  ~ In (a_name al) (map a_name t) ->
  cfg_count (al :: t) ((a_name al, k) :: counts) cfg = (if str_eqb (a_cfg al) cfg then k else 0) + cfg_count t counts cfg.
Proof.
  intros Hn. unfold cfg_count. cbn [filter].
  assert (E : map (count_z ((a_name al, k) :: counts)) (filter (fun x => str_eqb (a_cfg x) cfg) t) =
              map (count_z counts) (filter (fun x => str_eqb (a_cfg x) cfg) t)).
  { apply map_ext_in. intros x Hx. apply filter_In in Hx as [Hx _]. apply count_z_cons_other.
    intros E. apply Hn. rewrite <- E. apply in_map. exact Hx. }
  destruct (str_eqb (a_cfg al) cfg); cbn [map zsum fold_right]; rewrite E; [rewrite count_z_cons_same|]; reflexivity.
Qed.
Lemma cfg_count_nonneg cs counts cfg : (forall kv, In kv counts -> 0 <= snd kv) -> 0 <= cfg_count cs counts cfg.
Proof.
  intros H. unfold cfg_count. apply zsum_nonneg. apply Forall_forall. intros z Hz. apply in_map_iff in Hz as (al & <- & _).
  unfold count_z. destruct (alookup str_eqb (a_name al) counts) as [v|] eqn:L; [|lia].
  apply (alookup_In str_eqb seqb_eq) in L. apply (H _ L).
Qed.
Lemma in_zupto k r : 0 <= k <= r -> In k (zupto r).
Proof.
  intros H. unfold zupto. apply in_map_iff. exists (Z.to_nat k). split; [lia|]. apply in_seq. lia.
Qed.
Lemma zupto_nonneg k r : In k (zupto r) -> 0 <= k.
Proof. unfold zupto. intros H. apply in_map_iff in H as (j & <- & _). lia. Qed.

Lemma enum_counts_complete cs : forall b counts,
  NoDup (map a_name cs) -> NoDup (map fst b) ->
  map fst counts = map a_name cs ->
  (forall kv, In kv counts -> 0 <= snd kv) ->
  (forall al, In al cs -> In (a_cfg al) (map fst b)) ->
  (forall cfg n, In (cfg, n) b -> cfg_count cs counts cfg = n) ->
  In counts (enum_counts cs b).
Proof.
  induction cs as [|al t IH]; intros b counts Hn Hb Hal Hpos Hcfg Hsum.
  - destruct counts; [|discriminate]. cbn [enum_counts].
    assert (E : forallb (fun kv : str * Z => snd kv =? 0) b = true).
    { apply forallb_forall. intros [cfg n] Hin. cbn [snd]. apply Z.eqb_eq. rewrite <- (Hsum cfg n Hin). reflexivity. }
    rewrite E. left. reflexivity.
  - destruct counts as [|[nm k] counts']; [discriminate|]. cbn [map fst] in Hal. injection Hal as -> Hal'.
    inversion Hn as [|? ? Hnot Hn']; subst. cbn [enum_counts].
    destruct (In_keys_lookup (a_cfg al) b (Hcfg al (or_introl eq_refl))) as (r & L & Hr).
    unfold budget_of. rewrite L.
    pose proof (Hsum _ _ Hr) as S. rewrite (cfg_count_cons al t k counts' (a_cfg al) Hnot), seqb_refl in S.
    assert (Hpos' : forall kv, In kv counts' -> 0 <= snd kv) by (intros kv Hkv; apply Hpos; right; exact Hkv).
    pose proof (cfg_count_nonneg t counts' (a_cfg al) Hpos') as P.
    assert (Hk : 0 <= k) by (apply (Hpos (a_name al, k)); left; reflexivity).
    apply in_flat_map. exists k. split; [apply in_zupto; lia|].
    apply in_map. apply IH.
    + exact Hn'.
    + rewrite aset_keys'; [exact Hb | apply (in_map fst) in Hr; exact Hr].
    + exact Hal'.
    + exact Hpos'.
    + intros x Hx. rewrite aset_keys'; [apply Hcfg; right; exact Hx | apply (in_map fst) in Hr; exact Hr].
    + intros cfg n Hin. apply (aset_In_inv _ _ _ _ _ Hb) in Hin as [[-> ->] | [Hne Hin]].
      * lia.
      * pose proof (Hsum _ _ Hin) as S'. rewrite (cfg_count_cons al t k counts' cfg Hnot) in S'.
        rewrite (seqb_neq (a_cfg al) cfg) in S' by congruence. lia.
Qed.

Lemma enum_counts_sound cs : forall b counts,
  NoDup (map a_name cs) -> NoDup (map fst b) ->
  (forall al, In al cs -> In (a_cfg al) (map fst b)) ->
  In counts (enum_counts cs b) ->
  map fst counts = map a_name cs /\ (forall kv, In kv counts -> 0 <= snd kv) /\
  (forall cfg n, In (cfg, n) b -> cfg_count cs counts cfg = n).
Proof.
  induction cs as [|al t IH]; intros b counts Hn Hb Hcfg Hin.
  - cbn [enum_counts] in Hin. destruct (forallb (fun kv : str * Z => snd kv =? 0) b) eqn:E; [|destruct Hin].
    destruct Hin as [<- | []]. split; [reflexivity|]. split; [intros kv []|].
    intros cfg n Hcn. rewrite forallb_forall in E. specialize (E _ Hcn). cbn [snd] in E. apply Z.eqb_eq in E. subst. reflexivity.
  - inversion Hn as [|? ? Hnot Hn']; subst. cbn [enum_counts] in Hin.
    destruct (In_keys_lookup (a_cfg al) b (Hcfg al (or_introl eq_refl))) as (r & L & Hr).
    unfold budget_of in Hin. rewrite L in Hin.
    apply in_flat_map in Hin as (k & Hk & Hin). apply in_map_iff in Hin as (counts' & <- & Hin).
    assert (Hkeys : In (a_cfg al) (map fst b)) by (apply (in_map fst) in Hr; exact Hr).
    destruct (IH (aset str_eqb (a_cfg al) (r - k) b) counts' Hn') as (A1 & A2 & A3).
    + rewrite aset_keys'; assumption.
    + intros x Hx. rewrite aset_keys'; [apply Hcfg; right; exact Hx | exact Hkeys].
    + exact Hin.
    + split; [cbn [map fst]; rewrite A1; reflexivity|]. split.
      * intros kv [<- | Hkv]; [cbn [snd]; apply (zupto_nonneg k r Hk) | apply A2; exact Hkv].
      * intros cfg n Hcn. rewrite (cfg_count_cons al t k counts' cfg Hnot).
        destruct (str_eqb (a_cfg al) cfg) eqn:E.
        -- apply seqb_eq in E. subst cfg.
           assert (n = r) by (pose proof (alookup_NoDup_In _ _ _ Hb Hcn) as L'; rewrite L in L'; injection L' as ->; reflexivity).
           subst n. rewrite (A3 (a_cfg al) (r - k)); [lia | apply aset_In_same; exact Hkeys].
        -- rewrite (A3 cfg n); [lia|]. apply aset_In_other; [|exact Hcn]. intros ->. rewrite seqb_refl in E. discriminate.
Qed.

Lemma memb_filter (p : mut -> bool) m l : In m l -> memb mut_eqb m (filter p l) = p m.
Proof.
  intros Hm. destruct (p m) eqn:E.
  - apply (memb_In mut_eqb mut_eqb_eq). apply filter_In. split; assumption.
  - destruct (memb mut_eqb m (filter p l)) eqn:M; [|reflexivity].
    apply (memb_In mut_eqb mut_eqb_eq) in M. apply filter_In in M as [_ M]. rewrite M in E. discriminate.
Qed.
Lemma memb_false_notin m l : ~ In m l -> memb mut_eqb m l = false.
Proof. intros H. destruct (memb mut_eqb m l) eqn:M; [|reflexivity]. apply (memb_In mut_eqb mut_eqb_eq) in M. contradiction. Qed.
Lemma amem_keys {V} k (l : list (str * V)) : amem str_eqb k l = true -> In k (map fst l).
Proof.
  unfold amem. destruct (alookup str_eqb k l) as [v|] eqn:L; [|discriminate]. intros _.
  apply (alookup_In str_eqb seqb_eq) in L. apply (in_map fst) in L. exact L.
Qed.

Section EnumAll.
  Variables (cands : list allele) (struct : list (str * Z)) (fm : list mut) (obsf : mut -> Q)
            (hcov : str -> Z -> bool) (pen unit : Q).
  Hypothesis names_nodup : NoDup (map a_name cands).
  Hypothesis struct_nodup : NoDup (map fst struct).
  Hypothesis cands_in_struct : forall al, In al cands -> amem str_eqb (a_cfg al) struct = true.
  Notation enum_all := (enum_all cands struct fm obsf hcov pen unit).
  Notation uncarried := (uncarried cands fm).

  Lemma cfg_keys al : In al cands -> In (a_cfg al) (map fst struct).
  Proof. intros H. apply amem_keys. apply cands_in_struct. exact H. Qed.

  (* everything enumerated is admissible and carries its own score *)
  Theorem enum_all_sound s counts nv :
    In (s, counts, nv) enum_all ->
    admissible cands struct fm counts nv = true /\ map fst counts = map a_name cands /\ nv = uncarried counts /\
    s = score cands fm obsf hcov pen unit (cnt_of counts) (nov_of nv).
  Proof.
    unfold MajorSpec.enum_all. intros H. apply in_flat_map in H as (cs & Hcs & H). cbv zeta in H.
    destruct (one_per_site fm (uncarried cs)) eqn:O; [|destruct H]. destruct H as [H | []]. injection H as <- <- <-.
    destruct (enum_counts_sound cands struct cs names_nodup struct_nodup cfg_keys Hcs) as (A1 & A2 & A3).
    split; [|auto]. unfold admissible. repeat (apply andb_true_iff; split).
    - apply forallb_forall. intros al _. apply Z.leb_le. unfold count_z.
      destruct (alookup str_eqb (a_name al) cs) as [z|] eqn:L; [|lia]. apply (alookup_In str_eqb seqb_eq) in L. apply (A2 _ L).
    - apply forallb_forall. intros [cfg n] Hin. cbn [fst snd]. apply Z.eqb_eq. apply A3. exact Hin.
    - apply forallb_forall. intros m Hm. unfold MajorSpec.uncarried. rewrite (memb_filter _ m fm Hm). apply eqb_reflx.
    - apply forallb_forall. intros m Hm. apply (memb_In mut_eqb mut_eqb_eq). unfold MajorSpec.uncarried in Hm.
      apply filter_In in Hm. apply Hm.
    - exact O.
  Qed.

  (* every admissible combination is enumerated (its novel set is the set of uncarried observed core variants) *)
  Theorem enum_all_complete counts novel :
    admissible cands struct fm counts novel = true -> map fst counts = map a_name cands ->
    In (score cands fm obsf hcov pen unit (cnt_of counts) (nov_of novel), counts, uncarried counts) enum_all /\
    (forall m, nov_of novel m = nov_of (uncarried counts) m).
  Proof.
    intros adm Hal. unfold admissible in adm.
    apply andb_true_iff in adm as [adm A5]. apply andb_true_iff in adm as [adm A4]. apply andb_true_iff in adm as [adm A3].
    apply andb_true_iff in adm as [A1 A2]. rewrite forallb_forall in A1, A2, A3, A4.
    assert (Hnd : NoDup (map fst counts)) by (rewrite Hal; exact names_nodup).
    assert (Hpos : forall kv, In kv counts -> 0 <= snd kv).
    { intros [nm k] Hkv. cbn [snd]. assert (Hnm : In nm (map a_name cands)) by (rewrite <- Hal; apply (in_map fst) in Hkv; exact Hkv).
      apply in_map_iff in Hnm as (al & <- & Hal'). specialize (A1 al Hal'). apply Z.leb_le in A1.
      unfold count_z in A1. rewrite (alookup_NoDup_In _ _ _ Hnd Hkv) in A1. exact A1. }
    assert (Hin : In counts (enum_counts cands struct)).
    { apply enum_counts_complete; try assumption; [exact cfg_keys|].
      intros cfg n Hcn. specialize (A2 _ Hcn). cbn [fst snd] in A2. apply Z.eqb_eq. exact A2. }
    assert (Hnov : forall m, memb mut_eqb m novel = memb mut_eqb m (uncarried counts)).
    { intros m. destruct (memb mut_eqb m fm) eqn:M.
      - apply (memb_In mut_eqb mut_eqb_eq) in M. unfold MajorSpec.uncarried. rewrite (memb_filter _ m fm M).
        apply eqb_prop. apply A3. exact M.
      - assert (~ In m fm) by (intros H; apply (memb_In mut_eqb mut_eqb_eq) in H; rewrite H in M; discriminate).
        assert (N1 : ~ In m novel) by (intros Hm; specialize (A4 m Hm); rewrite A4 in M; discriminate).
        assert (N2 : ~ In m (uncarried counts)).
        { unfold MajorSpec.uncarried. intros Hm. apply filter_In in Hm. apply H. apply Hm. }
        rewrite (memb_false_notin _ _ N1), (memb_false_notin _ _ N2). reflexivity. }
    assert (Hnv : forall m, nov_of novel m = nov_of (uncarried counts) m) by (intros m; unfold nov_of; rewrite (Hnov m); reflexivity).
    split; [|exact Hnv].
    unfold MajorSpec.enum_all. apply in_flat_map. exists counts. split; [exact Hin|]. cbv zeta.
    assert (O : one_per_site fm (uncarried counts) = true).
    { unfold one_per_site in *. rewrite forallb_forall in *. intros pos Hp. specialize (A5 pos Hp).
      rewrite (filter_ext _ (fun m => memb mut_eqb m novel)); [exact A5|]. intros m. symmetry. apply Hnov. }
    rewrite O. left. f_equal. f_equal.
    unfold score, fit, penalty, any_novel.
    rewrite (map_ext (fun m => Qabs' (obsf m - carriers cands (cnt_of counts) m - nov_of (uncarried counts) m))
                     (fun m => Qabs' (obsf m - carriers cands (cnt_of counts) m - nov_of novel m)))
      by (intros m; rewrite (Hnv m); reflexivity).
    rewrite (existsb_ext' (fun m => Qeqb (nov_of (uncarried counts) m) 1) (fun m => Qeqb (nov_of novel m) 1))
      by (intros m; rewrite (Hnv m); reflexivity).
    rewrite (map_ext (nov_of (uncarried counts)) (nov_of novel)) by (intros m; rewrite (Hnv m); reflexivity).
    reflexivity.
  Qed.
End EnumAll.

(* minimum of a list *)
Lemma Qmin'_le_l x y : (Qmin' x y <= x)%Q.
Proof. unfold Qmin'. destruct (Qle_bool x y) eqn:E; [lra|].
  assert (~ (x <= y)%Q) by (intros H; apply Qle_bool_iff in H; rewrite H in E; discriminate). lra. Qed.
Lemma Qmin'_le_r x y : (Qmin' x y <= y)%Q.
Proof. unfold Qmin'. destruct (Qle_bool x y) eqn:E; [apply Qle_bool_iff in E; exact E | lra]. Qed.
Lemma qmin_spec l b : qmin l = Some b -> (forall x, In x l -> (b <= x)%Q) /\ In b l.
Proof.
  revert b. induction l as [|x l IH]; cbn [qmin]; intros b H; [discriminate|].
  destruct (qmin l) as [y|] eqn:E.
  - injection H as <-. destruct (IH y eq_refl) as [H1 H2]. split.
    + intros z [<- | Hz]; [apply Qmin'_le_l|]. specialize (H1 z Hz). pose proof (Qmin'_le_r x y). lra.
    + unfold Qmin'. destruct (Qle_bool x y); [left; reflexivity | right; exact H2].
  - injection H as <-. destruct l; [|cbn [qmin] in E; destruct (qmin l); discriminate].
    split; [intros z [<- | []]; lra | left; reflexivity].
Qed.
Lemma qmin_none l : qmin l = None -> l = [].
Proof. destruct l as [|x l]; [reflexivity|]. cbn [qmin]. destruct (qmin l); discriminate. Qed.

Lemma filter_none {A} (p : A -> bool) l : (forall x, In x l -> p x = false) -> filter p l = [].
Proof.
  induction l as [|x l IH]; intros H; [reflexivity|]. cbn [filter]. rewrite (H x (or_introl eq_refl)).
  apply IH. intros y Hy. apply H. right. exact Hy.
Qed.

(* ---- what has to be reported: the admissible combinations whose score is below the gap threshold ---- *)
Section Run.
  Variables (c : consts) (I : inst).
  Hypothesis wf : inst_wf I = true.
  Notation cands := (candidates I).
  Notation fm := (func_muts I).
  Notation struct := (i_struct I).

  Lemma wf_struct_pos kv : In kv struct -> 0 < snd kv.
  Proof.
    unfold inst_wf in wf. repeat (apply andb_true_iff in wf as [wf ?]). rewrite forallb_forall in H0. intros H'.
    apply Z.ltb_lt. apply H0. exact H'.
  Qed.

  (* the early exit of estimate_major loses nothing: then no admissible combination exists *)
  Theorem early_exit_none counts novel : early_exit I = true -> admissible cands struct fm counts novel = false.
  Proof.
    unfold early_exit, early_exit_c. intros H. apply existsb_exists in H as ([cfg n] & Hin & H). cbn [fst] in H.
    apply negb_true_iff in H.
    assert (E : filter (fun al => str_eqb (a_cfg al) cfg) cands = []).
    { apply filter_none. intros al Hal. apply (existsb_false _ _ H al Hal). }
    unfold admissible. destruct (forallb (fun al => 0 <=? count_z counts al) cands); [|reflexivity]. cbn [andb].
    assert (F2 : forallb (fun kv : str * Z => cfg_count cands counts (fst kv) =? snd kv) struct = false).
    { destruct (forallb (fun kv : str * Z => cfg_count cands counts (fst kv) =? snd kv) struct) eqn:F; [|reflexivity].
      rewrite forallb_forall in F. specialize (F _ Hin). cbn [fst snd] in F. unfold cfg_count in F. rewrite E in F.
      cbn [map zsum fold_right] in F. apply Z.eqb_eq in F. pose proof (wf_struct_pos _ Hin) as P. cbn [snd] in P. lia. }
    rewrite F2. reflexivity.
  Qed.

  Theorem all_combs_sound s counts nv :
    In (s, counts, nv) (all_combs c I) ->
    admissible cands struct fm counts nv = true /\ map fst counts = map a_name cands /\
    s = score cands fm (obs_cn I) (hascov I) (i_major_novel I) (c_major_novel_unit c) (cnt_of counts) (nov_of nv).
  Proof.
    unfold all_combs. cbv zeta. fold (candidates I). fold (early_exit I). destruct (early_exit I); [intros []|].
    intros H. apply (enum_all_sound cands struct fm (obs_cn I) (hascov I) (i_major_novel I) (c_major_novel_unit c)
                       (cand_names_nodup I wf) (wf_struct I wf) (cand_in_struct I)) in H.
    destruct H as (H1 & H2 & _ & H4). auto.
  Qed.
  Theorem all_combs_complete counts novel :
    admissible cands struct fm counts novel = true -> map fst counts = map a_name cands ->
    In (score cands fm (obs_cn I) (hascov I) (i_major_novel I) (c_major_novel_unit c) (cnt_of counts) (nov_of novel),
        counts, uncarried cands fm counts) (all_combs c I) /\
    (forall m, nov_of novel m = nov_of (uncarried cands fm counts) m).
  Proof.
    intros adm Hal. unfold all_combs. cbv zeta. fold (candidates I). fold (early_exit I).
    destruct (early_exit I) eqn:E; [rewrite (early_exit_none counts novel E) in adm; discriminate|].
    apply (enum_all_complete cands struct fm (obs_cn I) (hascov I) (i_major_novel I) (c_major_novel_unit c)
             (cand_names_nodup I wf) (wf_struct I wf) (cand_in_struct I) counts novel adm Hal).
  Qed.

  (* optimal: the best score is attained and no admissible combination scores lower;
     complete: exactly the combinations below the threshold are to be reported (flag = strictly inside by more than [band]) *)
  Theorem run_spec x must :
    In (x, must) (run c I) <->
    In x (all_combs c I) /\
    exists best, qmin (map sc (all_combs c I)) = Some best /\
                 Qltb (sc x) (threshold c I best + band) = true /\ must = Qltb (sc x) (threshold c I best - band).
  Proof.
    unfold run, run_of. destruct (qmin (map sc (all_combs c I))) as [best|] eqn:E.
    - cbv zeta. rewrite in_map_iff. split.
      + intros (y & Ey & Hy). injection Ey as -> <-. apply filter_In in Hy as [H1 H2].
        split; [exact H1|]. exists best. auto.
      + intros (H1 & b & Eb & H2 & ->). injection Eb as <-. exists x. split; [reflexivity|]. apply filter_In. auto.
    - split; [intros [] | intros (_ & b & Eb & _); discriminate].
  Qed.
  Theorem best_is_minimum best :
    qmin (map sc (all_combs c I)) = Some best ->
    (forall x, In x (all_combs c I) -> (best <= sc x)%Q) /\ exists x, In x (all_combs c I) /\ sc x = best.
  Proof.
    intros H. apply qmin_spec in H as [H1 H2]. split.
    - intros x Hx. apply H1. apply in_map. exact Hx.
    - apply in_map_iff in H2 as (x & E & Hx). exists x. auto.
  Qed.
End Run.

(* ---- C15: what has to be reported uses candidate alleles and observed core variants only, all of them supported ---- *)
Section RunSupport.
  Variables (c : consts) (I : inst).
  Hypothesis wf : inst_wf I = true.

  Theorem run_uses_supported x must :
    In (x, must) (run c I) ->
    (forall nm k, In (nm, k) (snd (fst x)) -> exists al, In al (candidates I) /\ a_name al = nm /\
        forall m, In m (a_muts al) -> supported (i_par I) (pcn I) (i_cover I) m = true) /\
    (forall m, In m (snd x) -> supported (i_par I) (pcn I) (i_cover I) m = true).
  Proof.
    intros H. apply run_spec in H as [H _]. destruct x as [[s counts] nv]. cbn [fst snd].
    apply (all_combs_sound c I wf) in H as (adm & Hal & _). split.
    - intros nm k Hin. assert (Hnm : In nm (map a_name (candidates I))) by (rewrite <- Hal; apply (in_map fst) in Hin; exact Hin).
      apply in_map_iff in Hnm as (al & E & Hc). exists al. split; [exact Hc|]. split; [exact E|].
      intros m Hm. apply (called_core_supported I wf al m Hc Hm).
    - intros m Hm. apply (novel_supported I wf).
      unfold admissible in adm. apply andb_true_iff in adm as [adm _]. apply andb_true_iff in adm as [_ A4].
      rewrite forallb_forall in A4. apply (memb_In mut_eqb mut_eqb_eq). apply A4. exact Hm.
  Qed.
End RunSupport.

(* ==================================================================================================
   The binaries of a feasible point are determined by its allele counts
   (so the exclusion cuts of solutions() remove exactly one combination each, and each combination is yielded once)
   ================================================================================================== *)
Lemma filter_len_le {A} (p : A -> bool) l : (length (filter p l) <= length l)%nat.
Proof. induction l as [|x l IH]; cbn [filter length]; [lia|]. destruct (p x); cbn [length]; lia. Qed.
Lemma filter_all_id {A} (p : A -> bool) l : (forall x, In x l -> p x = true) -> filter p l = l.
Proof.
  induction l as [|x l IH]; intros H; [reflexivity|]. cbn [filter]. rewrite (H x (or_introl eq_refl)). f_equal.
  apply IH. intros y Hy. apply H. right. exact Hy.
Qed.
Lemma prefix_form (f : nat -> Q) n :
  (forall j, (j < n)%nat -> is_bin (f j)) -> (forall j, (S j < n)%nat -> (f (S j) <= f j)%Q) ->
  forall j, (j < n)%nat ->
    (f j == if (j <? length (filter (fun i => Qeqb (f i) 1) (seq 0 n)))%nat then 1 else 0)%Q.
Proof.
  induction n as [|n IH]; intros Hb Hm j Hj; [lia|].
  assert (Hb' : forall i, (i < n)%nat -> is_bin (f i)) by (intros i Hi; apply Hb; lia).
  assert (Hm' : forall i, (S i < n)%nat -> (f (S i) <= f i)%Q) by (intros i Hi; apply Hm; lia).
  assert (Hle : (length (filter (fun i => Qeqb (f i) 1) (seq 0 n)) <= n)%nat).
  { etransitivity; [apply filter_len_le|]. rewrite seq_length. lia. }
  rewrite seq_S, filter_app, app_length. cbn [plus filter].
  destruct (Hb n (Nat.lt_succ_diag_r n)) as [H0 | H1].
  - assert (E : Qeqb (f n) 1 = false) by (apply Qeqb_false; lra). rewrite E. cbn [length]. rewrite Nat.add_0_r.
    destruct (Nat.eq_dec j n) as [-> | Hne].
    + assert (X : (n <? length (filter (fun i => Qeqb (f i) 1) (seq 0 n)))%nat = false) by (apply Nat.ltb_ge; exact Hle).
      rewrite X. exact H0.
    + apply IH; [exact Hb' | exact Hm' | lia].
  - assert (E : Qeqb (f n) 1 = true) by (apply Qeqb_true; exact H1). rewrite E. cbn [length].
    (* all earlier selectors are 1 as well *)
    assert (All : forall d i, (i + d = n)%nat -> (f i == 1)%Q).
    { induction d as [|d IHd]; intros i Hi.
      - replace i with n by lia. exact H1.
      - assert (F1 : (f (S i) == 1)%Q) by (apply IHd; lia).
        pose proof (Hm i ltac:(lia)) as M. destruct (Hb i ltac:(lia)) as [A0 | A1]; [lra | exact A1]. }
    assert (Full : length (filter (fun i => Qeqb (f i) 1) (seq 0 n)) = n).
    { rewrite filter_all_id; [apply seq_length|]. intros i Hi. apply in_seq in Hi.
      apply Qeqb_true. apply (All (n - i)%nat). lia. }
    rewrite Full. assert (X : (j <? n + 1)%nat = true) by (apply Nat.ltb_lt; lia). rewrite X.
    apply (All (n - j)%nat). lia.
Qed.

Section Determined.
  Variables (cands : list allele) (struct : list (str * Z)) (fm : list mut) (obsf : mut -> Q)
            (hcov : str -> Z -> bool) (pen unit : Q).
  Notation G := (gen_core cands struct fm obsf hcov pen unit).

  (* the copy selectors of a feasible point are in prefix form: copy j is selected iff j < number of selected copies *)
  Lemma selectors_prefix a : feasible G a -> forall al j, In al cands -> (j < ncopies struct al)%nat ->
    (a (kA (a_name al) (Z.of_nat j)) == if Z.of_nat j <? zcount struct a al then 1 else 0)%Q.
  Proof.
    intros F al j Hal Hj.
    pose proof (prefix_form (fun i => a (kA (a_name al) (Z.of_nat i))) (ncopies struct al)) as P. cbv beta in P.
    rewrite P; [| | |exact Hj].
    - unfold zcount. set (L := length _).
      destruct (j <? L)%nat eqn:E1, (Z.of_nat j <? Z.of_nat L) eqn:E2; try reflexivity.
      + apply Nat.ltb_lt in E1. apply Z.ltb_ge in E2. lia.
      + apply Nat.ltb_ge in E1. apply Z.ltb_lt in E2. lia.
    - intros i Hi. apply (bin_A cands struct fm obsf hcov pen unit a F (al, Z.of_nat i)). apply in_sels; assumption.
    - intros i Hi.
      assert (R : In (mk [(1%Q, vA (al, Z.of_nat (S i))); ((-1)%Q, kA (a_name al) (Z.of_nat (S i) - 1))] RLe 0%Q)
                     (rows cands struct fm obsf hcov)).
      { apply in_cord. unfold rows_cord. apply in_flat_map. exists (al, Z.of_nat (S i)). split; [apply in_sels; assumption|].
        cbn [fst snd]. assert (X : 0 <? Z.of_nat (S i) = true) by (apply Z.ltb_lt; lia). rewrite X. left. reflexivity. }
      apply (row_sat cands struct fm obsf hcov pen unit a F) in R. unfold sat_row, mk in R. cbn [r_rel r_lin r_rhs eval_lin] in R.
      replace (Z.of_nat (S i) - 1) with (Z.of_nat i) in R by lia. unfold vA in R. cbn [fst snd] in R. lra.
  Qed.

  Lemma xor_one a m : feasible G a -> In m fm -> (a (kXOR m) == 1)%Q.
  Proof.
    intros F Hm.
    assert (R5 : In (mk [(1%Q, kXOR m)] RGe 1%Q) (rows cands struct fm obsf hcov))
      by (apply (in_corxor cands struct fm obsf hcov _ m Hm); apply in_or_app; right; do 4 right; left; reflexivity).
    apply (row_sat cands struct fm obsf hcov pen unit a F) in R5. unfold sat_row, mk in R5. cbn [r_rel r_lin r_rhs eval_lin] in R5.
    destruct (bin_XOR cands struct fm obsf hcov pen unit a F m Hm) as [H0 | H1]; lra.
  Qed.

  Variables a b : asg.
  Hypothesis Fa : feasible G a.
  Hypothesis Fb : feasible G b.
  Hypothesis same_counts : forall al, In al cands -> zcount struct a al = zcount struct b al.

  Lemma same_A sl : In sl (sels cands struct) -> (a (vA sl) == b (vA sl))%Q.
  Proof.
    intros Hs. pose proof (sels_inv cands struct sl Hs) as (Hal & j & Ej & Hj). destruct sl as [al z]. cbn [fst snd] in *. subst z.
    unfold vA. cbn [fst snd]. rewrite (selectors_prefix a Fa al j Hal Hj), (selectors_prefix b Fb al j Hal Hj), (same_counts al Hal).
    reflexivity.
  Qed.
  Lemma same_N m : In m fm -> (a (kN m) == b (kN m))%Q.
  Proof.
    intros Hm.
    destruct (novel_xor_carried cands struct fm obsf hcov pen unit a Fa m Hm) as [[Na Ha] | [Na (sl & Hs & Ea)]].
    - assert (Nb : (b (kN m) == 1)%Q).
      { apply (novel_iff_uncarried cands struct fm obsf hcov pen unit b Fb m Hm). intros sl Hs.
        rewrite <- (same_A sl (carr_sel_sels cands struct m sl Hs)). apply Ha. exact Hs. }
      lra.
    - assert (Nb : (b (kN m) == 0)%Q).
      { apply (carried_iff_not_novel cands struct fm obsf hcov pen unit b Fb m Hm). exists sl. split; [exact Hs|].
        rewrite <- (same_A sl (carr_sel_sels cands struct m sl Hs)). exact Ea. }
      lra.
  Qed.

  (* ---- every binary variable of the model takes the same value in both points ---- *)
  Theorem binaries_determined k : In k (binaries G) -> (a k == b k)%Q.
  Proof.
    unfold binaries. intros H. apply in_map_iff in H as ([k' kd] & E & H). cbn [fst] in E. subst k'.
    apply filter_In in H as [H Hk]. cbn [snd] in Hk. destruct kd; try discriminate.
    cbn [lp_vars gen_core] in H. unfold vars in H.
    repeat (apply in_app_or in H as [H | H]).
    - apply in_map_iff in H as (sl & E & Hs). injection E as <-. apply same_A. exact Hs.
    - apply in_map_iff in H as (m & E & _). discriminate.
    - apply in_map_iff in H as (m & E & Hm). injection E as <-. apply same_N. exact Hm.
    - apply in_map_iff in H as (m & E & _). discriminate.
    - apply in_flat_map in H as (m & Hm & [E | [E | []]]); injection E as <-.
      + pose proof (xor_fact cands struct fm obsf hcov pen unit a Fa m Hm). pose proof (xor_fact cands struct fm obsf hcov pen unit b Fb m Hm).
        pose proof (same_N m Hm). lra.
      + rewrite (xor_one a m Fa Hm), (xor_one b m Fb Hm). reflexivity.
    - unfold abssum_vars in H. apply in_map_iff in H as (e & E & _). discriminate.
    - destruct H as [E | []]. injection E as <-.
      rewrite (novel_flag cands struct fm obsf hcov pen unit a Fa), (novel_flag cands struct fm obsf hcov pen unit b Fb).
      unfold any_novel. rewrite (existsb_ext_in (fun m => Qeqb (a (kN m)) 1) (fun m => Qeqb (b (kN m)) 1)); [reflexivity|].
      intros m Hm. apply Qeqb_compat. apply same_N. exact Hm.
  Qed.
  (* hence the same active set: what solutions() yields and cuts on *)
  Theorem active_determined : active G a = active G b.
  Proof.
    unfold active. apply filter_ext_in. intros k Hk. apply Qeqb_compat. apply binaries_determined. exact Hk.
  Qed.
End Determined.
