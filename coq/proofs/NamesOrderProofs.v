(* NamesOrderProofs.v — the names aldy prints for a gene copy do not depend on the ORDER in which the copy's added / missing
   variants are held (solutions.py: every printer goes through sorted(...)); the order of those lists is the order in which the
   minor stage's read-out met them, which follows set / dictionary iteration (hash seed).  For all lists of variants in which a
   (position, operation) pair denotes one variant: sorting two permutations gives the same list, hence equal major names, minor
   names, legacy names and SolvedAllele strings.  Needed for C14 (fresh process, different hash seed) and C11. *)
From Coq Require Import Lia ZifyBool Sorting.Sorted Permutation.
From Coq Require Import String.
From Aldy Require Import Base Consts NatSort Diplotype DiplotypeProofs SelectProofs.
Open Scope string_scope.
Import List. Import ListNotations.
Open Scope list_scope.
Open Scope Z_scope.

Lemma str_nlt_trans : forall a b c, str_ltb b a = false -> str_ltb c b = false -> str_ltb c a = false.
Proof.
  intros a b c H1 H2. destruct (str_ltb c a) eqn:E; [|reflexivity]. exfalso.
  destruct (str_ltb a b) eqn:F.
  - pose proof (str_ltb_trans _ _ _ E F). congruence.
  - assert (a = b) by (apply str_ltb_tricho; assumption). subst. congruence.
Qed.

Lemma var_ltb_asym : forall a b, var_ltb a b = true -> var_ltb b a = false.
Proof.
  intros a b. unfold var_ltb.
  destruct (v_pos a <? v_pos b) eqn:E1; destruct (v_pos b <? v_pos a) eqn:E2; try lia; try congruence; auto.
  apply str_ltb_asym.
Qed.

Lemma var_sle_trans : forall a b c, var_ltb b a = false -> var_ltb c b = false -> var_ltb c a = false.
Proof.
  intros a b c. unfold var_ltb.
  destruct (v_pos b <? v_pos a) eqn:E1; [discriminate|].
  destruct (v_pos a <? v_pos b) eqn:E2; destruct (v_pos c <? v_pos b) eqn:E3; try discriminate;
    destruct (v_pos b <? v_pos c) eqn:E4; destruct (v_pos c <? v_pos a) eqn:E5; destruct (v_pos a <? v_pos c) eqn:E6;
    try lia; try congruence; auto.
  intros H1 H2. eapply str_nlt_trans; eassumption.
Qed.

Lemma var_tricho : forall a b, var_ltb a b = false -> var_ltb b a = false -> v_pos a = v_pos b /\ v_op a = v_op b.
Proof.
  intros a b. unfold var_ltb.
  destruct (v_pos a <? v_pos b) eqn:E1; [discriminate|]. destruct (v_pos b <? v_pos a) eqn:E2; [discriminate|].
  intros H1 H2. split; [lia|]. apply str_ltb_tricho; assumption.
Qed.

Definition key_inj (l : list variant) : Prop :=
  forall x y, In x l -> In y l -> v_pos x = v_pos y -> v_op x = v_op y -> x = y.

Lemma key_inj_perm : forall l l', Permutation l l' -> key_inj l -> key_inj l'.
Proof.
  intros l l' P K x y Ix Iy. apply K; eapply Permutation_in; try eassumption; apply Permutation_sym; exact P.
Qed.

Local Notation vsle := (sle var_ltb).

Lemma vsle_trans : Relations_1.Transitive vsle.
Proof. intros a b c H1 H2. unfold sle in *. eapply var_sle_trans; eassumption. Qed.

(* two sorted lists with the same elements are the same list *)
Lemma sorted_perm_unique : forall l1 l2, Sorted vsle l1 -> Sorted vsle l2 -> Permutation l1 l2 -> key_inj l1 -> l1 = l2.
Proof.
  induction l1 as [|x t1 IH]; intros l2 S1 S2 P K.
  - apply Permutation_nil in P. subst. reflexivity.
  - destruct l2 as [|y t2]; [apply Permutation_sym, Permutation_nil in P; discriminate|].
    apply Sorted_StronglySorted in S1; [|exact vsle_trans]. apply Sorted_StronglySorted in S2; [|exact vsle_trans].
    inversion S1 as [|? ? SS1 F1]; subst. inversion S2 as [|? ? SS2 F2]; subst.
    assert (Exy : x = y).
    { assert (Iy : In y (x :: t1)) by (eapply Permutation_in; [apply Permutation_sym; exact P|left; reflexivity]).
      assert (Ix : In x (y :: t2)) by (eapply Permutation_in; [exact P|left; reflexivity]).
      destruct Iy as [Iy|Iy]; [exact Iy|]. destruct Ix as [Ix|Ix]; [symmetry; exact Ix|].
      pose proof (proj1 (Forall_forall _ _) F1 y Iy) as Lxy. pose proof (proj1 (Forall_forall _ _) F2 x Ix) as Lyx.
      unfold sle in Lxy, Lyx. destruct (var_tricho x y Lyx Lxy) as [Ep Eo].
      apply K; [left; reflexivity|right; exact Iy|exact Ep|exact Eo]. }
    subst y. f_equal. apply IH.
    + apply StronglySorted_Sorted. exact SS1.
    + apply StronglySorted_Sorted. exact SS2.
    + eapply Permutation_cons_inv. exact P.
    + intros a b Ia Ib. apply K; right; assumption.
Qed.

Theorem sort_vars_order_free : forall l l', Permutation l l' -> key_inj l -> sort_vars l = sort_vars l'.
Proof.
  intros l l' P K. unfold sort_vars. apply sorted_perm_unique.
  - apply isort_sorted. exact var_ltb_asym.
  - apply isort_sorted. exact var_ltb_asym.
  - rewrite !isort_perm. exact P.
  - eapply key_inj_perm; [apply Permutation_sym, isort_perm|exact K].
Qed.

(* the same copy, its variant lists held in another order *)
Definition same_copy (a a' : allele) : Prop :=
  a_major a = a_major a' /\ a_minor a = a_minor a' /\ a_alt a = a_alt a' /\
  Permutation (a_added a) (a_added a') /\ Permutation (a_missing a) (a_missing a') /\
  key_inj (a_added a) /\ key_inj (a_missing a).

Theorem names_order_free : forall a a', same_copy a a' ->
  (forall display, allele_major_name display a = allele_major_name display a') /\
  (forall legacy, allele_minor_name legacy a = allele_minor_name legacy a') /\
  allele_str a = allele_str a' /\ allele_major_repr a = allele_major_repr a'.
Proof.
  intros a a' (EM & Em & Ea & PA & PM & KA & KM).
  pose proof (sort_vars_order_free _ _ PA KA) as SA. pose proof (sort_vars_order_free _ _ PM KM) as SM.
  repeat split; intros; unfold allele_major_name, allele_minor_name, allele_str, allele_major_repr;
    rewrite ?SA, ?SM, ?EM, ?Em, ?Ea; reflexivity.
Qed.

(* non-vacuity: two additions held in either order *)
Example names_order_example :
  let v1 := {| v_pos := 120; v_op := s "A>C"; v_rs := s "rs1"; v_effect := Some (s "X1Y"); v_solo := None |} in
  let v2 := {| v_pos := 136; v_op := s "A>T"; v_rs := s "rs4"; v_effect := Some (s "X2Y"); v_solo := None |} in
  let a := {| a_major := s "1"; a_minor := s "1.001"; a_added := [v2; v1]; a_missing := []; a_alt := [] |} in
  let a' := {| a_major := s "1"; a_minor := s "1.001"; a_added := [v1; v2]; a_missing := []; a_alt := [] |} in
  same_copy a a' /\ allele_major_name false a = s "1+rs1+rs4".
Proof.
  cbv zeta. split; [|vm_compute; reflexivity].
  unfold same_copy. cbn [a_major a_minor a_alt a_added a_missing]. repeat split; auto using perm_swap.
  - intros x y [<-|[<-|[]]] [<-|[<-|[]]]; cbn; intros; try reflexivity; try lia.
  - intros x y [].
Qed.
