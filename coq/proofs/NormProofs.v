(* NormProofs.v — theorems about depth normalisation (C07). *)
From Coq Require Import Lqa Lia.
From Aldy Require Import Base Consts Norm.
Open Scope Z_scope.

(* ---------- range sums ---------- *)
Lemma range_sum_app d1 d2 s e : range_sum (d1 ++ d2) s e = range_sum d1 s e + range_sum d2 s e.
Proof.
  unfold range_sum, zsum. rewrite filter_app, map_app. induction (map snd (filter _ d1)) as [|x l IH]; cbn [app fold_right]; [reflexivity|].
  rewrite IH. lia.
Qed.
Lemma range_sum_nil s e : range_sum [] s e = 0.
Proof. reflexivity. Qed.
Lemma range_sum_scale k d s e : range_sum (scale k d) s e = k * range_sum d s e.
Proof.
  unfold range_sum, scale, zsum. induction d as [|[p n] d IH]; cbn [map filter fst snd fold_right]; [lia|].
  destruct (in_range s e p); cbn [map fold_right snd]; rewrite IH; lia.
Qed.

(* duplicating every read k times multiplies every range sum by k *)
Lemma range_sum_repeat (w : contrib) k s e : range_sum (flat_map (fun _ : unit => w) (repeat tt k)) s e = Z.of_nat k * range_sum w s e.
Proof.
  induction k as [|k IH]; cbn [repeat flat_map]; [rewrite range_sum_nil; lia|]. rewrite range_sum_app, IH. lia.
Qed.
Lemma pileup_repeat r k s e : range_sum (pileup (repeat r k)) s e = Z.of_nat k * range_sum (pileup [r]) s e.
Proof.
  unfold pileup. induction k as [|k IH]; cbn [repeat flat_map]; [rewrite range_sum_nil; lia|].
  rewrite range_sum_app, IH. cbn [flat_map]. rewrite app_nil_r. lia.
Qed.
Lemma pileup_app r1 r2 : pileup (r1 ++ r2) = pileup r1 ++ pileup r2.
Proof. unfold pileup. apply flat_map_app. Qed.
Lemma pileup_dup k reads s e : range_sum (pileup (dup k reads)) s e = Z.of_nat k * range_sum (pileup reads) s e.
Proof.
  unfold dup. induction reads as [|r reads IH]; cbn [flat_map]; [rewrite range_sum_nil; lia|].
  rewrite pileup_app, range_sum_app, IH, pileup_repeat.
  change (pileup (r :: reads)) with (pileup ([r] ++ reads)). rewrite pileup_app, range_sum_app. lia.
Qed.

(* ---------- results up to Qeq on the values ---------- *)
Definition same_values (l1 l2 : list ((Z * str) * Q)) : Prop :=
  Forall2 (fun a b => fst a = fst b /\ (snd a == snd b)%Q) l1 l2.
Definition nres_eq (a b : nres) : Prop :=
  match a, b with
  | NOk l1, NOk l2 => same_values l1 l2
  | NNeutralEmpty, NNeutralEmpty => True
  | NBadProfile, NBadProfile => True
  | _, _ => False
  end.

Lemma Qeqb_compat a b : (a == b)%Q -> Qeqb a 0 = Qeqb b 0.
Proof.
  intros H. unfold Qeqb. destruct (Qeq_bool a 0) eqn:E1, (Qeq_bool b 0) eqn:E2; try reflexivity.
  - apply Qeq_bool_iff in E1. rewrite H in E1. apply Qeq_bool_iff in E1. rewrite E1 in E2. discriminate.
  - apply Qeq_bool_iff in E2. rewrite <- H in E2. apply Qeq_bool_iff in E2. rewrite E2 in E1. discriminate.
Qed.
Lemma Qeqb_false a : Qeqb a 0 = false -> ~ (a == 0)%Q.
Proof. unfold Qeqb. intros H E. apply Qeq_bool_iff in E. rewrite E in H. discriminate. Qed.
Lemma Qeqb_true a : Qeqb a 0 = true -> (a == 0)%Q.
Proof. unfold Qeqb. apply Qeq_bool_iff. Qed.
Lemma inZ_nonzero z : z <> 0 -> ~ (inZ z == 0)%Q.
Proof. intros H E. unfold inZ, Qeq in E. cbn [inject_Z Qnum Qden] in E. lia. Qed.
Lemma inZ_mult a b : (inZ (a * b) == inZ a * inZ b)%Q.
Proof. unfold inZ. rewrite inject_Z_mult. reflexivity. Qed.

Lemma region_value_compat r1 r2 s1 s2 p : (r1 * inZ s1 == r2 * inZ s2)%Q -> (region_value r1 s1 p == region_value r2 s2 p)%Q.
Proof.
  intros H. unfold region_value. destruct (Qeqb (p / 2) 0); [reflexivity|]. unfold Qdiv. rewrite H. reflexivity.
Qed.

Section Normalise.
  Variables (nv : Q) (regions : list (nregion * Q)) (cn : Z * Z).

  (* rejection when the sample has no reads in the neutral region, whatever the profile and the gene reads are *)
  Theorem norm_rejects_empty_thm dg dn : range_sum dn (fst cn) (snd cn) = 0 -> normalize nv regions cn dg dn = NNeutralEmpty.
  Proof. intros H. unfold normalize. rewrite H. reflexivity. Qed.
  (* and only then or when the profile's neutral value is zero *)
  Theorem norm_ok_iff dg dn : (exists l, normalize nv regions cn dg dn = NOk l) <->
    (range_sum dn (fst cn) (snd cn) <> 0 /\ ~ (nv == 0)%Q).
  Proof.
    unfold normalize. destruct (range_sum dn (fst cn) (snd cn) =? 0) eqn:E.
    - apply Z.eqb_eq in E. split; [intros [l H]; discriminate|intros [H _]; contradiction].
    - apply Z.eqb_neq in E. pose proof (inZ_nonzero _ E) as Hz.
      destruct (Qeqb (nv / inZ (range_sum dn (fst cn) (snd cn))) 0) eqn:R.
      + apply Qeqb_true in R. split; [intros [l H]; discriminate|]. intros [_ Hn]. exfalso. apply Hn.
        assert (nv == nv / inZ (range_sum dn (fst cn) (snd cn)) * inZ (range_sum dn (fst cn) (snd cn)))%Q as -> by (field; exact Hz).
        rewrite R. ring.
      + apply Qeqb_false in R. split; [|intros _; eexists; reflexivity]. intros _. split; [exact E|].
        intros Hn. apply R. rewrite Hn. unfold Qdiv. ring.
  Qed.

  (* the result depends on the pileups only through their range sums *)
  Lemma normalize_ext dg dg' dn dn' :
    (forall s e, range_sum dg s e = range_sum dg' s e) -> (forall s e, range_sum dn s e = range_sum dn' s e) ->
    normalize nv regions cn dg dn = normalize nv regions cn dg' dn'.
  Proof.
    intros Hg Hn. unfold normalize. rewrite (Hn (fst cn) (snd cn)).
    destruct (range_sum dn' (fst cn) (snd cn) =? 0); [reflexivity|]. destruct (Qeqb _ 0); [reflexivity|].
    f_equal. apply map_ext. intros rp. rewrite Hg. reflexivity.
  Qed.

  (* sequencing k times deeper: every count multiplied by k > 0 leaves every region value unchanged (exact in Q) *)
  Theorem scale_invariant k dg dn : 0 < k ->
    nres_eq (normalize nv regions cn (scale k dg) (scale k dn)) (normalize nv regions cn dg dn).
  Proof.
    intros Hk. unfold normalize. rewrite range_sum_scale. set (ref := range_sum dn (fst cn) (snd cn)).
    destruct (ref =? 0) eqn:E.
    - apply Z.eqb_eq in E. rewrite E, Z.mul_0_r. cbn [Z.eqb nres_eq]. exact I.
    - apply Z.eqb_neq in E. assert (k * ref <> 0) as E2 by lia. apply Z.eqb_neq in E2. rewrite E2.
      apply Z.eqb_neq in E2. pose proof (inZ_nonzero _ E) as Hr. pose proof (inZ_nonzero k ltac:(lia)) as Hkq.
      assert (nv / inZ (k * ref) == nv / inZ ref / inZ k)%Q as Hratio.
      { rewrite inZ_mult. field. split; assumption. }
      rewrite (Qeqb_compat _ _ Hratio).
      assert (Qeqb (nv / inZ ref / inZ k) 0 = Qeqb (nv / inZ ref) 0) as ->.
      { destruct (Qeqb (nv / inZ ref) 0) eqn:R.
        - apply Qeqb_true in R. unfold Qeqb. apply Qeq_bool_iff. rewrite R. unfold Qdiv. ring.
        - apply Qeqb_false in R. unfold Qeqb. destruct (Qeq_bool (nv / inZ ref / inZ k) 0) eqn:R2; [|reflexivity].
          apply Qeq_bool_iff in R2. exfalso. apply R.
          assert (nv / inZ ref == nv / inZ ref / inZ k * inZ k)%Q as -> by (field; split; assumption). rewrite R2. ring. }
      destruct (Qeqb (nv / inZ ref) 0); cbn [nres_eq]; [exact I|].
      unfold same_values. induction regions as [|rp l IH]; cbn [map]; constructor; [|exact IH].
      cbn [fst snd]. split; [reflexivity|]. apply region_value_compat. rewrite range_sum_scale, Hratio, inZ_mult. field. split; assumption.
  Qed.

  (* only the gene reads multiplied: every region value is multiplied by k *)
  Theorem gene_linear k dg dn :
    match normalize nv regions cn (scale k dg) dn, normalize nv regions cn dg dn with
    | NOk l1, NOk l2 => Forall2 (fun a b => fst a = fst b /\ (snd a == inZ k * snd b)%Q) l1 l2
    | NNeutralEmpty, NNeutralEmpty => True
    | NBadProfile, NBadProfile => True
    | _, _ => False
    end.
  Proof.
    unfold normalize. destruct (range_sum dn (fst cn) (snd cn) =? 0); [exact I|]. destruct (Qeqb _ 0); [exact I|].
    induction regions as [|rp l IH]; cbn [map]; constructor; [|exact IH]. cbn [fst snd]. split; [reflexivity|].
    unfold region_value. rewrite range_sum_scale. destruct (Qeqb (snd rp / 2) 0); [ring|]. rewrite inZ_mult. unfold Qdiv. ring.
  Qed.
End Normalise.

(* the same statements for reads: every read duplicated k times *)
Theorem dup_invariant nv regions cn k rg rn : (0 < k)%nat ->
  nres_eq (normalize nv regions cn (pileup (dup k rg)) (pileup (dup k rn))) (normalize nv regions cn (pileup rg) (pileup rn)).
Proof.
  intros Hk.
  rewrite (normalize_ext nv regions cn (pileup (dup k rg)) (scale (Z.of_nat k) (pileup rg)) (pileup (dup k rn)) (scale (Z.of_nat k) (pileup rn))).
  - apply scale_invariant. lia.
  - intros s e. rewrite pileup_dup, range_sum_scale. reflexivity.
  - intros s e. rewrite pileup_dup, range_sum_scale. reflexivity.
Qed.

(* ---------- the sample is the profile's own sample ---------- *)
(* if the sample's eligible pileups agree with the profile's pileup on every region and on the neutral region
   (all reads eligible), every region the profile covers reads exactly 2, every other region 0 *)
Theorem self_is_two regions cn dp dg dn :
  (forall r, In r regions -> range_sum dg (nr_start r) (nr_end r) = range_sum dp (nr_start r) (nr_end r)) ->
  range_sum dn (fst cn) (snd cn) = range_sum dp (fst cn) (snd cn) ->
  range_sum dp (fst cn) (snd cn) <> 0 ->
  exists l, normalize_against regions cn dp dg dn = NOk l /\
            Forall2 (fun r e => fst e = (nr_gene r, nr_name r) /\
                                (if range_sum dp (nr_start r) (nr_end r) =? 0 then (snd e == 0)%Q else (snd e == 2)%Q)) regions l.
Proof.
  intros Hg Hn Hnz. unfold normalize_against, profile_of, normalize. cbn [fst snd]. rewrite Hn.
  set (ref := range_sum dp (fst cn) (snd cn)) in *. apply Z.eqb_neq in Hnz. rewrite Hnz. apply Z.eqb_neq in Hnz.
  pose proof (inZ_nonzero _ Hnz) as Hr.
  assert (inZ ref / inZ ref == 1)%Q as Hone by (field; exact Hr).
  assert (Qeqb (inZ ref / inZ ref) 0 = false) as ->.
  { unfold Qeqb. destruct (Qeq_bool (inZ ref / inZ ref) 0) eqn:E; [|reflexivity]. apply Qeq_bool_iff in E. rewrite Hone in E. discriminate. }
  eexists. split; [reflexivity|]. rewrite map_map. cbn [fst snd].
  induction regions as [|r l IH]; cbn [map]; constructor.
  - cbn [fst snd]. split; [reflexivity|]. rewrite (Hg r (or_introl eq_refl)). set (sr := range_sum dp (nr_start r) (nr_end r)).
    unfold region_value. destruct (sr =? 0) eqn:E.
    + apply Z.eqb_eq in E. rewrite E. destruct (Qeqb (inZ 0 / 2) 0); [reflexivity|]. unfold inZ, Qdiv. cbn [inject_Z]. ring.
    + apply Z.eqb_neq in E. pose proof (inZ_nonzero _ E) as Hs.
      assert (Qeqb (inZ sr / 2) 0 = false) as ->.
      { unfold Qeqb. destruct (Qeq_bool (inZ sr / 2) 0) eqn:E2; [|reflexivity]. apply Qeq_bool_iff in E2. exfalso. apply Hs.
        assert (inZ sr == inZ sr / 2 * 2)%Q as -> by field. rewrite E2. ring. }
      rewrite Hone. field. exact Hs.
  - apply IH. intros r' Hr'. apply Hg. right. exact Hr'.
Qed.

Corollary self_is_two_reads regions cn reads :
  range_sum (pileup reads) (fst cn) (snd cn) <> 0 ->
  exists l, normalize_against regions cn (pileup reads) (pileup reads) (pileup reads) = NOk l /\
            Forall2 (fun r e => fst e = (nr_gene r, nr_name r) /\
                                (if range_sum (pileup reads) (nr_start r) (nr_end r) =? 0 then (snd e == 0)%Q else (snd e == 2)%Q)) regions l.
Proof. intros H. apply self_is_two; [reflexivity|reflexivity|exact H]. Qed.

(* gene reads multiplied k times, neutral reads unchanged *)
Corollary dup_gene_linear nv regions cn k rg rn :
  match normalize nv regions cn (pileup (dup k rg)) (pileup rn), normalize nv regions cn (pileup rg) (pileup rn) with
  | NOk l1, NOk l2 => Forall2 (fun a b => fst a = fst b /\ (snd a == inZ (Z.of_nat k) * snd b)%Q) l1 l2
  | NNeutralEmpty, NNeutralEmpty => True
  | NBadProfile, NBadProfile => True
  | _, _ => False
  end.
Proof.
  rewrite (normalize_ext nv regions cn (pileup (dup k rg)) (scale (Z.of_nat k) (pileup rg)) (pileup rn) (pileup rn)).
  - apply gene_linear.
  - intros s e. rewrite pileup_dup, range_sum_scale. reflexivity.
  - reflexivity.
Qed.

(* ---------- C13: the normalised region depths do not depend on the coordinate system ----------
   [f] moves genome positions (another build: shifted; another strand: mirrored).  The second build has its own region table
   and neutral region; all that is needed is that a position lies in a region of the first build iff its image lies in the
   corresponding region of the second. *)
Definition move (f : Z -> Z) (d : contrib) : contrib := map (fun pc => (f (fst pc), snd pc)) d.

Lemma range_sum_move f d s e s' e' : (forall p, In p (map fst d) -> in_range s' e' (f p) = in_range s e p) ->
  range_sum (move f d) s' e' = range_sum d s e.
Proof.
  induction d as [|[p n] d IH]; intros H; [reflexivity|].
  assert (IH' : range_sum (move f d) s' e' = range_sum d s e) by (apply IH; intros q Hq; apply H; right; exact Hq).
  unfold range_sum, move in *. cbn [map filter fst snd].
  rewrite (H p (or_introl eq_refl)). destruct (in_range s e p); cbn [map snd]; [|exact IH'].
  unfold zsum in *. cbn [fold_right]. rewrite IH'. reflexivity.
Qed.

Theorem normalize_moved : forall (f : Z -> Z) nv (regions regions' : list (nregion * Q)) cn cn' dg dn,
  (forall p, In p (map fst dn) -> in_range (fst cn') (snd cn') (f p) = in_range (fst cn) (snd cn) p) ->
  Forall2 (fun rp rp' => nr_gene (fst rp') = nr_gene (fst rp) /\ nr_name (fst rp') = nr_name (fst rp) /\ snd rp' = snd rp /\
                         forall p, In p (map fst dg) ->
                           in_range (nr_start (fst rp')) (nr_end (fst rp')) (f p) = in_range (nr_start (fst rp)) (nr_end (fst rp)) p)
          regions regions' ->
  normalize nv regions' cn' (move f dg) (move f dn) = normalize nv regions cn dg dn.
Proof.
  intros f nv regions regions' cn cn' dg dn Hn Hr. unfold normalize.
  rewrite (range_sum_move f dn _ _ _ _ Hn).
  destruct (range_sum dn (fst cn) (snd cn) =? 0); [reflexivity|].
  destruct (Qeqb (nv / inZ (range_sum dn (fst cn) (snd cn))) 0); [reflexivity|]. f_equal.
  induction Hr as [|rp rp' l l' (H1 & H2 & H3 & H4) _ IH]; [reflexivity|]. cbn [map]. rewrite IH. f_equal.
  rewrite H1, H2, H3, (range_sum_move f dg _ _ _ _ H4). reflexivity.
Qed.

(* the two concrete moves: another offset on the same strand; the opposite strand (region [s,e) becomes [top-e+1, top-s+1)) *)
Lemma in_range_shift off s e p : in_range (s + off) (e + off) (p + off) = in_range s e p.
Proof. unfold in_range. destruct (Z.leb_spec s p), (Z.ltb_spec p e), (Z.leb_spec (s + off) (p + off)), (Z.ltb_spec (p + off) (e + off)); try reflexivity; lia. Qed.
Lemma in_range_mirror top s e p : in_range (top - e + 1) (top - s + 1) (top - p) = in_range s e p.
Proof. unfold in_range. destruct (Z.leb_spec s p), (Z.ltb_spec p e), (Z.leb_spec (top - e + 1) (top - p)), (Z.ltb_spec (top - p) (top - s + 1)); try reflexivity; lia. Qed.
