(* TieTac.v - a fallback tactic for the expression ties: when the structural translation of an expression of the code is no longer
   syntactically the model's definition (operands swapped, a comparison turned round, terms re-associated), the tie is still proved if
   the two sides are semantically equal: every rational comparison is decided by case distinction and linear arithmetic over Q. *)
From Coq Require Import QArith Lqa Bool.
From Aldy Require Import Base.
Open Scope Q_scope.

Lemma Qle_bool_false' a b : Qle_bool a b = false -> b < a.
Proof. intros H. apply Qnot_le_lt. intros L. apply Qle_bool_iff in L. congruence. Qed.
Lemma Qeq_bool_false' a b : Qeq_bool a b = false -> ~ a == b.
Proof. intros H E. apply Qeq_bool_iff in E. congruence. Qed.

Ltac no_cmp t := lazymatch t with context [Qle_bool _ _] => fail | context [Qeq_bool _ _] => fail | _ => idtac end.
(* innermost comparisons first, so that every occurrence is still in the goal when it is decided *)
Ltac q_split :=
  repeat (cbv beta iota;
          match goal with
          | |- context [Qeq_bool ?a ?b] => no_cmp a; no_cmp b; let E := fresh "E" in destruct (Qeq_bool a b) eqn:E
          | |- context [Qle_bool ?a ?b] => no_cmp a; no_cmp b; let E := fresh "E" in destruct (Qle_bool a b) eqn:E
          end); cbv beta iota.
Ltac q_facts :=
  repeat match goal with
  | H : Qle_bool _ _ = true |- _ => apply Qle_bool_iff in H
  | H : Qle_bool _ _ = false |- _ => apply Qle_bool_false' in H
  | H : Qeq_bool _ _ = true |- _ => apply Qeq_bool_iff in H
  | H : Qeq_bool _ _ = false |- _ => apply Qeq_bool_false' in H
  end.
Ltac q_close :=
  first [ reflexivity
        | exfalso; lra
        | exfalso; match goal with H : ~ _ == _ |- _ => apply H; lra end
        | exfalso; match goal with H : ~ _ == _, H2 : ~ _ == _ |- _ => first [apply H; lra | apply H2; lra] end ].
(* a <= b and b <= a: replace a by b (a boundary case of a max / min taken in the other order) *)
Ltac q_sandwich :=
  repeat match goal with
  | H1 : ?a <= ?b, H2 : ?b <= ?a |- _ =>
      let E := fresh "S" in assert (E : a == b) by lra; clear H1 H2; try rewrite E
  end.
(* two divisors that are equal as rationals but written differently: make them one term, so that the quotients are the same atoms *)
Ltac q_inv_unify :=
  unfold Qdiv in *;
  repeat match goal with
  | |- context [ / ?d1 ] =>
      match goal with
      | |- context [ / ?d2 ] =>
          tryif constr_eq d1 d2 then fail else (let E := fresh "D" in assert (E : d1 == d2) by lra; rewrite E; clear E)
      end
  end.
Ltac q_eq_close :=
  first [ reflexivity | lra | exfalso; lra | exfalso; match goal with H : ~ _ == _ |- _ => apply H; lra end
        | q_sandwich; first [ reflexivity | lra | field; first [ assumption | lra | intro; lra ] ]
        | field; first [ assumption | lra | intro; lra ]
        | q_inv_unify; first [ reflexivity | lra ] ].
(* for ties whose value is a rational: the statement is ==, every comparison inside is decided, the rest is arithmetic *)
Ltac tie_q := cbv beta zeta; unfold Qleb, Qltb, Qeqb, Qmax', Qmin', Qabs' in *; q_split; q_facts; cbn [andb orb negb]; q_eq_close.
Ltac tie_sem := cbv beta zeta; unfold Qleb, Qltb, Qeqb, Qmax', Qmin', Qabs' in *; q_split; q_facts; cbn [andb orb negb]; q_close.
