(* WritersProofs.v — lemmas and theorems about Writers.v (C12). *)
From Coq Require Import String Decimal DecimalZ DecimalPos Permutation Sorted.
From Aldy Require Import Base Consts NatSort Diplotype DiplotypeProofs Writers.
Import List.
Open Scope Z_scope.

(* ====================================================================== variants as set elements *)
Lemma mut_eqb_eq a b : mut_eqb a b = true <-> a = b.
Proof.
  destruct a as [p o], b as [q r]. unfold mut_eqb. cbn [fst snd]. rewrite andb_true_iff, Z.eqb_eq, seqb_eq.
  split; [intros [-> ->]; reflexivity|intros H; injection H; auto].
Qed.
Lemma weqb_eq a b : weqb a b = true <-> wmut a = wmut b.
Proof. apply mut_eqb_eq. Qed.
Lemma weqb_refl a : weqb a a = true. Proof. apply weqb_eq. reflexivity. Qed.
Lemma weqb_sym a b : weqb a b = weqb b a.
Proof.
  destruct (weqb a b) eqn:E; destruct (weqb b a) eqn:E2; try reflexivity.
  - apply weqb_eq in E. symmetry in E. apply weqb_eq in E. congruence.
  - apply weqb_eq in E2. symmetry in E2. apply weqb_eq in E2. congruence.
Qed.
Lemma weqb_key a b c : wmut a = wmut b -> weqb a c = weqb b c.
Proof. unfold weqb. intros ->. reflexivity. Qed.
(* membership by (position, change) *)
Lemma wmem_iff x l : wmem x l = true <-> exists y, In y l /\ wmut y = wmut x.
Proof.
  unfold wmem. rewrite existsb_exists. split; intros (y & Hy & E); exists y; split; auto.
  - apply weqb_eq in E. auto.
  - apply weqb_eq. auto.
Qed.
Lemma wmem_key x y l : wmut x = wmut y -> wmem x l = wmem y l.
Proof.
  intros E. unfold wmem. induction l as [|z l IH]; [reflexivity|]. cbn [existsb]. rewrite IH, (weqb_key x y z E). reflexivity.
Qed.
Lemma wmem_app x a b : wmem x (a ++ b) = wmem x a || wmem x b.
Proof. unfold wmem. apply existsb_app. Qed.
Lemma wmem_cons x y l : wmem x (y :: l) = weqb x y || wmem x l.
Proof. reflexivity. Qed.
Lemma wmem_filter x p l : (forall a b, wmut a = wmut b -> p a = p b) ->
  wmem x (filter p l) = wmem x l && p x.
Proof.
  intros Hp. induction l as [|y l IH]; [reflexivity|]. cbn [filter]. destruct (p y) eqn:Ey.
  - rewrite !wmem_cons, IH. destruct (weqb x y) eqn:E; cbn [orb]; [|reflexivity].
    apply weqb_eq in E. rewrite (Hp x y E), Ey. cbn. reflexivity.
  - rewrite IH, wmem_cons. destruct (weqb x y) eqn:E; cbn [orb]; [|reflexivity].
    apply weqb_eq in E. rewrite (Hp x y E), Ey. rewrite andb_false_r. reflexivity.
Qed.
Lemma wmem_dedup x l : wmem x (dedup weqb l) = wmem x l.
Proof.
  induction l as [|y l IH]; [reflexivity|]. cbn [dedup]. rewrite !wmem_cons.
  rewrite wmem_filter.
  - rewrite IH. destruct (weqb x y) eqn:E; cbn [orb]; [reflexivity|]. rewrite weqb_sym, E. cbn. rewrite andb_true_r. reflexivity.
  - intros a b E. f_equal. rewrite !(weqb_sym y). apply weqb_key. exact E.
Qed.
Lemma wmem_perm x l l' : Permutation l l' -> wmem x l = wmem x l'.
Proof.
  intros P. destruct (wmem x l) eqn:E; symmetry.
  - apply wmem_iff in E as (y & Hy & Ey). apply wmem_iff. exists y. split; [eapply Permutation_in; eassumption|exact Ey].
  - destruct (wmem x l') eqn:E'; [|reflexivity]. apply wmem_iff in E' as (y & Hy & Ey).
    assert (wmem x l = true) by (apply wmem_iff; exists y; split; [eapply Permutation_in; [symmetry|]; eassumption|exact Ey]). congruence.
Qed.
Lemma wmem_isort x l : wmem x (isort wltb l) = wmem x l.
Proof. apply wmem_perm. apply isort_perm. Qed.

(* no variant twice *)
Definition nodupw (l : list wvar) : Prop := NoDup (map wmut l).
Lemma nodupw_filter p l : nodupw l -> nodupw (filter p l).
Proof.
  unfold nodupw. induction l as [|y l IH]; cbn [filter map]; intros H; [constructor|].
  inversion H as [|? ? Hn Hl]; subst. destruct (p y); [|apply IH; exact Hl]. cbn [map]. constructor; [|apply IH; exact Hl].
  intros Hin. apply Hn. apply in_map_iff in Hin as (z & Ez & Hz). apply filter_In in Hz as [Hz _]. apply in_map_iff. eauto.
Qed.
Lemma nodupw_dedup l : nodupw (dedup weqb l).
Proof.
  unfold nodupw. induction l as [|y l IH]; cbn [dedup map]; [constructor|]. constructor.
  - intros Hin. apply in_map_iff in Hin as (z & Ez & Hz). apply filter_In in Hz as [_ Hz].
    apply negb_true_iff in Hz. assert (weqb y z = true) by (apply weqb_eq; auto). congruence.
  - apply nodupw_filter. exact IH.
Qed.
Lemma nodupw_perm l l' : Permutation l l' -> nodupw l -> nodupw l'.
Proof. unfold nodupw. intros P. apply Permutation_NoDup. apply Permutation_map. exact P. Qed.

(* sorted(Mutation): by position, then by the change *)
Lemma str_ltb_asym a : forall b, str_ltb a b = true -> str_ltb b a = false.
Proof.
  induction a as [|x a IH]; intros [|y b]; cbn [str_ltb]; intros H; try reflexivity; try discriminate.
  destruct (x <? y) eqn:E1.
  - apply Z.ltb_lt in E1. assert (y <? x = false) as -> by (apply Z.ltb_ge; lia). reflexivity.
  - destruct (y <? x) eqn:E2; [discriminate|]. apply IH. exact H.
Qed.
Lemma mut_ltb_asym a b : mut_ltb a b = true -> mut_ltb b a = false.
Proof.
  unfold mut_ltb. destruct (fst a <? fst b) eqn:E1.
  - intros _. apply Z.ltb_lt in E1. assert (fst b <? fst a = false) as -> by (apply Z.ltb_ge; lia). reflexivity.
  - destruct (fst b <? fst a) eqn:E2; [discriminate|]. apply str_ltb_asym.
Qed.
Lemma wltb_asym a b : wltb a b = true -> wltb b a = false.
Proof. apply mut_ltb_asym. Qed.

(* ---- what a copy carries: definition + added - missing, every variant once, in sorted order ---- *)
Theorem carried_mem c x : wmem x (carried c) = wmem x (c_def c ++ c_added c) && negb (wmem x (c_missing c)).
Proof.
  unfold carried, all_of. rewrite wmem_isort, wmem_filter, wmem_dedup; [reflexivity|].
  intros a b E. f_equal. apply wmem_key. exact E.
Qed.
Theorem carried_nodup c : nodupw (carried c).
Proof. unfold carried. eapply nodupw_perm; [symmetry; apply isort_perm|]. apply nodupw_filter. apply nodupw_dedup. Qed.
Theorem carried_sorted c : Sorted (fun a b => wltb b a = false) (carried c).
Proof. unfold carried. apply (isort_sorted wltb wltb_asym). Qed.

Lemma carried_once_sorted c : NoDup (map wmut (carried c)) /\ Sorted (fun a b => wltb b a = false) (carried c).
Proof. split; [apply carried_nodup|apply carried_sorted]. Qed.

(* ====================================================================== the VCF table *)
Lemma copy_has_fixed c m : copy_has Fixed c m = wmem m (carried c).
Proof. unfold copy_has. rewrite carried_mem. reflexivity. Qed.

(* GT: the bit of copy ai in solution mi is 1 exactly if that copy carries the variant in that solution *)
Theorem vcf_gt_exact sw sols m mi ai sl c : sw_shared sw = Fixed -> sw_sub sw = Fixed ->
  nth_error sols mi = Some sl -> nth_error (s_copies sl) ai = Some c ->
  gt_cell sw sols m mi ai = wmem m (carried c).
Proof.
  intros H1 H2 Hs Hc. unfold gt_cell, cell_of. rewrite H1, H2, Hs, Hc. apply copy_has_fixed.
Qed.

Lemma map_nth_error_seq {A B} (f : option A -> B) (l : list A) :
  map (fun i => f (nth_error l i)) (seq 0 (length l)) = map (fun x => f (Some x)) l.
Proof.
  induction l as [|x l IH]; [reflexivity|]. cbn [length seq map nth_error]. f_equal.
  rewrite <- seq_shift, map_map. exact IH.
Qed.
Lemma gts_fixed sw sols m mi sl : sw_shared sw = Fixed -> sw_sub sw = Fixed -> nth_error sols mi = Some sl ->
  map (gt_cell sw sols m mi) (seq 0 (length (s_copies sl))) = map (fun c => wmem m (carried c)) (s_copies sl).
Proof.
  intros H1 H2 Hs. unfold gt_cell, cell_of. rewrite H1, H2, Hs.
  rewrite (map_nth_error_seq (fun o => match o with Some c => copy_has Fixed c m | None => false end)).
  apply map_ext. intros c. apply copy_has_fixed.
Qed.
(* the whole sample cell: GT bits, read support, MA and MI name exactly the carrying copies *)
Definition spec_cell (m : wvar) (sl : wsol) : str :=
  let has c := wmem m (carried c) in
  join (s ":") [join (s "|") (map (fun c => bit (has c)) (s_copies sl)); w_cov m;
                join (s ",") (map (fun c => if has c then s "*" ++ c_major c else s "-") (s_copies sl));
                join (s ",") (map (fun c => if has c then s "*" ++ c_minor c else s "-") (s_copies sl))].
Lemma combine_map_l {A B C} (f : A -> B) (g : B * A -> C) (l : list A) :
  map g (combine (map f l) l) = map (fun x => g (f x, x)) l.
Proof. induction l as [|x l IH]; [reflexivity|]. cbn. f_equal. exact IH. Qed.
Theorem vcf_ma_mi_exact sw sols m mi sl : sw_shared sw = Fixed -> sw_sub sw = Fixed -> nth_error sols mi = Some sl ->
  vcf_cell sw sols m mi sl = spec_cell m sl.
Proof.
  intros H1 H2 Hs. unfold vcf_cell, spec_cell. cbv zeta. rewrite (gts_fixed _ _ _ _ _ H1 H2 Hs).
  rewrite map_map. rewrite !combine_map_l. reflexivity.
Qed.

(* ====================================================================== text: split / join *)
Lemma split_nonnil c t : split_on c t <> [].
Proof. destruct t as [|x r]; cbn [split_on]; [discriminate|]. destruct (x =? c); [discriminate|]. destruct (split_on c r); discriminate. Qed.
Lemma split_nosep c f : ~ In c f -> split_on c f = [f].
Proof.
  induction f as [|x f IH]; intros H; [reflexivity|]. cbn [split_on].
  assert (x =? c = false) as -> by (apply Z.eqb_neq; intros ->; apply H; left; reflexivity).
  rewrite IH; [reflexivity|]. intros Hin. apply H. right. exact Hin.
Qed.
Lemma split_app c f r : ~ In c f -> split_on c (f ++ c :: r) = f :: split_on c r.
Proof.
  induction f as [|x f IH]; intros H; cbn [app split_on].
  - rewrite Z.eqb_refl. reflexivity.
  - assert (x =? c = false) as -> by (apply Z.eqb_neq; intros ->; apply H; left; reflexivity).
    rewrite IH; [reflexivity|]. intros Hin. apply H. right. exact Hin.
Qed.
Lemma split_join c fs : fs <> [] -> Forall (fun f => ~ In c f) fs -> split_on c (join [c] fs) = fs.
Proof.
  induction fs as [|f fs IH]; intros Hn Hf; [contradiction|]. inversion Hf as [|? ? Hc Hr]; subst.
  destruct fs as [|g fs].
  - cbn [join]. apply split_nosep. exact Hc.
  - rewrite join_cons2. cbn [app]. rewrite split_app by exact Hc. f_equal. apply IH; [discriminate|exact Hr].
Qed.
Lemma join_notin c sep fs : ~ In c sep -> Forall (fun f => ~ In c f) fs -> ~ In c (join sep fs).
Proof.
  intros Hs. induction fs as [|f fs IH]; intros Hf; [intros []|]. inversion Hf as [|? ? Hc Hr]; subst.
  destruct fs as [|g fs]; [exact Hc|]. rewrite join_cons2. intros Hin.
  apply in_app_or in Hin as [Hin|Hin]; [exact (Hc Hin)|]. apply in_app_or in Hin as [Hin|Hin]; [exact (Hs Hin)|exact (IH Hr Hin)].
Qed.
Lemma split_lines ls : Forall (fun l => ~ In 10 l) ls -> split_on 10 (lines_text ls) = ls ++ [[]].
Proof.
  unfold lines_text, nl. induction ls as [|l ls IH]; intros H; [reflexivity|]. inversion H as [|? ? Hl Hr]; subst.
  cbn [map concat]. rewrite <- app_assoc. cbn [app]. rewrite split_app by exact Hl. rewrite IH by exact Hr. reflexivity.
Qed.
Lemma text_lines_ok ls : Forall (fun l => ~ In 10 l) ls -> text_lines (lines_text ls) = ls.
Proof. intros H. unfold text_lines. rewrite split_lines by exact H. apply removelast_last. Qed.

Lemma clean_of_notin seps t c : clean_of seps t = true -> In c seps -> ~ In c t.
Proof.
  unfold clean_of. intros H Hc Hin. rewrite forallb_forall in H. apply H in Hin. apply negb_true_iff in Hin.
  assert (memb Z.eqb c seps = true); [|congruence]. unfold memb. apply existsb_exists. exists c. split; [exact Hc|apply Z.eqb_refl].
Qed.
Lemma clean_tab t : clean t = true -> ~ In 9 t.
Proof. intros H. eapply clean_of_notin; [exact H|cbn; auto]. Qed.
Lemma clean_nl t : clean t = true -> ~ In 10 t.
Proof. intros H. eapply clean_of_notin; [exact H|cbn; auto]. Qed.

(* ====================================================================== decimal numbers *)
Lemma str_uint_str u : str_uint (uint_str u) = Some u.
Proof. induction u; cbn [uint_str str_uint]; try reflexivity; rewrite IHu; reflexivity. Qed.
Lemma uint_str_digits u : Forall (fun c => 48 <= c <= 57) (uint_str u).
Proof. induction u; cbn [uint_str]; constructor; auto; lia. Qed.
Lemma str_z_pos u : u <> Nil -> str_z (uint_str u) = Some (Z.of_int (Decimal.Pos u)).
Proof.
  intros H. pose proof (str_uint_str u) as E. destruct u; try contradiction; cbn [uint_str] in *; unfold str_z; rewrite E; reflexivity.
Qed.
Lemma str_z_neg u : u <> Nil -> str_z (45 :: uint_str u) = Some (Z.of_int (Decimal.Neg u)).
Proof.
  intros H. unfold str_z. pose proof (str_uint_str u) as E. destruct (uint_str u) eqn:Eu.
  - destruct u; try contradiction; discriminate.
  - rewrite E. reflexivity.
Qed.
Theorem str_z_str z : str_z (z_str z) = Some z.
Proof.
  unfold z_str. rewrite <- (DecimalZ.of_to z) at 2. destruct z as [|p|p]; cbn [Z.to_int].
  - reflexivity.
  - apply str_z_pos. apply Unsigned.to_uint_nonnil.
  - apply str_z_neg. apply Unsigned.to_uint_nonnil.
Qed.
Lemma z_str_nonnil z : z_str z <> [].
Proof. intros E. pose proof (str_z_str z) as H. rewrite E in H. discriminate. Qed.
Lemma z_str_chars z : Forall (fun c => c = 45 \/ 48 <= c <= 57) (z_str z).
Proof.
  unfold z_str. destruct (Z.to_int z) as [u|u].
  - eapply Forall_impl; [|apply uint_str_digits]. cbn. auto.
  - constructor; [auto|]. eapply Forall_impl; [|apply uint_str_digits]. cbn. auto.
Qed.
Lemma z_str_notin z c : c <> 45 -> ~ (48 <= c <= 57) -> ~ In c (z_str z).
Proof. intros H1 H2 Hin. pose proof (z_str_chars z) as F. rewrite Forall_forall in F. destruct (F _ Hin); auto. Qed.

Lemma all_some_map {A B} (f : A -> option B) (g : A -> B) l : (forall x, In x l -> f x = Some (g x)) ->
  all_some (map f l) = Some (map g l).
Proof.
  induction l as [|x l IH]; intros H; [reflexivity|]. cbn [map all_some]. rewrite (H x) by (left; reflexivity).
  rewrite IH by (intros y Hy; apply H; right; exact Hy). reflexivity.
Qed.

(* ====================================================================== the decomposition file read back *)
Lemma memb_notin c t : memb Z.eqb c t = false -> ~ In c t.
Proof.
  unfold memb. intros H Hin. assert (existsb (Z.eqb c) t = true); [|congruence].
  apply existsb_exists. exists c. split; [exact Hin|apply Z.eqb_refl].
Qed.
Lemma is_comment_hash x : is_comment (35 :: x) = true.
Proof. reflexivity. Qed.
Lemma is_comment_app a b : a <> [] -> is_comment (a ++ b) = is_comment a.
Proof. destruct a as [|c a]; [contradiction|]. intros _. reflexivity. Qed.
Lemma filter_all {A} (p : A -> bool) l : Forall (fun x => p x = true) l -> filter p l = l.
Proof. induction 1 as [|x l Hx _ IH]; [reflexivity|]. cbn [filter]. rewrite Hx, IH. reflexivity. Qed.
Lemma notin_app {A} (c : A) a b : ~ In c a -> ~ In c b -> ~ In c (a ++ b).
Proof. intros Ha Hb Hin. apply in_app_or in Hin as [H|H]; auto. Qed.
Lemma z_str_tab z : ~ In 9 (z_str z). Proof. apply z_str_notin; lia. Qed.
Lemma z_str_nl z : ~ In 10 (z_str z). Proof. apply z_str_notin; lia. Qed.
Lemma clean_wvar_fields w : clean_wvar w = true ->
  clean (v_op (w_v w)) = true /\ clean (w_cov w) = true /\ clean (raw_rs w) = true /\
  clean (match truthy (v_effect (w_v w)) with Some e => e | None => s "none" end) = true.
Proof.
  unfold clean_wvar. rewrite !andb_true_iff. intros [[[H1 H2] H3] H4]. repeat split; auto.
  destruct (truthy (v_effect (w_v w))); [exact H4|reflexivity].
Qed.

Section Row.
  Variables (sample : str) (g : wgene) (id : Z) (sl : wsol).
  Hypothesis Hsa : clean sample = true.
  Hypothesis Hco : is_comment sample = false.
  Hypothesis Hge : clean (wg_name g) = true.
  Hypothesis Hma : clean (sol_major_dipl g sl) = true.
  Hypothesis Hmi : clean (sol_minors sl) = true.

  Lemma decomp_row_fields copy c m : clean (c_minor c) = true ->
    match m with Some w => clean_wvar w = true | None => True end ->
    forall sep, (sep = 9 \/ sep = 10) -> Forall (fun f => ~ In sep f) (decomp_row sample g id sl copy c m).
  Proof.
    intros Hc Hm sep Hsep.
    assert (K : forall t, clean t = true -> ~ In sep t) by (intros t Ht; destruct Hsep as [-> | ->]; [apply clean_tab|apply clean_nl]; exact Ht).
    assert (Z' : forall z, ~ In sep (z_str z)) by (intros z; destruct Hsep as [-> | ->]; [apply z_str_tab|apply z_str_nl]).
    unfold decomp_row. apply Forall_app. split.
    - repeat constructor; auto.
    - destruct m as [w|].
      + apply clean_wvar_fields in Hm as (H1 & H2 & H3 & H4). repeat constructor; auto.
      + repeat constructor; auto.
  Qed.

  Lemma decomp_row_parse copy c m : clean (c_minor c) = true ->
    match m with Some w => clean_wvar w = true | None => True end ->
    let r := decomp_row sample g id sl copy c m in
    parse_drow (split_on 9 (join tab r)) = Some (spec_drow sample g id sl copy c m) /\
    is_comment (join tab r) = false /\ ~ In 10 (join tab r).
  Proof.
    intros Hc Hm r. split; [|split].
    - unfold tab. rewrite split_join; [|unfold r, decomp_row; discriminate|apply decomp_row_fields; auto].
      unfold r, decomp_row, spec_drow. destruct m as [w|]; cbn [app parse_drow]; rewrite !str_z_str.
      + destruct (z_str (v_pos (w_v w))) as [|ch rest] eqn:E; [exfalso; exact (z_str_nonnil _ E)|]. reflexivity.
      + reflexivity.
    - unfold r, decomp_row. cbn [app]. rewrite join_cons2. destruct sample as [|ch rest] eqn:Es; [reflexivity|].
      rewrite is_comment_app by discriminate. exact Hco.
    - apply join_notin; [unfold tab; intros [H|[]]; discriminate|]. apply decomp_row_fields; auto.
  Qed.

  Lemma decomp_copies_parse cs : forall copy rows, decomp_copies sample g id sl copy cs = Ok rows ->
    forallb clean_copy cs = true ->
    map (fun r => parse_drow (split_on 9 (join tab r))) rows = map Some (spec_copies sample g id sl copy cs) /\
    Forall (fun r => is_comment (join tab r) = false /\ ~ In 10 (join tab r)) rows.
  Proof.
    induction cs as [|c cs IH]; intros copy rows H Hcl; cbn [decomp_copies] in H.
    - injection H as <-. split; [reflexivity|constructor].
    - cbn [forallb] in Hcl. apply andb_true_iff in Hcl as [Hc Hcs]. unfold clean_copy in Hc. apply andb_true_iff in Hc as [Hcm Hcv].
      destruct (c_minor c) as [|m0 mr] eqn:Em; [discriminate|]. rewrite <- Em in *.
      destruct (decomp_copies sample g id sl (copy + 1) cs) as [rest|] eqn:E; cbn [bind] in H; [|discriminate].
      injection H as <-. destruct (IH _ _ E Hcs) as [IH1 IH2]. cbn [spec_copies].
      rewrite map_app, map_app, IH1.
      assert (Hv : forall v, In v (carried c) -> clean_wvar v = true) by (rewrite forallb_forall in Hcv; exact Hcv).
      clear Hcv. generalize dependent (carried c). intros l Hv. split.
      + f_equal. destruct l as [|w ws].
        * cbn [map]. f_equal. apply (decomp_row_parse copy c None Hcm I).
        * cbn [map]. f_equal; [apply (decomp_row_parse copy c (Some w) Hcm); apply Hv; left; reflexivity|].
          rewrite !map_map. apply map_ext_in. intros v Hin. apply (decomp_row_parse copy c (Some v) Hcm). apply Hv. right. exact Hin.
      + apply Forall_app. split; [|exact IH2]. destruct l as [|w ws].
        * constructor; [|constructor]. apply (decomp_row_parse copy c None Hcm I).
        * change (Forall (fun r => is_comment (join tab r) = false /\ ~ In 10 (join tab r))
                         (map (fun w => decomp_row sample g id sl copy c (Some w)) (w :: ws))).
          apply Forall_forall. intros r Hr. apply in_map_iff in Hr as (v & <- & Hin).
          apply (decomp_row_parse copy c (Some v) Hcm). apply Hv. exact Hin.
  Qed.
End Row.

Lemma all_some_Some {A} (l : list A) : all_some (map Some l) = Some l.
Proof. induction l as [|x l IH]; [reflexivity|]. cbn [map all_some]. rewrite IH. reflexivity. Qed.
Lemma sol_header_nl i x : ~ In 10 x -> ~ In 10 (s "#Solution " ++ z_str i ++ s ": " ++ x).
Proof.
  intros H. apply notin_app; [apply memb_notin; reflexivity|]. apply notin_app; [apply z_str_nl|].
  apply notin_app; [apply memb_notin; reflexivity|exact H].
Qed.
Lemma decomp_sols_parse sample g : clean sample = true -> is_comment sample = false -> clean (wg_name g) = true ->
  forall sols i ls, decomp_sols sample g i sols = Ok ls -> forallb (clean_sol g) sols = true ->
  map (fun l => parse_drow (split_on 9 l)) (filter (fun l => negb (is_comment l)) ls) = map Some (spec_decomp sample g i sols) /\
  Forall (fun l => ~ In 10 l) ls.
Proof.
  intros Hsa Hco Hge. induction sols as [|sl sols IH]; intros i ls H Hcl; cbn [decomp_sols] in H.
  - injection H as <-. split; [reflexivity|constructor].
  - cbn [forallb] in Hcl. apply andb_true_iff in Hcl as [Hs Hss]. unfold clean_sol in Hs. rewrite !andb_true_iff in Hs.
    destruct Hs as [[[Hma Hmi] Hni] Hcs].
    destruct (decomp_rows sample g i sl) as [rows|] eqn:E1; cbn [bind] in H; [|discriminate].
    destruct (decomp_sols sample g (i + 1) sols) as [rest|] eqn:E2; cbn [bind] in H; [|discriminate].
    injection H as <-. destruct (IH _ _ E2 Hss) as [IH1 IH2].
    unfold decomp_rows in E1. destruct (decomp_copies_parse sample g i sl Hsa Hco Hge Hma Hmi _ _ _ E1 Hcs) as [P1 P2].
    cbn [filter]. rewrite is_comment_hash. cbn [negb].
    rewrite filter_app, map_app, IH1. cbn [spec_decomp].
    split.
    + rewrite (map_app Some). f_equal. rewrite filter_all.
      * rewrite map_map. exact P1.
      * apply Forall_forall. intros l Hl. apply in_map_iff in Hl as (r & <- & Hr). rewrite Forall_forall in P2.
        destruct (P2 _ Hr) as [-> _]. reflexivity.
    + constructor.
      * apply (sol_header_nl i (solution_nice (map to_allele (s_copies sl)))). apply clean_nl. exact Hni.
      * apply Forall_app. split; [|exact IH2]. apply Forall_forall. intros l Hl. apply in_map_iff in Hl as (r & <- & Hr).
        rewrite Forall_forall in P2. apply (P2 _ Hr).
Qed.

(* parsing the decomposition file gives back, per solution and copy, exactly the carried variants with their position,
   change, read support, effect and dbSNP id (one empty row for a copy without variants) *)
Theorem decomp_roundtrip sample g sols text : decomp_clean sample g sols = true ->
  decomp_file sample g sols = Ok text -> parse_decomp text = Some (spec_decomp sample g 1 sols).
Proof.
  unfold decomp_clean. rewrite !andb_true_iff. intros [[[Hsa Hco] Hge] Hcl] H. apply negb_true_iff in Hco.
  unfold decomp_file in H. destruct (decomp_sols sample g 1 sols) as [ls|] eqn:E; cbn [bind] in H; [|discriminate].
  injection H as <-. destruct (decomp_sols_parse sample g Hsa Hco Hge _ _ _ E Hcl) as [P1 P2].
  unfold parse_decomp. rewrite text_lines_ok.
  - cbn [filter]. change (s "#" ++ join tab output_cols) with (35 :: join tab output_cols). rewrite is_comment_hash.
    cbn [negb]. rewrite P1. apply all_some_Some.
  - constructor; [apply memb_notin; reflexivity|exact P2].
Qed.
Theorem decomp_total sample g sols : minors_ok sols = true -> exists text, decomp_file sample g sols = Ok text.
Proof.
  intros H. unfold decomp_file.
  assert (K : forall sols i, minors_ok sols = true -> exists ls, decomp_sols sample g i sols = Ok ls).
  { clear. induction sols as [|sl sols IH]; intros i H; cbn [decomp_sols]; [eexists; reflexivity|].
    cbn [minors_ok forallb] in H. apply andb_true_iff in H as [Hs Hss].
    assert (R : forall cs copy, forallb (fun c => match c_minor c with [] => false | _ => true end) cs = true ->
                exists rows, decomp_copies sample g i sl copy cs = Ok rows).
    { clear. induction cs as [|c cs IH]; intros copy H; cbn [decomp_copies]; [eexists; reflexivity|].
      cbn [forallb] in H. apply andb_true_iff in H as [Hc Hcs]. destruct (c_minor c); [discriminate|].
      destruct (IH (copy + 1) Hcs) as [rest ->]. cbn [bind]. eexists. reflexivity. }
    unfold decomp_rows. destruct (R _ 0 Hs) as [rows ->]. cbn [bind]. destruct (IH (i + 1) Hss) as [rest ->]. cbn [bind].
    eexists. reflexivity. }
  destruct (K sols 1 H) as [ls ->]. cbn [bind]. eexists. reflexivity.
Qed.

(* ====================================================================== REF / ALT *)
Lemma is_nt_cases c : is_nt c = true -> c = 65 \/ c = 67 \/ c = 71 \/ c = 84 \/ c = 78.
Proof.
  unfold is_nt, memb. cbn [existsb]. rewrite !orb_true_iff, !Z.eqb_eq. intuition.
Qed.
Lemma nts_notin x c : forallb is_nt x = true -> c <> 65 -> c <> 67 -> c <> 71 -> c <> 84 -> c <> 78 -> ~ In c x.
Proof.
  intros H. rewrite forallb_forall in H. intros ? ? ? ? ? Hin. apply H in Hin. apply is_nt_cases in Hin. lia.
Qed.
Lemma split_gt_app x y : ~ In 62 x -> split_gt (x ++ s ">" ++ y) = Some (x, y).
Proof.
  induction x as [|c x IH]; intros H; [reflexivity|]. cbn [app split_gt].
  assert (c =? 62 = false) as -> by (apply Z.eqb_neq; intros ->; apply H; left; reflexivity).
  rewrite IH; [reflexivity|]. intros Hin. apply H. right. exact Hin.
Qed.
Lemma fill_nodot g p x : ~ In 46 x -> fill g p x = x.
Proof.
  revert p. induction x as [|c x IH]; intros p H; [reflexivity|]. cbn [fill].
  assert (c =? 46 = false) as -> by (apply Z.eqb_neq; intros ->; apply H; left; reflexivity).
  rewrite IH; [reflexivity|]. intros Hin. apply H. right. exact Hin.
Qed.
Lemma classify_op_text k : kind_ok k = true -> classify (op_text k) = Some k.
Proof.
  destruct k as [x y|x|x]; cbn [kind_ok op_text]; intros H.
  - rewrite !andb_true_iff in H. destruct H as [[[Hx Hy] _] Hn]. destruct x as [|c x]; [discriminate|].
    cbn [forallb] in Hx. apply andb_true_iff in Hx as [Hc Hx]. pose proof (is_nt_cases c Hc) as Hcc.
    unfold classify. change (s "ins") with [105; 110; 115]. change (s "del") with [100; 101; 108]. cbn [app firstn str_eqb].
    assert (c =? 105 = false) as -> by (apply Z.eqb_neq; lia). assert (c =? 100 = false) as -> by (apply Z.eqb_neq; lia).
    cbn [andb]. change (c :: x ++ s ">" ++ y) with ((c :: x) ++ s ">" ++ y). rewrite split_gt_app; [reflexivity|].
    intros [E|Hin]; [lia|]. revert Hin. apply nts_notin; auto; lia.
  - reflexivity.
  - reflexivity.
Qed.
Lemma ref_alt_fixed g pos k : kind_ok k = true ->
  ref_alt Fixed g (pos, op_text k) =
  match k with
  | KSub x y => (pos + 1, x, y)
  | KIns x => (pos + 1, [refnt g pos], refnt g pos :: x)
  | KDel x => (pos, refnt g (pos - 1) :: x, [refnt g (pos - 1)])
  end.
Proof.
  intros H. pose proof (classify_op_text k H) as C. unfold classify in C. unfold ref_alt.
  destruct k as [x y|x|x]; cbn [op_text] in *.
  - destruct (str_eqb (firstn 3 (x ++ s ">" ++ y)) (s "ins")); [discriminate|].
    destruct (str_eqb (firstn 3 (x ++ s ">" ++ y)) (s "del")); [discriminate|].
    destruct (split_gt (x ++ s ">" ++ y)) as [[x' y']|]; [|discriminate]. injection C as -> ->.
    cbn [kind_ok] in H. rewrite !andb_true_iff in H. destruct H as [[[Hx Hy] _] _].
    rewrite !fill_nodot; [reflexivity| |]; apply nts_notin; auto; lia.
  - reflexivity.
  - reflexivity.
Qed.

Lemma firstn_S_nth {A} (l : list A) n d : (n < length l)%nat -> firstn (S n) l = firstn n l ++ [nth n l d].
Proof.
  revert n. induction l as [|a l IH]; intros n H; [cbn in H; lia|]. destruct n as [|n]; [reflexivity|].
  cbn [firstn nth app]. f_equal. apply IH. cbn in H. lia.
Qed.
Lemma skipn_nth_cons {A} (l : list A) n d : (n < length l)%nat -> skipn n l = nth n l d :: skipn (S n) l.
Proof.
  revert n. induction l as [|a l IH]; intros n H; [cbn in H; lia|]. destruct n as [|n]; [reflexivity|].
  cbn [skipn nth]. apply IH. cbn in H. lia.
Qed.

(* positions are one-based and REF/ALT spell the variant against the reference:
   REF is what the reference has at index POS-1, and replacing it by ALT gives exactly the sequence the variant gives *)
Theorem vcf_ref_alt_spells g rs pos k :
  (forall p, (p < length rs)%nat -> refnt g (Z.of_nat p) = nth p rs 78) ->
  kind_ok k = true ->
  match k with
  | KSub x _ => ref_matches rs pos x
  | KIns _ => (pos < length rs)%nat
  | KDel x => (1 <= pos <= length rs)%nat /\ ref_matches rs pos x
  end ->
  let '(P, R, A) := ref_alt Fixed g (Z.of_nat pos, op_text k) in
  1 <= P /\ ref_matches rs (Z.to_nat (P - 1)) R /\ apply_edit rs (Z.to_nat (P - 1)) R A = apply_var rs pos k.
Proof.
  intros Hr Hk Hc. rewrite (ref_alt_fixed g _ k Hk). destruct k as [x y|x|x].
  - replace (Z.to_nat (Z.of_nat pos + 1 - 1)) with pos by lia. repeat split; [lia|exact Hc].
  - replace (Z.to_nat (Z.of_nat pos + 1 - 1)) with pos by lia. rewrite (Hr pos Hc). repeat split; [lia| |].
    + unfold ref_matches. cbn [length]. rewrite (skipn_nth_cons rs pos 78 Hc). reflexivity.
    + unfold apply_var, apply_edit. cbn [length app]. replace (pos + 1)%nat with (S pos) by lia.
      rewrite Nat.add_0_r. rewrite (firstn_S_nth rs pos 78 Hc). rewrite <- app_assoc. reflexivity.
  - destruct Hc as [[H1 H2] Hm]. destruct pos as [|q]; [lia|].
    replace (Z.of_nat (S q) - 1) with (Z.of_nat q) by lia. rewrite Nat2Z.id.
    assert (Hq : (q < length rs)%nat) by lia. rewrite (Hr q Hq). repeat split; [lia| |].
    + unfold ref_matches in *. cbn [length]. rewrite (skipn_nth_cons rs q 78 Hq). cbn [firstn]. rewrite Hm. reflexivity.
    + unfold apply_var, apply_edit. cbn [length app]. rewrite (firstn_S_nth rs q 78 Hq). rewrite <- app_assoc. cbn [app].
      replace (q + S (length x))%nat with (S q + length x)%nat by lia. reflexivity.
Qed.
(* the position column is one-based in either variant: POS = pos + 1, except that an anchored deletion starts one base earlier *)
Theorem vcf_pos_one_based v g pos op :
  let '(P, R, A) := ref_alt v g (pos, op) in
  P = pos + 1 \/ (v = Fixed /\ str_eqb (firstn 3 op) (s "del") = true /\ P = pos /\ R = refnt g (pos - 1) :: skipn 3 op).
Proof.
  unfold ref_alt. destruct v.
  - destruct (nth 1 op 0 =? 62); [left; reflexivity|]. destruct (str_eqb (firstn 3 op) (s "ins")); left; reflexivity.
  - destruct (str_eqb (firstn 3 op) (s "ins")); [left; reflexivity|].
    destruct (str_eqb (firstn 3 op) (s "del")) eqn:E; [right; auto|]. destruct (split_gt op) as [[x y]|]; left; reflexivity.
Qed.

(* ====================================================================== the VCF file read back *)
Lemma split_gt_inv op : forall x y, split_gt op = Some (x, y) -> op = x ++ s ">" ++ y.
Proof.
  induction op as [|c op IH]; intros x y H; cbn [split_gt] in H; [discriminate|].
  destruct (c =? 62) eqn:E.
  - apply Z.eqb_eq in E. subst c. injection H as <- <-. reflexivity.
  - destruct (split_gt op) as [[a b]|]; [|discriminate]. injection H as <- <-. cbn [app]. f_equal. apply IH. reflexivity.
Qed.
Lemma classify_inv op k : classify op = Some k -> op = op_text k.
Proof.
  unfold classify. destruct (str_eqb (firstn 3 op) (s "ins")) eqn:E1.
  - intros H. injection H as <-. apply seqb_eq in E1. cbn [op_text]. rewrite <- E1. symmetry. apply firstn_skipn.
  - destruct (str_eqb (firstn 3 op) (s "del")) eqn:E2.
    + intros H. injection H as <-. apply seqb_eq in E2. cbn [op_text]. rewrite <- E2. symmetry. apply firstn_skipn.
    + destruct (split_gt op) as [[x y]|] eqn:E3; [|discriminate]. intros H. injection H as <-. apply split_gt_inv. exact E3.
Qed.
Lemma mut_of_rec_inv g pos op : op_ok op = true ->
  let '(P, R, A) := ref_alt Fixed g (pos, op) in mut_of_rec P R A = (pos, op).
Proof.
  unfold op_ok. destruct (classify op) as [k|] eqn:C; [|discriminate]. intros Hk. apply classify_inv in C. subst op.
  rewrite (ref_alt_fixed g pos k Hk). destruct k as [x y|x|x]; cbn [kind_ok] in Hk; unfold mut_of_rec.
  - rewrite !andb_true_iff in Hk. destruct Hk as [[_ Hl] _]. rewrite Hl. cbn [op_text]. f_equal. lia.
  - apply andb_true_iff in Hk as [_ Hn]. apply negb_true_iff in Hn. cbn [length].
    destruct x as [|c x]; [discriminate|]. cbn [length Nat.eqb skipn op_text]. f_equal. lia.
  - apply andb_true_iff in Hk as [_ Hn]. apply negb_true_iff in Hn. cbn [length].
    destruct x as [|c x]; [discriminate|]. cbn [length Nat.eqb skipn op_text]. reflexivity.
Qed.

Lemma mapi_ext_nth {A B} (f : nat -> A -> B) (h : A -> B) l : forall k,
  (forall i x, nth_error l i = Some x -> f (k + i)%nat x = h x) -> mapi f k l = map h l.
Proof.
  induction l as [|a l IH]; intros k H; [reflexivity|]. cbn [mapi map]. f_equal.
  - rewrite <- (H O a eq_refl). f_equal. lia.
  - apply IH. intros i x Hx. rewrite <- (H (S i) x Hx). f_equal. lia.
Qed.
Lemma bit_notin b c : c <> 48 -> c <> 49 -> ~ In c (bit b).
Proof. intros H0 H1. destruct b; cbn; intros [E|[]]; lia. Qed.
Lemma parse_bits bs : bs <> [] -> all_some (map parse_bit (split_on 124 (join (s "|") (map bit bs)))) = Some bs.
Proof.
  intros Hn. change (s "|") with [124]. rewrite split_join.
  - rewrite map_map. rewrite <- (all_some_Some bs) at 1. f_equal. apply map_ext. intros []; reflexivity.
  - destruct bs; [contradiction|discriminate].
  - apply Forall_forall. intros f Hf. apply in_map_iff in Hf as (b & <- & _). apply bit_notin; lia.
Qed.

(* what one sample cell says, parsed: bits, read support, MA names, MI names *)
Definition cell_spec (m : wvar) (sl : wsol) : list bool * str * list str * list str :=
  let has c := wmem m (carried c) in
  (map has (s_copies sl), w_cov m,
   map (fun c => if has c then s "*" ++ c_major c else s "-") (s_copies sl),
   map (fun c => if has c then s "*" ++ c_minor c else s "-") (s_copies sl)).
Definition copies_clean (sl : wsol) : Prop :=
  s_copies sl <> [] /\
  forall c, In c (s_copies sl) -> clean_of [58; 44; 9; 10] (c_major c) = true /\ clean_of [58; 44; 9; 10] (c_minor c) = true.

Section Cell.
  Variables (m : wvar) (sl : wsol).
  Hypothesis Hcov : clean_of [58; 9; 10] (w_cov m) = true.
  Hypothesis Hcl : copies_clean sl.
  Let has c := wmem m (carried c).
  Lemma named_notin (f : wcopy -> str) sep : In sep [58; 44; 9; 10] ->
    (forall c, In c (s_copies sl) -> clean_of [58; 44; 9; 10] (f c) = true) ->
    Forall (fun t => ~ In sep t) (map (fun c => if has c then s "*" ++ f c else s "-") (s_copies sl)).
  Proof.
    intros Hs Hf. apply Forall_forall. intros t Ht. apply in_map_iff in Ht as (c & <- & Hc). destruct (has c).
    - apply notin_app; [cbn in Hs |- *; intros [E|[]]; intuition lia|]. eapply clean_of_notin; [apply Hf; exact Hc|exact Hs].
    - cbn in Hs |- *. intros [E|[]]. intuition lia.
  Qed.
  Lemma cell_parts_notin sep : In sep [58; 9; 10] ->
    Forall (fun t => ~ In sep t)
      [join (s "|") (map (fun c => bit (has c)) (s_copies sl)); w_cov m;
       join (s ",") (map (fun c => if has c then s "*" ++ c_major c else s "-") (s_copies sl));
       join (s ",") (map (fun c => if has c then s "*" ++ c_minor c else s "-") (s_copies sl))].
  Proof.
    intros Hs. destruct Hcl as [_ Hc].
    assert (Hs' : In sep [58; 44; 9; 10]) by (cbn in Hs |- *; intuition).
    assert (S44 : ~ In sep (s ",")) by (cbn in Hs |- *; intros [E|[]]; intuition lia).
    repeat constructor.
    - apply join_notin; [cbn in Hs |- *; intros [E|[]]; intuition lia|].
      apply Forall_forall. intros t Ht. apply in_map_iff in Ht as (c & <- & _). apply bit_notin; cbn in Hs; intuition lia.
    - eapply clean_of_notin; [exact Hcov|exact Hs].
    - apply join_notin; [exact S44|]. apply named_notin; [exact Hs'|]. intros c Hin. apply (Hc c Hin).
    - apply join_notin; [exact S44|]. apply named_notin; [exact Hs'|]. intros c Hin. apply (Hc c Hin).
  Qed.
  Lemma parse_spec_cell : parse_cell (spec_cell m sl) = Some (cell_spec m sl).
  Proof.
    unfold parse_cell, spec_cell. cbv zeta. fold has. change (s ":") with [58].
    rewrite split_join; [|discriminate|apply cell_parts_notin; cbn; auto]. cbv beta iota.
    destruct Hcl as [Hne Hc].
    rewrite <- (map_map (fun c => wmem m (carried c)) bit).
    rewrite parse_bits by (destruct (s_copies sl); [contradiction|discriminate]).
    change (s ",") with [44]. rewrite !split_join.
    - reflexivity.
    - destruct (s_copies sl); [contradiction|discriminate].
    - apply named_notin; [cbn; auto|]. intros c Hin. apply (Hc c Hin).
    - destruct (s_copies sl); [contradiction|discriminate].
    - apply named_notin; [cbn; auto|]. intros c Hin. apply (Hc c Hin).
  Qed.
  Lemma spec_cell_notin sep : In sep [9; 10] -> ~ In sep (spec_cell m sl).
  Proof.
    intros Hs. unfold spec_cell. cbv zeta. fold has. apply join_notin; [cbn in Hs |- *; intros [E|[]]; intuition lia|].
    apply cell_parts_notin. cbn in Hs |- *. intuition.
  Qed.
End Cell.

Definition vrow_spec (g : wgene) (sols : list wsol) (m : wvar) : vrow :=
  let '(pos, ref, alt) := ref_alt Fixed g (wmut m) in
  {| r_pos := pos; r_id := raw_rs m; r_ref := ref; r_alt := alt; r_cells := map (cell_spec m) sols |}.

Lemma names_clean_copies sols : names_clean sols = true -> forall sl, In sl sols -> copies_clean sl.
Proof.
  unfold names_clean. rewrite forallb_forall. intros H sl Hin. apply H in Hin. apply andb_true_iff in Hin as [Hn Hc].
  split; [destruct (s_copies sl); [discriminate|discriminate]|].
  intros c Hc'. rewrite forallb_forall in Hc. apply Hc in Hc'. apply andb_true_iff in Hc'. exact Hc'.
Qed.

Lemma record_line g sols m : clean (wg_chr g) = true -> is_comment (wg_chr g) = false -> names_clean sols = true ->
  record_clean g m = true ->
  let l := join tab (vcf_record fixed g sols m) in
  parse_vrow (split_on 9 l) = Some (vrow_spec g sols m) /\ is_comment l = false /\ ~ In 10 l.
Proof.
  intros Hchr Hco Hn Hm. unfold record_clean in Hm. unfold vcf_record, vrow_spec. cbn [sw_indel fixed].
  destruct (ref_alt Fixed g (wmut m)) as [[pos ref] alt]. rewrite !andb_true_iff in Hm.
  destruct Hm as [[[[[Hr Ha] Hid] Hcov] Hinfo] _].
  assert (Hcells : mapi (vcf_cell fixed sols m) 0 sols = map (spec_cell m) sols).
  { apply mapi_ext_nth. intros i sl Hi. cbn [Nat.add]. apply vcf_ma_mi_exact; auto. }
  rewrite Hcells.
  assert (Hcov' : clean_of [58; 9; 10] (w_cov m) = true) by exact Hcov.
  assert (F : forall sep, In sep [9; 10] ->
            Forall (fun f => ~ In sep f)
              ([wg_chr g; z_str pos; raw_rs m; ref; alt; s "0"; s "PASS";
                s "EFFECT=" ++ vcf_effect m ++ s ";GENE=" ++ wg_name g; s "GT:DP:MA:MI"] ++ map (spec_cell m) sols)).
  { intros sep Hs. assert (K : forall t, clean t = true -> ~ In sep t) by (intros t Ht; eapply clean_of_notin; [exact Ht|exact Hs]).
    apply Forall_app. split.
    - repeat constructor; auto; try (apply memb_notin; cbn in Hs; destruct Hs as [<-|[<-|[]]]; reflexivity).
      apply z_str_notin; cbn in Hs; intuition lia.
    - apply Forall_forall. intros t Ht. apply in_map_iff in Ht as (sl & <- & Hsl).
      apply spec_cell_notin; [exact Hcov'|apply (names_clean_copies sols Hn sl Hsl)|exact Hs]. }
  cbv zeta. split; [|split].
  - unfold tab. rewrite split_join; [|discriminate|apply F; cbn; auto]. cbn [app parse_vrow]. rewrite str_z_str.
    rewrite map_map. rewrite (all_some_map _ (cell_spec m)); [reflexivity|].
    intros sl Hsl. apply parse_spec_cell; [exact Hcov'|apply (names_clean_copies sols Hn sl Hsl)].
  - cbn [app]. rewrite join_cons2. destruct (wg_chr g) as [|ch rest] eqn:Ec; [reflexivity|].
    rewrite is_comment_app by discriminate. exact Hco.
  - apply join_notin; [unfold tab; intros [E|[]]; discriminate|]. apply F. cbn. auto.
Qed.

Lemma meta_comments g : Forall (fun l => is_comment l = true) (vcf_meta g).
Proof. unfold vcf_meta. repeat constructor. Qed.
Lemma filter_none {A} (p : A -> bool) l : Forall (fun x => p x = false) l -> filter p l = [].
Proof. induction 1 as [|x l Hx _ IH]; [reflexivity|]. cbn [filter]. rewrite Hx. exact IH. Qed.

Theorem vcf_parse sample g sols text : vcf_clean sample g sols = true ->
  vcf_file fixed sample g sols = Ok text -> parse_vcf text = Some (map (vrow_spec g sols) (vcf_keys sols)).
Proof.
  unfold vcf_clean. rewrite !andb_true_iff. intros [[[[[Hmeta Hcol] Hchr] Hco] Hn] Hrec] H. apply negb_true_iff in Hco.
  unfold vcf_file in H. destruct (forallb _ sols); [|discriminate].
  apply (f_equal (fun r => match r with Ok t => t | Error _ => [] end)) in H. cbv beta iota in H. subst text.
  assert (R : forall m, In m (vcf_keys sols) ->
              let l := join tab (vcf_record fixed g sols m) in
              parse_vrow (split_on 9 l) = Some (vrow_spec g sols m) /\ is_comment l = false /\ ~ In 10 l).
  { intros m Hm. apply record_line; auto. rewrite forallb_forall in Hrec. apply Hrec. exact Hm. }
  unfold parse_vcf. rewrite text_lines_ok.
  - rewrite !filter_app. rewrite (filter_none _ (vcf_meta g)).
    + cbn [filter app]. change (is_comment (join tab (vcf_colnames sample g sols))) with true. cbn [negb].
      unfold vcf_rows. rewrite map_map. rewrite filter_all.
      * cbn [app]. rewrite map_map. apply all_some_map. intros m Hm. apply (R m Hm).
      * apply Forall_forall. intros l Hl. apply in_map_iff in Hl as (m & <- & Hm). destruct (R m Hm) as (_ & -> & _). reflexivity.
    + eapply Forall_impl; [|apply meta_comments]. cbn. intros l ->. reflexivity.
  - apply Forall_app. split.
    + apply Forall_forall. intros l Hl. rewrite forallb_forall in Hmeta. eapply clean_of_notin; [apply Hmeta; exact Hl|cbn; auto].
    + apply Forall_app. split.
      * constructor; [|constructor]. eapply clean_of_notin; [exact Hcol|cbn; auto].
      * unfold vcf_rows. rewrite map_map. apply Forall_forall. intros l Hl. apply in_map_iff in Hl as (m & <- & Hm). apply (R m Hm).
Qed.

Lemma nth_map_has {A} (f : A -> bool) l i c : nth_error l i = Some c -> nth i (map f l) false = f c.
Proof.
  revert i. induction l as [|a l IH]; intros [|i] H; cbn in H; try discriminate.
  - injection H as ->. reflexivity.
  - cbn [map nth]. apply IH. exact H.
Qed.
Lemma vrow_spec_fields g sols m : op_ok (v_op (w_v m)) = true ->
  mut_of_rec (r_pos (vrow_spec g sols m)) (r_ref (vrow_spec g sols m)) (r_alt (vrow_spec g sols m)) = wmut m /\
  r_cells (vrow_spec g sols m) = map (cell_spec m) sols.
Proof.
  intros Hop. unfold vrow_spec. pose proof (mut_of_rec_inv g (v_pos (w_v m)) (v_op (w_v m)) Hop) as H.
  change (v_pos (w_v m), v_op (w_v m)) with (wmut m) in H.
  destruct (ref_alt Fixed g (wmut m)) as [[pos ref] alt]. cbn [r_pos r_ref r_alt r_cells]. split; [exact H|reflexivity].
Qed.
Lemma in_keys sols sl c y : In sl sols -> In c (s_copies sl) -> In y (c_def c ++ c_added c) ->
  exists m, In m (vcf_keys sols) /\ wmut m = wmut y.
Proof.
  intros Hsl Hc Hy. apply wmem_iff. unfold vcf_keys. rewrite wmem_isort, wmem_dedup. apply wmem_iff. exists y. split; [|reflexivity].
  apply in_flat_map. exists sl. split; [exact Hsl|]. apply in_flat_map. exists c. split; assumption.
Qed.

(* parsing the VCF file back recovers, for every solution column and copy, exactly the variants that copy carries *)
Theorem vcf_roundtrip sample g sols text : vcf_clean sample g sols = true ->
  vcf_file fixed sample g sols = Ok text ->
  exists rows, parse_vcf text = Some rows /\
    forall mi sl ai c, nth_error sols mi = Some sl -> nth_error (s_copies sl) ai = Some c ->
      forall x, In x (recovered rows mi ai) <-> In x (map wmut (carried c)).
Proof.
  intros Hcl H. exists (map (vrow_spec g sols) (vcf_keys sols)). split; [apply (vcf_parse _ _ _ _ Hcl H)|].
  unfold vcf_clean in Hcl. rewrite !andb_true_iff in Hcl. destruct Hcl as [_ Hrec].
  intros mi sl ai c Hsl Hc x. unfold recovered. rewrite in_flat_map. split.
  - intros (r & Hr & Hx). apply in_map_iff in Hr as (m & <- & Hm).
    rewrite forallb_forall in Hrec. pose proof (Hrec m Hm) as Hmc. unfold record_clean in Hmc.
    destruct (ref_alt Fixed g (wmut m)) as [[p0 r0] a0] eqn:Era. rewrite !andb_true_iff in Hmc. destruct Hmc as [_ Hop].
    destruct (vrow_spec_fields g sols m Hop) as [F1 F2]. rewrite F1, F2 in Hx. rewrite (map_nth_error _ _ _ Hsl) in Hx.
    unfold cell_spec in Hx. cbv zeta in Hx. rewrite (nth_map_has _ _ _ _ Hc) in Hx.
    destruct (wmem m (carried c)) eqn:E; [|contradiction]. destruct Hx as [<-|[]].
    apply wmem_iff in E as (y & Hy & Ey). apply in_map_iff. exists y. auto.
  - intros Hin. apply in_map_iff in Hin as (y & <- & Hy).
    assert (Hmem : wmem y (carried c) = true) by (apply wmem_iff; exists y; auto).
    pose proof Hmem as Hmem'. rewrite carried_mem in Hmem'. apply andb_true_iff in Hmem' as [Hd _].
    apply wmem_iff in Hd as (z & Hz & Ez).
    destruct (in_keys sols sl c z (nth_error_In _ _ Hsl) (nth_error_In _ _ Hc) Hz) as (m & Hm & Em).
    exists (vrow_spec g sols m). split; [apply in_map; exact Hm|].
    rewrite forallb_forall in Hrec. pose proof (Hrec m Hm) as Hmc. unfold record_clean in Hmc.
    destruct (ref_alt Fixed g (wmut m)) as [[p0 r0] a0] eqn:Era. rewrite !andb_true_iff in Hmc. destruct Hmc as [_ Hop].
    destruct (vrow_spec_fields g sols m Hop) as [F1 F2]. rewrite F1, F2. rewrite (map_nth_error _ _ _ Hsl).
    unfold cell_spec. cbv zeta. rewrite (nth_map_has _ _ _ _ Hc).
    assert (wmem m (carried c) = true) as -> by (rewrite (wmem_key m y); [exact Hmem|congruence]).
    left. congruence.
Qed.
