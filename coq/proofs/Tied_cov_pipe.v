(* Tied_cov.v — the regenerated decision expressions of /repo (gen/Exprs_cov.v, written by harness/gen_exprs.py from the Python
   AST on every run) are the expressions the hand-written model uses.  Every lemma is an obligation of the tie: when an
   expression of the code changes, the generated file changes with it and the lemma stops compiling even if no sampled input
   tells old and new behaviour apart.  Statements: the model's definition equals the translated expression, for all arguments. *)
From Aldy Require Import Base Consts Pipeline Exprs_cov TieTac.
Import List.
Open Scope Q_scope.

(* coverage.py single_copy as used by the pipeline model *)
Lemma single_copy_pipeline_tied : forall (A : Type) (r : @Pipeline.row A), r_cn r <> 0%Z ->
  (Pipeline.single_copy r == single_copy_val (r_total r) (inZ (r_cn r)))%Q.
Proof.
  intros A r H. unfold Pipeline.single_copy. destruct (Z.eqb_spec (r_cn r) 0) as [E|E]; [contradiction | first [reflexivity | unfold single_copy_val; tie_q]].
Qed.

