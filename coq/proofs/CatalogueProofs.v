(* CatalogueProofs.v — lemmas and theorems about the catalogue model (C09). *)
From Coq Require Import String.
From Aldy Require Import Base Consts NatSort Coord CoordProofs Catalogue.
From Coq Require Import Permutation.
Import List.
Open Scope Z_scope.

Lemma allele_name_example : allele_name (s "CYP2D6*4/5.001") = s "4_5.001".
Proof. vm_compute. reflexivity. Qed.

(* ------------------------------------------------------------------ equality tests reflect equality *)
Lemma mut_eqb_eq a b : mut_eqb a b = true <-> a = b.
Proof. apply mkey_eqb_eq. Qed.
Lemma mset_eqb_eq a : forall b, mset_eqb a b = true <-> a = b.
Proof.
  unfold mset_eqb. induction a as [|x a IH]; intros [|y b]; cbn [length combine forallb Nat.eqb]; split; intros H;
    try reflexivity; try discriminate.
  - apply andb_true_iff in H as [Hl H]. cbn [fst snd] in H. apply andb_true_iff in H as [H1 H2].
    apply mut_eqb_eq in H1. subst y. f_equal. apply IH. rewrite Hl, H2. reflexivity.
  - injection H as -> ->. specialize (IH b). destruct IH as [_ IH]. specialize (IH eq_refl).
    apply andb_true_iff in IH as [Hl Hf]. rewrite Hl. cbn [fst snd andb].
    replace (mut_eqb y y) with true by (symmetry; apply mut_eqb_eq; reflexivity). exact Hf.
Qed.
Lemma gkey_eqb_eq a b : gkey_eqb a b = true <-> a = b.
Proof.
  destruct a as [c1 m1], b as [c2 m2]. unfold gkey_eqb. cbn [fst snd]. split; intros H.
  - apply andb_true_iff in H as [H1 H2]. apply str_eqb_eq' in H1. apply mset_eqb_eq in H2. subst. reflexivity.
  - injection H as -> ->. apply andb_true_iff. split; [apply str_eqb_eq'|apply mset_eqb_eq]; reflexivity.
Qed.
Lemma memb_In {A} (eqb : A -> A -> bool) (Heq : forall a b, eqb a b = true <-> a = b) x l : memb eqb x l = true <-> In x l.
Proof.
  unfold memb. rewrite existsb_exists. split.
  - intros (y & Hin & E). apply Heq in E. subst. exact Hin.
  - intros Hin. exists x. split; [exact Hin|]. apply Heq. reflexivity.
Qed.

(* ------------------------------------------------------------------ grouping in first-seen order (defaultdict(set)[key].add(x)) *)
Section Groups.
  Context {K V X : Type} (eqb : K -> K -> bool) (Heq : forall a b, eqb a b = true <-> a = b).
  Definition members (g : list (K * list V)) : list V := concat (map snd g).

  Lemma gadd_keys_in (k : K) (v : V) (g : list (K * list V)) x : In x (map fst (gadd eqb k v g)) -> x = k \/ In x (map fst g).
  Proof.
    induction g as [|[k' vs] r IH]; cbn [gadd map fst].
    - intros [H|[]]. auto.
    - destruct (eqb k k'); cbn [map fst]; (intros [H|H]; [right; left; exact H|]).
      + right. right. exact H.
      + destruct (IH H) as [->|Hi]; [left; reflexivity|right; right; exact Hi].
  Qed.
  Lemma gadd_keys_nodup (k : K) (v : V) (g : list (K * list V)) : NoDup (map fst g) -> NoDup (map fst (gadd eqb k v g)).
  Proof.
    induction g as [|[k' vs] r IH]; cbn [gadd map fst]; intros H.
    - constructor; [intros []|constructor].
    - apply NoDup_cons_iff in H as [Hn Hr]. destruct (eqb k k') eqn:E; cbn [map fst].
      + constructor; assumption.
      + constructor; [|apply IH, Hr]. intros Hin. apply gadd_keys_in in Hin as [->|Hin]; [|contradiction].
        assert (eqb k k = true) by (apply Heq; reflexivity). congruence.
  Qed.
  Lemma gadd_members (k : K) (v : V) (g : list (K * list V)) : Permutation (members (gadd eqb k v g)) (v :: members g).
  Proof.
    unfold members. induction g as [|[k' vs] r IH]; cbn [gadd map snd concat].
    - cbn. apply Permutation_refl.
    - destruct (eqb k k'); cbn [map snd concat].
      + rewrite <- app_assoc. cbn [app]. apply Permutation_sym, Permutation_middle.
      + eapply Permutation_trans; [apply Permutation_app_head, IH|]. apply Permutation_sym, Permutation_middle.
  Qed.
  Lemma gadd_key_consistent (keyof : V -> K) (k : K) (v : V) (g : list (K * list V)) : keyof v = k ->
    (forall k0 vs x, In (k0, vs) g -> In x vs -> keyof x = k0) ->
    (forall k0 vs x, In (k0, vs) (gadd eqb k v g) -> In x vs -> keyof x = k0).
  Proof.
    intros Hk. induction g as [|[k' vs'] r IH]; intros Hg k0 vs x; cbn [gadd].
    - intros [E|[]] Hx. injection E as <- <-. destruct Hx as [<-|[]]. exact Hk.
    - destruct (eqb k k') eqn:E.
      + apply Heq in E. subst k'. intros [E2|Hin] Hx.
        * injection E2 as <- <-. apply in_app_or in Hx as [Hx|[<-|[]]]; [|exact Hk]. eapply Hg; [left; reflexivity|exact Hx].
        * eapply Hg; [right; exact Hin|exact Hx].
      + intros [E2|Hin] Hx.
        * injection E2 as <- <-. eapply Hg; [left; reflexivity|exact Hx].
        * eapply IH; [|exact Hin|exact Hx]. intros. eapply Hg; [right; eassumption|eassumption].
  Qed.

  (* the loop: for x in l: groups[key x].add(val x) *)
  Variables (key : X -> K) (val : X -> V).
  Definition gfold (l : list X) (g : list (K * list V)) := fold_left (fun g x => gadd eqb (key x) (val x) g) l g.

  Lemma gfold_keys_nodup l : forall g, NoDup (map fst g) -> NoDup (map fst (gfold l g)).
  Proof. induction l as [|x l IH]; intros g H; cbn [gfold fold_left]; [exact H|]. apply IH, gadd_keys_nodup, H. Qed.
  Lemma gfold_members l : forall g, Permutation (members (gfold l g)) (members g ++ map val l).
  Proof.
    induction l as [|x l IH]; intros g; cbn [gfold fold_left map].
    - rewrite app_nil_r. apply Permutation_refl.
    - eapply Permutation_trans; [apply IH|]. eapply Permutation_trans; [apply Permutation_app_tail, gadd_members|].
      cbn [app]. apply Permutation_middle.
  Qed.
  Lemma gfold_key_consistent (keyof : V -> K) l : (forall x, In x l -> keyof (val x) = key x) -> forall g,
    (forall k0 vs v, In (k0, vs) g -> In v vs -> keyof v = k0) ->
    (forall k0 vs v, In (k0, vs) (gfold l g) -> In v vs -> keyof v = k0).
  Proof.
    induction l as [|x l IH]; intros Hl g Hg; cbn [gfold fold_left]; [exact Hg|].
    apply IH; [intros; apply Hl; right; assumption|]. apply gadd_key_consistent; [apply Hl; left; reflexivity|exact Hg].
  Qed.

  (* every element lands in exactly one group; group keys are pairwise different *)
  Theorem group_partition (keyof : V -> K) l : NoDup (map val l) -> (forall x, In x l -> keyof (val x) = key x) ->
    let g := gfold l [] in
    NoDup (map fst g) /\ Permutation (members g) (map val l) /\
    (forall v, In v (map val l) -> exists k vs, In (k, vs) g /\ In v vs) /\
    (forall v k1 vs1 k2 vs2, In (k1, vs1) g -> In v vs1 -> In (k2, vs2) g -> In v vs2 -> k1 = k2 /\ vs1 = vs2).
  Proof.
    intros Hnd Hk g.
    assert (Hkeys : NoDup (map fst g)) by (apply gfold_keys_nodup; constructor).
    assert (Hperm : Permutation (members g) (map val l)) by (apply (gfold_members l [])).
    assert (Hcons : forall k0 vs v, In (k0, vs) g -> In v vs -> keyof v = k0).
    { apply gfold_key_consistent; [exact Hk|]. intros ? ? ? []. }
    split; [exact Hkeys|]. split; [exact Hperm|]. split.
    - intros v Hv. apply (Permutation_in _ (Permutation_sym Hperm)) in Hv. unfold members in Hv.
      apply in_concat in Hv as (vs & Hvs & Hin). apply in_map_iff in Hvs as ([k vs'] & E & Hg). cbn in E. subst vs'.
      exists k, vs. auto.
    - intros v k1 vs1 k2 vs2 H1 V1 H2 V2.
      assert (k1 = k2) by (rewrite <- (Hcons _ _ _ H1 V1), <- (Hcons _ _ _ H2 V2); reflexivity). subst k2. split; [reflexivity|].
      clear - Hkeys H1 H2. induction g as [|[k vs] r IH]; [contradiction|]. cbn [map fst] in Hkeys. apply NoDup_cons_iff in Hkeys as [Hn Hr].
      destruct H1 as [E1|H1], H2 as [E2|H2].
      + congruence.
      + injection E1 as -> ->. exfalso. apply Hn. apply in_map_iff. exists (k1, vs2). auto.
      + injection E2 as -> ->. exfalso. apply Hn. apply in_map_iff. exists (k1, vs1). auto.
      + apply IH; assumption.
  Qed.
End Groups.

(* ------------------------------------------------------------------ duplicate removal: surviving minors have pairwise different variant sets *)
Lemma flat_map_keys_nodup {G} (keyof : G -> list mut) (f : G -> list minorA) gs :
  (forall g x, In x (f g) -> f g = [x] /\ mi_muts x = keyof g) -> NoDup (map keyof gs) ->
  NoDup (map mi_muts (flat_map f gs)).
Proof.
  intros Hf. induction gs as [|g gs IH]; cbn [map flat_map]; intros H; [constructor|].
  apply NoDup_cons_iff in H as [Hn Hr]. rewrite map_app.
  destruct (f g) as [|x fx] eqn:E; cbn [map app]; [apply IH, Hr|].
  destruct (Hf g x) as [E1 E2]; [rewrite E; left; reflexivity|]. rewrite E in E1. injection E1 as ->. cbn [map app].
  constructor; [|apply IH, Hr]. rewrite E2. intros Hin. apply Hn.
  apply in_map_iff in Hin as (y & Ey & Hy). apply in_flat_map in Hy as (g' & Hg' & Hy).
  destruct (Hf g' y Hy) as [_ E3]. apply in_map_iff. exists g'. split; [congruence|exact Hg'].
Qed.

Theorem dedup_minor_distinct a : NoDup (map mi_muts (ma_minors (fst (dedup_major a)))).
Proof.
  unfold dedup_major. cbn [fst ma_minors].
  apply (flat_map_keys_nodup fst).
  - intros g x Hin. destruct (str_min (map mi_name (snd g))) as [mn|]; [|destruct Hin].
    destruct (find (fun x0 => str_eqb (mi_name x0) mn) (snd g)); [|destruct Hin].
    destruct Hin as [<-|[]]. split; reflexivity.
  - unfold group_by. apply (gfold_keys_nodup mset_eqb mset_eqb_eq mi_muts (fun x => x)). constructor.
Qed.
(* ... and the survivor carries the variant set of every minor it replaces; aliases point to a survivor's name *)
Theorem dedup_alias_sound a x y : In (x, y) (snd (dedup_major a)) ->
  exists mx my, In mx (ma_minors a) /\ In my (ma_minors a) /\ mi_name mx = x /\ mi_name my = y /\ mi_muts mx = mi_muts my.
Proof.
  unfold dedup_major. cbn [snd]. intros H. apply in_flat_map in H as ([k ms] & Hg & H). cbn [fst snd] in H.
  destruct (str_min (map mi_name ms)) as [mn|] eqn:Emin; [|destruct H].
  destruct (1 <? length ms)%nat; [|destruct H].
  apply in_flat_map in H as (mx & Hmx & H).
  destruct (negb (str_eqb (mi_name mx) mn) && negb (has_char 35 (mi_name mx))); [|destruct H].
  destruct H as [E|[]]. injection E as <- <-.
  (* consistency of the grouping: every member of group k has variant set k; the group is a sub-list of the minors *)
  pose proof (group_partition mset_eqb mset_eqb_eq mi_muts (fun m : minorA => m) mi_muts (ma_minors a)) as GP.
  assert (Hcons : forall k0 vs v, In (k0, vs) (group_by mset_eqb mi_muts (ma_minors a)) -> In v vs -> mi_muts v = k0 /\ In v (ma_minors a)).
  { intros k0 vs v Hin Hv. split.
    - eapply (gfold_key_consistent mset_eqb mset_eqb_eq mi_muts (fun m : minorA => m) mi_muts (ma_minors a)); eauto. intros ? ? ? [].
    - pose proof (gfold_members mset_eqb mi_muts (fun m : minorA => m) (ma_minors a) []) as P. cbn [members map concat app] in P.
      rewrite map_id in P. eapply Permutation_in; [exact P|]. unfold members. apply in_concat. exists vs. split; [|exact Hv].
      apply in_map_iff. exists (k0, vs). auto. }
  (* the survivor name is the name of a member *)
  assert (Hmn : In mn (map mi_name ms)).
  { clear - Emin. unfold str_min in Emin. destruct (map mi_name ms) as [|z r]; [discriminate|]. injection Emin as <-.
    assert (G : forall r z, In (fold_left (fun m y => if str_ltb y m then y else m) r z) (z :: r)).
    { induction r0 as [|w r0 IH]; intros z0; cbn [fold_left]; [left; reflexivity|].
      destruct (IH (if str_ltb w z0 then w else z0)) as [E|Hin]; [|right; right; exact Hin].
      rewrite <- E. destruct (str_ltb w z0); [right; left|left]; reflexivity. }
    apply G. }
  apply in_map_iff in Hmn as (my & Emy & Hmy).
  destruct (Hcons _ _ _ Hg Hmx) as [K1 I1]. destruct (Hcons _ _ _ Hg Hmy) as [K2 I2].
  exists mx, my. repeat split; auto. congruence.
Qed.

(* ------------------------------------------------------------------ facts about every catalogue the loader returns *)
Ltac inv_match H :=
  match type of H with
  | match ?x with _ => _ end = Some _ => destruct x eqn:?; try discriminate H
  end.

Definition final_of (withp : list (str * majorA)) : list (str * majorA) :=
  map (fun x : str * (majorA * list (str * str)) => (fst x, fst (snd x))) (map (fun kv : str * majorA => (fst kv, dedup_major (snd kv))) withp).
Definition cfgs_of (cfgs' : list (str * cnconf)) (final : list (str * majorA)) : list (str * cnconf) :=
  map (fun kc : str * cnconf =>
         (fst kc, {| cc_cn := cc_cn (snd kc); cc_kind := cc_kind (snd kc);
                     cc_alleles := fold_left (fun l (kv : str * majorA) => if str_eqb (ma_cfg (snd kv)) (fst kc) then set_add (ma_name (snd kv)) l else l) final [] |})) cfgs'.

Lemma load_inv t al db c : load t al db = Some c ->
  exists withp cfgs', cat_alleles c = final_of withp /\
    forallb (fun kv : str * majorA => amem str_eqb (ma_cfg (snd kv)) cfgs') (final_of withp) = true /\
    cat_cfgs c = cfgs_of cfgs' (final_of withp).
Proof.
  intros H. unfold load in H. repeat inv_match H.
  injection H as <-. cbn [cat_alleles cat_cfgs].
  match goal with Hx : negb (forallb _ _) = false |- _ => apply negb_false_iff in Hx end.
  eexists _, _. split; [reflexivity|]. split; [eassumption|reflexivity].
Qed.

Lemma final_of_in withp k a : In (k, a) (final_of withp) -> exists a0, In (k, a0) withp /\ a = fst (dedup_major a0).
Proof.
  unfold final_of. rewrite map_map. intros H. apply in_map_iff in H as ([k0 a0] & E & Hin). cbn [fst snd] in E.
  injection E as <- <-. exists a0. auto.
Qed.

(* minors of one major have pairwise different variant sets — for every catalogue the loader returns *)
Theorem load_minor_distinct t al db c k a : load t al db = Some c -> In (k, a) (cat_alleles c) ->
  NoDup (map mi_muts (ma_minors a)).
Proof.
  intros H Hin. destruct (load_inv _ _ _ _ H) as (withp & cfgs' & E & _ & _). rewrite E in Hin.
  apply final_of_in in Hin as (a0 & _ & ->). apply dedup_minor_distinct.
Qed.

Lemma set_add_in x l : In x (set_add x l).
Proof.
  unfold set_add. destruct (memb str_eqb x l) eqn:E.
  - apply (memb_In str_eqb str_eqb_eq') in E. exact E.
  - apply in_or_app. right. left. reflexivity.
Qed.
Lemma set_add_keep x y l : In y l -> In y (set_add x l).
Proof. unfold set_add. destruct (memb str_eqb x l); intros H; [exact H|apply in_or_app; left; exact H]. Qed.
Lemma back_refs_in (key : str) (final : list (str * majorA)) : forall acc x,
  (In x acc \/ exists kv, In kv final /\ str_eqb (ma_cfg (snd kv)) key = true /\ ma_name (snd kv) = x) ->
  In x (fold_left (fun l (kv : str * majorA) => if str_eqb (ma_cfg (snd kv)) key then set_add (ma_name (snd kv)) l else l) final acc).
Proof.
  induction final as [|kv final IH]; intros acc x H; cbn [fold_left].
  - destruct H as [H|(kv & [] & _)]. exact H.
  - apply IH. destruct H as [H|(kv' & [<-|Hin] & Hc & Hn)].
    + left. destruct (str_eqb (ma_cfg (snd kv)) key); [apply set_add_keep|]; exact H.
    + left. rewrite Hc, <- Hn. apply set_add_in.
    + right. exists kv'. auto.
Qed.
Lemma alookup_cfgs_of key cfgs' final conf0 : alookup str_eqb key cfgs' = Some conf0 ->
  exists k', str_eqb key k' = true /\
    alookup str_eqb key (cfgs_of cfgs' final) =
      Some {| cc_cn := cc_cn conf0; cc_kind := cc_kind conf0;
              cc_alleles := fold_left (fun l (kv : str * majorA) => if str_eqb (ma_cfg (snd kv)) k' then set_add (ma_name (snd kv)) l else l) final [] |}.
Proof.
  unfold cfgs_of. induction cfgs' as [|[k0 c0] r IH]; cbn [alookup map fst snd]; [discriminate|].
  destruct (str_eqb key k0) eqn:E.
  - intros H. injection H as ->. exists k0. auto.
  - exact IH.
Qed.

(* every major's structural configuration exists and lists it *)
Theorem load_config_exists t al db c k a : load t al db = Some c -> In (k, a) (cat_alleles c) ->
  exists conf, alookup str_eqb (ma_cfg a) (cat_cfgs c) = Some conf /\ In (ma_name a) (cc_alleles conf).
Proof.
  intros H Hin. destruct (load_inv _ _ _ _ H) as (withp & cfgs' & E & Hall & Ec). rewrite E in Hin. rewrite Ec.
  rewrite forallb_forall in Hall. specialize (Hall _ Hin). cbn [snd] in Hall. unfold amem in Hall.
  destruct (alookup str_eqb (ma_cfg a) cfgs') as [conf0|] eqn:El; [|discriminate].
  destruct (alookup_cfgs_of _ _ (final_of withp) _ El) as (k' & Ek & ->). eexists. split; [reflexivity|]. cbn [cc_alleles].
  apply back_refs_in. right. exists (k, a). cbn [snd]. auto.
Qed.

(* core / silent split of one database allele (gene.py:709-712, 745) *)
Theorem core_split_partial (muts : list (mkey * minfo9)) (all : list mut) :
  let core := filter (is_functional muts) all in
  (forall x, In x core -> is_functional muts x = true /\ In x all) /\
  (forall x, In x (mset_diff all core) -> is_functional muts x = false /\ In x all) /\
  (forall x, In x all -> In x core \/ In x (mset_diff all core)).
Proof.
  intros core. split; [|split].
  - intros x H. apply filter_In in H. split; apply H.
  - intros x H. unfold mset_diff in H. apply filter_In in H as [Hin Hn]. split; [|exact Hin]. apply negb_true_iff in Hn.
    destruct (is_functional muts x) eqn:E; [|reflexivity]. exfalso.
    assert (Hc : In x core) by (apply filter_In; auto). apply (memb_In mut_eqb mut_eqb_eq) in Hc. congruence.
  - intros x Hin. destruct (is_functional muts x) eqn:E.
    + left. apply filter_In. auto.
    + right. unfold mset_diff. apply filter_In. split; [exact Hin|]. apply negb_true_iff.
      destruct (memb mut_eqb x core) eqn:M; [|reflexivity]. apply (memb_In mut_eqb mut_eqb_eq) in M.
      apply filter_In in M as [_ M]. congruence.
Qed.

(* partial alleles: exactly the parent's variants in regions the fusion retains *)
Definition retained (regs : list (list region)) (cfgs : list (str * cnconf)) (f : str) (m : mut) : bool :=
  match region_at regs (fst m) with
  | Some gr => match cn_at cfgs f gr with Some c => 0 <? c | None => false end
  | None => false
  end.
Theorem preserved_spec regs cfgs f ms x : In x (preserved regs cfgs f ms) <-> In x ms /\ retained regs cfgs f x = true.
Proof. unfold preserved, retained. apply filter_In. Qed.
Theorem partial_content_partial regs cfgs f a m : In m (partial_minors regs cfgs f a) ->
  exists sa, In sa (ma_minors a) /\ mi_name m = f ++ 35 :: mi_name sa /\
             forall x, In x (mi_muts m) <-> In x (mi_muts sa) /\ retained regs cfgs f x = true.
Proof.
  unfold partial_minors. intros H. apply in_map_iff in H as (sa & <- & Hin). exists sa. cbn [mi_name mi_muts].
  split; [exact Hin|]. split; [reflexivity|]. intros x. apply preserved_spec.
Qed.

(* the decidable clause evaluated by the harness is true of every catalogue the model loader returns *)
Corollary load_p_config_exists t al db c : load t al db = Some c -> p_config_exists c = true.
Proof.
  intros H. unfold p_config_exists, majors. apply forallb_forall. intros a Ha. apply in_map_iff in Ha as ([k a'] & E & Hin).
  cbn [snd] in E. subst a'. destruct (load_config_exists _ _ _ _ _ _ H Hin) as (conf & -> & Hm).
  apply (memb_In str_eqb str_eqb_eq'). exact Hm.
Qed.

(* grouping of the database alleles by (structure, core set): names are the values, pairwise different *)
Lemma NoDup_map_inj {A B} (f : A -> B) l x y : NoDup (map f l) -> In x l -> In y l -> f x = f y -> x = y.
Proof.
  induction l as [|z l IH]; cbn [map]; intros Hn Hx Hy E; [contradiction|]. apply NoDup_cons_iff in Hn as [Hz Hn].
  destruct Hx as [->|Hx], Hy as [->|Hy]; auto.
  - exfalso. apply Hz. rewrite E. apply in_map, Hy.
  - exfalso. apply Hz. rewrite <- E. apply in_map, Hx.
Qed.

Theorem allele_groups_partition (keyed : list (gkey * str)) : NoDup (map snd keyed) ->
  let g := fold_left (fun g x => gadd gkey_eqb (fst x) (snd x) g) keyed [] in
  NoDup (map fst g) /\                                                          (* distinct groups <-> distinct (structure, core set) *)
  Permutation (concat (map snd g)) (map snd keyed) /\                           (* nothing lost, nothing duplicated *)
  (forall k n, In (k, n) keyed -> exists ns, In (k, ns) g /\ In n ns) /\      (* an allele lies in the group of ITS key *)
  (forall n k1 ns1 k2 ns2, In (k1, ns1) g -> In n ns1 -> In (k2, ns2) g -> In n ns2 -> k1 = k2 /\ ns1 = ns2).   (* in one group only *)
Proof.
  intros Hnd g.
  set (keyof := fun n : str => match find (fun x : gkey * str => str_eqb (snd x) n) keyed with Some x => fst x | None => ([], []) end).
  assert (Hk : forall x, In x keyed -> keyof (snd x) = fst x).
  { intros x Hx. unfold keyof. destruct (find (fun x0 : gkey * str => str_eqb (snd x0) (snd x)) keyed) as [y|] eqn:E.
    - apply find_some in E as [Hy Ey]. apply str_eqb_eq' in Ey. f_equal. eapply NoDup_map_inj; eauto.
    - exfalso. pose proof (find_none _ _ E _ Hx) as Hn. cbn in Hn.
      assert (str_eqb (snd x) (snd x) = true) by (apply str_eqb_eq'; reflexivity). congruence. }
  destruct (group_partition gkey_eqb gkey_eqb_eq fst snd keyof keyed Hnd Hk) as (G1 & G2 & G3 & G4).
  split; [exact G1|]. split; [exact G2|]. split; [|exact G4].
  intros k n Hin. destruct (G3 n) as (k' & ns & Hg & Hn); [apply in_map_iff; exists (k, n); auto|].
  exists ns. split; [|exact Hn].
  assert (k' = k); [|subst; exact Hg].
  pose proof (gfold_key_consistent gkey_eqb gkey_eqb_eq fst snd keyof keyed Hk []) as Hc.
  rewrite <- (Hc (fun _ _ _ F => match F with end) _ _ _ Hg Hn). apply (Hk (k, n) Hin).
Qed.
