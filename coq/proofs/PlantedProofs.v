(* PlantedProofs.v — C01 inside the concrete stage models: on noise-free evidence the planted combination IS reported.
   Major stage: if the filtered evidence shows every observed core variant and every reference site with exactly the planted
   number of copies (MajorSpec.planted_ok, decidable; evaluated by the harness on every planted case), then what
   model.solutions(gap) yields on the ILP of solve_major_model contains the planted multiset of major alleles, with score 0 and
   nothing novel - relative to the solver contract of C05.  (Minor stage: C04_minor_noise_free.) *)
From Coq Require Import QArith Qabs Lqa Lia List Bool.
From Aldy Require Import Base Consts Lp Enum Filter MajorModel MajorSpec FilterProofs MajorProofs LpProofs EnumProofs MajorEnumProofs.
Import ListNotations.
Open Scope Z_scope.

Theorem major_reports_planted (c : consts) (I : inst) (counts : list (str * Z)) (solve : Z -> lp -> sres) (r : list yield) :
  consts_wf c = true -> inst_wf I = true -> (0 <= i_major_novel I)%Q -> (0 <= i_gap I)%Q ->
  (forall cuts, cuts_ok (gen c I) cuts -> solver_ok solve (with_cuts (gen c I) cuts)) ->
  (forall cuts it, cuts_ok (gen c I) cuts -> solve it (with_cuts (gen c I) cuts) <> NotOptimal) ->
  forallb (fun b : bool => b) (planted_ok c I counts) = true ->
  solutions c solve (i_gap I) None (gen c I) = Some r ->
  exists y, In y r /\
    (forall al, In al (candidates I) -> zcount (i_struct I) (asg_of (y_point y)) al = count_z counts al) /\
    (y_obj y == 0)%Q /\
    (forall y', In y' r -> (0 <= y_obj y')%Q).
Proof.
  intros Hc W Hn Hg K A P R.
  destruct (major_noise_free c I W counts P) as (Adm & S0 & _).
  assert (NN : forall counts' novel', admissible (candidates I) (i_struct I) (func_muts I) counts' novel' = true ->
               (0 <= score (candidates I) (func_muts I) (obs_cn I) (hascov I) (i_major_novel I) (c_major_novel_unit c) (cnt_of counts') (nov_of novel'))%Q).
  { intros counts' novel' adm'.
    pose proof (canon_feasible (candidates I) (i_struct I) (func_muts I) (obs_cn I) (hascov I) (i_major_novel I) (c_major_novel_unit c)
                  counts' novel' adm' (cand_in_struct I) (fm_no_ref I W)) as F.
    pose proof (canon_objective (candidates I) (i_struct I) (func_muts I) (obs_cn I) (hascov I) (i_major_novel I) (c_major_novel_unit c)
                  counts' novel' adm' (cand_in_struct I) (fm_no_ref I W)) as O.
    pose proof (major_objective_nonneg c I _ Hc Hn F) as N. rewrite O in N. exact N. }
  destruct (reported_complete c I W solve K A Hg r R counts [] Adm) as (y & Hy & Cy & Oy).
  { intros counts' novel' adm'. rewrite S0. pose proof (NN counts' novel' adm').
    assert (0 <= (1 + i_gap I) * score (candidates I) (func_muts I) (obs_cn I) (hascov I) (i_major_novel I) (c_major_novel_unit c) (cnt_of counts') (nov_of novel'))%Q
      by (apply Qmult_le_0_compat; lra). lra. }
  exists y. split; [exact Hy|]. split; [exact Cy|]. split; [rewrite Oy; exact S0|].
  intros y' Hy'. destruct (reported_sound c I W solve K r R y' Hy') as (_ & adm' & O'). rewrite O'. apply NN. exact adm'.
Qed.
