(* MajorEnumProofs.v — composition of the major-stage theorems (MajorProofs.v) with the enumeration loop of
   lpinterface.solutions (Enum.v / EnumProofs.v, property C05): what `model.solutions(gap)` yields on the ILP of
   solve_major_model is exactly the set of admissible combinations within the gap, each once, each with its score.
   Relative to the solver contract [solver_ok] of C05 (section hypothesis, never an axiom). *)
From Coq Require Import QArith Qabs Lqa Lia List Bool Arith.
From Aldy Require Import Base Consts Lp Enum Filter MajorModel MajorSpec FilterProofs MajorProofs LpProofs EnumProofs.
Import ListNotations.
Open Scope Z_scope.

(* ---------- every yield is optimal in the model with the cuts in force when it was found ---------- *)
Section YieldOpt.
  Variable solve : Z -> lp -> sres.
  Variables eps gap : Q.
  Variable limit : option Z.
  Variable m : lp.
  Hypothesis contract : forall cuts, cuts_ok m cuts -> solver_ok solve (with_cuts m cuts).

  Definition opt_at (y : yield) : Prop :=
    exists cuts, cuts_ok m cuts /\ feasible (with_cuts m cuts) (asg_of (y_point y)) /\
                 (y_obj y == objective m (asg_of (y_point y)))%Q /\ y_active y = active m (asg_of (y_point y)) /\
                 forall a, feasible (with_cuts m cuts) a -> (y_obj y <= objective m a)%Q.

  Lemma sols_opt : forall fuel iter best cuts r, cuts_ok m cuts ->
    sols solve eps gap limit m fuel iter best cuts = Some r -> Forall opt_at r.
  Proof.
    induction fuel as [|f IH]; intros iter best cuts r Hc H; [discriminate|].
    cbn [sols] in H. destruct (solve iter (with_cuts m cuts)) as [|o p|] eqn:Hs; try (injection H as <-; constructor).
    destruct (stop eps o _) eqn:Hst; [injection H as <-; constructor|].
    destruct (proj2 (contract cuts Hc iter) o p Hs) as (Hf & Ho & Hopt).
    assert (Hy : opt_at {| y_obj := o; y_active := active m (asg_of p); y_point := p |}).
    { exists cuts. cbn [y_obj y_active y_point]. split; [exact Hc|]. split; [exact Hf|]. split; [exact Ho|]. split; [reflexivity|]. exact Hopt. }
    destruct (more limit iter).
    - destruct (sols solve eps gap limit m f _ _ _) as [r'|] eqn:Hr; [|discriminate]. injection H as <-.
      constructor; [exact Hy|]. apply (IH _ _ _ _ (cuts_ok_cons m (asg_of p) cuts Hc) Hr).
    - injection H as <-. constructor; [exact Hy | constructor].
  Qed.
End YieldOpt.

Lemma zle_sum_eq (l : list allele) (f g : allele -> Z) :
  (forall x, In x l -> f x <= g x) -> zsum (map f l) = zsum (map g l) -> forall x, In x l -> f x = g x.
Proof.
  unfold zsum. induction l as [|y l IH]; intros Hle Hs x Hx; [destruct Hx|].
  cbn [map fold_right] in Hs.
  assert (Hl : fold_right Z.add 0 (map f l) <= fold_right Z.add 0 (map g l)).
  { clear IH Hs Hx. induction l as [|z l IHl]; cbn [map fold_right]; [lia|].
    pose proof (Hle z (or_intror (or_introl eq_refl))). assert (fold_right Z.add 0 (map f l) <= fold_right Z.add 0 (map g l)).
    { apply IHl. intros w [-> | Hw]; apply Hle; [left; reflexivity | right; right; exact Hw]. }
    lia. }
  pose proof (Hle y (or_introl eq_refl)) as Hy.
  destruct Hx as [-> | Hx]; [lia|]. apply IH; [intros w Hw; apply Hle; right; exact Hw | lia | exact Hx].
Qed.

Section Reported.
  Variables (c : consts) (I : inst).
  Hypothesis Hc : consts_wf c = true.
  Hypothesis wf : inst_wf I = true.
  Variable solve : Z -> lp -> sres.
  Notation m := (gen c I).
  Notation cands := (candidates I).
  Notation fm := (func_muts I).
  Notation struct := (i_struct I).
  Notation SC := (score cands fm (obs_cn I) (hascov I) (i_major_novel I) (c_major_novel_unit c)).
  Hypothesis contract : forall cuts, cuts_ok m cuts -> solver_ok solve (with_cuts m cuts).
  Hypothesis answers : forall cuts it, cuts_ok m cuts -> solve it (with_cuts m cuts) <> NotOptimal.
  Hypothesis gap_nonneg : (0 <= i_gap I)%Q.
  Variable r : list yield.
  Hypothesis run_r : solutions c solve (i_gap I) None m = Some r.      (* model.solutions(profile.gap) *)

  Notation pt y := (asg_of (y_point y)).
  Notation counts_y y := (counts_of_asg cands struct (pt y)).
  Notation novel_y y := (novel_of_asg fm (pt y)).

  (* the canonical point of the combination of a feasible point has the same active set *)
  Lemma canon_same_active a : feasible m a ->
    let a' := canon cands fm (obs_cn I) (hascov I) (counts_of_asg cands struct a) (novel_of_asg fm a) in
    feasible m a' /\ active m a' = active m a /\
    (objective m a' == SC (cnt_of (counts_of_asg cands struct a)) (nov_of (novel_of_asg fm a)))%Q.
  Proof.
    intros Fa a'. destruct (major_feasible_admissible c I wf a Fa) as [adm _].
    pose proof (canon_feasible cands struct fm (obs_cn I) (hascov I) (i_major_novel I) (c_major_novel_unit c) _ _ adm
                  (cand_in_struct I) (fm_no_ref I wf)) as F'.
    split; [exact F'|]. split.
    - apply (active_determined cands struct fm (obs_cn I) (hascov I) (i_major_novel I) (c_major_novel_unit c) a' a F' Fa).
      intros al Hal.
      (* counts of the canonical point = counts it was built from *)
      pose proof (canon_counts cands struct fm (obs_cn I) (hascov I) _ _ adm (cand_in_struct I) al Hal) as E1.
      pose proof (copy_sum_count cands struct fm (obs_cn I) (hascov I) (i_major_novel I) (c_major_novel_unit c) a' F' al Hal) as E2.
      unfold cnt_of in E1. rewrite (count_z_asg cands struct a (cand_names_nodup I wf) al Hal) in E1.
      unfold a' in *. unfold inZ in *. apply inject_Z_injective. lra.
    - apply (canon_objective cands struct fm (obs_cn I) (hascov I) (i_major_novel I) (c_major_novel_unit c) _ _ adm
               (cand_in_struct I) (fm_no_ref I wf)).
  Qed.

  (* ---- 1. every reported combination is admissible and its reported score is exactly the score of that combination ---- *)
  Theorem reported_sound y : In y r ->
    feasible m (pt y) /\ admissible cands struct fm (counts_y y) (novel_y y) = true /\
    (y_obj y == SC (cnt_of (counts_y y)) (nov_of (novel_y y)))%Q.
  Proof.
    intros Hy. unfold solutions in run_r.
    pose proof (sols_opt solve (c_solver_precision c) (i_gap I) None m contract _ _ _ _ _ (cuts_ok_nil m) run_r) as O.
    rewrite Forall_forall in O. destruct (O y Hy) as (cuts & Hcuts & Hf & Ho & _ & Hopt).
    apply feas_with_cuts in Hf. destruct Hf as [Hf Hsat].
    destruct (major_feasible_admissible c I wf (pt y) Hf) as [adm Hle].
    split; [exact Hf|]. split; [exact adm|].
    destruct (canon_same_active (pt y) Hf) as (F' & A' & O').
    set (a' := canon cands fm (obs_cn I) (hascov I) (counts_y y) (novel_y y)) in *.
    assert (Fc : feasible (with_cuts m cuts) a').
    { apply feas_with_cuts. split; [exact F'|]. rewrite Forall_forall in *. intros cut Hcut.
      pose proof (cuts_ok_incl m cuts cut Hcuts Hcut) as Hi.
      apply (cut_row_active m a' cut F' Hi). rewrite A'. apply (cut_row_active m (pt y) cut Hf Hi). apply Hsat. exact Hcut. }
    specialize (Hopt a' Fc). rewrite O' in Hopt. rewrite Ho in *. lra.
  Qed.

  (* ---- 2. no combination is reported twice ---- *)
  Theorem reported_once : forall y1 y2, In y1 r -> In y2 r ->
    (forall al, In al cands -> zcount struct (pt y1) al = zcount struct (pt y2) al) -> y_active y1 = y_active y2.
  Proof.
    intros y1 y2 H1 H2 Hsame.
    pose proof (solutions_sound c solve (i_gap I) None m contract r run_r) as S. rewrite Forall_forall in S.
    destruct (S y1 H1) as (F1 & _ & A1). destruct (S y2 H2) as (F2 & _ & A2). rewrite A1, A2.
    apply (active_determined cands struct fm (obs_cn I) (hascov I) (i_major_novel I) (c_major_novel_unit c) _ _ F1 F2 Hsame).
  Qed.
  Theorem reported_nodup : NoDup (map y_active r).
  Proof. exact (solutions_nodup c solve (i_gap I) None m contract r run_r). Qed.

  (* ---- 3. optimal: the first reported score is the minimum over all admissible combinations;
             everything reported is below (1+gap)*best + SOLVER_PRECISON ---- *)
  Theorem reported_first_optimal y rest counts novel : r = y :: rest ->
    admissible cands struct fm counts novel = true -> (y_obj y <= SC (cnt_of counts) (nov_of novel))%Q.
  Proof.
    intros E adm. rewrite E in run_r.
    destruct (solutions_first_optimal c solve (i_gap I) None m contract y rest run_r) as [_ Hopt].
    destruct (major_admissible_feasible c I wf counts novel adm) as (a & Fa & _ & _ & Oa).
    specialize (Hopt a Fa). rewrite Oa in Hopt. exact Hopt.
  Qed.
  Theorem reported_within_gap y rest : r = y :: rest ->
    Forall (fun y' => (y_obj y' < (1 + i_gap I) * y_obj y + c_solver_precision c)%Q) r.
  Proof. intros E. rewrite E in *. exact (solutions_within_gap c Hc solve (i_gap I) None m y rest run_r). Qed.

  (* ---- 4. complete: every admissible combination whose score is within (1+gap) of every admissible score is reported ---- *)
  Theorem reported_complete counts novel :
    admissible cands struct fm counts novel = true ->
    (forall counts' novel', admissible cands struct fm counts' novel' = true ->
       (SC (cnt_of counts) (nov_of novel) <= (1 + i_gap I) * SC (cnt_of counts') (nov_of novel'))%Q) ->
    exists y, In y r /\ (forall al, In al cands -> zcount struct (pt y) al = count_z counts al) /\
              (y_obj y == SC (cnt_of counts) (nov_of novel))%Q.
  Proof.
    intros adm Hgap.
    pose proof (canon_feasible cands struct fm (obs_cn I) (hascov I) (i_major_novel I) (c_major_novel_unit c) counts novel adm
                  (cand_in_struct I) (fm_no_ref I wf)) as F.
    pose proof (canon_objective cands struct fm (obs_cn I) (hascov I) (i_major_novel I) (c_major_novel_unit c) counts novel adm
                  (cand_in_struct I) (fm_no_ref I wf)) as O.
    set (a := canon cands fm (obs_cn I) (hascov I) counts novel) in *.
    assert (Hg : forall a', feasible m a' -> (objective m a <= (1 + i_gap I) * objective m a')%Q).
    { intros a' F'. destruct (major_feasible_admissible c I wf a' F') as [adm' Hle'].
      specialize (Hgap _ _ adm'). rewrite O.
      set (s' := SC (cnt_of (counts_of_asg cands struct a')) (nov_of (novel_of_asg fm a'))) in *.
      set (s := SC (cnt_of counts) (nov_of novel)) in *. set (o' := objective m a') in *. nra. }
    destruct (solutions_complete c solve (i_gap I) None m contract (or_introl eq_refl) answers r run_r a F Hg)
      as (y & Hy & Hsub & Hobj).
    pose proof (solutions_sound c solve (i_gap I) None m contract r run_r) as S. rewrite Forall_forall in S.
    destruct (S y Hy) as (Fy & Oy & Ay).
    (* counts: selected copies of y are selected in a, and the per-configuration totals agree *)
    assert (Zc : forall al, In al cands -> zcount struct a al = count_z counts al).
    { intros al Hal.
      pose proof (canon_counts cands struct fm (obs_cn I) (hascov I) counts novel adm (cand_in_struct I) al Hal) as E1.
      pose proof (copy_sum_count cands struct fm (obs_cn I) (hascov I) (i_major_novel I) (c_major_novel_unit c) a F al Hal) as E2.
      unfold cnt_of in E1. unfold a in *. unfold inZ in *. apply inject_Z_injective. lra. }
    assert (Hle : forall al, In al cands -> zcount struct (pt y) al <= zcount struct a al).
    { intros al Hal. unfold zcount. apply inj_le.
      assert (Himp : forall j, In j (seq 0 (ncopies struct al)) ->
                Qeqb (pt y (kA (a_name al) (Z.of_nat j))) 1 = true -> Qeqb (a (kA (a_name al) (Z.of_nat j))) 1 = true).
      { intros j Hj E. apply in_seq in Hj.
        assert (Hb : In (kA (a_name al) (Z.of_nat j)) (binaries m)).
        { unfold binaries. apply in_map_iff. exists (kA (a_name al) (Z.of_nat j), KBin). split; [reflexivity|].
          apply filter_In. split; [|reflexivity]. cbn [lp_vars gen gen_core]. unfold vars. apply in_or_app. left.
          apply in_map_iff. exists (al, Z.of_nat j). split; [reflexivity|]. apply in_sels; [exact Hal | lia]. }
        assert (Hin : In (kA (a_name al) (Z.of_nat j)) (active m (pt y))).
        { apply active_in. split; [exact Hb|]. apply Qeqb_eq. exact E. }
        rewrite <- Ay in Hin. apply ksubset_incl in Hsub. apply Hsub in Hin. apply active_in in Hin as [_ Hin].
        apply Qeqb_eq. exact Hin. }
      clear -Himp. induction (seq 0 (ncopies struct al)) as [|j l IH]; cbn [filter length]; [lia|].
      assert (IH' : (length (filter (fun j0 => Qeqb (pt y (kA (a_name al) (Z.of_nat j0))) 1) l) <=
                     length (filter (fun j0 => Qeqb (a (kA (a_name al) (Z.of_nat j0))) 1) l))%nat).
      { apply IH. intros j0 Hj0. apply Himp. right. exact Hj0. }
      destruct (Qeqb (pt y (kA (a_name al) (Z.of_nat j))) 1) eqn:E.
      - rewrite (Himp j (or_introl eq_refl) E). cbn [length]. lia.
      - destruct (Qeqb (a (kA (a_name al) (Z.of_nat j))) 1); cbn [length]; lia. }
    assert (Heq : forall al, In al cands -> zcount struct (pt y) al = zcount struct a al).
    { intros al Hal.
      pose proof (cand_in_struct I al Hal) as Hs. apply amem_keys in Hs.
      destruct (In_keys_lookup (a_cfg al) struct Hs) as (n & _ & Hn).
      destruct (major_feasible_admissible c I wf (pt y) Fy) as [admy _].
      destruct (major_feasible_admissible c I wf a F) as [adma _].
      pose proof (adm_cfg cands struct fm _ _ admy (a_cfg al) n Hn) as Sy.
      pose proof (adm_cfg cands struct fm _ _ adma (a_cfg al) n Hn) as Sa.
      unfold cfg_count in Sy, Sa.
      assert (Ey : map (count_z (counts_of_asg cands struct (pt y))) (filter (fun x => str_eqb (a_cfg x) (a_cfg al)) cands) =
                   map (zcount struct (pt y)) (filter (fun x => str_eqb (a_cfg x) (a_cfg al)) cands)).
      { apply map_ext_in. intros x Hx. apply filter_In in Hx as [Hx _]. apply (count_z_asg cands struct (pt y) (cand_names_nodup I wf) x Hx). }
      assert (Ea : map (count_z (counts_of_asg cands struct a)) (filter (fun x => str_eqb (a_cfg x) (a_cfg al)) cands) =
                   map (zcount struct a) (filter (fun x => str_eqb (a_cfg x) (a_cfg al)) cands)).
      { apply map_ext_in. intros x Hx. apply filter_In in Hx as [Hx _]. apply (count_z_asg cands struct a (cand_names_nodup I wf) x Hx). }
      rewrite Ey in Sy. rewrite Ea in Sa.
      apply (zle_sum_eq (filter (fun x => str_eqb (a_cfg x) (a_cfg al)) cands) (zcount struct (pt y)) (zcount struct a)).
      - intros x Hx. apply filter_In in Hx as [Hx _]. apply Hle. exact Hx.
      - rewrite Sy, Sa. reflexivity.
      - apply filter_In. split; [exact Hal | apply seqb_refl]. }
    exists y. split; [exact Hy|]. split; [intros al Hal; rewrite (Heq al Hal); apply Zc; exact Hal|].
    (* score: same counts => same active set => same combination; use reported_sound and the bound *)
    destruct (reported_sound y Hy) as (_ & admy & Sy).
    assert (Hobj' : (y_obj y <= SC (cnt_of counts) (nov_of novel))%Q) by (rewrite <- O; exact Hobj).
    (* lower bound: y's own score equals the score of (counts, novel) because the binaries agree *)
    assert (Eq : (SC (cnt_of (counts_y y)) (nov_of (novel_y y)) == SC (cnt_of counts) (nov_of novel))%Q).
    { apply score_ext.
      - intros al Hal. unfold cnt_of. rewrite (count_z_asg cands struct (pt y) (cand_names_nodup I wf) al Hal), (Heq al Hal), (Zc al Hal). reflexivity.
      - intros mm Hm. unfold nov_of. rewrite (memb_novel_asg fm (pt y) mm Hm).
        assert (Bk : (pt y (kN mm) == a (kN mm))%Q).
        { apply (binaries_determined cands struct fm (obs_cn I) (hascov I) (i_major_novel I) (c_major_novel_unit c) (pt y) a Fy F Heq).
          unfold binaries. apply in_map_iff. exists (kN mm, KBin). split; [reflexivity|]. apply filter_In. split; [|reflexivity].
          cbn [lp_vars gen gen_core]. unfold vars. do 2 (apply in_or_app; right). apply in_or_app. left.
          apply in_map_iff. exists mm. split; [reflexivity | exact Hm]. }
        rewrite (Qeqb_compat _ _ 1 Bk). unfold a. rewrite canon_N. unfold nov_of.
        destruct (memb mut_eqb mm novel); reflexivity. }
    rewrite Sy. exact Eq.
  Qed.
End Reported.
