(* MinorProofs.v — theorems about the minor-stage ILP (C04).
   Every fact about a feasible point is obtained from membership of a row in the rows of the ONE generator
   MinorModel.gen (the same term the structural tie compares with the LP aldy hands to CBC), for arbitrary numbers
   of candidate alleles, variants, sites, copies and read modes. *)
From Aldy Require Import Base Consts Lp MinorModel MinorSpec Consts_here.
From Coq Require Import Lqa Qabs.
Open Scope Q_scope.

(* ------------------------------------------------------------------------------------------ *)
(* sums and linear expressions                                                                 *)
(* ------------------------------------------------------------------------------------------ *)
Lemma qsum_app l1 l2 : qsum (l1 ++ l2) == qsum l1 + qsum l2.
Proof. induction l1 as [|x t IH]; cbn [qsum app]; lra. Qed.

Lemma qsum_map_ext {A} (f g : A -> Q) l : (forall x, In x l -> f x == g x) -> qsum (map f l) == qsum (map g l).
Proof.
  induction l as [|x t IH]; intros H; cbn [map qsum]; [lra|].
  rewrite (H x (or_introl eq_refl)), IH; [lra|]. intros y Hy. apply H. right. exact Hy.
Qed.

Lemma qsum_nonneg {A} (f : A -> Q) l : (forall x, In x l -> 0 <= f x) -> 0 <= qsum (map f l).
Proof.
  induction l as [|x t IH]; intros H; cbn [map qsum]; [lra|].
  assert (0 <= f x) by (apply H; left; reflexivity).
  assert (0 <= qsum (map f t)) by (apply IH; intros y Hy; apply H; right; exact Hy). lra.
Qed.

Lemma qsum_le_each {A} (f : A -> Q) l x : (forall y, In y l -> 0 <= f y) -> In x l -> f x <= qsum (map f l).
Proof.
  induction l as [|y t IH]; intros H Hx; [contradiction|]. cbn [map qsum].
  assert (0 <= f y) by (apply H; left; reflexivity).
  assert (0 <= qsum (map f t)) by (apply qsum_nonneg; intros z Hz; apply H; right; exact Hz).
  destruct Hx as [->|Hx]; [lra|]. assert (f x <= qsum (map f t)) by (apply IH; [intros z Hz; apply H; right; exact Hz|exact Hx]). lra.
Qed.

Lemma qsum_zero_each {A} (f : A -> Q) l : (forall y, In y l -> 0 <= f y) -> qsum (map f l) <= 0 -> forall x, In x l -> f x == 0.
Proof.
  intros H Hs x Hx. assert (f x <= qsum (map f l)) by (apply qsum_le_each; assumption).
  assert (0 <= f x) by (apply H; exact Hx). lra.
Qed.

Lemma qsum_flat_map {A B} (f : B -> Q) (g : A -> list B) l :
  qsum (map f (flat_map g l)) == qsum (map (fun x => qsum (map f (g x))) l).
Proof. induction l as [|x t IH]; cbn [flat_map map qsum]; [lra|]. rewrite map_app, qsum_app, IH. lra. Qed.

Lemma qsum_scale {A} (k : Q) (f : A -> Q) l : qsum (map (fun x => k * f x) l) == k * qsum (map f l).
Proof. induction l as [|x t IH]; cbn [map qsum]; [lra|]. rewrite IH. lra. Qed.

Lemma qsum_plus {A} (f g : A -> Q) l : qsum (map (fun x => f x + g x) l) == qsum (map f l) + qsum (map g l).
Proof. induction l as [|x t IH]; cbn [map qsum]; [lra|]. rewrite IH. lra. Qed.

Lemma qsum_map_map {A B} (f : B -> Q) (g : A -> B) l : qsum (map f (map g l)) = qsum (map (fun x => f (g x)) l).
Proof. rewrite map_map. reflexivity. Qed.

Lemma qsum_filter_split {A} (f : A -> Q) (p : A -> bool) l :
  qsum (map f l) == qsum (map f (filter p l)) + qsum (map f (filter (fun x => negb (p x)) l)).
Proof.
  induction l as [|x t IH]; cbn [filter map qsum]; [lra|].
  destruct (p x); cbn [negb map qsum]; lra.
Qed.

Lemma eval_lin_app a l1 l2 : eval_lin a (l1 ++ l2) == eval_lin a l1 + eval_lin a l2.
Proof. induction l1 as [|[k v] t IH]; cbn [eval_lin app]; lra. Qed.

Lemma eval_sumv a vs : eval_lin a (sumv vs) == qsum (map a vs).
Proof. unfold sumv. induction vs as [|v t IH]; cbn [map eval_lin qsum]; [lra|]. rewrite IH. lra. Qed.

Lemma eval_negv a vs : eval_lin a (negv vs) == - qsum (map a vs).
Proof. unfold negv. induction vs as [|v t IH]; cbn [map eval_lin qsum]; [lra|]. rewrite IH. lra. Qed.

Lemma eval_flat_map {A} a (f : A -> lin) l : eval_lin a (flat_map f l) == qsum (map (fun x => eval_lin a (f x)) l).
Proof. induction l as [|x t IH]; cbn [flat_map map qsum eval_lin]; [lra|]. rewrite eval_lin_app, IH. lra. Qed.

Lemma eval_map {A} a (k : A -> Q) (v : A -> vkey) l :
  eval_lin a (map (fun x => (k x, v x)) l) == qsum (map (fun x => k x * a (v x)) l).
Proof. induction l as [|x t IH]; cbn [map eval_lin qsum]; [lra|]. rewrite IH. lra. Qed.

Lemma bin_range q : is_bin q -> 0 <= q /\ q <= 1.
Proof. intros [H|H]; lra. Qed.

(* ------------------------------------------------------------------------------------------ *)
(* the product helper (lpinterface.prod) is exact on binaries: local lemma for the keep/add selectors *)
(* ------------------------------------------------------------------------------------------ *)
Lemma prod2_exact (a : asg) (r x y : vkey) :
  is_bin (a r) -> is_bin (a x) -> is_bin (a y) ->
  (Forall (sat_row a) (prod_rows r [x; y]) <-> a r == a x * a y).
Proof.
  intros Hr Hx Hy. unfold prod_rows. cbn [map app length].
  rewrite !Forall_cons_iff. unfold sat_row. cbn [r_rel r_lin r_rhs eval_lin].
  assert (K : inject_Z (Z.of_nat 2 - 1) == 1) by reflexivity. rewrite K.
  split.
  - intros (H1 & H2 & H3 & _).
    destruct Hx as [Hx|Hx], Hy as [Hy|Hy], Hr as [Hr|Hr]; rewrite Hx in *; rewrite Hy in *; rewrite Hr in *; lra.
  - intros E.
    destruct Hx as [Hx|Hx], Hy as [Hy|Hy]; rewrite Hx, Hy in E; rewrite Hx, Hy, E; repeat split; try lra; constructor.
Qed.

(* a product with a selector that is below its allele selector is the selector itself *)
Lemma prod_below (a : asg) (r x y : vkey) :
  is_bin (a r) -> is_bin (a x) -> is_bin (a y) -> Forall (sat_row a) (prod_rows r [x; y]) -> a y <= a x -> a r == a y.
Proof.
  intros Hr Hx Hy H L. apply (prod2_exact a r x y Hr Hx Hy) in H.
  destruct Hx as [Hx|Hx], Hy as [Hy|Hy]; rewrite Hx, Hy in *; lra.
Qed.

(* ------------------------------------------------------------------------------------------ *)
(* facts that hold at EVERY feasible point of gen                                              *)
(* ------------------------------------------------------------------------------------------ *)
Section Feasible.
  Variables (c : consts) (i : inst) (x : asg).
  Hypothesis F : feasible (gen c i) x.

  Lemma row_sat r : In r (gen_rows i) -> sat_row x r.
  Proof. destruct F as [_ R]. cbn [gen lp_rows] in R. rewrite Forall_forall in R. apply R. Qed.
  Lemma var_kind k kd : In (k, kd) (gen_vars i) -> in_kind kd (x k).
  Proof. destruct F as [V _]. cbn [gen lp_vars] in V. rewrite Forall_forall in V. intros H. apply (V (k, kd) H). Qed.

  Lemma sat_le l k : In (mkrow l RLe k) (gen_rows i) -> eval_lin x l <= k.
  Proof. intros H. apply row_sat in H. exact H. Qed.
  Lemma sat_ge l k : In (mkrow l RGe k) (gen_rows i) -> k <= eval_lin x l.
  Proof. intros H. apply row_sat in H. exact H. Qed.

  (* ---- kinds of the selector variables ---- *)
  Lemma vA_bin a : In a (insts i) -> is_bin (x (kA a)).
  Proof.
    intros H. apply (var_kind (kA a) KBin). unfold gen_vars. apply in_or_app. left.
    apply (in_map (fun a => (kA a, KBin))). exact H.
  Qed.
  Lemma vK_bin a m : In a (insts i) -> In m (defs i a) -> is_bin (x (kK a m)) /\ is_bin (x (kMK a m)).
  Proof.
    intros Ha Hm. split; apply (var_kind _ KBin); unfold gen_vars; rewrite !in_app_iff; right; left;
      apply in_flat_map; exists a; (split; [exact Ha|]); apply in_flat_map; exists m; (split; [exact Hm|]); cbn [In]; auto.
  Qed.
  Lemma vN_bin a m : In a (insts i) -> In m (news i a) -> is_bin (x (kN a m)) /\ is_bin (x (kMN a m)).
  Proof.
    intros Ha Hm. split; apply (var_kind _ KBin); unfold gen_vars; rewrite !in_app_iff; right; right; left;
      apply in_flat_map; exists a; (split; [exact Ha|]); apply in_flat_map; exists m; (split; [exact Hm|]); cbn [In]; auto.
  Qed.

  Lemma defs_in a m : In m (defs i a) <-> In m (i_muts i) /\ in_def a m = true.
  Proof. unfold defs. apply filter_In. Qed.
  Lemma news_in a m : In m (news i a) <-> In m (i_muts i) /\ has_cov a (m_pos m) = true /\ in_def a m = false.
  Proof.
    unfold news, is_new. rewrite filter_In, andb_true_iff, negb_true_iff. tauto.
  Qed.

  (* ---- rule 1 (CVK / CVN): a variant is kept or added only on a selected allele copy ---- *)
  Theorem keep_used_only a m : In a (insts i) -> In m (defs i a) -> x (kK a m) <= x (kA a).
  Proof.
    intros Ha Hm.
    assert (R : eval_lin x [(1, kK a m); (-1, kA a)] <= 0).
    { apply sat_le. unfold gen_rows. rewrite !in_app_iff. do 6 right. left.
      unfold rows_cvk. apply in_flat_map. exists a. split; [exact Ha|]. apply in_map_iff. exists m. split; [reflexivity|exact Hm]. }
    cbn [eval_lin] in R. lra.
  Qed.
  Theorem add_used_only a m : In a (insts i) -> In m (news i a) -> x (kN a m) <= x (kA a).
  Proof.
    intros Ha Hm.
    assert (R : eval_lin x [(1, kN a m); (-1, kA a)] <= 0).
    { apply sat_le. unfold gen_rows. rewrite !in_app_iff. do 7 right. left.
      unfold rows_cvn. apply in_flat_map. exists a. split; [exact Ha|]. apply in_map_iff. exists m. split; [reflexivity|exact Hm]. }
    cbn [eval_lin] in R. lra.
  Qed.

  (* ---- the products are exact: MUL_K = A * K = K and MUL_N = A * N = N ---- *)
  Lemma prod_rows_K a m : In a (insts i) -> In m (defs i a) -> Forall (sat_row x) (prod_rows (kMK a m) [kA a; kK a m]).
  Proof.
    intros Ha Hm. apply defs_in in Hm as [Hm Hd]. apply Forall_forall. intros r Hr. apply row_sat.
    unfold gen_rows. rewrite !in_app_iff. do 3 right. left.
    unfold rows_prod. apply in_flat_map. exists m. split; [exact Hm|]. apply in_flat_map. exists a. split; [exact Ha|].
    rewrite Hd. exact Hr.
  Qed.
  Lemma prod_rows_N a m : In a (insts i) -> In m (news i a) -> Forall (sat_row x) (prod_rows (kMN a m) [kA a; kN a m]).
  Proof.
    intros Ha Hm. apply news_in in Hm as (Hm & Hc & Hd). apply Forall_forall. intros r Hr. apply row_sat.
    unfold gen_rows. rewrite !in_app_iff. do 3 right. left.
    unfold rows_prod. apply in_flat_map. exists m. split; [exact Hm|]. apply in_flat_map. exists a. split; [exact Ha|].
    rewrite Hd, Hc. exact Hr.
  Qed.
  Theorem keep_product_exact a m : In a (insts i) -> In m (defs i a) ->
    x (kMK a m) == x (kA a) * x (kK a m) /\ x (kMK a m) == x (kK a m).
  Proof.
    intros Ha Hm. destruct (vK_bin a m Ha Hm) as [BK BM]. pose proof (vA_bin a Ha) as BA.
    split.
    - apply (prod2_exact x _ _ _ BM BA BK). apply prod_rows_K; assumption.
    - apply (prod_below x _ (kA a) _ BM BA BK); [apply prod_rows_K; assumption|apply keep_used_only; assumption].
  Qed.
  Theorem add_product_exact a m : In a (insts i) -> In m (news i a) ->
    x (kMN a m) == x (kA a) * x (kN a m) /\ x (kMN a m) == x (kN a m).
  Proof.
    intros Ha Hm. destruct (vN_bin a m Ha Hm) as [BK BM]. pose proof (vA_bin a Ha) as BA.
    split.
    - apply (prod2_exact x _ _ _ BM BA BK). apply prod_rows_N; assumption.
    - apply (prod_below x _ (kA a) _ BM BA BK); [apply prod_rows_N; assumption|apply add_used_only; assumption].
  Qed.

  (* ---- rule 2 (CFUNC): a selected allele copy keeps every functional variant of its definition ---- *)
  Theorem core_kept a m : In a (insts i) -> In m (defs i a) -> m_func m = true -> x (kK a m) == x (kA a).
  Proof.
    intros Ha Hm Hf. pose proof (keep_used_only a m Ha Hm) as L.
    assert (R : 0 <= eval_lin x [(1, kK a m); (-1, kA a)]).
    { apply sat_ge. unfold gen_rows. rewrite !in_app_iff. do 8 right. left.
      unfold rows_cfunc. apply in_flat_map. exists a. split; [exact Ha|]. apply in_map_iff. exists m. split; [reflexivity|].
      apply filter_In. split; assumption. }
    cbn [eval_lin] in R. lra.
  Qed.

  (* ---- rule 3 (CZERO): a variant is not kept where the allele has no gene copy; additions only exist where it has ---- *)
  Theorem keep_needs_copies a m : In a (insts i) -> In m (defs i a) -> has_cov a (m_pos m) = false -> x (kK a m) == 0.
  Proof.
    intros Ha Hm Hc. destruct (vK_bin a m Ha Hm) as [BK _]. apply bin_range in BK.
    assert (R : eval_lin x [(1, kK a m)] <= 0).
    { apply sat_le. unfold gen_rows. rewrite !in_app_iff. do 9 right. left.
      unfold rows_czero. apply in_flat_map. exists a. split; [exact Ha|]. apply in_map_iff. exists m. split; [reflexivity|].
      apply filter_In. split; [exact Hm|]. rewrite Hc. reflexivity. }
    cbn [eval_lin] in R. lra.
  Qed.
  Theorem add_needs_copies a m : In m (news i a) -> has_cov a (m_pos m) = true /\ in_def a m = false.
  Proof. intros H. apply news_in in H. tauto. Qed.

  (* ---- rule 5 (CNOCOV / CMAXCOV / CMINONE) ---- *)
  Lemma mut_keys_in m k : In m (i_muts i) -> In k (mut_keys i m) ->
    exists a, In a (insts i) /\ ((In m (defs i a) /\ k = kMK a m) \/ (In m (news i a) /\ k = kMN a m)).
  Proof.
    intros Hm Hk. unfold mut_keys in Hk. apply in_flat_map in Hk as (a & Ha & Hk). exists a. split; [exact Ha|].
    destruct (in_def a m) eqn:D.
    - destruct Hk as [<-|[]]. left. split; [apply defs_in; auto|reflexivity].
    - destruct (has_cov a (m_pos m)) eqn:C; [|contradiction]. destruct Hk as [<-|[]]. right.
      split; [apply news_in; auto|reflexivity].
  Qed.
  Lemma mut_keys_nonneg m k : In m (i_muts i) -> In k (mut_keys i m) -> 0 <= x k.
  Proof.
    intros Hm Hk. destruct (mut_keys_in m k Hm Hk) as (a & Ha & [[Hd ->]|[Hn ->]]).
    - destruct (vK_bin a m Ha Hd) as [_ B]. apply bin_range in B. tauto.
    - destruct (vN_bin a m Ha Hn) as [_ B]. apply bin_range in B. tauto.
  Qed.
  Lemma mut_keys_K a m : In a (insts i) -> In m (defs i a) -> In (kMK a m) (mut_keys i m).
  Proof.
    intros Ha Hm. apply defs_in in Hm as [_ D]. unfold mut_keys. apply in_flat_map. exists a. split; [exact Ha|].
    rewrite D. left. reflexivity.
  Qed.
  Lemma mut_keys_N a m : In a (insts i) -> In m (news i a) -> In (kMN a m) (mut_keys i m).
  Proof.
    intros Ha Hm. apply news_in in Hm as (_ & C & D). unfold mut_keys. apply in_flat_map. exists a. split; [exact Ha|].
    rewrite D, C. left. reflexivity.
  Qed.
  Lemma cmut_rows m : In m (i_muts i) ->
    forall r, In r (if no_reads m then [mkrow (mut_terms i m) RLe 0] else [mkrow (mut_terms i m) RLe (m_cov m); mkrow (mut_terms i m) RGe 1]) ->
    In r (gen_rows i).
  Proof.
    intros Hm r Hr. unfold gen_rows. rewrite !in_app_iff. do 11 right. left.
    unfold rows_cmut. apply in_flat_map. exists m. split; [exact Hm|exact Hr].
  Qed.

  (* a variant without filtered reads (or without gene copies at its position) is carried by no allele copy *)
  Theorem no_reads_not_kept a m : In a (insts i) -> In m (defs i a) -> no_reads m = true -> x (kK a m) == 0.
  Proof.
    intros Ha Hm Hn. assert (Hm' : In m (i_muts i)) by (apply defs_in in Hm; tauto).
    assert (R : eval_lin x (mut_terms i m) <= 0).
    { apply sat_le. apply (cmut_rows m Hm'). rewrite Hn. left. reflexivity. }
    unfold mut_terms in R. rewrite eval_sumv in R.
    pose proof (qsum_zero_each x (mut_keys i m) (fun k Hk => mut_keys_nonneg m k Hm' Hk) R (kMK a m) (mut_keys_K a m Ha Hm)) as Z.
    destruct (keep_product_exact a m Ha Hm) as [_ E]. rewrite <- E. exact Z.
  Qed.
  Theorem no_reads_not_added a m : In a (insts i) -> In m (news i a) -> no_reads m = true -> x (kN a m) == 0.
  Proof.
    intros Ha Hm Hn. assert (Hm' : In m (i_muts i)) by (apply news_in in Hm; tauto).
    assert (R : eval_lin x (mut_terms i m) <= 0).
    { apply sat_le. apply (cmut_rows m Hm'). rewrite Hn. left. reflexivity. }
    unfold mut_terms in R. rewrite eval_sumv in R.
    pose proof (qsum_zero_each x (mut_keys i m) (fun k Hk => mut_keys_nonneg m k Hm' Hk) R (kMN a m) (mut_keys_N a m Ha Hm)) as Z.
    destruct (add_product_exact a m Ha Hm) as [_ E]. rewrite <- E. exact Z.
  Qed.

  (* number of allele copies carrying a variant, over the keep/add selectors *)
  Lemma carriers_sum m : In m (i_muts i) -> qsum (map x (mut_keys i m)) == carr x i m.
  Proof.
    intros Hm. unfold mut_keys, carr. rewrite qsum_flat_map. apply qsum_map_ext. intros a Ha.
    destruct (in_def a m) eqn:D.
    - cbn [map qsum]. destruct (keep_product_exact a m Ha) as [_ E]; [apply defs_in; auto|]. rewrite E. lra.
    - destruct (has_cov a (m_pos m)) eqn:C; cbn [map qsum]; [|lra].
      destruct (add_product_exact a m Ha) as [_ E]; [apply news_in; auto|]. rewrite E. lra.
  Qed.
  (* every considered variant with filtered reads is carried by at least one allele copy, and by at most as many as it has reads *)
  Theorem supported_is_carried m : In m (i_muts i) -> no_reads m = false -> 1 <= carr x i m /\ carr x i m <= m_cov m.
  Proof.
    intros Hm Hn. rewrite <- (carriers_sum m Hm). rewrite <- eval_sumv. fold (mut_terms i m). split.
    - apply sat_ge. apply (cmut_rows m Hm). rewrite Hn. right. left. reflexivity.
    - apply sat_le. apply (cmut_rows m Hm). rewrite Hn. left. reflexivity.
  Qed.

  (* ---- rule 4 (CSINGLE / CSINGLEFULL): at most one variant per position on an allele copy ---- *)
  Lemma at_pos_in pos l m : In m (at_pos pos l) -> In m l.
  Proof. unfold at_pos. intros H. apply filter_In in H. tauto. Qed.
  Lemma site_keys_bin pos a k : In a (insts i) -> In k (site_mp i pos a ++ site_ma i pos a) -> is_bin (x k).
  Proof.
    intros Ha Hk. apply in_app_or in Hk as [Hk|Hk].
    - unfold site_mp in Hk. apply in_map_iff in Hk as (m & <- & Hm). apply at_pos_in in Hm. apply (vK_bin a m Ha Hm).
    - unfold site_ma in Hk. apply in_map_iff in Hk as (m & <- & Hm). apply at_pos_in in Hm. apply (vN_bin a m Ha Hm).
  Qed.
  Theorem one_per_site_mul a st : In a (insts i) -> In st (i_sites i) ->
    qsum (map x (site_mp i (s_pos st) a ++ site_ma i (s_pos st) a)) <= 1.
  Proof.
    intros Ha Hs. set (mp := site_mp i (s_pos st) a). set (ma := site_ma i (s_pos st) a).
    destruct (1 <? length ma + length mp)%nat eqn:L.
    - rewrite <- eval_sumv. apply sat_le. unfold gen_rows. rewrite !in_app_iff. do 10 right. left.
      unfold rows_csingle. apply in_flat_map. exists st. split; [exact Hs|]. apply in_flat_map. exists a. split; [exact Ha|].
      cbv zeta. fold mp ma. rewrite L. apply in_or_app. right. left. reflexivity.
    - apply Nat.ltb_ge in L.
      assert (B : forall k, In k (mp ++ ma) -> is_bin (x k)) by (intros k Hk; apply (site_keys_bin (s_pos st) a k Ha Hk)).
      assert (Len : (length (mp ++ ma) <= 1)%nat) by (rewrite app_length; lia).
      destruct (mp ++ ma) as [|k [|k2 t]]; cbn [map qsum].
      + lra.
      + assert (Bk : is_bin (x k)) by (apply B; left; reflexivity). apply bin_range in Bk. lra.
      + cbn [length] in Len. lia.
  Qed.
  Theorem one_per_site a st : In a (insts i) -> In st (i_sites i) ->
    qsum (map (fun m => x (kK a m)) (at_pos (s_pos st) (defs i a))) +
    qsum (map (fun m => x (kN a m)) (at_pos (s_pos st) (news i a))) <= 1.
  Proof.
    intros Ha Hs. pose proof (one_per_site_mul a st Ha Hs) as H.
    rewrite map_app, qsum_app in H. unfold site_mp, site_ma in H. rewrite !qsum_map_map in H.
    rewrite (qsum_map_ext (fun m => x (kMK a m)) (fun m => x (kK a m))) in H.
    2:{ intros m Hm. apply at_pos_in in Hm. apply (keep_product_exact a m Ha Hm). }
    rewrite (qsum_map_ext (fun m => x (kMN a m)) (fun m => x (kN a m))) in H.
    2:{ intros m Hm. apply at_pos_in in Hm. apply (add_product_exact a m Ha Hm). }
    exact H.
  Qed.

  (* ---- CCNT / CCNT_OTHER: the selected minors of a called major are as many as its copies; nothing else is selected ---- *)
  Theorem one_per_major mj cnt : In (mj, cnt) (i_majors i) ->
    qsum (map (fun a => x (kA a)) (filter (of_major mj) (insts i))) == inject_Z cnt.
  Proof.
    intros H. rewrite <- qsum_map_map, <- eval_sumv.
    assert (R1 : eval_lin x (sumv (map kA (filter (of_major mj) (insts i)))) <= inject_Z cnt).
    { apply sat_le. unfold gen_rows. rewrite !in_app_iff. right. left. unfold rows_ccnt. apply in_flat_map.
      exists (mj, cnt). split; [exact H|]. left. reflexivity. }
    assert (R2 : inject_Z cnt <= eval_lin x (sumv (map kA (filter (of_major mj) (insts i))))).
    { apply sat_ge. unfold gen_rows. rewrite !in_app_iff. right. left. unfold rows_ccnt. apply in_flat_map.
      exists (mj, cnt). split; [exact H|]. right. left. reflexivity. }
    lra.
  Qed.
End Feasible.

(* ------------------------------------------------------------------------------------------ *)
(* "nothing else is selected": partition of the allele copies by called major                  *)
(* ------------------------------------------------------------------------------------------ *)
Lemma memb_In z l : memb Z.eqb z l = true <-> In z l.
Proof.
  unfold memb. rewrite existsb_exists. split.
  - intros (y & Hy & E). apply Z.eqb_eq in E. subst. exact Hy.
  - intros H. exists z. split; [exact H|apply Z.eqb_refl].
Qed.
Lemma nodupb_NoDup l : nodupb l = true -> NoDup l.
Proof.
  induction l as [|z t IH]; cbn [nodupb]; intros H; [constructor|].
  apply andb_true_iff in H as [H1 H2]. constructor; [|apply IH; exact H2].
  intros Hin. apply memb_In in Hin. rewrite Hin in H1. discriminate.
Qed.
Lemma filter_filter' {A} (p q : A -> bool) l : filter p (filter q l) = filter (fun y => q y && p y) l.
Proof. induction l as [|y t IH]; cbn [filter]; [reflexivity|]. destruct (q y); cbn [filter andb]; [destruct (p y)|]; rewrite IH; reflexivity. Qed.
Lemma inject_Z_zsum l : inject_Z (zsum l) == qsum (map inject_Z l).
Proof. induction l as [|z t IH]; cbn [zsum fold_right map qsum]; [reflexivity|]. fold (zsum t). rewrite inject_Z_plus, IH. reflexivity. Qed.

Definition outside (ms : list (Z * Z)) (a : ainst) : bool := negb (memb Z.eqb (c_major (fst a)) (map fst ms)).

Lemma major_partition (f : ainst -> Q) (ms : list (Z * Z)) : NoDup (map fst ms) -> forall l,
  qsum (map f l) == qsum (map (fun mc => qsum (map f (filter (of_major (fst mc)) l))) ms) + qsum (map f (filter (outside ms) l)).
Proof.
  induction ms as [|[mj cnt] ms IH]; intros ND l.
  - cbn [map qsum]. rewrite (filter_ext (outside []) (fun _ => true)) by reflexivity.
    assert (E : filter (fun _ : ainst => true) l = l) by (induction l as [|y t IHl]; cbn [filter]; [|rewrite IHl]; reflexivity).
    rewrite E. lra.
  - cbn [map fst] in ND. inversion ND as [|? ? Hnot ND']; subst. rewrite (IH ND' l). cbn [map qsum fst].
    rewrite (qsum_filter_split f (of_major mj) (filter (outside ms) l)). rewrite !filter_filter'.
    assert (E1 : filter (fun y => outside ms y && of_major mj y) l = filter (of_major mj) l).
    { apply filter_ext_in. intros a _. unfold outside, of_major. destruct (c_major (fst a) =? mj)%Z eqn:E; [|apply andb_false_r].
      apply Z.eqb_eq in E. rewrite E. destruct (memb Z.eqb mj (map fst ms)) eqn:M; [|reflexivity].
      apply memb_In in M. contradiction. }
    assert (E2 : filter (fun y => outside ms y && negb (of_major mj y)) l = filter (outside ((mj, cnt) :: ms)) l).
    { apply filter_ext. intros a. unfold outside, of_major. cbn [map fst memb existsb]. fold (memb Z.eqb (c_major (fst a)) (map fst ms)).
      destruct (c_major (fst a) =? mj)%Z, (memb Z.eqb (c_major (fst a)) (map fst ms)); reflexivity. }
    rewrite E1, E2. lra.
Qed.

Theorem others_not_selected c i x : feasible (gen c i) x -> NoDup (map fst (i_majors i)) ->
  forall a, In a (insts i) -> ~ In (c_major (fst a)) (map fst (i_majors i)) -> x (kA a) == 0.
Proof.
  intros F ND a Ha Hout.
  set (f := fun a => x (kA a)).
  pose proof (major_partition f (i_majors i) ND (insts i)) as P.
  assert (T : qsum (map f (insts i)) <= inject_Z (total_copies i)).
  { unfold f. rewrite <- qsum_map_map, <- eval_sumv. apply (sat_le c i x F). unfold gen_rows. rewrite !in_app_iff.
    do 2 right. left. left. reflexivity. }
  assert (S : qsum (map (fun mc => qsum (map f (filter (of_major (fst mc)) (insts i)))) (i_majors i)) == inject_Z (total_copies i)).
  { unfold total_copies. rewrite inject_Z_zsum, map_map. apply qsum_map_ext. intros [mj cnt] Hmc. cbn [fst snd].
    apply (one_per_major c i x F mj cnt Hmc). }
  assert (N : forall y, In y (filter (outside (i_majors i)) (insts i)) -> 0 <= f y).
  { intros y Hy. apply filter_In in Hy as [Hy _]. pose proof (vA_bin c i x F y Hy) as B. apply bin_range in B. tauto. }
  assert (R : qsum (map f (filter (outside (i_majors i)) (insts i))) <= 0) by lra.
  apply (qsum_zero_each f _ N R a). apply filter_In. split; [exact Ha|]. unfold outside.
  destruct (memb Z.eqb (c_major (fst a)) (map fst (i_majors i))) eqn:M; [|reflexivity]. apply memb_In in M. contradiction.
Qed.

(* ------------------------------------------------------------------------------------------ *)
(* the objective                                                                               *)
(* ------------------------------------------------------------------------------------------ *)
Lemma Qle_bool_false a b : Qle_bool a b = false -> b < a.
Proof. intros H. apply Qnot_le_lt. intros L. apply Qle_bool_iff in L. congruence. Qed.

Lemma Qabs'_comp p q : p == q -> Qabs' p == Qabs' q.
Proof.
  intros E. unfold Qabs'. destruct (Qle_bool 0 p) eqn:E1, (Qle_bool 0 q) eqn:E2;
    try apply Qle_bool_iff in E1; try apply Qle_bool_iff in E2; try apply Qle_bool_false in E1; try apply Qle_bool_false in E2; lra.
Qed.
Lemma Qabs'_bound v a : 0 <= a + v -> 0 <= a - v -> Qabs' v <= a.
Proof. intros H1 H2. unfold Qabs'. destruct (Qle_bool 0 v); lra. Qed.

Lemma qsum_le_pointwise {A} (f g : A -> Q) l : (forall y, In y l -> f y <= g y) -> qsum (map f l) <= qsum (map g l).
Proof.
  induction l as [|y t IH]; intros H; cbn [map qsum]; [lra|].
  assert (f y <= g y) by (apply H; left; reflexivity).
  assert (qsum (map f t) <= qsum (map g t)) by (apply IH; intros z Hz; apply H; right; exact Hz). lra.
Qed.
Lemma qsum_const {A} (k : Q) (l : list A) : qsum (map (fun _ => k) l) == qlen l * k.
Proof.
  unfold qlen. induction l as [|y t IH]; cbn [map qsum length].
  - change (inject_Z (Z.of_nat 0)) with 0. lra.
  - rewrite IH, Nat2Z.inj_succ. unfold Z.succ. rewrite inject_Z_plus. change (inject_Z 1) with 1. lra.
Qed.
Lemma enumerate_snd {A} k (l : list A) : map snd (enumerate k l) = l.
Proof. revert k. induction l as [|y t IH]; intros k; cbn [enumerate map snd]; [reflexivity|]. rewrite IH. reflexivity. Qed.

Lemma Qmax'_cases a b : (Qmax' a b = b /\ a <= b) \/ (Qmax' a b = a /\ b <= a).
Proof.
  unfold Qmax'. destruct (Qle_bool a b) eqn:E.
  - left. split; [reflexivity|apply Qle_bool_iff; exact E].
  - right. split; [reflexivity|]. apply Qle_bool_false in E. lra.
Qed.
Lemma qmax_list_ge l q : In q l -> q <= qmax_list l.
Proof.
  induction l as [|y t IH]; intros H; [contradiction|]. cbn [qmax_list fold_right]. fold (qmax_list t).
  destruct (Qmax'_cases y (qmax_list t)) as [[-> L]|[-> L]]; destruct H as [->|H]; try lra; specialize (IH H); lra.
Qed.
Lemma qmax_list_attained l : qmax_list l == 0 \/ exists q, In q l /\ qmax_list l == q.
Proof.
  induction l as [|y t IH]; [left; reflexivity|]. cbn [qmax_list fold_right]. fold (qmax_list t).
  destruct (Qmax'_cases y (qmax_list t)) as [[-> L]|[-> L]].
  - destruct IH as [Z|(q & Hq & E)]; [left; exact Z|right; exists q; split; [right; exact Hq|exact E]].
  - right. exists y. split; [left; reflexivity|reflexivity].
Qed.
Lemma qmax_list_nonneg l : 0 <= qmax_list l.
Proof.
  induction l as [|y t IH]; [cbn; lra|]. cbn [qmax_list fold_right]. fold (qmax_list t).
  destruct (Qmax'_cases y (qmax_list t)) as [[-> L]|[-> L]]; lra.
Qed.

(* an OR variable:  b <= sum vs,  b >= v for every v in vs,  all binary  ==>  b = max vs *)
Lemma bin_or_exact (x : asg) (b : Q) (vs : list vkey) :
  is_bin b -> (forall v, In v vs -> is_bin (x v)) -> b <= qsum (map x vs) -> (forall v, In v vs -> x v <= b) ->
  b == qmax_list (map x vs).
Proof.
  intros Bb Bv Hle Hge. pose proof (bin_range b Bb) as Rb.
  destruct (qmax_list_attained (map x vs)) as [Z|(q & Hq & E)].
  - (* every selector is 0 *)
    assert (A0 : forall v, In v vs -> x v == 0).
    { intros v Hv. pose proof (qmax_list_ge (map x vs) (x v) (in_map x vs v Hv)) as G.
      pose proof (bin_range _ (Bv v Hv)). lra. }
    assert (S0 : qsum (map x vs) == 0).
    { rewrite (qsum_map_ext x (fun _ => 0) vs A0). rewrite qsum_const. lra. }
    lra.
  - apply in_map_iff in Hq as (v & <- & Hv). pose proof (Hge v Hv) as G. destruct (Bv v Hv) as [V0|V1].
    + (* the maximum is 0 again *)
      assert (A0 : forall w, In w vs -> x w == 0).
      { intros w Hw. pose proof (qmax_list_ge (map x vs) (x w) (in_map x vs w Hw)) as G'.
        pose proof (bin_range _ (Bv w Hw)). lra. }
      assert (S0 : qsum (map x vs) == 0).
      { rewrite (qsum_map_ext x (fun _ => 0) vs A0). rewrite qsum_const. lra. }
      lra.
    + lra.
Qed.

Section Objective.
  Variables (c : consts) (i : inst) (x : asg).
  Hypothesis F : feasible (gen c i) x.

  (* ---- absolute values ---- *)
  Lemma abs_lower k : In k (err_keys i) -> Qabs' (x k) <= x (abs_key k).
  Proof.
    intros Hk. apply Qabs'_bound.
    - assert (R : 0 <= eval_lin x [(1, abs_key k); (1, k)]).
      { apply (sat_ge c i x F). unfold gen_rows. rewrite !in_app_iff. do 14 right. left.
        unfold abssum_rows. apply in_flat_map. exists k. split; [exact Hk|]. left. reflexivity. }
      cbn [eval_lin] in R. lra.
    - assert (R : 0 <= eval_lin x [(1, abs_key k); (-1, k)]).
      { apply (sat_ge c i x F). unfold gen_rows. rewrite !in_app_iff. do 14 right. left.
        unfold abssum_rows. apply in_flat_map. exists k. split; [exact Hk|]. right. left. reflexivity. }
      cbn [eval_lin] in R. lra.
  Qed.
  Lemma eval_abssum : eval_lin x (abssum_lin (fun _ => 1) (err_keys i)) == qsum (map (fun k => x (abs_key k)) (err_keys i)).
  Proof. unfold abssum_lin. rewrite eval_map. apply qsum_map_ext. intros k _. lra. Qed.

  (* ---- the error variables are determined by the coverage equations ---- *)
  Lemma err_mut m : In m (i_muts i) -> x (kE m) == obs_mut m - carr x i m.
  Proof.
    intros Hm. rewrite <- (carriers_sum c i x F m Hm), <- eval_sumv. fold (mut_terms i m).
    assert (R1 : obs_mut m <= eval_lin x (mut_terms i m ++ [(1, kE m)])).
    { apply (sat_ge c i x F). unfold gen_rows. rewrite !in_app_iff. do 5 right. left. unfold rows_ccov. apply in_or_app. left.
      apply in_flat_map. exists m. split; [exact Hm|]. left. reflexivity. }
    assert (R2 : eval_lin x (mut_terms i m ++ [(1, kE m)]) <= obs_mut m).
    { apply (sat_le c i x F). unfold gen_rows. rewrite !in_app_iff. do 5 right. left. unfold rows_ccov. apply in_or_app. left.
      apply in_flat_map. exists m. split; [exact Hm|]. right. left. reflexivity. }
    rewrite eval_lin_app in R1, R2. cbn [eval_lin] in R1, R2. lra.
  Qed.
  Lemma nonins_in pos l m : In m (nonins_at pos l) -> In m l.
  Proof. unfold nonins_at. intros H. apply filter_In in H. tauto. Qed.
  Lemma eval_ref_terms_a pos a : In a (insts i) -> eval_lin x (ref_terms_a i pos a) == refc_a x i pos a.
  Proof.
    intros Ha. unfold ref_terms_a, refc_a. destruct (has_cov a pos); [|cbn; lra].
    assert (G : eval_lin x ((1, kA a) :: negv (map (kMN a) (nonins_at pos (news i a)))) ==
                x (kA a) - qsum (map (fun m => x (kN a m)) (nonins_at pos (news i a)))).
    { cbn [eval_lin]. rewrite eval_negv, qsum_map_map.
      rewrite (qsum_map_ext (fun m => x (kMN a m)) (fun m => x (kN a m))); [lra|].
      intros m Hm. apply nonins_in in Hm. apply (add_product_exact c i x F a m Ha Hm). }
    destruct (nonins_at pos (defs i a)) as [|p [|q t]] eqn:E; [exact G| |exact G].
    assert (Hp : In p (defs i a)) by (apply (nonins_in pos); rewrite E; left; reflexivity).
    cbn [eval_lin]. destruct (keep_product_exact c i x F a p Ha Hp) as [_ K]. rewrite K. lra.
  Qed.
  Lemma err_site st : In st (i_sites i) -> x (kR st) == obs_site st - refc x i (s_pos st).
  Proof.
    intros Hs.
    assert (E : eval_lin x (ref_terms i (s_pos st)) == refc x i (s_pos st)).
    { unfold ref_terms, refc. rewrite eval_flat_map. apply qsum_map_ext. intros a Ha. apply eval_ref_terms_a. exact Ha. }
    assert (R1 : obs_site st <= eval_lin x (ref_terms i (s_pos st) ++ [(1, kR st)])).
    { apply (sat_ge c i x F). unfold gen_rows. rewrite !in_app_iff. do 5 right. left. unfold rows_ccov. apply in_or_app. right.
      apply in_flat_map. exists st. split; [exact Hs|]. left. reflexivity. }
    assert (R2 : eval_lin x (ref_terms i (s_pos st) ++ [(1, kR st)]) <= obs_site st).
    { apply (sat_le c i x F). unfold gen_rows. rewrite !in_app_iff. do 5 right. left. unfold rows_ccov. apply in_or_app. right.
      apply in_flat_map. exists st. split; [exact Hs|]. right. left. reflexivity. }
    rewrite eval_lin_app in R1, R2. cbn [eval_lin] in R1, R2. lra.
  Qed.
  Lemma fit_is_abs_errors : qsum (map (fun k => Qabs' (x k)) (err_keys i)) == pt_fit x i.
  Proof.
    unfold err_keys, pt_fit. rewrite map_app, qsum_app, !qsum_map_map.
    rewrite (qsum_map_ext (fun m => Qabs' (x (kE m))) (fun m => Qabs' (obs_mut m - carr x i m))).
    2:{ intros m Hm. apply Qabs'_comp. apply err_mut. exact Hm. }
    rewrite (qsum_map_ext (fun s => Qabs' (x (kR s))) (fun s => Qabs' (obs_site s - refc x i (s_pos s)))).
    2:{ intros s Hs. apply Qabs'_comp. apply err_site. exact Hs. }
    reflexivity.
  Qed.

  (* ---- dropped variants ---- *)
  Lemma eval_miss : eval_lin x (miss_lin i) == i_miss i * pt_dropped x i.
  Proof.
    unfold miss_lin, pt_dropped. rewrite eval_lin_app, eval_map, eval_flat_map. rewrite <- qsum_plus, <- qsum_scale.
    apply qsum_map_ext. intros a Ha. rewrite eval_map.
    rewrite (qsum_map_ext (fun m => - i_miss i * x (kMK a m)) (fun m => - i_miss i * x (kK a m))).
    2:{ intros m Hm. destruct (keep_product_exact c i x F a m Ha Hm) as [_ K]. rewrite K. reflexivity. }
    rewrite qsum_scale.
    assert (E : qsum (map (fun m => x (kA a) - x (kK a m)) (defs i a)) ==
                qlen (defs i a) * x (kA a) - qsum (map (fun m => x (kK a m)) (defs i a))).
    { rewrite <- (qsum_const (x (kA a)) (defs i a)).
      rewrite (qsum_map_ext (fun m => x (kA a) - x (kK a m)) (fun m => x (kA a) + (-1) * x (kK a m))) by (intros; lra).
      rewrite qsum_plus, qsum_scale. lra. }
    rewrite E. lra.
  Qed.

  (* ---- additions with the tie-breaker ---- *)
  Lemma eval_add : eval_lin x (add_lin c i) == i_add i * pt_added c x i.
  Proof.
    unfold add_lin, pt_added. rewrite eval_map, <- qsum_scale. apply qsum_map_ext. intros kp _.
    symmetry. apply Qmult_assoc.
  Qed.

  (* ---- novel functional additions: the OR variable is exact ---- *)
  Lemma vo_vars_in m v : In m (i_muts i) -> In v (vo_vars i m) -> exists a, In a (insts i) /\ In m (news i a) /\ v = kN a m.
  Proof.
    intros Hm Hv. unfold vo_vars in Hv. apply in_map_iff in Hv as (a & <- & Ha). apply filter_In in Ha as [Ha P].
    exists a. split; [exact Ha|]. split; [|reflexivity].
    apply andb_true_iff in P as [P _]. apply andb_true_iff in P as [P _]. unfold news. apply filter_In. split; assumption.
  Qed.
  Theorem vnewor_exact m : In m (vo_muts i) -> x (kVO m) == qmax_list (map x (vo_vars i m)).
  Proof.
    intros Hv. assert (Hm : In m (i_muts i)) by (unfold vo_muts in Hv; apply filter_In in Hv; tauto).
    apply bin_or_exact.
    - apply (var_kind c i x F (kVO m) KBin). unfold gen_vars. rewrite !in_app_iff. do 6 right.
      apply (in_map (fun m => (kVO m, KBin))). exact Hv.
    - intros v Hin. destruct (vo_vars_in m v Hm Hin) as (a & Ha & Hn & ->). apply (vN_bin c i x F a m Ha Hn).
    - assert (R : eval_lin x ((1, kVO m) :: negv (vo_vars i m)) <= 0).
      { apply (sat_le c i x F). unfold gen_rows. rewrite !in_app_iff. do 15 right.
        unfold rows_vnewor. apply in_flat_map. exists m. split; [exact Hv|]. left. reflexivity. }
      cbn [eval_lin] in R. rewrite eval_negv in R. lra.
    - intros v Hin.
      assert (R : 0 <= eval_lin x [(1, kVO m); (-1, v)]).
      { apply (sat_ge c i x F). unfold gen_rows. rewrite !in_app_iff. do 15 right.
        unfold rows_vnewor. apply in_flat_map. exists m. split; [exact Hv|]. right. apply in_map_iff. exists v. split; [reflexivity|exact Hin]. }
      cbn [eval_lin] in R. lra.
  Qed.
  Lemma eval_vo : eval_lin x (vo_lin c i) == i_add i / c_minor_vnewor_div c * pt_novel x i.
  Proof.
    unfold vo_lin, pt_novel. rewrite eval_map, <- qsum_scale. apply qsum_map_ext. intros m Hm.
    rewrite (vnewor_exact m Hm). reflexivity.
  Qed.
End Objective.

(* ------------------------------------------------------------------------------------------ *)
(* rule 7: phase                                                                               *)
(* ------------------------------------------------------------------------------------------ *)
Section Phase.
  Variables (c : consts) (i : inst) (x : asg).
  Hypothesis F : feasible (gen c i) x.

  Lemma phase_rows_in ri r cnt a rr : In (ri, (r, cnt)) (enumerate 0 (modes i)) -> In a (insts i) -> ph_active i a r = true ->
    In rr (mkrow [(1, kPH a ri); (-1, kA a)] RLe 0 ::
           flat_map (fun jv : Z * vkey => prod_rows (kP2 a ri (fst jv)) [kPH a ri; snd jv]) (enumerate 0 (ph_pos i a r)) ++
           flat_map (fun jv : Z * vkey => prod_rows (kP3 a ri (fst jv)) [kPH a ri; snd jv]) (enumerate 0 (ph_neg i a r))) ->
    In rr (gen_rows i).
  Proof.
    intros Hrm Ha Hact Hr. unfold gen_rows. rewrite !in_app_iff. do 13 right. left.
    unfold rows_phase. apply in_flat_map. exists (ri, (r, cnt)). split; [exact Hrm|]. cbn [fst snd]. apply in_or_app. left.
    apply in_flat_map. exists a. split; [exact Ha|]. rewrite Hact. exact Hr.
  Qed.
  Lemma phase_vars_in ri r cnt a kv : In (ri, (r, cnt)) (enumerate 0 (modes i)) -> In a (insts i) -> ph_active i a r = true ->
    In kv ((kPH a ri, KBin) ::
           map (fun jv : Z * vkey => (kP2 a ri (fst jv), KBin)) (enumerate 0 (ph_pos i a r)) ++
           map (fun jv : Z * vkey => (kP3 a ri (fst jv), KBin)) (enumerate 0 (ph_neg i a r))) ->
    In kv (gen_vars i).
  Proof.
    intros Hrm Ha Hact Hr. unfold gen_vars. rewrite !in_app_iff. do 4 right. left.
    unfold vars_phase. apply in_flat_map. exists (ri, (r, cnt)). split; [exact Hrm|]. cbn [fst snd].
    apply in_flat_map. exists a. split; [exact Ha|]. rewrite Hact. exact Hr.
  Qed.
  Lemma vPH_bin ri r cnt a : In (ri, (r, cnt)) (enumerate 0 (modes i)) -> In a (insts i) -> ph_active i a r = true -> is_bin (x (kPH a ri)).
  Proof.
    intros Hrm Ha Hact. apply (var_kind c i x F _ KBin). apply (phase_vars_in ri r cnt a _ Hrm Ha Hact). left. reflexivity.
  Qed.
  Lemma informative_in a r m : In m (informative i a r) -> In m (i_muts i) /\ has_cov a (m_pos m) = true.
  Proof. unfold informative. intros H. apply filter_In in H as [H P]. apply andb_true_iff in P. tauto. Qed.
  Lemma sel_var_bin a m : In a (insts i) -> In m (i_muts i) -> has_cov a (m_pos m) = true -> is_bin (x (sel_var a m)).
  Proof.
    intros Ha Hm Hc. unfold sel_var. destruct (in_def a m) eqn:D.
    - apply (vK_bin c i x F a m Ha). apply defs_in. auto.
    - apply (vN_bin c i x F a m Ha). apply news_in. auto.
  Qed.
  Lemma ph_pos_bin a r v : In a (insts i) -> In v (ph_pos i a r) -> is_bin (x v).
  Proof.
    intros Ha Hv. unfold ph_pos in Hv. apply in_map_iff in Hv as (m & <- & Hm). apply filter_In in Hm as [Hm _].
    apply informative_in in Hm as [Hm Hc]. apply sel_var_bin; assumption.
  Qed.
  Lemma ph_neg_bin a r v : In a (insts i) -> In v (ph_neg i a r) -> is_bin (x v).
  Proof.
    intros Ha Hv. unfold ph_neg in Hv. apply in_map_iff in Hv as (m & <- & Hm). apply filter_In in Hm as [Hm _].
    apply informative_in in Hm as [Hm Hc]. apply sel_var_bin; assumption.
  Qed.
  Lemma enumerate_in_snd {A} k (l : list A) jv : In jv (enumerate k l) -> In (snd jv) l.
  Proof. intros H. rewrite <- (enumerate_snd k l). apply in_map. exact H. Qed.

  (* the products of the phase block are exact *)
  Lemma phase2_exact ri r cnt a jv : In (ri, (r, cnt)) (enumerate 0 (modes i)) -> In a (insts i) -> ph_active i a r = true ->
    In jv (enumerate 0 (ph_pos i a r)) -> x (kP2 a ri (fst jv)) == x (kPH a ri) * x (snd jv).
  Proof.
    intros Hrm Ha Hact Hj. apply prod2_exact.
    - apply (var_kind c i x F _ KBin). apply (phase_vars_in ri r cnt a _ Hrm Ha Hact). right. apply in_or_app. left.
      apply in_map_iff. exists jv. split; [reflexivity|exact Hj].
    - apply (vPH_bin ri r cnt a Hrm Ha Hact).
    - apply (ph_pos_bin a r). exact Ha. apply (enumerate_in_snd 0%Z). exact Hj.
    - apply Forall_forall. intros rr Hr. apply (row_sat c i x F). apply (phase_rows_in ri r cnt a rr Hrm Ha Hact). right.
      apply in_or_app. left. apply in_flat_map. exists jv. split; [exact Hj|exact Hr].
  Qed.
  Lemma phase3_exact ri r cnt a jv : In (ri, (r, cnt)) (enumerate 0 (modes i)) -> In a (insts i) -> ph_active i a r = true ->
    In jv (enumerate 0 (ph_neg i a r)) -> x (kP3 a ri (fst jv)) == x (kPH a ri) * x (snd jv).
  Proof.
    intros Hrm Ha Hact Hj. apply prod2_exact.
    - apply (var_kind c i x F _ KBin). apply (phase_vars_in ri r cnt a _ Hrm Ha Hact). right. apply in_or_app. right.
      apply in_map_iff. exists jv. split; [reflexivity|exact Hj].
    - apply (vPH_bin ri r cnt a Hrm Ha Hact).
    - apply (ph_neg_bin a r). exact Ha. apply (enumerate_in_snd 0%Z). exact Hj.
    - apply Forall_forall. intros rr Hr. apply (row_sat c i x F). apply (phase_rows_in ri r cnt a rr Hrm Ha Hact). right.
      apply in_or_app. right. apply in_flat_map. exists jv. split; [exact Hj|exact Hr].
  Qed.

  (* a read mode is assigned only to a selected allele copy ... *)
  Theorem phase_on_selected ri r cnt a : In (ri, (r, cnt)) (enumerate 0 (modes i)) -> In a (insts i) -> ph_active i a r = true ->
    x (kPH a ri) <= x (kA a).
  Proof.
    intros Hrm Ha Hact.
    assert (R : eval_lin x [(1, kPH a ri); (-1, kA a)] <= 0).
    { apply (sat_le c i x F). apply (phase_rows_in ri r cnt a _ Hrm Ha Hact). left. reflexivity. }
    cbn [eval_lin] in R. lra.
  Qed.
  (* ... and to exactly one of the copies with at least two informative sites, whenever there is one *)
  Theorem phase_exactly_one ri r cnt : In (ri, (r, cnt)) (enumerate 0 (modes i)) ->
    filter (fun a => ph_active i a r) (insts i) <> [] ->
    qsum (map (fun a => x (kPH a ri)) (filter (fun a => ph_active i a r) (insts i))) == 1.
  Proof.
    intros Hrm Hne. rewrite <- qsum_map_map, <- eval_sumv.
    assert (In_rows : forall rr, In rr (let e := sumv (map (fun a => kPH a ri) (filter (fun a => ph_active i a r) (insts i))) in
                                       [mkrow e RLe 1; mkrow e RGe 1]) -> In rr (gen_rows i)).
    { intros rr Hr. unfold gen_rows. rewrite !in_app_iff. do 13 right. left.
      unfold rows_phase. apply in_flat_map. exists (ri, (r, cnt)). split; [exact Hrm|]. cbn [fst snd]. apply in_or_app. right.
      destruct (filter (fun a => ph_active i a r) (insts i)) as [|a0 t]; [contradiction|]. exact Hr. }
    assert (R1 : eval_lin x (sumv (map (fun a => kPH a ri) (filter (fun a => ph_active i a r) (insts i)))) <= 1).
    { apply (sat_le c i x F). apply In_rows. left. reflexivity. }
    assert (R2 : 1 <= eval_lin x (sumv (map (fun a => kPH a ri) (filter (fun a => ph_active i a r) (insts i))))).
    { apply (sat_ge c i x F). apply In_rows. right. left. reflexivity. }
    lra.
  Qed.

  Lemma eval_phase_a ri r cnt a w : In (ri, (r, cnt)) (enumerate 0 (modes i)) -> In a (insts i) -> ph_active i a r = true ->
    eval_lin x (flat_map (fun jv : Z * vkey => [(w, kPH a ri); (Qopp w, kP2 a ri (fst jv))]) (enumerate 0 (ph_pos i a r)) ++
                map (fun jv : Z * vkey => (w, kP3 a ri (fst jv))) (enumerate 0 (ph_neg i a r)))
    == w * (x (kPH a ri) * (qsum (map (fun v => 1 - x v) (ph_pos i a r)) + qsum (map x (ph_neg i a r)))).
  Proof.
    intros Hrm Ha Hact. rewrite eval_lin_app, eval_flat_map, eval_map.
    rewrite (qsum_map_ext (fun jv : Z * vkey => eval_lin x [(w, kPH a ri); (Qopp w, kP2 a ri (fst jv))])
                          (fun jv => (w * x (kPH a ri)) * (1 - x (snd jv)))).
    2:{ intros jv Hj. cbn [eval_lin]. rewrite (phase2_exact ri r cnt a jv Hrm Ha Hact Hj). ring. }
    rewrite (qsum_map_ext (fun jv : Z * vkey => w * x (kP3 a ri (fst jv))) (fun jv => (w * x (kPH a ri)) * x (snd jv))).
    2:{ intros jv Hj. rewrite (phase3_exact ri r cnt a jv Hrm Ha Hact Hj). ring. }
    rewrite !qsum_scale.
    rewrite <- (qsum_map_map (fun v => 1 - x v) snd), <- (qsum_map_map x snd), !enumerate_snd. ring.
  Qed.

  Lemma eval_phase : eval_lin x (phase_lin i) == i_phase i * pt_phase x i.
  Proof.
    unfold phase_lin, pt_phase. rewrite eval_flat_map, <- qsum_scale. apply qsum_map_ext. intros [ri [r cnt]] Hrm. cbn [fst snd].
    rewrite eval_flat_map.
    rewrite (qsum_map_ext _ (fun a => (i_phase i * inject_Z cnt) * pt_phase_a x i ri r a)).
    - rewrite qsum_scale. ring.
    - intros a Ha. unfold pt_phase_a. destruct (ph_active i a r) eqn:Hact; [|cbn [eval_lin]; ring].
      apply (eval_phase_a ri r cnt a _ Hrm Ha Hact).
  Qed.
End Phase.

(* ------------------------------------------------------------------------------------------ *)
(* minor_objective: the objective of gen at a feasible point                                   *)
(* ------------------------------------------------------------------------------------------ *)
Lemma objective_split c i x : feasible (gen c i) x ->
  objective (gen c i) x == qsum (map (fun k => x (abs_key k)) (err_keys i)) +
    (i_miss i * pt_dropped x i + i_add i * pt_added c x i + i_add i / c_minor_vnewor_div c * pt_novel x i + i_phase i * pt_phase x i).
Proof.
  intros F. unfold objective. cbn [gen lp_obj lp_const]. unfold pen_lin. rewrite !eval_lin_app.
  rewrite (eval_abssum i x), (eval_miss c i x F), (eval_add c i x), (eval_vo c i x F), (eval_phase c i x F). lra.
Qed.

(* for every feasible point the objective is at least the score of its selector values ... *)
Theorem minor_objective_lower c i x : feasible (gen c i) x -> pt_score c x i <= objective (gen c i) x.
Proof.
  intros F. rewrite (objective_split c i x F). unfold pt_score. rewrite <- (fit_is_abs_errors c i x F).
  assert (L : qsum (map (fun k => Qabs' (x k)) (err_keys i)) <= qsum (map (fun k => x (abs_key k)) (err_keys i))).
  { apply qsum_le_pointwise. intros k Hk. apply (abs_lower c i x F k Hk). }
  lra.
Qed.
(* ... with equality exactly at the tight extension (every absolute-value helper at its lower bound) *)
Theorem minor_objective_tight c i x : feasible (gen c i) x ->
  (forall k, In k (err_keys i) -> x (abs_key k) == Qabs' (x k)) -> objective (gen c i) x == pt_score c x i.
Proof.
  intros F T. rewrite (objective_split c i x F). unfold pt_score. rewrite <- (fit_is_abs_errors c i x F).
  rewrite (qsum_map_ext (fun k => x (abs_key k)) (fun k => Qabs' (x k)) (err_keys i) T). lra.
Qed.

(* ------------------------------------------------------------------------------------------ *)
(* optimality at the level of ILP points: the tight extension of any feasible point is feasible  *)
(* ------------------------------------------------------------------------------------------ *)
Definition plain (k : vkey) : bool := match k with z :: _ => negb (z =? -1)%Z | [] => true end.
Definition PL (l : lin) : Prop := forall cv, In cv l -> plain (snd cv) = true.

Create HintDb mm.
#[local] Hint Unfold rows_cord rows_ccnt rows_other rows_prod rows_cone rows_ccov rows_cvk rows_cvn rows_cfunc rows_czero
  rows_csingle rows_cmut rows_cref rows_phase rows_vnewor mkrow sumv negv mut_terms mut_keys ref_terms ref_terms_a
  site_mp site_ma site_e site_expr prod_rows vo_vars ph_pos ph_neg : mm.

Ltac brk :=
  repeat (autounfold with mm in *; cbv zeta in *; cbn [r_lin snd fst] in *;
  match goal with
  | H : In _ (_ ++ _) |- _ => apply in_app_or in H; destruct H as [H|H]
  | H : In _ (flat_map _ _) |- _ => apply in_flat_map in H; destruct H as (? & ? & H)
  | H : In _ (map _ _) |- _ => apply in_map_iff in H; destruct H as (? & ? & H); subst
  | H : In _ (_ :: _) |- _ => destruct H as [H|H]; [subst|]
  | H : In _ [] |- _ => destruct H
  | H : In _ (if ?b then _ else _) |- _ => destruct b eqn:?
  | H : In _ (r_lin (if ?b then _ else _)) |- _ => destruct b eqn:?
  | H : In _ (match ?l with _ => _ end) |- _ => destruct l eqn:?
  end).
Ltac fin := cbn [r_lin snd fst]; repeat match goal with |- context [if ?b then _ else _] => destruct b end; reflexivity.

Lemma pl_cord i r : In r (rows_cord i) -> PL (r_lin r).
Proof. intros H cv Hc. brk; fin. Qed.
Lemma pl_ccnt i r : In r (rows_ccnt i) -> PL (r_lin r).
Proof. intros H cv Hc. brk; fin. Qed.
Lemma pl_other i r : In r (rows_other i) -> PL (r_lin r).
Proof. intros H cv Hc. brk; fin. Qed.
Lemma pl_prod i r : In r (rows_prod i) -> PL (r_lin r).
Proof. intros H cv Hc. brk; fin. Qed.
Lemma pl_cone i r : In r (rows_cone i) -> PL (r_lin r).
Proof. intros H cv Hc. brk; fin. Qed.
Lemma pl_ccov i r : In r (rows_ccov i) -> PL (r_lin r).
Proof. intros H cv Hc. brk; fin. Qed.
Lemma pl_cvk i r : In r (rows_cvk i) -> PL (r_lin r).
Proof. intros H cv Hc. brk; fin. Qed.
Lemma pl_cvn i r : In r (rows_cvn i) -> PL (r_lin r).
Proof. intros H cv Hc. brk; fin. Qed.
Lemma pl_cfunc i r : In r (rows_cfunc i) -> PL (r_lin r).
Proof. intros H cv Hc. brk; fin. Qed.
Lemma pl_czero i r : In r (rows_czero i) -> PL (r_lin r).
Proof. intros H cv Hc. brk; fin. Qed.
Lemma pl_csingle i r : In r (rows_csingle i) -> PL (r_lin r).
Proof. intros H cv Hc. brk; fin. Qed.
Lemma pl_cmut i r : In r (rows_cmut i) -> PL (r_lin r).
Proof. intros H cv Hc. brk; fin. Qed.
Lemma pl_cref i r : In r (rows_cref i) -> PL (r_lin r).
Proof. intros H cv Hc. brk; fin. Qed.
Lemma pl_vnewor i r : In r (rows_vnewor i) -> PL (r_lin r).
Proof. intros H cv Hc. brk; fin. Qed.
Lemma pl_phase i r : In r (rows_phase i) -> PL (r_lin r).
Proof. intros H cv Hc. brk; try fin.
  all: match goal with H : In ?jv (enumerate _ (map _ _)) |- _ => apply enumerate_in_snd in H; apply in_map_iff in H as (? & E & _); rewrite <- E; unfold sel_var; fin end.
Qed.

Definition tighten (i : inst) (y : asg) : asg := fun k =>
  match k with
  | z :: k' => if (z =? -1)%Z then (if memb vkey_eqb k' (err_keys i) then Qabs' (y k') else y k) else y k
  | [] => y k
  end.
Lemma tighten_plain i y k : plain k = true -> tighten i y k = y k.
Proof. destruct k as [|z k']; [reflexivity|]. cbn [plain tighten]. destruct (z =? -1)%Z; [discriminate|reflexivity]. Qed.
Lemma vkey_eqb_refl k : vkey_eqb k k = true.
Proof. unfold vkey_eqb. induction k as [|z t IH]; cbn [str_eqb]; [reflexivity|]. rewrite Z.eqb_refl, IH. reflexivity. Qed.
Lemma memb_vkey_in k l : In k l -> memb vkey_eqb k l = true.
Proof. intros H. unfold memb. apply existsb_exists. exists k. split; [exact H|apply vkey_eqb_refl]. Qed.
Lemma tighten_abs i y k : In k (err_keys i) -> tighten i y (abs_key k) = Qabs' (y k).
Proof. intros H. unfold abs_key. cbn [tighten]. change ((-1 =? -1)%Z) with true. cbv iota. rewrite (memb_vkey_in k _ H). reflexivity. Qed.
Lemma eval_tighten i y l : PL l -> eval_lin (tighten i y) l = eval_lin y l.
Proof.
  induction l as [|[q k] t IH]; intros P; [reflexivity|]. cbn [eval_lin]. rewrite (tighten_plain i y k), IH; [reflexivity| |].
  - intros cv H. apply P. right. exact H.
  - apply (P (q, k)). left. reflexivity.
Qed.
Lemma err_keys_plain i k : In k (err_keys i) -> plain k = true.
Proof. unfold err_keys. intros H. apply in_app_or in H as [H|H]; apply in_map_iff in H as (? & <- & _); reflexivity. Qed.

Lemma rows_plain_or_abs i r : In r (gen_rows i) -> PL (r_lin r) \/ In r (abssum_rows (err_keys i)).
Proof.
  unfold gen_rows. rewrite !in_app_iff. intros H.
  repeat (destruct H as [H|H]; [eauto using pl_cord, pl_ccnt, pl_other, pl_prod, pl_cone, pl_ccov, pl_cvk, pl_cvn, pl_cfunc, pl_czero,
                                 pl_csingle, pl_cmut, pl_cref, pl_phase, pl_vnewor|]).
  eauto using pl_vnewor.
Qed.

Lemma vars_plain_or_abs i k kd : In (k, kd) (gen_vars i) ->
  plain k = true \/ (exists k', In k' (err_keys i) /\ k = abs_key k' /\ kd = KCont (Some 0) None).
Proof.
  unfold gen_vars, vars_phase, abssum_vars. rewrite !in_app_iff. intros H.
  destruct H as [H|[H|[H|[H|[H|[H|H]]]]]].
  6:{ right. apply in_map_iff in H as (k' & E & Hk). injection E as <- <-. exists k'. auto. }
  all: left; brk; repeat match goal with E : (_, _) = (_, _) |- _ => injection E as <- <- end; try reflexivity.
  all: try (match goal with H : In _ (err_keys _) |- _ => apply err_keys_plain in H; exact H end).
Qed.

Lemma Qabs'_nonneg v : 0 <= Qabs' v.
Proof. unfold Qabs'. destruct (Qle_bool 0 v) eqn:E; [apply Qle_bool_iff in E|apply Qle_bool_false in E]; lra. Qed.
Lemma Qabs'_ge v : v <= Qabs' v /\ - v <= Qabs' v.
Proof. unfold Qabs'. destruct (Qle_bool 0 v) eqn:E; [apply Qle_bool_iff in E|apply Qle_bool_false in E]; lra. Qed.

Lemma tighten_feasible c i y : feasible (gen c i) y -> feasible (gen c i) (tighten i y).
Proof.
  intros F. split; apply Forall_forall.
  - intros [k kd] H. cbn [gen lp_vars] in H. cbn [fst snd].
    destruct (vars_plain_or_abs i k kd H) as [P|(k' & Hk & -> & ->)].
    + rewrite (tighten_plain i y k P). apply (var_kind c i y F k kd H).
    + rewrite (tighten_abs i y k' Hk). cbn [in_kind]. split; [apply Qabs'_nonneg|exact I].
  - intros r Hr. cbn [gen lp_rows] in Hr. destruct (rows_plain_or_abs i r Hr) as [P|A].
    + pose proof (row_sat c i y F r Hr) as S. unfold sat_row in *. rewrite (eval_tighten i y _ P). exact S.
    + unfold abssum_rows in A. apply in_flat_map in A as (k & Hk & A). pose proof (Qabs'_ge (y k)) as [G1 G2].
      destruct A as [<-|[<-|[]]]; unfold sat_row; cbn [r_rel r_lin r_rhs eval_lin];
        rewrite (tighten_abs i y k Hk), (tighten_plain i y k (err_keys_plain i k Hk)); lra.
Qed.
Lemma tighten_is_tight i y k : In k (err_keys i) -> tighten i y (abs_key k) == Qabs' (tighten i y k).
Proof. intros H. rewrite (tighten_abs i y k H), (tighten_plain i y k (err_keys_plain i k H)). reflexivity. Qed.
Lemma pt_phase_a_tighten i y ri r a : pt_phase_a (tighten i y) i ri r a = pt_phase_a y i ri r a.
Proof.
  unfold pt_phase_a. destruct (ph_active i a r); [|reflexivity].
  rewrite (map_ext_in (fun v => 1 - tighten i y v) (fun v => 1 - y v) (ph_pos i a r)).
  2:{ intros v Hv. rewrite tighten_plain; [reflexivity|]. unfold ph_pos in Hv. apply in_map_iff in Hv as (m & <- & _).
      unfold sel_var. destruct (in_def a m); reflexivity. }
  rewrite (map_ext_in (tighten i y) y (ph_neg i a r)).
  2:{ intros v Hv. rewrite tighten_plain; [reflexivity|]. unfold ph_neg in Hv. apply in_map_iff in Hv as (m & <- & _).
      unfold sel_var. destruct (in_def a m); reflexivity. }
  reflexivity.
Qed.
Lemma pt_score_tighten c i y : pt_score c (tighten i y) i = pt_score c y i.
Proof.
  unfold pt_score. f_equal; [f_equal|].
  - f_equal. unfold pt_novel. f_equal. apply map_ext. intros m. f_equal. apply map_ext_in. intros v Hv.
    apply tighten_plain. unfold vo_vars in Hv. apply in_map_iff in Hv as (a & <- & _). reflexivity.
  - f_equal. unfold pt_phase. f_equal. apply map_ext. intros rm. f_equal. f_equal. apply map_ext. intros a. apply pt_phase_a_tighten.
Qed.

(* optimality at the level of ILP points *)
Theorem minor_optimal_partial c i x : feasible (gen c i) x ->
  (forall y, feasible (gen c i) y -> objective (gen c i) x <= objective (gen c i) y) ->
  objective (gen c i) x == pt_score c x i /\ forall y, feasible (gen c i) y -> pt_score c x i <= pt_score c y i.
Proof.
  intros F Opt.
  assert (T : forall y, feasible (gen c i) y -> objective (gen c i) (tighten i y) == pt_score c y i).
  { intros y Fy. rewrite (minor_objective_tight c i (tighten i y) (tighten_feasible c i y Fy) (tighten_is_tight i y)).
    rewrite pt_score_tighten. reflexivity. }
  assert (E : objective (gen c i) x == pt_score c x i).
  { pose proof (minor_objective_lower c i x F). pose proof (Opt _ (tighten_feasible c i x F)). pose proof (T x F). lra. }
  split; [exact E|]. intros y Fy. pose proof (Opt _ (tighten_feasible c i y Fy)). pose proof (T y Fy). lra.
Qed.

(* ------------------------------------------------------------------------------------------ *)
(* what the shipped read-out can add                                                           *)
(* ------------------------------------------------------------------------------------------ *)
Lemma readout_adds_only c i ch d : In d (ch_add (readout_ch AsShipped c i ch)) ->
  exists m, In m (news i (ch_a ch)) /\ m_id m = d /\ (added ch m = true \/ homozygous c i m = true).
Proof.
  cbn [readout_ch ch_add]. intros H. apply in_map_iff in H as (m & E & H). apply filter_In in H as [H P].
  exists m. split; [exact H|]. split; [exact E|]. apply orb_true_iff in P. exact P.
Qed.
Lemma homozygous_has_reads c i m : c_homozygous_eps c < i_maxcn i -> homozygous c i m = true -> no_reads m = false.
Proof.
  intros L H. destruct (no_reads m) eqn:N; [|reflexivity]. exfalso.
  assert (Z : obs_mut m == 0).
  { unfold obs_mut, obs. unfold no_reads, Qeqb in N. destruct (Qltb 0 (m_pcn m)) eqn:P; [|reflexivity].
    apply orb_true_iff in N as [N|N]; apply Qeq_bool_iff in N.
    - unfold Qltb in P. apply negb_true_iff in P. apply Qle_bool_false in P. lra.
    - rewrite N. unfold Qdiv. ring. }
  unfold homozygous, Qleb in H. apply Qle_bool_iff in H. rewrite (Qabs'_comp _ (- i_maxcn i)) in H by (rewrite Z; ring).
  pose proof (Qabs'_ge (- i_maxcn i)) as [_ G]. lra.
Qed.

(* ------------------------------------------------------------------------------------------ *)
(* the boolean feasibility test is sound (local copy; used for the non-vacuity examples)        *)
(* ------------------------------------------------------------------------------------------ *)
Lemma is_intb_sound q : is_intb q = true -> is_int q.
Proof.
  unfold is_intb, is_int. intros H. exists (Qnum (Qred q)). rewrite <- (Qred_correct q) at 1.
  destruct (Qred q) as [n d]. cbn [Qnum Qden] in *. apply Z.eqb_eq in H. injection H as ->. reflexivity.
Qed.
Lemma in_kindb_sound k q : in_kindb k q = true -> in_kind k q.
Proof.
  destruct k as [|lb ub|lb ub]; cbn [in_kindb in_kind].
  - unfold is_binb, is_bin, Qeqb. intros H. apply orb_true_iff in H as [H|H]; apply Qeq_bool_iff in H; auto.
  - intros H. apply andb_true_iff in H as [H H3]. apply andb_true_iff in H as [H1 H2].
    split; [apply is_intb_sound; exact H1|]. split; apply Qle_bool_iff; assumption.
  - intros H. apply andb_true_iff in H as [H1 H2]. split.
    + destruct lb; [apply Qle_bool_iff; exact H1|exact I].
    + destruct ub; [apply Qle_bool_iff; exact H2|exact I].
Qed.
Lemma sat_rowb_sound a r : sat_rowb a r = true -> sat_row a r.
Proof.
  unfold sat_rowb, sat_row, Qleb, Qeqb. destruct (r_rel r); intros H; [apply Qle_bool_iff|apply Qle_bool_iff|apply Qeq_bool_iff]; exact H.
Qed.
Lemma feasibleb_sound m a : feasibleb m a = true -> feasible m a.
Proof.
  unfold feasibleb, feasible. intros H. apply andb_true_iff in H as [H1 H2]. rewrite forallb_forall in H1, H2. split; apply Forall_forall.
  - intros kv Hkv. apply in_kindb_sound. apply H1. exact Hkv.
  - intros r Hr. apply sat_rowb_sound. apply H2. exact Hr.
Qed.

(* ------------------------------------------------------------------------------------------ *)
(* read-out                                                                                    *)
(* ------------------------------------------------------------------------------------------ *)
Lemma readout_fixed_id c i a : readout Fixed c i a = a.
Proof. unfold readout. cbn [readout_ch]. apply map_id. Qed.

(* witness_a: the solver's assignment is admissible and has one variant per position; after the shipped read-out allele
   *1.001 carries 147.A>C and 147.insA *)
Lemma as_shipped_two_per_site :
  let a := solver_asg witness_a witness_a_solver in
  inst_wf witness_a = true /\ admissible witness_a a = true /\ cl_one_per_site witness_a a = true /\
  cl_one_per_site witness_a (readout AsShipped here witness_a a) = false.
Proof. vm_compute. repeat split; reflexivity. Qed.

(* witness_c: the solver's assignment scores 1; the alleles reported after the shipped read-out score 3/2 *)
Definition score_is (o : option Q) (q : Q) : bool := match o with Some s => Qeqb s q | None => false end.
Lemma as_shipped_score_differs :
  let a := solver_asg witness_c witness_c_solver in
  inst_wf witness_c = true /\ admissible witness_c a = true /\ score_is (score here witness_c false a) 1 = true /\
  score_is (score here witness_c false (readout AsShipped here witness_c a)) (3 # 2) = true.
Proof. vm_compute. repeat split; reflexivity. Qed.

(* non-vacuity: the generator has feasible points on real instances, with and without phase rows *)
Lemma witness_c_feasible : feasible (gen here witness_c) (point_of here witness_c (solver_asg witness_c witness_c_solver)).
Proof. apply feasibleb_sound. vm_compute. reflexivity. Qed.
Lemma witness_p_feasible : feasible (gen here witness_p) (point_of here witness_p (solver_asg witness_p witness_p_solver)).
Proof. apply feasibleb_sound. vm_compute. reflexivity. Qed.
Lemma witness_p_has_phase : modes witness_p <> [] /\ rows_phase witness_p <> [] /\ inst_wf witness_p = true.
Proof. vm_compute. repeat split; discriminate. Qed.

(* ------------------------------------------------------------------------------------------ *)
(* the theorems as props/C04.v states them                                                     *)
(* ------------------------------------------------------------------------------------------ *)
Theorem minor_one_per_major c i x : feasible (gen c i) x ->
  (forall mj cnt, In (mj, cnt) (i_majors i) -> qsum (map (fun a => x (kA a)) (filter (of_major mj) (insts i))) == inject_Z cnt) /\
  (NoDup (map fst (i_majors i)) ->
   forall a, In a (insts i) -> ~ In (c_major (fst a)) (map fst (i_majors i)) -> x (kA a) == 0) /\
  (forall a, In a (insts i) -> is_bin (x (kA a))).
Proof.
  intros F. split; [|split].
  - intros mj cnt H. apply (one_per_major c i x F mj cnt H).
  - apply (others_not_selected c i x F).
  - apply (vA_bin c i x F).
Qed.

Lemma insts_cand i a : In a (insts i) -> In (fst a) (i_cands i).
Proof.
  unfold insts. intros H. apply in_app_or in H as [H|H].
  - apply in_map_iff in H as (cd & <- & H). exact H.
  - apply in_flat_map in H as (cd & Hc & H). unfold extra_copies in H. apply in_map_iff in H as (k & <- & _). exact Hc.
Qed.
Lemma inst_wf_core i : inst_wf i = true ->
  forall a m, In a (insts i) -> In m (defs i a) -> m_func m = in_core a m.
Proof.
  unfold inst_wf. intros W a m Ha Hm. apply andb_true_iff in W as [_ W]. rewrite forallb_forall in W.
  specialize (W (fst a) (insts_cand i a Ha)). rewrite forallb_forall in W. destruct a as [cd k]. cbn [fst] in W.
  specialize (W m Hm). apply Bool.eqb_prop in W. exact W.
Qed.
Theorem minor_core_kept c i x : feasible (gen c i) x ->
  (forall a m, In a (insts i) -> In m (defs i a) -> m_func m = true -> x (kK a m) == x (kA a)) /\
  (inst_wf i = true -> forall a m, In a (insts i) -> In m (defs i a) -> in_core a m = true -> x (kK a m) == x (kA a)).
Proof.
  intros F. split.
  - intros a m Ha Hm Hf. apply (core_kept c i x F a m Ha Hm Hf).
  - intros W a m Ha Hm Hc. apply (core_kept c i x F a m Ha Hm). rewrite (inst_wf_core i W a m Ha Hm). exact Hc.
Qed.
Theorem minor_add_needs_copies c i x : feasible (gen c i) x ->
  (forall a m, In m (news i a) -> has_cov a (m_pos m) = true /\ in_def a m = false) /\
  (forall a m, In a (insts i) -> In m (defs i a) -> has_cov a (m_pos m) = false -> x (kK a m) == 0).
Proof.
  intros F. split.
  - intros a m H. apply (add_needs_copies i a m H).
  - intros a m Ha Hm Hc. apply (keep_needs_copies c i x F a m Ha Hm Hc).
Qed.
Theorem minor_add_needs_reads c i x : feasible (gen c i) x ->
  forall a m, In a (insts i) -> In m (news i a) -> no_reads m = true -> x (kN a m) == 0.
Proof. intros F a m. apply (no_reads_not_added c i x F). Qed.
Theorem minor_carried_has_reads c i x : feasible (gen c i) x ->
  forall a m, In a (insts i) -> no_reads m = true ->
  (In m (defs i a) -> x (kK a m) == 0) /\ (In m (news i a) -> x (kN a m) == 0).
Proof.
  intros F a m Ha Hn. split; intros H.
  - apply (no_reads_not_kept c i x F a m Ha H Hn).
  - apply (no_reads_not_added c i x F a m Ha H Hn).
Qed.
Theorem minor_one_per_site c i x : feasible (gen c i) x ->
  forall a st, In a (insts i) -> In st (i_sites i) ->
  qsum (map (fun m => x (kK a m)) (at_pos (s_pos st) (defs i a))) +
  qsum (map (fun m => x (kN a m)) (at_pos (s_pos st) (news i a))) <= 1.
Proof. intros F. apply (one_per_site c i x F). Qed.
Theorem minor_supported_is_carried c i x : feasible (gen c i) x ->
  forall m, In m (i_muts i) -> no_reads m = false -> 1 <= carr x i m /\ carr x i m <= m_cov m.
Proof. intros F. apply (supported_is_carried c i x F). Qed.
Theorem minor_used_only c i x : feasible (gen c i) x ->
  (forall a m, In a (insts i) -> In m (defs i a) -> x (kK a m) <= x (kA a) /\ is_bin (x (kK a m))) /\
  (forall a m, In a (insts i) -> In m (news i a) -> x (kN a m) <= x (kA a) /\ is_bin (x (kN a m))).
Proof.
  intros F. split; intros a m Ha Hm; split.
  - apply (keep_used_only c i x F a m Ha Hm).
  - apply (vK_bin c i x F a m Ha Hm).
  - apply (add_used_only c i x F a m Ha Hm).
  - apply (vN_bin c i x F a m Ha Hm).
Qed.
Theorem minor_products_exact c i x : feasible (gen c i) x ->
  (forall a m, In a (insts i) -> In m (defs i a) -> x (kMK a m) == x (kA a) * x (kK a m) /\ x (kMK a m) == x (kK a m)) /\
  (forall a m, In a (insts i) -> In m (news i a) -> x (kMN a m) == x (kA a) * x (kN a m) /\ x (kMN a m) == x (kN a m)).
Proof.
  intros F. split; intros a m Ha Hm.
  - apply (keep_product_exact c i x F a m Ha Hm).
  - apply (add_product_exact c i x F a m Ha Hm).
Qed.
Theorem minor_phase_assignment c i x : feasible (gen c i) x ->
  forall ri r cnt, In (ri, (r, cnt)) (enumerate 0 (modes i)) ->
  (forall a, In a (insts i) -> ph_active i a r = true -> is_bin (x (kPH a ri)) /\ x (kPH a ri) <= x (kA a)) /\
  (filter (fun a => ph_active i a r) (insts i) <> [] ->
   qsum (map (fun a => x (kPH a ri)) (filter (fun a => ph_active i a r) (insts i))) == 1).
Proof.
  intros F ri r cnt Hrm. split.
  - intros a Ha Hact. split; [apply (vPH_bin c i x F ri r cnt a Hrm Ha Hact)|apply (phase_on_selected c i x F ri r cnt a Hrm Ha Hact)].
  - apply (phase_exactly_one c i x F ri r cnt Hrm).
Qed.
Theorem minor_objective c i x : feasible (gen c i) x ->
  pt_score c x i <= objective (gen c i) x /\
  ((forall k, In k (err_keys i) -> x (abs_key k) == Qabs' (x k)) -> objective (gen c i) x == pt_score c x i) /\
  (forall m, In m (i_muts i) -> x (kE m) == obs_mut m - carr x i m) /\
  (forall st, In st (i_sites i) -> x (kR st) == obs_site st - refc x i (s_pos st)) /\
  (forall m, In m (vo_muts i) -> x (kVO m) == qmax_list (map x (vo_vars i m))).
Proof.
  intros F. split; [apply (minor_objective_lower c i x F)|]. split; [apply (minor_objective_tight c i x F)|].
  split; [apply (err_mut c i x F)|]. split; [apply (err_site c i x F)|apply (vnewor_exact c i x F)].
Qed.
Theorem minor_readout c i :
  (forall a, readout Fixed c i a = a) /\
  (forall ch d, In d (ch_add (readout_ch AsShipped c i ch)) ->
     exists m, In m (news i (ch_a ch)) /\ m_id m = d /\ (added ch m = true \/ homozygous c i m = true)) /\
  (forall m, c_homozygous_eps c < i_maxcn i -> homozygous c i m = true -> no_reads m = false).
Proof.
  split; [apply readout_fixed_id|]. split; [apply readout_adds_only|apply homozygous_has_reads].
Qed.

(* ------------------------------------------------------------------------------------------ *)
(* the remaining families: copy ordering (CORD), CONE, rule 6 (reference sites)                *)
(* ------------------------------------------------------------------------------------------ *)
Theorem minor_copy_order c i x : feasible (gen c i) x ->
  forall a, In a (insts i) -> (0 < snd a)%Z -> x (kA a) <= x (kA (fst a, (snd a - 1)%Z)).
Proof.
  intros F a Ha Hk.
  assert (R : eval_lin x [(1, kA a); (-1, kA (fst a, (snd a - 1)%Z))] <= 0).
  { apply (sat_le c i x F). unfold gen_rows. rewrite !in_app_iff. left.
    unfold rows_cord. apply in_flat_map. exists a. split; [exact Ha|].
    apply Z.ltb_lt in Hk. rewrite Hk. left. reflexivity. }
  cbn [eval_lin] in R. lra.
Qed.
Theorem minor_cone c i x : feasible (gen c i) x ->
  forall a st, In a (insts i) -> In st (i_sites i) -> has_cov a (s_pos st) = true ->
  (forall p, nonins_at (s_pos st) (defs i a) <> [p]) ->
  qsum (map (fun m => x (kN a m)) (nonins_at (s_pos st) (news i a))) <= 1.
Proof.
  intros F a st Ha Hs Hc Hp. rewrite <- qsum_map_map, <- eval_sumv.
  apply (sat_le c i x F). unfold gen_rows. rewrite !in_app_iff. do 4 right. left.
  unfold rows_cone. apply in_flat_map. exists st. split; [exact Hs|]. apply in_flat_map. exists a. split; [exact Ha|].
  rewrite Hc. destruct (nonins_at (s_pos st) (defs i a)) as [|p [|q t]] eqn:E.
  - left. reflexivity.
  - exfalso. apply (Hp p). reflexivity.
  - left. reflexivity.
Qed.
(* rule 6: reference "copies" at a site: sum over copies of (slots at the site) * A - (variants carried at the site) *)
Theorem minor_ref_sites c i x : feasible (gen c i) x -> insts i <> [] ->
  forall st, In st (i_sites i) ->
  eval_lin x (site_expr i (s_pos st)) <=
  (if Qeqb (s_pcn st) 0 then 0 else Qmax' (Qmax' (s_pcn st) (s_cov st)) (max_mut i (s_pos st))).
Proof.
  intros F Hne st Hs.
  assert (R : In (if Qeqb (s_pcn st) 0 then mkrow (site_expr i (s_pos st)) RLe 0
                 else mkrow (site_expr i (s_pos st)) RLe (Qmax' (Qmax' (s_pcn st) (s_cov st)) (max_mut i (s_pos st)))) (gen_rows i)).
  { unfold gen_rows. rewrite !in_app_iff. do 12 right. left.
    assert (E : rows_cref i = map (fun s => if Qeqb (s_pcn s) 0 then mkrow (site_expr i (s_pos s)) RLe 0
                            else mkrow (site_expr i (s_pos s)) RLe (Qmax' (Qmax' (s_pcn s) (s_cov s)) (max_mut i (s_pos s)))) (i_sites i)).
    { unfold rows_cref. destruct (insts i); [contradiction|reflexivity]. }
    rewrite E.
    apply (in_map (fun s => if Qeqb (s_pcn s) 0 then mkrow (site_expr i (s_pos s)) RLe 0
                            else mkrow (site_expr i (s_pos s)) RLe (Qmax' (Qmax' (s_pcn s) (s_cov s)) (max_mut i (s_pos s))))).
    exact Hs. }
  destruct (Qeqb (s_pcn st) 0); apply (sat_le c i x F); exact R.
Qed.

(* ------------------------------------------------------------------------------------------ *)
(* the assignment a feasible point denotes satisfies the clause booleans the harness evaluates   *)
(* ------------------------------------------------------------------------------------------ *)
Definition pch (i : inst) (x : asg) (a : ainst) : choice :=
  {| ch_a := a; ch_keep := map m_id (filter (fun m => on x (kK a m)) (defs i a));
     ch_add := map m_id (filter (fun m => on x (kN a m)) (news i a)) |}.
Lemma point_asg_eq i x : point_asg i x = map (pch i x) (filter (fun a => on x (kA a)) (insts i)).
Proof. reflexivity. Qed.
Lemma in_point_asg i x ch : In ch (point_asg i x) <-> exists a, In a (insts i) /\ on x (kA a) = true /\ ch = pch i x a.
Proof.
  rewrite point_asg_eq, in_map_iff. split.
  - intros (a & E & H). apply filter_In in H as [H P]. exists a. auto.
  - intros (a & H & P & E). exists a. split; [auto|]. apply filter_In. auto.
Qed.
Lemma on_true x k : on x k = true <-> x k == 1.
Proof. unfold on, Qeqb. apply Qeq_bool_iff. Qed.
Lemma on_false_bin x k : is_bin (x k) -> on x k = false -> x k == 0.
Proof. intros [B|B] H; [exact B|]. apply on_true in B. congruence. Qed.
Lemma m_id_inj (l : list mutn) m m' : NoDup (map m_id l) -> In m l -> In m' l -> m_id m = m_id m' -> m = m'.
Proof.
  induction l as [|y t IH]; intros ND H H' E; [contradiction|]. cbn [map] in ND. inversion ND as [|? ? Hn ND']; subst.
  destruct H as [->|H], H' as [->|H'].
  - reflexivity.
  - exfalso. apply Hn. rewrite E. apply in_map. exact H'.
  - exfalso. apply Hn. rewrite <- E. apply in_map. exact H.
  - apply IH; assumption.
Qed.
Lemma inst_wf_nodup i : inst_wf i = true -> NoDup (map m_id (i_muts i)).
Proof.
  unfold inst_wf. intros W. repeat (apply andb_true_iff in W as [W _]). apply nodupb_NoDup. exact W.
Qed.

Section PointClauses.
  Variables (c : consts) (i : inst) (x : asg).
  Hypothesis F : feasible (gen c i) x.
  Hypothesis W : inst_wf i = true.

  Lemma kept_iff a m : In m (i_muts i) -> (kept (pch i x a) m = true <-> In m (defs i a) /\ on x (kK a m) = true).
  Proof.
    intros Hm. unfold kept, pch. cbn [ch_keep]. rewrite memb_In, in_map_iff. split.
    - intros (m' & E & H). apply filter_In in H as [H P].
      assert (m' = m). { apply (m_id_inj (i_muts i)); [apply inst_wf_nodup; exact W| |exact Hm|exact E]. apply defs_in in H. tauto. }
      subst. auto.
    - intros [H P]. exists m. split; [reflexivity|]. apply filter_In. auto.
  Qed.
  Lemma added_iff a m : In m (i_muts i) -> (added (pch i x a) m = true <-> In m (news i a) /\ on x (kN a m) = true).
  Proof.
    intros Hm. unfold added, pch. cbn [ch_add]. rewrite memb_In, in_map_iff. split.
    - intros (m' & E & H). apply filter_In in H as [H P].
      assert (m' = m). { apply (m_id_inj (i_muts i)); [apply inst_wf_nodup; exact W| |exact Hm|exact E]. apply news_in in H. tauto. }
      subst. auto.
    - intros [H P]. exists m. split; [reflexivity|]. apply filter_In. auto.
  Qed.
  Lemma carried_iff a m : In m (i_muts i) ->
    (carried (pch i x a) m = true <-> (In m (defs i a) /\ on x (kK a m) = true) \/ (In m (news i a) /\ on x (kN a m) = true)).
  Proof.
    intros Hm. unfold carried. rewrite orb_true_iff, !andb_true_iff, (kept_iff a m Hm), (added_iff a m Hm). cbn [pch ch_a]. split.
    - intros [[_ H]|[_ H]]; auto.
    - intros [[H P]|[H P]]; [left|right]; (split; [|auto]).
      + apply defs_in in H. tauto.
      + apply news_in in H. unfold is_new. destruct H as (_ & -> & ->). reflexivity.
  Qed.

  Theorem point_core_kept : cl_core_kept i (point_asg i x) = true.
  Proof.
    unfold cl_core_kept. apply forallb_forall. intros ch Hch. apply in_point_asg in Hch as (a & Ha & Pa & ->). cbn [pch ch_a].
    apply forallb_forall. intros m Hm. apply filter_In in Hm as [Hm Hc]. apply kept_iff; [apply defs_in in Hm; tauto|].
    split; [exact Hm|]. apply on_true. apply on_true in Pa.
    destruct (minor_core_kept c i x F) as [_ K]. rewrite (K W a m Ha Hm Hc). exact Pa.
  Qed.
  Theorem point_add_copies : cl_add_copies i (point_asg i x) = true.
  Proof.
    unfold cl_add_copies. apply forallb_forall. intros ch Hch. apply in_point_asg in Hch as (a & Ha & Pa & ->).
    apply andb_true_iff. split; apply forallb_forall.
    - intros m Hm. destruct (added (pch i x a) m) eqn:E; [|reflexivity]. apply (added_iff a m Hm) in E as [E _].
      apply news_in in E. cbn [negb orb pch ch_a]. tauto.
    - intros d Hd. cbn [pch ch_add] in Hd. apply in_map_iff in Hd as (m & <- & Hd). apply filter_In in Hd as [Hd _].
      apply memb_In. apply in_map. apply news_in in Hd. tauto.
  Qed.
  Theorem point_add_reads : cl_add_reads i (point_asg i x) = true.
  Proof.
    unfold cl_add_reads. apply forallb_forall. intros ch Hch. apply in_point_asg in Hch as (a & Ha & Pa & ->).
    apply forallb_forall. intros m Hm. destruct (added (pch i x a) m) eqn:E; [|reflexivity]. cbn [negb orb].
    apply (added_iff a m Hm) in E as [E P]. destruct (no_reads m) eqn:N; [|reflexivity]. exfalso.
    apply on_true in P. pose proof (no_reads_not_added c i x F a m Ha E N). lra.
  Qed.
  Theorem point_carried_reads : cl_carried_reads i (point_asg i x) = true.
  Proof.
    unfold cl_carried_reads. apply forallb_forall. intros ch Hch. apply in_point_asg in Hch as (a & Ha & Pa & ->).
    apply forallb_forall. intros m Hm. destruct (carried (pch i x a) m) eqn:E; [|reflexivity]. cbn [negb orb].
    destruct (no_reads m) eqn:N; [|reflexivity]. exfalso.
    apply (carried_iff a m Hm) in E as [[E P]|[E P]]; apply on_true in P.
    - pose proof (no_reads_not_kept c i x F a m Ha E N). lra.
    - pose proof (no_reads_not_added c i x F a m Ha E N). lra.
  Qed.

  (* counting lemmas *)
  Lemma qsum_filter_ite {A} (f : A -> Q) (p : A -> bool) l :
    qsum (map f (filter p l)) == qsum (map (fun y => if p y then f y else 0) l).
  Proof. induction l as [|y t IH]; cbn [filter map qsum]; [lra|]. destruct (p y); cbn [map qsum]; lra. Qed.
  Lemma count_le_sum {A} (f : A -> Q) (p : A -> bool) l :
    (forall y, In y l -> 0 <= f y) -> (forall y, In y l -> p y = true -> 1 <= f y) ->
    inject_Z (Z.of_nat (length (filter p l))) <= qsum (map f l).
  Proof.
    induction l as [|y t IH]; intros H0 H1; cbn [filter map qsum length]; [change (inject_Z (Z.of_nat 0)) with 0; lra|].
    assert (IH' : inject_Z (Z.of_nat (length (filter p t))) <= qsum (map f t)).
    { apply IH; intros z Hz; [apply H0|apply H1]; right; exact Hz. }
    pose proof (H0 y (or_introl eq_refl)) as P0. destruct (p y) eqn:E.
    - pose proof (H1 y (or_introl eq_refl) E) as P1. cbn [length]. rewrite Nat2Z.inj_succ. unfold Z.succ.
      rewrite inject_Z_plus. change (inject_Z 1) with 1. lra.
    - lra.
  Qed.
  Lemma sum_le_count {A} (f : A -> Q) (p : A -> bool) l :
    (forall y, In y l -> f y <= 1) -> (forall y, In y l -> p y = false -> f y <= 0) ->
    qsum (map f l) <= inject_Z (Z.of_nat (length (filter p l))).
  Proof.
    induction l as [|y t IH]; intros H0 H1; cbn [filter map qsum length]; [change (inject_Z (Z.of_nat 0)) with 0; lra|].
    assert (IH' : qsum (map f t) <= inject_Z (Z.of_nat (length (filter p t)))).
    { apply IH; intros z Hz; [apply H0|apply H1]; right; exact Hz. }
    pose proof (H0 y (or_introl eq_refl)) as P0. destruct (p y) eqn:E.
    - cbn [length]. rewrite Nat2Z.inj_succ. unfold Z.succ. rewrite inject_Z_plus. change (inject_Z 1) with 1. lra.
    - pose proof (H1 y (or_introl eq_refl) E) as P1. lra.
  Qed.
  Lemma filter_map_length {A B} (q : B -> bool) (g : A -> B) l : length (filter q (map g l)) = length (filter (fun y => q (g y)) l).
  Proof. induction l as [|y t IH]; cbn [map filter]; [reflexivity|]. destruct (q (g y)); cbn [length]; rewrite IH; reflexivity. Qed.

  (* value of the selector of m on copy a, over ALL considered variants *)
  Definition selv (a : ainst) (m : mutn) : Q :=
    if in_def a m then x (kK a m) else if is_new a m then x (kN a m) else 0.
  Lemma selv_range a m : In a (insts i) -> In m (i_muts i) -> 0 <= selv a m /\ selv a m <= 1.
  Proof.
    intros Ha Hm. unfold selv. destruct (in_def a m) eqn:D.
    - apply bin_range. apply (vK_bin c i x F a m Ha). apply defs_in. auto.
    - destruct (is_new a m) eqn:N; [|lra]. apply bin_range. apply (vN_bin c i x F a m Ha). unfold news. apply filter_In. auto.
  Qed.
  Lemma selv_carried a m : In a (insts i) -> In m (i_muts i) -> (carried (pch i x a) m = true <-> selv a m == 1).
  Proof.
    intros Ha Hm. rewrite (carried_iff a m Hm). unfold selv. destruct (in_def a m) eqn:D.
    - rewrite !on_true. split.
      + intros [[_ P]|[H _]]; [exact P|]. apply news_in in H. destruct H as (_ & _ & H). congruence.
      + intros P. left. split; [apply defs_in; auto|exact P].
    - destruct (is_new a m) eqn:N.
      + rewrite !on_true. split.
        * intros [[H _]|[_ P]]; [|exact P]. apply defs_in in H. destruct H. congruence.
        * intros P. right. split; [unfold news; apply filter_In; auto|exact P].
      + split.
        * intros [[H _]|[H _]]; [apply defs_in in H; destruct H; congruence|].
          unfold news in H. apply filter_In in H. destruct H. congruence.
        * intros H. lra.
  Qed.
  Lemma selv_sum_site a pos : In a (insts i) ->
    qsum (map (selv a) (at_pos pos (i_muts i))) ==
    qsum (map (fun m => x (kK a m)) (at_pos pos (defs i a))) + qsum (map (fun m => x (kN a m)) (at_pos pos (news i a))).
  Proof.
    intros Ha. unfold at_pos, defs, news. rewrite !filter_filter'.
    rewrite (qsum_filter_ite (fun m => x (kK a m))), (qsum_filter_ite (fun m => x (kN a m))), <- qsum_plus.
    rewrite qsum_filter_ite. apply qsum_map_ext. intros m _. unfold selv, is_new.
    destruct (m_pos m =? pos)%Z, (in_def a m), (has_cov a (m_pos m)); cbn [andb negb]; lra.
  Qed.

  Theorem point_one_per_site : cl_one_per_site i (point_asg i x) = true.
  Proof.
    unfold cl_one_per_site. apply forallb_forall. intros ch Hch. apply in_point_asg in Hch as (a & Ha & Pa & ->).
    apply forallb_forall. intros st Hs. apply Nat.leb_le. unfold carried_at.
    assert (L : inject_Z (Z.of_nat (length (filter (carried (pch i x a)) (at_pos (s_pos st) (i_muts i))))) <= 1).
    { eapply Qle_trans; [apply (count_le_sum (selv a))|].
      - intros m Hm. apply at_pos_in in Hm. apply (selv_range a m Ha Hm).
      - intros m Hm Hc. apply at_pos_in in Hm. apply (selv_carried a m Ha Hm) in Hc. lra.
      - rewrite (selv_sum_site a (s_pos st) Ha). apply (minor_one_per_site c i x F a st Ha Hs). }
    change 1 with (inject_Z 1) in L. rewrite <- Zle_Qle in L. lia.
  Qed.

  Lemma carr_selv m : In m (i_muts i) -> carr x i m == qsum (map (fun a => selv a m) (insts i)).
  Proof.
    intros Hm. unfold carr. apply qsum_map_ext. intros a Ha. unfold selv, is_new.
    destruct (in_def a m), (has_cov a (m_pos m)); cbn [andb negb]; lra.
  Qed.
  Theorem point_supported : cl_supported i (point_asg i x) = true.
  Proof.
    unfold cl_supported. apply forallb_forall. intros m Hm. destruct (no_reads m) eqn:N; [reflexivity|]. cbn [orb].
    unfold Qleb. apply Qle_bool_iff. destruct (minor_supported_is_carried c i x F m Hm N) as [L _].
    rewrite (carr_selv m Hm) in L. eapply Qle_trans; [exact L|].
    unfold carriers, cnt. rewrite point_asg_eq, filter_map_length, filter_filter'.
    apply sum_le_count.
    - intros a Ha. apply (selv_range a m Ha Hm).
    - intros a Ha P. destruct (selv_range a m Ha Hm) as [R0 R1].
      destruct (on x (kA a)) eqn:S; cbn [andb] in P.
      + (* selected but not carrying m: the selector is a binary different from 1 *)
        unfold selv in *. destruct (in_def a m) eqn:D.
        * assert (Hd : In m (defs i a)) by (apply defs_in; auto).
          destruct (on x (kK a m)) eqn:O.
          -- exfalso. assert (carried (pch i x a) m = true) by (apply (carried_iff a m Hm); left; auto). congruence.
          -- rewrite (on_false_bin x _ (proj1 (vK_bin c i x F a m Ha Hd)) O). lra.
        * destruct (is_new a m) eqn:Nw; [|lra].
          assert (Hn : In m (news i a)) by (unfold news; apply filter_In; auto).
          destruct (on x (kN a m)) eqn:O.
          -- exfalso. assert (carried (pch i x a) m = true) by (apply (carried_iff a m Hm); right; auto). congruence.
          -- rewrite (on_false_bin x _ (proj1 (vN_bin c i x F a m Ha Hn)) O). lra.
      + (* not selected: nothing is kept or added on it *)
        pose proof (on_false_bin x _ (vA_bin c i x F a Ha) S) as Z.
        unfold selv in *. destruct (in_def a m) eqn:D.
        * assert (Hd : In m (defs i a)) by (apply defs_in; auto). pose proof (keep_used_only c i x F a m Ha Hd). lra.
        * destruct (is_new a m) eqn:Nw; [|lra].
          assert (Hn : In m (news i a)) by (unfold news; apply filter_In; auto). pose proof (add_used_only c i x F a m Ha Hn). lra.
  Qed.
End PointClauses.

(* ---- structure of the list of allele copies ---- *)
Lemma NoDup_app' {A} (l1 l2 : list A) : NoDup l1 -> NoDup l2 -> (forall a, In a l1 -> ~ In a l2) -> NoDup (l1 ++ l2).
Proof.
  induction l1 as [|y t IH]; intros N1 N2 D; [exact N2|]. inversion N1 as [|? ? Hn N1']; subst. cbn [app]. constructor.
  - intros H. apply in_app_or in H as [H|H]; [contradiction|]. apply (D y); [left; reflexivity|exact H].
  - apply IH; [exact N1'|exact N2|]. intros a Ha. apply D. right. exact Ha.
Qed.
Lemma NoDup_map_inj {A B} (f : A -> B) l : (forall y z, f y = f z -> y = z) -> NoDup l -> NoDup (map f l).
Proof.
  intros Inj. induction l as [|y t IH]; intros ND; [constructor|]. inversion ND as [|? ? Hn ND']; subst. cbn [map]. constructor.
  - intros H. apply in_map_iff in H as (z & E & Hz). apply Inj in E. subst. contradiction.
  - apply IH. exact ND'.
Qed.
Lemma extra_in i cd a : In a (extra_copies i cd) -> fst a = cd /\ (0 < snd a)%Z.
Proof.
  unfold extra_copies. intros H. apply in_map_iff in H as (k & <- & H). apply in_seq in H. cbn [fst snd]. split; [reflexivity|lia].
Qed.
Lemma NoDup_insts i : NoDup (map c_id (i_cands i)) -> NoDup (insts i).
Proof.
  intros ND. unfold insts. apply NoDup_app'.
  - apply (NoDup_map_inv (fun a : ainst => c_id (fst a))). rewrite map_map. cbn [fst]. exact ND.
  - induction (i_cands i) as [|cd t IH]; [constructor|]. cbn [map] in ND. inversion ND as [|? ? Hn ND']; subst.
    cbn [flat_map]. apply NoDup_app'.
    + unfold extra_copies. apply NoDup_map_inj; [|apply seq_NoDup].
      intros k1 k2 E. injection E as E. lia.
    + apply IH. exact ND'.
    + intros a Ha Hb. apply extra_in in Ha as [Ea _]. apply in_flat_map in Hb as (cd' & Hc & Hb). apply extra_in in Hb as [Eb _].
      apply Hn. rewrite <- Ea, Eb. apply in_map. exact Hc.
  - intros a Ha Hb. apply in_map_iff in Ha as (cd & <- & _). apply in_flat_map in Hb as (cd' & _ & Hb).
    apply extra_in in Hb as [_ Hb]. cbn [snd] in Hb. lia.
Qed.
Lemma c_id_inj (l : list cand) a b : NoDup (map c_id l) -> In a l -> In b l -> c_id a = c_id b -> a = b.
Proof.
  induction l as [|y t IH]; intros ND H H' E; [contradiction|]. cbn [map] in ND. inversion ND as [|? ? Hn ND']; subst.
  destruct H as [->|H], H' as [->|H'].
  - reflexivity.
  - exfalso. apply Hn. rewrite E. apply in_map. exact H'.
  - exfalso. apply Hn. rewrite <- E. apply in_map. exact H.
  - apply IH; assumption.
Qed.
Lemma ainst_eqb_refl a : ainst_eqb a a = true.
Proof. unfold ainst_eqb. rewrite !Z.eqb_refl. reflexivity. Qed.
Lemma ainst_eqb_eq i a b : NoDup (map c_id (i_cands i)) -> In a (insts i) -> In b (insts i) -> ainst_eqb a b = true -> a = b.
Proof.
  intros ND Ha Hb E. unfold ainst_eqb in E. apply andb_true_iff in E as [E1 E2]. apply Z.eqb_eq in E1, E2.
  destruct a as [ca ka], b as [cb kb]. cbn [fst snd] in *. subst kb. f_equal.
  apply (c_id_inj (i_cands i)); [exact ND| | |exact E1].
  - apply (insts_cand i (ca, ka) Ha).
  - apply (insts_cand i (cb, ka) Hb).
Qed.
Lemma filter_none {A} (p : A -> bool) l : (forall b, In b l -> p b = false) -> filter p l = [].
Proof.
  induction l as [|y t IH]; intros H; [reflexivity|]. cbn [filter]. rewrite (H y (or_introl eq_refl)).
  apply IH. intros b Hb. apply H. right. exact Hb.
Qed.
Lemma count_one {A} (eqb : A -> A -> bool) (l : list A) a :
  NoDup l -> In a l -> (forall b, In b l -> eqb b a = true -> b = a) -> eqb a a = true ->
  length (filter (fun b => eqb b a) l) = 1%nat.
Proof.
  induction l as [|y t IH]; intros ND Ha Heq Hr; [contradiction|]. inversion ND as [|? ? Hn ND']; subst. cbn [filter].
  destruct Ha as [->|Ha].
  - rewrite Hr. cbn [length]. f_equal. rewrite filter_none; [reflexivity|]. intros b Hb.
    destruct (eqb b a) eqn:E; [|reflexivity]. exfalso. apply Hn. rewrite <- (Heq b (or_intror Hb) E). exact Hb.
  - destruct (eqb y a) eqn:Ey.
    + exfalso. apply Hn. rewrite (Heq y (or_introl eq_refl) Ey). exact Ha.
    + apply IH; [exact ND'|exact Ha| |exact Hr]. intros b Hb. apply Heq. right. exact Hb.
Qed.
Lemma insts_prev i a : In a (insts i) -> snd a <> 0%Z -> In (fst a, (snd a - 1)%Z) (insts i) /\ (0 < snd a)%Z.
Proof.
  unfold insts. intros H Hz. apply in_app_or in H as [H|H].
  - apply in_map_iff in H as (cd & <- & _). cbn [snd] in Hz. contradiction.
  - apply in_flat_map in H as (cd & Hc & H). unfold extra_copies in H. apply in_map_iff in H as (k & <- & H). apply in_seq in H.
    cbn [fst snd]. split; [|lia]. destruct (Nat.eq_dec k 1) as [->|Hk].
    + apply in_or_app. left. apply (in_map (fun c => (c, 0%Z))). exact Hc.
    + apply in_or_app. right. apply in_flat_map. exists cd. split; [exact Hc|]. unfold extra_copies. apply in_map_iff.
      exists (k - 1)%nat. split; [f_equal; lia|]. apply in_seq. lia.
Qed.
Lemma bin_sum_count {A} (f : A -> Q) l : (forall y, In y l -> is_bin (f y)) ->
  qsum (map f l) == inject_Z (Z.of_nat (length (filter (fun y => Qeqb (f y) 1) l))).
Proof.
  induction l as [|y t IH]; intros B; cbn [map qsum filter length]; [reflexivity|].
  rewrite IH by (intros z Hz; apply B; right; exact Hz). destruct (B y (or_introl eq_refl)) as [E|E].
  - assert (Qeqb (f y) 1 = false). { unfold Qeqb. destruct (Qeq_bool (f y) 1) eqn:Q; [|reflexivity]. apply Qeq_bool_iff in Q. lra. }
    rewrite H, E. lra.
  - assert (Qeqb (f y) 1 = true) by (unfold Qeqb; apply Qeq_bool_iff; exact E).
    rewrite H, E. cbn [length]. rewrite Nat2Z.inj_succ. unfold Z.succ. rewrite inject_Z_plus. change (inject_Z 1) with 1. lra.
Qed.

Theorem point_one_minor c i x : feasible (gen c i) x -> inst_wf i = true -> cl_one_minor i (point_asg i x) = true.
Proof.
  intros F W.
  assert (NDc : NoDup (map c_id (i_cands i))).
  { unfold inst_wf in W. do 7 (apply andb_true_iff in W as [W _]). apply andb_true_iff in W as [_ W]. apply nodupb_NoDup. exact W. }
  pose proof (NoDup_insts i NDc) as NDi.
  unfold cl_one_minor, sel_ok. rewrite !andb_true_iff. repeat split.
  - apply forallb_forall. intros ch Hch. apply in_point_asg in Hch as (a & Ha & Pa & ->). cbn [pch ch_a].
    apply existsb_exists. exists a. split; [exact Ha|apply ainst_eqb_refl].
  - apply forallb_forall. intros ch Hch. apply in_point_asg in Hch as (a & Ha & Pa & ->). cbn [pch ch_a].
    apply Nat.eqb_eq. rewrite point_asg_eq, filter_map_length. cbn [pch ch_a].
    apply (count_one ainst_eqb).
    + apply NoDup_filter. exact NDi.
    + apply filter_In. auto.
    + intros b Hb E. apply filter_In in Hb as [Hb _]. apply (ainst_eqb_eq i b a NDc Hb Ha E).
    + apply ainst_eqb_refl.
  - apply forallb_forall. intros ch Hch. apply in_point_asg in Hch as (a & Ha & Pa & ->). cbn [pch ch_a].
    destruct (snd a =? 0)%Z eqn:Z0; [reflexivity|]. cbn [orb]. apply Z.eqb_neq in Z0.
    destruct (insts_prev i a Ha Z0) as [Hp Hk]. apply existsb_exists. exists (pch i x (fst a, (snd a - 1)%Z)). split.
    + apply in_point_asg. exists (fst a, (snd a - 1)%Z). split; [exact Hp|]. split; [|reflexivity].
      apply on_true. apply on_true in Pa. pose proof (minor_copy_order c i x F a Ha Hk) as L.
      pose proof (bin_range _ (vA_bin c i x F _ Hp)). lra.
    + cbn [pch ch_a]. apply ainst_eqb_refl.
  - apply forallb_forall. intros [mj cnt] Hmc. cbn [fst snd]. apply Z.eqb_eq.
    rewrite point_asg_eq, filter_map_length. cbn [pch ch_a]. rewrite filter_filter'.
    pose proof (one_per_major c i x F mj cnt Hmc) as S.
    rewrite (bin_sum_count (fun a => x (kA a))) in S.
    2:{ intros a Ha. apply filter_In in Ha as [Ha _]. apply (vA_bin c i x F a Ha). }
    rewrite filter_filter' in S. apply (proj1 (inject_Z_injective _ _)) in S.
    rewrite <- S. f_equal. f_equal. apply filter_ext. intros a. unfold on. apply andb_comm.
  - apply Z.leb_le. rewrite point_asg_eq, map_length.
    assert (T : qsum (map (fun a => x (kA a)) (insts i)) <= inject_Z (total_copies i)).
    { rewrite <- qsum_map_map, <- eval_sumv. apply (sat_le c i x F). unfold gen_rows. rewrite !in_app_iff.
      do 2 right. left. left. reflexivity. }
    rewrite (bin_sum_count (fun a => x (kA a))) in T by (intros a Ha; apply (vA_bin c i x F a Ha)).
    rewrite <- Zle_Qle in T. exact T.
Qed.

(* all seven safety clauses, as the harness evaluates them (MinorSpec.clauses), hold for the assignment denoted by any
   feasible point of the ILP; with the Fixed read-out that assignment is what is reported *)
Theorem minor_point_clauses c i x : feasible (gen c i) x -> inst_wf i = true ->
  clauses i (readout Fixed c i (point_asg i x)) = [true; true; true; true; true; true; true].
Proof.
  intros F W. rewrite readout_fixed_id. unfold clauses.
  rewrite (point_one_minor c i x F W), (point_core_kept c i x F W), (point_add_copies i x W), (point_add_reads c i x F W),
    (point_carried_reads c i x F W), (point_one_per_site c i x F W), (point_supported c i x F W). reflexivity.
Qed.
