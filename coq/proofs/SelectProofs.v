(* SelectProofs.v — theorems about Select.v (C10): the selection is exactly "within the gap of the best, sorted by
   (int(scale*score), name)", best first at the resolution of SOLUTION_PRECISION, the closed formula of the combined score with
   provenance of every reported candidate, and the three empty-stage errors. *)
From Coq Require Import Permutation Sorted Lqa Qround.
From Aldy Require Import Base Consts Select Consts_here.
Import List.
Open Scope Z_scope.

(* ------------------------------------------------------------------------------------------------------------------ *)
(* the order on names and keys                                                                                          *)
(* ------------------------------------------------------------------------------------------------------------------ *)
Lemma str_ltb_irrefl : forall a, str_ltb a a = false.
Proof. induction a as [|x a IH]; cbn; auto. rewrite Z.ltb_irrefl. exact IH. Qed.

Lemma str_ltb_trans : forall a b c, str_ltb a b = true -> str_ltb b c = true -> str_ltb a c = true.
Proof.
  induction a as [|x a IH]; intros [|y b] [|z c]; cbn; try congruence; auto.
  destruct (Z.ltb_spec x y), (Z.ltb_spec y x), (Z.ltb_spec y z), (Z.ltb_spec z y), (Z.ltb_spec x z), (Z.ltb_spec z x);
    intros Ha Hb; try reflexivity; try discriminate; try lia; eauto.
Qed.

Lemma str_ltb_tricho : forall a b, str_ltb a b = false -> str_ltb b a = false -> a = b.
Proof.
  induction a as [|x a IH]; intros [|y b]; cbn; try congruence; auto.
  destruct (x <? y) eqn:E1; try congruence. destruct (y <? x) eqn:E2; try congruence.
  intros H1 H2. apply Z.ltb_ge in E1. apply Z.ltb_ge in E2. assert (x = y) by lia. subst. f_equal. auto.
Qed.

Lemma str_ltb_asym : forall a b, str_ltb a b = true -> str_ltb b a = false.
Proof.
  intros a b H. destruct (str_ltb b a) eqn:E; auto.
  pose proof (str_ltb_trans _ _ _ H E) as T. rewrite str_ltb_irrefl in T. discriminate.
Qed.

Lemma str_leb_total : forall a b, str_leb a b = false -> str_leb b a = true.
Proof. unfold str_leb. intros a b H. apply negb_false_iff in H. apply str_ltb_asym in H. rewrite H. reflexivity. Qed.

Lemma str_leb_trans : forall a b c, str_leb a b = true -> str_leb b c = true -> str_leb a c = true.
Proof.
  unfold str_leb. intros a b c H1 H2. apply negb_true_iff in H1. apply negb_true_iff in H2. apply negb_true_iff.
  destruct (str_ltb c a) eqn:E; auto.
  destruct (str_ltb b c) eqn:E2.
  - pose proof (str_ltb_trans _ _ _ E2 E). congruence.
  - assert (b = c) by (apply str_ltb_tricho; auto). subst. congruence.
Qed.

Lemma key_leb_total : forall a b, key_leb a b = false -> key_leb b a = true.
Proof.
  unfold key_leb. intros [z1 s1] [z2 s2]; cbn. intros H.
  apply orb_false_iff in H. destruct H as [H1 H2]. apply Z.ltb_ge in H1.
  destruct (z2 <? z1) eqn:E; auto. apply Z.ltb_ge in E. assert (z1 = z2) by lia. subst.
  rewrite Z.eqb_refl in *. cbn in *. apply str_leb_total. exact H2.
Qed.

Lemma key_leb_trans : forall a b c, key_leb a b = true -> key_leb b c = true -> key_leb a c = true.
Proof.
  unfold key_leb. intros [z1 s1] [z2 s2] [z3 s3]; cbn. intros H1 H2.
  apply orb_true_iff in H1. apply orb_true_iff in H2. apply orb_true_iff.
  destruct H1 as [H1|H1]; destruct H2 as [H2|H2].
  - left. apply Z.ltb_lt in H1. apply Z.ltb_lt in H2. apply Z.ltb_lt. lia.
  - apply andb_true_iff in H2. destruct H2 as [H2 _]. apply Z.eqb_eq in H2. subst. left. exact H1.
  - apply andb_true_iff in H1. destruct H1 as [H1 _]. apply Z.eqb_eq in H1. subst. left. exact H2.
  - apply andb_true_iff in H1. apply andb_true_iff in H2. destruct H1 as [E1 L1]. destruct H2 as [E2 L2].
    apply Z.eqb_eq in E1. apply Z.eqb_eq in E2. subst. right. rewrite Z.eqb_refl. cbn. eapply str_leb_trans; eauto.
Qed.

Lemma key_leb_fst : forall a b, key_leb a b = true -> fst a <= fst b.
Proof.
  unfold key_leb. intros a b H. apply orb_true_iff in H. destruct H as [H|H].
  - apply Z.ltb_lt in H. lia.
  - apply andb_true_iff in H. destruct H as [H _]. apply Z.eqb_eq in H. lia.
Qed.

(* ------------------------------------------------------------------------------------------------------------------ *)
(* stable insertion sort                                                                                                *)
(* ------------------------------------------------------------------------------------------------------------------ *)
Section Sorting.
  Context {A : Type}.
  Variable kf : A -> skey.
  Definition kle (a b : A) : Prop := key_leb (kf a) (kf b) = true.

  Lemma insert_by_perm : forall x l, Permutation (insert_by kf x l) (x :: l).
  Proof.
    induction l as [|y t IH]; cbn; auto.
    destruct (key_leb (kf x) (kf y)); auto.
    rewrite IH. apply perm_swap.
  Qed.

  Lemma sort_by_perm : forall l, Permutation (sort_by kf l) l.
  Proof.
    induction l as [|x t IH]; cbn; auto.
    rewrite insert_by_perm. constructor. exact IH.
  Qed.

  Lemma insert_by_sorted : forall x l, StronglySorted kle l -> StronglySorted kle (insert_by kf x l).
  Proof.
    induction l as [|y t IH]; cbn; intros S.
    - constructor; constructor.
    - destruct (key_leb (kf x) (kf y)) eqn:E.
      + constructor; auto. constructor; auto.
        inversion S as [|? ? S' F]; subst. eapply Forall_impl; [|exact F].
        intros z Hz. unfold kle in *. eapply key_leb_trans; eauto.
      + inversion S as [|? ? S' F]; subst. constructor; auto.
        eapply Permutation_Forall; [symmetry; apply insert_by_perm|].
        constructor; auto. apply key_leb_total. exact E.
  Qed.

  Lemma sort_by_sorted : forall l, StronglySorted kle (sort_by kf l).
  Proof. induction l as [|x t IH]; cbn; [constructor|]. apply insert_by_sorted. exact IH. Qed.

  Lemma sort_by_in : forall l a, In a (sort_by kf l) <-> In a l.
  Proof. intros l a. split; apply Permutation_in; [|symmetry]; apply sort_by_perm. Qed.
End Sorting.

Lemma insert_g_perm : forall x l, Permutation (insert_g x l) (x :: l).
Proof.
  induction l as [|y t IH]; cbn; auto.
  destruct (group_leb x y); auto. rewrite IH. apply perm_swap.
Qed.

Lemma minor_order_perm : forall l, Permutation (minor_order l) l.
Proof. induction l as [|x t IH]; cbn; auto. rewrite insert_g_perm. constructor. exact IH. Qed.

(* ------------------------------------------------------------------------------------------------------------------ *)
(* minimum and filter                                                                                                   *)
(* ------------------------------------------------------------------------------------------------------------------ *)
Lemma Qltb_lt : forall a b, Qltb a b = true <-> (a < b)%Q.
Proof.
  intros a b. unfold Qltb. rewrite negb_true_iff. split; intros H.
  - apply Qnot_le_lt. intro L. apply Qle_bool_iff in L. congruence.
  - destruct (Qle_bool b a) eqn:E; auto. apply Qle_bool_iff in E. apply Qlt_not_le in H. contradiction.
Qed.

Lemma Qmin'_spec : forall a b, (Qmin' a b <= a)%Q /\ (Qmin' a b <= b)%Q /\ (Qmin' a b = a \/ Qmin' a b = b).
Proof.
  intros a b. unfold Qmin'. destruct (Qle_bool a b) eqn:E.
  - apply Qle_bool_iff in E. repeat split; auto. apply Qle_refl.
  - assert (~ (a <= b)%Q) by (intro L; apply Qle_bool_iff in L; congruence).
    apply Qnot_le_lt in H. repeat split; auto; try apply Qle_refl. apply Qlt_le_weak. exact H.
Qed.

Section Min.
  Context {A : Type}.
  Variable score : A -> Q.

  Lemma min_score_le : forall l a, In a l -> (min_score score l <= score a)%Q.
  Proof.
    induction l as [|x t IH]; intros a H; [inversion H|].
    destruct t as [|y t'].
    - destruct H as [H|[]]. subst. cbn. apply Qle_refl.
    - change (min_score score (x :: y :: t')) with (Qmin' (score x) (min_score score (y :: t'))).
      destruct (Qmin'_spec (score x) (min_score score (y :: t'))) as [H1 [H2 _]].
      destruct H as [H|H].
      + subst. exact H1.
      + eapply Qle_trans; [exact H2|]. apply IH. exact H.
  Qed.

  Lemma min_score_in : forall l, l <> [] -> exists a, In a l /\ min_score score l = score a.
  Proof.
    induction l as [|x t IH]; intros H; [congruence|].
    destruct t as [|y t'].
    - exists x. split; [left; auto|reflexivity].
    - change (min_score score (x :: y :: t')) with (Qmin' (score x) (min_score score (y :: t'))).
      destruct (Qmin'_spec (score x) (min_score score (y :: t'))) as [_ [_ [E|E]]].
      + exists x. split; [left; auto|exact E].
      + destruct IH as [a [Ia Ea]]; [congruence|]. exists a. split; [right; exact Ia|]. rewrite E. exact Ea.
  Qed.

  Lemma within_iff : forall prec gap mn a, within score prec gap mn a = true <-> (score a - mn - gap < prec)%Q.
  Proof. intros. unfold within. apply Qltb_lt. Qed.
End Min.

(* ------------------------------------------------------------------------------------------------------------------ *)
(* select_exact                                                                                                         *)
(* ------------------------------------------------------------------------------------------------------------------ *)
Theorem select_exact : forall (A : Type) (name : A -> str) (score : A -> Q) prec gap scale l out,
  select name score prec gap scale l = Some out ->
  l <> [] /\
  Permutation out (filter (within score prec gap (min_score score l)) l) /\
  StronglySorted (fun a b => key_leb (key_of name score scale a) (key_of name score scale b) = true) out /\
  (forall a, In a out <-> In a l /\ (score a - min_score score l - gap < prec)%Q) /\
  (forall a, In a l -> (min_score score l <= score a)%Q) /\
  (exists a, In a l /\ min_score score l = score a).
Proof.
  intros A name score prec gap scale l out H.
  assert (out = sort_by (key_of name score scale) (filter (within score prec gap (min_score score l)) l) /\ l <> []) as [E NE].
  { unfold select in H. destruct l as [|x t]; [discriminate|]. split; congruence. }
  subst out.
  split; [exact NE|]. split; [apply sort_by_perm|]. split; [apply sort_by_sorted|].
  split; [|split; [apply min_score_le|apply min_score_in; exact NE]].
  intros a. rewrite sort_by_in. rewrite filter_In. rewrite within_iff. tauto.
Qed.

Lemma select_none : forall (A : Type) (name : A -> str) (score : A -> Q) prec gap scale l,
  select name score prec gap scale l = None <-> l = [].
Proof. intros. unfold select. destruct l; split; intros; congruence. Qed.

(* the best candidate itself is always reported when gap >= 0 and the precision is positive *)
Lemma select_contains_best : forall (A : Type) (name : A -> str) (score : A -> Q) prec gap scale l out,
  select name score prec gap scale l = Some out -> (0 <= gap)%Q -> (0 < prec)%Q ->
  exists a, In a out /\ min_score score l = score a.
Proof.
  intros A name score prec gap scale l out H Hg Hp.
  destruct (select_exact _ _ _ _ _ _ _ _ H) as [_ [_ [_ [Hin [_ [a [Ia Ea]]]]]]].
  exists a. split; auto. apply Hin. split; auto. rewrite Ea. lra.
Qed.

(* ------------------------------------------------------------------------------------------------------------------ *)
(* best first                                                                                                           *)
(* ------------------------------------------------------------------------------------------------------------------ *)
Lemma qtrunc_floor : forall q, (0 <= q)%Q -> qtrunc q = Qfloor q.
Proof.
  intros [n d] H. unfold qtrunc, Qfloor. cbn. apply Z.quot_div_nonneg; [|reflexivity].
  unfold Qle in H. cbn in H. lia.
Qed.

Lemma qtrunc_le_lt : forall x y, (0 <= x)%Q -> (0 <= y)%Q -> qtrunc x <= qtrunc y -> (x < y + 1)%Q.
Proof.
  intros x y Hx Hy H. rewrite (qtrunc_floor x Hx), (qtrunc_floor y Hy) in H.
  pose proof (Qlt_floor x) as L. pose proof (Qfloor_le y) as G.
  assert (inject_Z (Qfloor x + 1) <= inject_Z (Qfloor y + 1))%Q as M.
  { rewrite <- Zle_Qle. lia. }
  rewrite inject_Z_plus in M. rewrite inject_Z_plus in L. rewrite inject_Z_plus in M.
  change (inject_Z 1) with 1%Q in *. lra.
Qed.

Lemma sorted_app_pair : forall (A : Type) (R : A -> A -> Prop) pre a mid b post,
  StronglySorted R (pre ++ a :: mid ++ b :: post) -> R a b.
Proof.
  intros A R pre. induction pre as [|x pre IH]; cbn; intros a mid b post S.
  - inversion S as [|? ? _ F]; subst. rewrite Forall_forall in F. apply F. apply in_or_app. right. left. reflexivity.
  - inversion S; subst. eapply IH; eauto.
Qed.

Theorem select_best_first : forall (A : Type) (name : A -> str) (score : A -> Q) prec gap scale l out,
  select name score prec gap scale l = Some out -> 0 < scale -> (forall a, In a l -> (0 <= score a)%Q) ->
  forall pre a mid b post, out = pre ++ a :: mid ++ b :: post ->
    (inZ scale * score a < inZ scale * score b + 1)%Q /\
    (Qltb 1 (inZ scale * prec) = true -> (score a < score b + prec)%Q).
Proof.
  intros A name score prec gap scale l out H Hs Hpos pre a mid b post E.
  destruct (select_exact _ _ _ _ _ _ _ _ H) as [_ [_ [S [Hin _]]]].
  assert (In a l /\ In b l) as [Ia Ib].
  { split; apply Hin; subst out; apply in_or_app; right; [left; auto|right; apply in_or_app; right; left; auto]. }
  subst out. apply sorted_app_pair in S. apply key_leb_fst in S. cbn in S.
  assert (0 < inZ scale)%Q as Hq. { unfold inZ. change 0%Q with (inject_Z 0). rewrite <- Zlt_Qlt. exact Hs. }
  pose proof (Hpos a Ia) as Pa. pose proof (Hpos b Ib) as Pb.
  assert (0 <= inZ scale * score a)%Q as Xa by (apply Qmult_le_0_compat; [apply Qlt_le_weak|]; assumption).
  assert (0 <= inZ scale * score b)%Q as Xb by (apply Qmult_le_0_compat; [apply Qlt_le_weak|]; assumption).
  pose proof (qtrunc_le_lt _ _ Xa Xb S) as L.
  split; [exact L|].
  intros W. apply Qltb_lt in W.
  apply (Qmult_lt_l _ _ (inZ scale) Hq).
  rewrite Qmult_plus_distr_r. lra.
Qed.

(* ------------------------------------------------------------------------------------------------------------------ *)
(* provenance and the closed formula of the combined score                                                              *)
(* ------------------------------------------------------------------------------------------------------------------ *)
Lemma in_major_candidates : forall min_cn cns j, In j (major_candidates min_cn cns) ->
  In (jc_cn j) cns /\ In (jc_in j) (cn_majors (jc_cn j)) /\
  jc_score j = (ma_raw (jc_in j) + (cn_score (jc_cn j) - min_cn))%Q.
Proof.
  intros min_cn cns j H. unfold major_candidates in H. apply in_flat_map in H. destruct H as [cn [Hc H]].
  apply in_map_iff in H. destruct H as [m [E Hm]]. subst j. cbn. auto.
Qed.

Lemma passed_majors_spec : forall c gap cns passed, passed_majors c gap cns = Some passed ->
  forall j, In j passed ->
  In (jc_cn j) cns /\ In (jc_in j) (cn_majors (jc_cn j)) /\
  jc_score j = (ma_raw (jc_in j) + (cn_score (jc_cn j) - min_score cn_score cns))%Q.
Proof.
  intros c gap cns passed H j Hj. unfold passed_majors in H.
  destruct (select_exact _ _ _ _ _ _ _ _ H) as [_ [_ [_ [Hin _]]]].
  apply Hin in Hj. destruct Hj as [Hj _]. apply in_major_candidates in Hj. destruct Hj as [H1 [H2 H3]].
  split; [|split; auto]. unfold sorted_structures in H1. apply sort_by_in in H1. exact H1.
Qed.

Lemma in_minor_candidates : forall c min_cn min_major passed n, In n (minor_candidates c min_cn min_major passed) ->
  In (nc_major n) passed /\ In (nc_in n) (ma_minors (jc_in (nc_major n))) /\
  nc_score n = combined c min_cn min_major (nc_major n) (nc_in n).
Proof.
  intros c min_cn min_major passed n H. unfold minor_candidates in H. apply in_flat_map in H. destruct H as [j [Hj H]].
  apply in_map_iff in H. destruct H as [m [E Hm]]. subst n. cbn. split; auto.
  eapply Permutation_in; [apply minor_order_perm|exact Hj].
Qed.

Theorem select_carry : forall c gap cns out, genotype_select c gap cns = Ok out ->
  exists passed, passed_majors c gap cns = Some passed /\
  forall n, In n out ->
    let j := nc_major n in
    let min_cn := min_score cn_score cns in
    let min_major := min_score jc_score passed in
    In (jc_cn j) cns /\ In (jc_in j) (cn_majors (jc_cn j)) /\ In (nc_in n) (ma_minors (jc_in j)) /\ In j passed /\
    jc_score j = (ma_raw (jc_in j) + (cn_score (jc_cn j) - min_cn))%Q /\
    nc_score n = ((mi_raw (nc_in n) + ((ma_raw (jc_in j) + (cn_score (jc_cn j) - min_cn)) - min_major)) *
                  ((cn_score (jc_cn j) + c_slack c) / (min_cn + c_slack c)))%Q /\
    (nc_score n - min_score nc_score (minor_candidates c min_cn min_major passed) - gap < c_solution_precision c)%Q.
Proof.
  intros c gap cns out H. unfold genotype_select in H.
  destruct cns as [|cn0 cns']; [discriminate|]. set (cns := cn0 :: cns') in *.
  destruct (passed_majors c gap cns) as [passed|] eqn:P; [|discriminate].
  exists passed. split; [reflexivity|].
  destruct (select nc_name nc_score (c_solution_precision c) gap (scale_at c 2)
              (minor_candidates c (min_score cn_score cns) (min_score jc_score passed) passed)) as [o|] eqn:S; [|discriminate].
  injection H as H. subst o.
  intros n Hn. cbn zeta.
  destruct (select_exact _ _ _ _ _ _ _ _ S) as [_ [_ [_ [Hin _]]]].
  apply Hin in Hn. destruct Hn as [Hn Hw].
  apply in_minor_candidates in Hn. destruct Hn as [Hj [Hm Hs]].
  destruct (passed_majors_spec _ _ _ _ P _ Hj) as [H1 [H2 H3]].
  repeat split; auto.
  rewrite Hs. unfold combined. rewrite H3. reflexivity.
Qed.

(* ------------------------------------------------------------------------------------------------------------------ *)
(* empty stages                                                                                                         *)
(* ------------------------------------------------------------------------------------------------------------------ *)
Lemma flat_map_nil : forall (A B : Type) (f : A -> list B) l, flat_map f l = [] <-> forall x, In x l -> f x = [].
Proof.
  intros A B f. induction l as [|x t IH]; cbn; split; intros H; auto.
  - intros y [].
  - apply app_eq_nil in H. destruct H as [H1 H2]. intros y [E|Hy]; [subst; auto|]. apply IH; auto.
  - rewrite (H x (or_introl eq_refl)). cbn. apply IH. intros y Hy. apply H. right. exact Hy.
Qed.

Lemma map_nil : forall (A B : Type) (f : A -> B) l, map f l = [] <-> l = [].
Proof. intros A B f [|x t]; cbn; split; intros; congruence. Qed.

Lemma major_candidates_nil : forall c cns,
  major_candidates (min_score cn_score cns) (sorted_structures c cns) = [] <-> forall cn, In cn cns -> cn_majors cn = [].
Proof.
  intros c cns. unfold major_candidates. rewrite flat_map_nil. split; intros H cn Hc.
  - specialize (H cn). rewrite map_nil in H. apply H. unfold sorted_structures. apply sort_by_in. exact Hc.
  - rewrite map_nil. apply H. unfold sorted_structures in Hc. apply sort_by_in in Hc. exact Hc.
Qed.

Lemma minor_candidates_nil : forall c a b passed,
  minor_candidates c a b passed = [] <-> forall j, In j passed -> ma_minors (jc_in j) = [].
Proof.
  intros c a b passed. unfold minor_candidates. rewrite flat_map_nil. split; intros H j Hj.
  - specialize (H j). rewrite map_nil in H. apply H. eapply Permutation_in; [symmetry; apply minor_order_perm|exact Hj].
  - rewrite map_nil. apply H. eapply Permutation_in; [apply minor_order_perm|exact Hj].
Qed.

Theorem select_empty_errors : forall c gap cns,
  (genotype_select c gap cns = Err NoStructures <-> cns = []) /\
  (genotype_select c gap cns = Err NoMajors <-> cns <> [] /\ forall cn, In cn cns -> cn_majors cn = []) /\
  (genotype_select c gap cns = Err NoMinors <->
     cns <> [] /\ exists passed, passed_majors c gap cns = Some passed /\ forall j, In j passed -> ma_minors (jc_in j) = []) /\
  (forall out, genotype_select c gap cns = Ok out -> consts_wf c = true -> (0 <= gap)%Q -> out <> []).
Proof.
  intros c gap cns. unfold genotype_select.
  destruct cns as [|cn0 cns'].
  { split; [split; intros; reflexivity|].
    split; [split; [discriminate|intros [H _]; congruence]|].
    split; [split; [discriminate|intros [H _]; congruence]|].
    intros out H. discriminate. }
  set (cns := cn0 :: cns') in *.
  assert (cns <> []) as NE by (unfold cns; congruence).
  destruct (passed_majors c gap cns) as [passed|] eqn:P.
  - pose proof P as P'. unfold passed_majors in P'.
    destruct (select_exact _ _ _ _ _ _ _ _ P') as [MNE _].
    assert (~ (forall cn, In cn cns -> cn_majors cn = [])) as NoAllEmpty.
    { intro H. apply (major_candidates_nil c) in H. contradiction. }
    destruct (select nc_name nc_score (c_solution_precision c) gap (scale_at c 2)
                (minor_candidates c (min_score cn_score cns) (min_score jc_score passed) passed)) as [o|] eqn:S.
    + destruct (select_exact _ _ _ _ _ _ _ _ S) as [NNE _].
      split; [split; [discriminate|intros H; congruence]|].
      split; [split; [discriminate|intros [_ H]; contradiction]|].
      split.
      * split; [discriminate|]. intros [_ [p [E H]]]. injection E as E. subst p.
        apply (minor_candidates_nil c (min_score cn_score cns) (min_score jc_score passed)) in H. contradiction.
      * intros out H W G. injection H as H. subst o.
        assert (0 < c_solution_precision c)%Q as Hp.
        { unfold consts_wf in W. repeat (apply andb_true_iff in W; destruct W as [W ?]). apply Qltb_lt. assumption. }
        destruct (select_contains_best _ _ _ _ _ _ _ _ S G Hp) as [a [Ia _]]. intro E. subst out. inversion Ia.
    + apply select_none in S.
      split; [split; [discriminate|intros H; congruence]|].
      split; [split; [discriminate|intros [_ H]; contradiction]|].
      split.
      * split; [|reflexivity]. intros _. split; [exact NE|]. exists passed. split; [reflexivity|].
        apply (minor_candidates_nil c (min_score cn_score cns) (min_score jc_score passed)). exact S.
      * intros out H. discriminate.
  - unfold passed_majors in P. apply select_none in P.
    split; [split; [discriminate|intros H; congruence]|].
    split.
    + split; [|reflexivity]. intros _. split; [exact NE|]. apply (major_candidates_nil c). exact P.
    + split.
      * split; [discriminate|]. intros [_ [p [E _]]]. discriminate.
      * intros out H. discriminate.
Qed.

(* ------------------------------------------------------------------------------------------------------------------ *)
Lemma here_select_wf : select_wf here = true.
Proof. vm_compute. reflexivity. Qed.

Lemma select_wf_scale : forall c k, select_wf c = true -> (k < 3)%nat ->
  0 < scale_at c k /\ Qltb 1 (inZ (scale_at c k) * c_solution_precision c) = true.
Proof.
  intros c k W Hk. unfold select_wf in W.
  apply andb_true_iff in W. destruct W as [W F]. apply andb_true_iff in W. destruct W as [W Len].
  apply Z.leb_le in Len.
  assert (k < length (c_sort_scale c))%nat as Hl by lia.
  unfold scale_at. pose proof (nth_In (c_sort_scale c) 1000 Hl) as I.
  rewrite forallb_forall in F. pose proof (F _ I) as F1.
  split; auto.
  unfold consts_wf in W. repeat (apply andb_true_iff in W; destruct W as [W ?]).
  match goal with H : forallb (fun z => 1000 <=? z) _ = true |- _ => rewrite forallb_forall in H; specialize (H _ I); apply Z.leb_le in H end.
  lia.
Qed.

(* ------------------------------------------------------------------------------------------------------------------ *)
(* the final list of genotype_select as an instance of [select]                                                         *)
(* ------------------------------------------------------------------------------------------------------------------ *)
Lemma genotype_select_ok : forall c gap cns out, genotype_select c gap cns = Ok out ->
  exists passed, passed_majors c gap cns = Some passed /\
    select nc_name nc_score (c_solution_precision c) gap (scale_at c 2)
           (minor_candidates c (min_score cn_score cns) (min_score jc_score passed) passed) = Some out.
Proof.
  intros c gap cns out H. unfold genotype_select in H.
  destruct cns as [|cn0 cns']; [discriminate|]. set (cns := cn0 :: cns') in *.
  destruct (passed_majors c gap cns) as [passed|] eqn:P; [|discriminate].
  exists passed. split; [reflexivity|].
  destruct (select nc_name nc_score (c_solution_precision c) gap (scale_at c 2)
              (minor_candidates c (min_score cn_score cns) (min_score jc_score passed) passed)) as [o|] eqn:S; [|discriminate].
  congruence.
Qed.

Definition scores_nonneg (cns : list cn_in) : Prop :=
  forall cn, In cn cns -> (0 <= cn_score cn)%Q /\
    forall m, In m (cn_majors cn) -> forall mi, In mi (ma_minors m) -> (0 <= mi_raw mi)%Q.

Lemma combined_nonneg : forall c gap cns passed n, consts_wf c = true -> scores_nonneg cns -> cns <> [] ->
  passed_majors c gap cns = Some passed ->
  In n (minor_candidates c (min_score cn_score cns) (min_score jc_score passed) passed) -> (0 <= nc_score n)%Q.
Proof.
  intros c gap cns passed n W NN NE P Hn.
  apply in_minor_candidates in Hn. destruct Hn as [Hj [Hm Hs]].
  destruct (passed_majors_spec _ _ _ _ P _ Hj) as [H1 [H2 _]].
  rewrite Hs. unfold combined.
  assert (0 < c_slack c)%Q as Sl.
  { unfold consts_wf in W. repeat (apply andb_true_iff in W; destruct W as [W ?]).
    match goal with H : Qltb 0 (c_slack c) = true |- _ => apply Qltb_lt in H; exact H end. }
  destruct (NN _ H1) as [C0 R0]. pose proof (R0 _ H2 _ Hm) as Raw.
  pose proof (min_score_le jc_score passed _ Hj) as Mj.
  destruct (min_score_in cn_score cns NE) as [cm [Icm Ecm]]. destruct (NN _ Icm) as [Cm _].
  apply Qmult_le_0_compat; [lra|].
  apply Qlt_le_weak. apply Qlt_shift_div_l; [rewrite Ecm; lra|]. lra.
Qed.

Theorem reported_best_first : forall c gap cns out, select_wf c = true -> genotype_select c gap cns = Ok out ->
  scores_nonneg cns ->
  forall pre a mid b post, out = pre ++ a :: mid ++ b :: post ->
    (nc_score a < nc_score b + c_solution_precision c)%Q.
Proof.
  intros c gap cns out W H NN pre a mid b post E.
  assert (cns <> []) as NE. { intro Z. subst cns. cbn in H. discriminate. }
  destruct (genotype_select_ok _ _ _ _ H) as [passed [P S]].
  destruct (select_wf_scale c 2%nat W) as [Sc Pr]; [lia|].
  assert (consts_wf c = true) as CW.
  { unfold select_wf in W. apply andb_true_iff in W. destruct W as [W _]. apply andb_true_iff in W. tauto. }
  refine (proj2 (select_best_first _ _ _ _ _ _ _ _ S Sc _ pre a mid b post E) Pr).
  intros n Hn. eapply combined_nonneg; eauto.
Qed.

(* the best combined score is always among the reported ones *)
Theorem reported_contains_best : forall c gap cns out, consts_wf c = true -> (0 <= gap)%Q -> genotype_select c gap cns = Ok out ->
  exists passed, passed_majors c gap cns = Some passed /\
  exists n, In n out /\
    nc_score n = min_score nc_score (minor_candidates c (min_score cn_score cns) (min_score jc_score passed) passed).
Proof.
  intros c gap cns out W G H. destruct (genotype_select_ok _ _ _ _ H) as [passed [P S]].
  exists passed. split; auto.
  assert (0 < c_solution_precision c)%Q as Hp.
  { unfold consts_wf in W. repeat (apply andb_true_iff in W; destruct W as [W ?]). apply Qltb_lt. assumption. }
  destruct (select_contains_best _ _ _ _ _ _ _ _ S G Hp) as [n [In_ En]]. exists n. split; auto.
Qed.
