(* MinorTransportProofs.v — C13 for the MINOR STAGE SPECIFICATION (MinorSpec.v, the object of the C04 theorems):
   moving every position of an instance (variants, sites, has_coverage positions, phase records) through a STRICTLY INCREASING
   map [g] — what going to another build on the same strand is — changes neither the score of any assignment (fit error,
   dropped / added / novel penalties, tie-breaker, phase disagreement) nor its admissibility.  Strict monotonicity is needed
   only by the phase records (read modes are sorted by position); everything else needs injectivity. *)
From Coq Require Import Lia ZifyBool.
From Aldy Require Import Base Consts Lp MinorModel MinorSpec Consts_here.
Import List.
Open Scope Z_scope.

Section Transport.
  Variable g : Z -> Z.
  Hypothesis mono : forall x y, x < y -> g x < g y.

  Lemma g_inj x y : g x = g y -> x = y.
  Proof. intros H. destruct (Z.lt_trichotomy x y) as [L|[E|L]]; [apply mono in L; lia | exact E | apply mono in L; lia]. Qed.
  Lemma g_eqb x y : (g x =? g y) = (x =? y).
  Proof. destruct (Z.eqb_spec x y) as [->|N]; [apply Z.eqb_refl|]. apply Z.eqb_neq. intros H. apply N, g_inj, H. Qed.
  Lemma g_ltb x y : (g x <? g y) = (x <? y).
  Proof.
    destruct (Z.ltb_spec x y) as [L|L]; [apply Z.ltb_lt, mono, L|]. apply Z.ltb_ge.
    destruct (Z.eq_dec x y) as [->|N]; [lia|]. assert (y < x) as L' by lia. apply mono in L'. lia.
  Qed.

  Definition mmap (m : mutn) : mutn :=
    {| m_id := m_id m; m_pos := g (m_pos m); m_op := m_op m; m_ins := m_ins m; m_func := m_func m; m_cov := m_cov m;
       m_total := m_total m; m_pcn := m_pcn m |}.
  Definition smap (s : site) : site := {| s_pos := g (s_pos s); s_pcn := s_pcn s; s_cov := s_cov s; s_total := s_total s |}.
  Definition cmap (c : cand) : cand :=
    {| c_id := c_id c; c_major := c_major c; c_def := c_def c; c_core := c_core c; c_covpos := map g (c_covpos c) |}.
  Definition amap (a : ainst) : ainst := (cmap (fst a), snd a).
  Definition rmap (r : mode) : mode := map (fun kv => (g (fst kv), snd kv)) r.
  Definition imap (i : inst) : inst :=
    {| i_muts := map mmap (i_muts i); i_sites := map smap (i_sites i); i_cands := map cmap (i_cands i); i_majors := i_majors i;
       i_phases := option_map (map rmap) (i_phases i); i_miss := i_miss i; i_add := i_add i; i_phase := i_phase i;
       i_phase_vars := i_phase_vars i; i_maxcn := i_maxcn i |}.
  Definition chmap (ch : choice) : choice := {| ch_a := amap (ch_a ch); ch_keep := ch_keep ch; ch_add := ch_add ch |}.

  (* ---- generic ---- *)
  Lemma memb_map_g p l : memb Z.eqb (g p) (map g l) = memb Z.eqb p l.
  Proof. induction l as [|x l IH]; [reflexivity|]. cbn [map memb existsb]. rewrite g_eqb. f_equal. exact IH. Qed.
  Lemma filter_map_ext {A B} (h : A -> B) (p : A -> bool) (q : B -> bool) l :
    (forall x, In x l -> q (h x) = p x) -> filter q (map h l) = map h (filter p l).
  Proof.
    induction l as [|x l IH]; intros H; [reflexivity|]. cbn [map filter]. rewrite (H x (or_introl eq_refl)).
    rewrite IH by (intros y Hy; apply H; right; exact Hy). destruct (p x); reflexivity.
  Qed.
  Lemma cnt_map {A B} (h : A -> B) (p : A -> bool) (q : B -> bool) l :
    (forall x, In x l -> q (h x) = p x) -> cnt q (map h l) = cnt p l.
  Proof. intros H. unfold cnt. rewrite (filter_map_ext h p q l H), map_length. reflexivity. Qed.
  Lemma forallb_map' {A B} (f : B -> bool) (h : A -> B) l : forallb f (map h l) = forallb (fun x => f (h x)) l.
  Proof. induction l as [|x l IH]; [reflexivity|]. cbn [map forallb]. rewrite IH. reflexivity. Qed.
  Lemma existsb_map' {A B} (f : B -> bool) (h : A -> B) l : existsb f (map h l) = existsb (fun x => f (h x)) l.
  Proof. induction l as [|x l IH]; [reflexivity|]. cbn [map existsb]. rewrite IH. reflexivity. Qed.
  Lemma forallb_ext' {A} (f h : A -> bool) l : (forall x, In x l -> f x = h x) -> forallb f l = forallb h l.
  Proof.
    induction l as [|x l IH]; intros H; [reflexivity|]. cbn [forallb]. rewrite (H x (or_introl eq_refl)).
    rewrite IH by (intros y Hy; apply H; right; exact Hy). reflexivity.
  Qed.
  Lemma existsb_ext' {A} (f h : A -> bool) l : (forall x, In x l -> f x = h x) -> existsb f l = existsb h l.
  Proof.
    induction l as [|x l IH]; intros H; [reflexivity|]. cbn [existsb]. rewrite (H x (or_introl eq_refl)).
    rewrite IH by (intros y Hy; apply H; right; exact Hy). reflexivity.
  Qed.
  Lemma qsum_map_ext' {A} (f h : A -> Q) l : (forall x, In x l -> f x = h x) -> qsum (map f l) = qsum (map h l).
  Proof.
    induction l as [|x l IH]; intros H; [reflexivity|]. cbn [map qsum]. rewrite (H x (or_introl eq_refl)).
    rewrite IH by (intros y Hy; apply H; right; exact Hy). reflexivity.
  Qed.

  (* ---- membership facts ---- *)
  Lemma in_def_tr a m : in_def (amap a) (mmap m) = in_def a m. Proof. reflexivity. Qed.
  Lemma in_core_tr a m : in_core (amap a) (mmap m) = in_core a m. Proof. reflexivity. Qed.
  Lemma has_cov_tr a p : has_cov (amap a) (g p) = has_cov a p.
  Proof. unfold has_cov, amap, cmap. cbn [fst c_covpos]. apply memb_map_g. Qed.
  Lemma is_new_tr a m : is_new (amap a) (mmap m) = is_new a m.
  Proof. unfold is_new. cbn [mmap m_pos]. rewrite has_cov_tr. reflexivity. Qed.
  Lemma defs_tr i a : defs (imap i) (amap a) = map mmap (defs i a).
  Proof. unfold defs, imap. cbn [i_muts]. apply filter_map_ext. intros m _. reflexivity. Qed.
  Lemma news_tr i a : news (imap i) (amap a) = map mmap (news i a).
  Proof. unfold news, imap. cbn [i_muts]. apply filter_map_ext. intros m _. apply is_new_tr. Qed.
  Lemma at_pos_tr p l : at_pos (g p) (map mmap l) = map mmap (at_pos p l).
  Proof. unfold at_pos. apply filter_map_ext. intros m _. cbn [mmap m_pos]. apply g_eqb. Qed.
  Lemma nonins_at_tr p l : nonins_at (g p) (map mmap l) = map mmap (nonins_at p l).
  Proof. unfold nonins_at. apply filter_map_ext. intros m _. cbn [mmap m_pos m_ins]. rewrite g_eqb. reflexivity. Qed.

  Lemma kept_tr ch m : kept (chmap ch) (mmap m) = kept ch m. Proof. reflexivity. Qed.
  Lemma added_tr ch m : added (chmap ch) (mmap m) = added ch m. Proof. reflexivity. Qed.
  Lemma carried_tr ch m : carried (chmap ch) (mmap m) = carried ch m.
  Proof. unfold carried. cbn [chmap ch_a]. rewrite in_def_tr, is_new_tr. reflexivity. Qed.
  Lemma carriers_tr asg m : carriers (map chmap asg) (mmap m) = carriers asg m.
  Proof. unfold carriers. apply cnt_map. intros ch _. apply carried_tr. Qed.

  Lemma cnt_of_tr i c : cnt_of (imap i) (cmap c) = cnt_of i c. Proof. reflexivity. Qed.
  Lemma insts_tr i : insts (imap i) = map amap (insts i).
  Proof.
    unfold insts, imap. cbn [i_cands]. rewrite map_app, !map_map. f_equal.
    rewrite flat_map_concat_map, map_map, flat_map_concat_map, concat_map, map_map. f_equal.
    apply map_ext. intros c. unfold extra_copies. rewrite map_map. reflexivity.
  Qed.

  (* ---- fit error ---- *)
  Lemma exp_ref_ch_tr i p ch : exp_ref_ch (imap i) (g p) (chmap ch) = exp_ref_ch i p ch.
  Proof.
    unfold exp_ref_ch. cbn [chmap ch_a]. rewrite has_cov_tr. destruct (has_cov (ch_a ch) p); [|reflexivity].
    rewrite defs_tr, nonins_at_tr, news_tr, nonins_at_tr.
    destruct (nonins_at p (defs i (ch_a ch))) as [|x [|y l]]; cbn [map]; try reflexivity;
      f_equal; apply cnt_map; intros m _; apply added_tr.
  Qed.
  Lemma exp_ref_tr i asg p : exp_ref (imap i) (map chmap asg) (g p) = exp_ref i asg p.
  Proof. unfold exp_ref. rewrite map_map. apply qsum_map_ext'. intros ch _. apply exp_ref_ch_tr. Qed.
  Lemma fit_error_tr i asg : fit_error (imap i) (map chmap asg) = fit_error i asg.
  Proof.
    unfold fit_error, imap. cbn [i_muts i_sites]. f_equal.
    - rewrite map_map. apply qsum_map_ext'. intros m _. rewrite carriers_tr. reflexivity.
    - rewrite map_map. apply qsum_map_ext'. intros s _. cbn [smap s_pos].
      change (exp_ref _ (map chmap asg) (g (s_pos s))) with (exp_ref (imap i) (map chmap asg) (g (s_pos s))).
      rewrite exp_ref_tr. reflexivity.
  Qed.

  (* ---- penalties ---- *)
  Lemma dropped_tr i asg : dropped (imap i) (map chmap asg) = dropped i asg.
  Proof.
    unfold dropped. rewrite map_map. apply qsum_map_ext'. intros ch _. cbn [chmap ch_a]. rewrite defs_tr.
    rewrite (cnt_map mmap (kept ch) (kept {| ch_a := amap (ch_a ch); ch_keep := ch_keep ch; ch_add := ch_add ch |})) by (intros; reflexivity).
    unfold qlen. rewrite map_length. reflexivity.
  Qed.
  Lemma new_pairs_tr i : new_pairs (imap i) = map (fun am : ainst * mutn => (amap (fst am), mmap (snd am))) (new_pairs i).
  Proof.
    unfold new_pairs. rewrite insts_tr. rewrite flat_map_concat_map, map_map, flat_map_concat_map, concat_map, map_map. f_equal.
    apply map_ext. intros a. rewrite news_tr, !map_map. reflexivity.
  Qed.
  Lemma find_ch_tr asg a : find_ch (map chmap asg) (amap a) = option_map chmap (find_ch asg a).
  Proof.
    unfold find_ch. induction asg as [|ch asg IH]; [reflexivity|]. cbn [map find].
    change (ainst_eqb (ch_a (chmap ch)) (amap a)) with (ainst_eqb (ch_a ch) a).
    destruct (ainst_eqb (ch_a ch) a); [reflexivity | exact IH].
  Qed.
  Lemma is_added_tr asg am : is_added (map chmap asg) (amap (fst am), mmap (snd am)) = is_added asg am.
  Proof. unfold is_added. cbn [fst snd]. rewrite find_ch_tr. destruct (find_ch asg (fst am)); reflexivity. Qed.
  Lemma enumerate_map {A B} (h : A -> B) : forall l k, enumerate k (map h l) = map (fun kp => (fst kp, h (snd kp))) (enumerate k l).
  Proof. induction l as [|x l IH]; intros k; [reflexivity|]. cbn [map enumerate fst snd]. rewrite IH. reflexivity. Qed.
  Lemma add_weight_tr c i tie asg : add_weight c (imap i) tie (map chmap asg) = add_weight c i tie asg.
  Proof.
    unfold add_weight. rewrite new_pairs_tr, enumerate_map, map_map. apply qsum_map_ext'. intros kp _. cbn [fst snd].
    rewrite is_added_tr. reflexivity.
  Qed.
  Lemma tie_extra_tr c i asg : tie_extra c (imap i) (map chmap asg) = tie_extra c i asg.
  Proof.
    unfold tie_extra. rewrite new_pairs_tr, enumerate_map, map_map. apply qsum_map_ext'. intros kp _. cbn [fst snd].
    rewrite is_added_tr. reflexivity.
  Qed.
  Lemma novel_core_tr i asg : novel_core (imap i) (map chmap asg) = novel_core i asg.
  Proof.
    unfold novel_core, imap. cbn [i_muts]. apply cnt_map. intros m _. rewrite existsb_map'. apply existsb_ext'. intros ch _.
    cbn [chmap ch_a]. rewrite added_tr, is_new_tr, in_core_tr. reflexivity.
  Qed.

  (* ---- phase ---- *)
  Lemma mode_ins_tr x r : mode_ins (g (fst x), snd x) (rmap r) = rmap (mode_ins x r).
  Proof.
    induction r as [|y r IH]; [reflexivity|]. cbn [rmap map mode_ins fst]. rewrite g_ltb.
    destruct (fst x <? fst y); [reflexivity|]. cbn [map]. f_equal. exact IH.
  Qed.
  Lemma mode_sort_tr r : mode_sort (rmap r) = rmap (mode_sort r).
  Proof.
    unfold mode_sort. induction r as [|x r IH]; [reflexivity|]. cbn [rmap map fold_right].
    change (fold_right mode_ins [] (map (fun kv : Z * Z => (g (fst kv), snd kv)) r)) with (fold_right mode_ins [] (rmap r)).
    rewrite IH. apply mode_ins_tr.
  Qed.
  Lemma mode_eqb_tr a b : mode_eqb (rmap a) (rmap b) = mode_eqb a b.
  Proof.
    revert b. induction a as [|x a IH]; intros [|y b]; try reflexivity. cbn [rmap map mode_eqb fst snd]. rewrite g_eqb.
    f_equal. apply IH.
  Qed.
  Definition rnmap (rn : mode * Z) : mode * Z := (rmap (fst rn), snd rn).
  Lemma alookup_mode_tr k l : alookup mode_eqb (rmap k) (map rnmap l) = alookup mode_eqb k l.
  Proof.
    induction l as [|[r n] l IH]; [reflexivity|]. cbn [map alookup rnmap fst snd]. rewrite mode_eqb_tr.
    destruct (mode_eqb k r); [reflexivity | exact IH].
  Qed.
  Lemma aset_mode_tr k v l : aset mode_eqb (rmap k) v (map rnmap l) = map rnmap (aset mode_eqb k v l).
  Proof.
    induction l as [|[r n] l IH]; [reflexivity|]. cbn [map aset rnmap fst snd]. rewrite mode_eqb_tr.
    destruct (mode_eqb k r); cbn [map rnmap fst snd]; [reflexivity|]. f_equal. exact IH.
  Qed.
  Lemma bump_tr k l : bump (rmap k) (map rnmap l) = map rnmap (bump k l).
  Proof.
    unfold bump. rewrite alookup_mode_tr. destruct (alookup mode_eqb k l); [apply aset_mode_tr|].
    rewrite map_app. reflexivity.
  Qed.
  Lemma rmap_length r : length (rmap r) = length r.
  Proof. unfold rmap. apply map_length. Qed.
  Lemma mut_positions_tr i : mut_positions (imap i) = map g (mut_positions i).
  Proof. unfold mut_positions, imap. cbn [i_muts]. rewrite !map_map. reflexivity. Qed.
  Lemma all_modes_tr i : all_modes (imap i) = map rnmap (all_modes i).
  Proof.
    unfold all_modes. unfold imap at 1. cbn [i_phases]. destruct (i_phases i) as [frags|]; [|reflexivity]. cbn [option_map].
    rewrite mut_positions_tr.
    change (@nil (mode * Z)) with (map rnmap []) at 1. generalize (@nil (mode * Z)) as acc.
    induction frags as [|fr frags IH]; intros acc; [reflexivity|]. cbn [map fold_left].
    assert (F : filter (fun kv : Z * Z => memb Z.eqb (fst kv) (map g (mut_positions i))) (rmap fr) =
                rmap (filter (fun kv : Z * Z => memb Z.eqb (fst kv) (mut_positions i)) fr)).
    { unfold rmap. apply filter_map_ext. intros kv _. cbn [fst]. apply memb_map_g. }
    rewrite F, mode_sort_tr, rmap_length.
    destruct (1 <? length (mode_sort (filter (fun kv : Z * Z => memb Z.eqb (fst kv) (mut_positions i)) fr)))%nat.
    - rewrite bump_tr. apply IH.
    - apply IH.
  Qed.
  Lemma every_nth_map {A B} (h : A -> B) step : forall fuel l, every_nth fuel step (map h l) = map h (every_nth fuel step l).
  Proof.
    induction fuel as [|f IH]; intros l; [reflexivity|]. destruct l as [|x l]; [reflexivity|].
    cbn [map every_nth]. f_equal. rewrite <- IH. f_equal. change (h x :: map h l) with (map h (x :: l)). apply skipn_map.
  Qed.
  Lemma modes_tr i : modes (imap i) = map rnmap (modes i).
  Proof.
    unfold modes. rewrite all_modes_tr, insts_tr, !map_length.
    change (i_phase_vars (imap i)) with (i_phase_vars i).
    destruct ((i_phase_vars i <? Z.of_nat (length (all_modes i)) * Z.of_nat (length (insts i))) && (0 <? i_phase_vars i));
      [apply every_nth_map | reflexivity].
  Qed.
  Lemma amem_rmap p r : amem Z.eqb (g p) (rmap r) = amem Z.eqb p r.
  Proof.
    unfold amem. induction r as [|[q o] r IH]; [reflexivity|]. cbn [rmap map alookup fst snd]. rewrite g_eqb.
    destruct (p =? q); [reflexivity | exact IH].
  Qed.
  Lemma mode_op_tr r p : mode_op (rmap r) (g p) = mode_op r p.
  Proof.
    unfold mode_op. induction r as [|[q o] r IH]; [reflexivity|]. cbn [rmap map alookup fst snd]. rewrite g_eqb.
    destruct (p =? q); [reflexivity | exact IH].
  Qed.
  Lemma informative_tr i a r : informative (imap i) (amap a) (rmap r) = map mmap (informative i a r).
  Proof.
    unfold informative, imap. cbn [i_muts]. apply filter_map_ext. intros m _. cbn [mmap m_pos].
    rewrite amem_rmap, has_cov_tr. reflexivity.
  Qed.
  Lemma agrees_tr r m : agrees (rmap r) (mmap m) = agrees r m.
  Proof. unfold agrees. cbn [mmap m_pos m_op]. rewrite mode_op_tr. reflexivity. Qed.
  Lemma ph_active_tr i a r : ph_active (imap i) (amap a) (rmap r) = ph_active i a r.
  Proof. unfold ph_active. rewrite informative_tr, map_length. reflexivity. Qed.
  Lemma mismatches_tr i ch r : mismatches (imap i) (chmap ch) (rmap r) = mismatches i ch r.
  Proof.
    unfold mismatches. cbn [chmap ch_a]. rewrite informative_tr. f_equal; apply cnt_map; intros m _;
      change (carried {| ch_a := amap (ch_a ch); ch_keep := ch_keep ch; ch_add := ch_add ch |} (mmap m)) with (carried (chmap ch) (mmap m));
      rewrite agrees_tr, carried_tr; reflexivity.
  Qed.
  Lemma phase_mode_tr i asg rn : phase_mode (imap i) (map chmap asg) (rnmap rn) = phase_mode i asg rn.
  Proof.
    unfold phase_mode. cbn [rnmap fst snd]. rewrite insts_tr, existsb_map'.
    rewrite (existsb_ext' (fun x => ph_active (imap i) (amap x) (rmap (fst rn))) (fun a => ph_active i a (fst rn)))
      by (intros a _; apply ph_active_tr).
    destruct (existsb (fun a => ph_active i a (fst rn)) (insts i)); [|reflexivity].
    rewrite (filter_map_ext chmap (fun ch => ph_active i (ch_a ch) (fst rn))) by (intros ch _; cbn [chmap ch_a]; apply ph_active_tr).
    rewrite map_map. rewrite (map_ext (fun x => mismatches (imap i) (chmap x) (rmap (fst rn))) (fun ch => mismatches i ch (fst rn)))
      by (intros ch; apply mismatches_tr). reflexivity.
  Qed.
  Lemma phase_disagreement_tr i asg : phase_disagreement (imap i) (map chmap asg) = phase_disagreement i asg.
  Proof.
    unfold phase_disagreement. rewrite modes_tr. generalize (Some 0%Q) as acc. induction (modes i) as [|rn l IH]; intros acc; [reflexivity|].
    cbn [map fold_left]. rewrite phase_mode_tr. apply IH.
  Qed.

  (* ---- the score ---- *)
  Theorem score_tr c i tie asg : score c (imap i) tie (map chmap asg) = score c i tie asg.
  Proof.
    unfold score. rewrite phase_disagreement_tr, fit_error_tr, dropped_tr, add_weight_tr, novel_core_tr. reflexivity.
  Qed.

  (* ---- admissibility ---- *)
  Lemma sel_ok_tr i asg : sel_ok (imap i) (map chmap asg) = sel_ok i asg.
  Proof.
    unfold sel_ok. rewrite insts_tr, !forallb_map', map_length.
    apply (f_equal2 andb); [|reflexivity].
    apply (f_equal2 andb); [|apply forallb_ext'; intros mc _;
      rewrite (filter_map_ext chmap (fun ch => of_major (fst mc) (ch_a ch))), map_length by (intros; reflexivity); reflexivity].
    apply (f_equal2 andb); [|apply forallb_ext'; intros ch _; rewrite existsb_map'; reflexivity].
    apply (f_equal2 andb).
    - apply forallb_ext'. intros ch _. rewrite existsb_map'. reflexivity.
    - apply forallb_ext'. intros ch _.
      rewrite (filter_map_ext chmap (fun ch' => ainst_eqb (ch_a ch') (ch_a ch))), map_length by (intros; reflexivity). reflexivity.
  Qed.
  Lemma carried_at_tr i ch p : carried_at (imap i) (chmap ch) (g p) = map mmap (carried_at i ch p).
  Proof.
    unfold carried_at, imap. cbn [i_muts]. rewrite at_pos_tr. apply filter_map_ext. intros m _. apply carried_tr.
  Qed.
  Lemma sub_ids_map ids l : sub_ids ids (map mmap l) = sub_ids ids l.
  Proof. unfold sub_ids. rewrite map_map. reflexivity. Qed.
  Lemma choice_ok_tr i ch : choice_ok (imap i) (chmap ch) = choice_ok i ch.
  Proof.
    unfold choice_ok. cbn [chmap ch_a ch_keep ch_add]. rewrite defs_tr, news_tr, !sub_ids_map.
    apply (f_equal2 andb).
    - apply (f_equal2 andb).
      + apply (f_equal2 andb); [reflexivity|].
        rewrite (filter_map_ext mmap m_func) by (intros; reflexivity). rewrite forallb_map'. reflexivity.
      + rewrite forallb_map'. apply forallb_ext'. intros m _. cbn [mmap m_pos]. rewrite has_cov_tr. reflexivity.
    - change (i_sites (imap i)) with (map smap (i_sites i)). rewrite forallb_map'. apply forallb_ext'. intros s _. cbn [smap s_pos].
      change (carried_at _ {| ch_a := amap (ch_a ch); ch_keep := ch_keep ch; ch_add := ch_add ch |} (g (s_pos s)))
        with (carried_at (imap i) (chmap ch) (g (s_pos s))).
      rewrite carried_at_tr, map_length. reflexivity.
  Qed.
  Lemma reads_ok_tr asg m : reads_ok (map chmap asg) (mmap m) = reads_ok asg m.
  Proof. unfold reads_ok. rewrite carriers_tr. reflexivity. Qed.
  Lemma site_e_len i p a : length (site_e (imap i) (g p) (amap a)) = length (site_e i p a).
  Proof.
    unfold site_e, site_mp, site_ma. rewrite !app_length, !map_length, defs_tr, news_tr, !at_pos_tr, !map_length. reflexivity.
  Qed.
  Lemma site_e_qlen i p a : qlen (site_e (imap i) (g p) (amap a)) = qlen (site_e i p a).
  Proof. unfold qlen. rewrite site_e_len. reflexivity. Qed.
  Lemma max_mut_tr i p : max_mut (imap i) (g p) = max_mut i p.
  Proof.
    unfold max_mut. rewrite insts_tr. generalize 0%Q as acc. induction (insts i) as [|a l IH]; intros acc; [reflexivity|].
    cbn [map fold_left]. rewrite site_e_qlen. apply IH.
  Qed.
  Lemma ref_ok_tr i asg s : ref_ok (imap i) (map chmap asg) (smap s) = ref_ok i asg s.
  Proof.
    unfold ref_ok. cbn [smap s_pos s_pcn s_cov]. rewrite insts_tr, map_map.
    rewrite (qsum_map_ext' (fun x => (qlen (site_e (imap i) (g (s_pos s)) (ch_a (chmap x))) - qlen (carried_at (imap i) (chmap x) (g (s_pos s))))%Q)
                           (fun ch => (qlen (site_e i (s_pos s) (ch_a ch)) - qlen (carried_at i ch (s_pos s)))%Q)).
    - rewrite max_mut_tr. destruct (insts i); reflexivity.
    - intros ch _. change (ch_a (chmap ch)) with (amap (ch_a ch)). rewrite site_e_qlen.
      unfold qlen. rewrite carried_at_tr, map_length. reflexivity.
  Qed.
  Theorem admissible_core_tr i asg : admissible_core (imap i) (map chmap asg) = admissible_core i asg.
  Proof.
    unfold admissible_core. rewrite sel_ok_tr.
    apply (f_equal2 andb).
    - apply (f_equal2 andb).
      + apply (f_equal2 andb); [reflexivity|]. rewrite forallb_map'. apply forallb_ext'. intros ch _. apply choice_ok_tr.
      + change (i_muts (imap i)) with (map mmap (i_muts i)). rewrite forallb_map'. apply forallb_ext'. intros m _. apply reads_ok_tr.
    - change (i_sites (imap i)) with (map smap (i_sites i)). rewrite forallb_map'. apply forallb_ext'. intros s _.
      change (ref_ok _ (map chmap asg) (smap s)) with (ref_ok (imap i) (map chmap asg) (smap s)). apply ref_ok_tr.
  Qed.
  Theorem admissible_tr i asg : admissible (imap i) (map chmap asg) = admissible i asg.
  Proof. unfold admissible. rewrite admissible_core_tr, phase_disagreement_tr. reflexivity. Qed.

  (* the clauses of the property on a reported assignment *)
  Lemma cl_core_kept_tr i asg : cl_core_kept (imap i) (map chmap asg) = cl_core_kept i asg.
  Proof.
    unfold cl_core_kept. rewrite forallb_map'. apply forallb_ext'. intros ch _. change (ch_a (chmap ch)) with (amap (ch_a ch)).
    rewrite defs_tr, (filter_map_ext mmap (in_core (ch_a ch))) by (intros; reflexivity). rewrite forallb_map'. reflexivity.
  Qed.
  Lemma cl_add_copies_tr i asg : cl_add_copies (imap i) (map chmap asg) = cl_add_copies i asg.
  Proof.
    unfold cl_add_copies. rewrite forallb_map'. apply forallb_ext'. intros ch _.
    change (i_muts (imap i)) with (map mmap (i_muts i)). rewrite forallb_map', map_map.
    apply (f_equal2 andb); [|reflexivity]. apply forallb_ext'. intros m _. change (ch_a (chmap ch)) with (amap (ch_a ch)).
    cbn [mmap m_pos]. rewrite has_cov_tr. reflexivity.
  Qed.
  Lemma cl_add_reads_tr i asg : cl_add_reads (imap i) (map chmap asg) = cl_add_reads i asg.
  Proof.
    unfold cl_add_reads. rewrite forallb_map'. apply forallb_ext'. intros ch _.
    change (i_muts (imap i)) with (map mmap (i_muts i)). rewrite forallb_map'. reflexivity.
  Qed.
  Lemma cl_carried_reads_tr i asg : cl_carried_reads (imap i) (map chmap asg) = cl_carried_reads i asg.
  Proof.
    unfold cl_carried_reads. rewrite forallb_map'. apply forallb_ext'. intros ch _.
    change (i_muts (imap i)) with (map mmap (i_muts i)). rewrite forallb_map'. apply forallb_ext'. intros m _.
    rewrite carried_tr. reflexivity.
  Qed.
  Lemma cl_one_per_site_tr i asg : cl_one_per_site (imap i) (map chmap asg) = cl_one_per_site i asg.
  Proof.
    unfold cl_one_per_site. rewrite forallb_map'. apply forallb_ext'. intros ch _.
    change (i_sites (imap i)) with (map smap (i_sites i)). rewrite forallb_map'. apply forallb_ext'. intros s _.
    cbn [smap s_pos]. rewrite carried_at_tr, map_length. reflexivity.
  Qed.
  Lemma cl_supported_tr i asg : cl_supported (imap i) (map chmap asg) = cl_supported i asg.
  Proof.
    unfold cl_supported. change (i_muts (imap i)) with (map mmap (i_muts i)). rewrite forallb_map'. apply forallb_ext'. intros m _.
    rewrite carriers_tr. reflexivity.
  Qed.
  Theorem clauses_tr i asg : clauses (imap i) (map chmap asg) = clauses i asg.
  Proof.
    unfold clauses, cl_one_minor.
    rewrite sel_ok_tr, cl_core_kept_tr, cl_add_copies_tr, cl_add_reads_tr, cl_carried_reads_tr, cl_one_per_site_tr, cl_supported_tr.
    reflexivity.
  Qed.
End Transport.

(* non-vacuity: the phase witness of C04 (witness_p: three variants, read modes present), moved by 1000 positions *)
Lemma mt_minor_example :
  let g := fun p : Z => p + 1000 in let a := solver_asg witness_p witness_p_solver in
  score Consts_here.here (imap g witness_p) false (map (chmap g) a) = score Consts_here.here witness_p false a /\
  admissible witness_p a = true /\ score Consts_here.here witness_p false a <> None /\ modes witness_p <> [].
Proof.
  cbv zeta. split; [apply score_tr; intros; lia|]. split; [vm_compute; reflexivity|]. split; vm_compute; discriminate.
Qed.
