(* MinorNoiseFreeProofs.v — C04, last clause: "on noise-free evidence the reported alleles reproduce the planted variants with
   multiplicity and without additions or losses".
   Noise-free evidence = some admissible assignment over the instance's copies (the planted one) has score 0.  Then every
   minimiser of the minor-stage ILP denotes an assignment whose score is 0 too, and an assignment of score 0 explains every
   variant count and every reference count exactly, drops nothing and adds nothing.  For any number of candidates, copies,
   variants, sites and read modes. *)
From Aldy Require Import Base Consts Lp MinorModel MinorSpec Consts_here MinorProofs MinorPointProofs MinorSpecPointProofs.
From Coq Require Import Lqa Qabs.
Open Scope Q_scope.

Lemma Qabs'_zero_inv' v : Qabs' v == 0 -> v == 0.
Proof. unfold Qabs'. destruct (Qle_bool 0 v) eqn:E; intros H; [exact H|]. lra. Qed.

Lemma cnt_nonneg {A} (p : A -> bool) l : 0 <= cnt p l.
Proof. unfold cnt. change 0 with (inject_Z 0). rewrite <- Zle_Qle. apply Nat2Z.is_nonneg. Qed.
Lemma filter_len_le {A} (p : A -> bool) l : (length (filter p l) <= length l)%nat.
Proof. induction l as [|x l IH]; cbn [filter length]; [apply le_n|]. destruct (p x); cbn [length]; [apply le_n_S, IH|apply le_S, IH]. Qed.
Lemma cnt_le_qlen {A} (p : A -> bool) l : cnt p l <= qlen l.
Proof. unfold cnt, qlen. rewrite <- Zle_Qle. apply Nat2Z.inj_le. apply filter_len_le. Qed.

Lemma fold_min_nonneg l : forall x, 0 <= x -> (forall y, In y l -> 0 <= y) -> 0 <= fold_left Qmin' l x.
Proof.
  induction l as [|z l IH]; intros x Hx Hl; cbn [fold_left]; [exact Hx|]. apply IH; [|intros y Hy; apply Hl; right; exact Hy].
  unfold Qmin'. destruct (Qle_bool x z); [exact Hx|apply Hl; left; reflexivity].
Qed.

Section Parts.
  Variables (c : consts) (i : inst).
  Hypothesis Hden : 0 < c_minor_tie_den c.
  Hypothesis Hdiv : 0 < c_minor_vnewor_div c.
  Hypothesis Hmiss : 0 < i_miss i.
  Hypothesis Hadd : 0 < i_add i.
  Hypothesis Hph : 0 <= i_phase i.

  Lemma fit_nonneg asg : 0 <= fit_error i asg.
  Proof.
    unfold fit_error.
    assert (0 <= qsum (map (fun m => Qabs' (obs_mut m - carriers asg m)) (i_muts i))) by (apply qsum_nonneg; intros; apply Qabs'_nonneg).
    assert (0 <= qsum (map (fun s => Qabs' (obs_site s - exp_ref i asg (s_pos s))) (i_sites i))) by (apply qsum_nonneg; intros; apply Qabs'_nonneg).
    lra.
  Qed.
  Lemma dropped_nonneg asg : 0 <= dropped i asg.
  Proof. unfold dropped. apply qsum_nonneg. intros ch _. pose proof (cnt_le_qlen (kept ch) (defs i (ch_a ch))). lra. Qed.
  Lemma add_term_nonneg asg (kp : Z * (ainst * mutn)) : In kp (enumerate 0 (new_pairs i)) ->
    0 <= (if is_added asg (snd kp) then 1 + inject_Z (fst kp) / c_minor_tie_den c else 0).
  Proof.
    intros H. destruct (is_added asg (snd kp)); [|lra]. destruct kp as [k p]. apply enumerate_ge in H. cbn [fst].
    assert (0 <= inject_Z k) by (change 0 with (inject_Z 0); rewrite <- Zle_Qle; exact H).
    assert (0 <= inject_Z k / c_minor_tie_den c) by (apply Qle_shift_div_l; [exact Hden|lra]). lra.
  Qed.
  Lemma add_weight_nonneg asg : 0 <= add_weight c i true asg.
  Proof. unfold add_weight. apply qsum_nonneg. intros kp H. apply add_term_nonneg, H. Qed.
  Lemma novel_nonneg asg : 0 <= novel_core i asg.
  Proof. apply cnt_nonneg. Qed.
  Lemma mismatches_nonneg ch r : 0 <= mismatches i ch r.
  Proof. unfold mismatches. cbv zeta. pose proof (cnt_nonneg (fun m => agrees r m && negb (carried ch m)) (informative i (ch_a ch) r)).
    pose proof (cnt_nonneg (fun m => negb (agrees r m) && carried ch m) (informative i (ch_a ch) r)). lra. Qed.
  Lemma phase_mode_nonneg asg r n q : (0 < n)%Z -> phase_mode i asg (r, n) = Some q -> 0 <= q.
  Proof.
    intros Hn. unfold phase_mode. cbn [fst snd]. destruct (existsb _ (insts i)); [|intros E; injection E as <-; lra].
    destruct (map _ _) as [|z l] eqn:E; cbn [qmin_list]; [discriminate|]. intros E2. injection E2 as <-.
    assert (Hz : forall y, In y (z :: l) -> 0 <= y).
    { rewrite <- E. intros y Hy. apply in_map_iff in Hy as (ch & <- & _). apply mismatches_nonneg. }
    assert (0 <= fold_left Qmin' l z) by (apply fold_min_nonneg; [apply Hz; left; reflexivity|intros y Hy; apply Hz; right; exact Hy]).
    assert (0 < inject_Z n) by (change 0 with (inject_Z 0); rewrite <- Zlt_Qlt; exact Hn).
    apply Qmult_le_0_compat; lra.
  Qed.
  Lemma phase_nonneg asg ph : phase_disagreement i asg = Some ph -> 0 <= ph.
  Proof.
    unfold phase_disagreement. pose proof (modes_pos i) as P. revert P. generalize (modes i). intros l P.
    assert (G : forall l acc, allpos l -> 0 <= acc -> forall ph,
                fold_left (fun acc rm => match acc, phase_mode i asg rm with Some x, Some y => Some (x + y) | _, _ => None end) l (Some acc) = Some ph -> 0 <= ph).
    { clear l P. induction l as [|[r n] l IH]; intros acc P Ha ph0; cbn [fold_left].
      - intros E. injection E as <-. exact Ha.
      - destruct (phase_mode i asg (r, n)) as [y|] eqn:E.
        + assert (0 <= y) by (eapply phase_mode_nonneg; [apply (P r n); left; reflexivity|exact E]).
          apply IH; [intros r' n' H'; apply (P r' n'); right; exact H'|lra].
        + assert (N : forall l0, fold_left (fun acc rm => match acc, phase_mode i asg rm with Some x, Some y => Some (x + y) | _, _ => None end) l0 None = None)
            by (induction l0; cbn [fold_left]; auto).
          rewrite N. discriminate. }
    apply (G l 0 P). lra.
  Qed.

  (* an assignment whose score is at most 0 explains the evidence exactly, drops nothing, adds nothing *)
  Theorem zero_score_parts asg q : score c i true asg = Some q -> q <= 0 ->
    q == 0 /\
    (forall m, In m (i_muts i) -> carriers asg m == obs_mut m) /\
    (forall s, In s (i_sites i) -> exp_ref i asg (s_pos s) == obs_site s) /\
    dropped i asg == 0 /\
    (forall am, In am (new_pairs i) -> is_added asg am = false).
  Proof.
    unfold score. destruct (phase_disagreement i asg) as [ph|] eqn:Eph; [|discriminate]. intros E Hq. injection E as E. rewrite <- E in Hq |- *. clear E.
    pose proof (fit_nonneg asg) as N1. pose proof (dropped_nonneg asg) as N2. pose proof (add_weight_nonneg asg) as N3.
    pose proof (novel_nonneg asg) as N4. pose proof (phase_nonneg asg ph Eph) as N5.
    assert (M2 : 0 <= i_miss i * dropped i asg) by (apply Qmult_le_0_compat; lra).
    assert (M3 : 0 <= i_add i * add_weight c i true asg) by (apply Qmult_le_0_compat; lra).
    assert (D : 0 < i_add i / c_minor_vnewor_div c) by (apply Qlt_shift_div_l; [exact Hdiv|lra]).
    assert (M4 : 0 <= i_add i / c_minor_vnewor_div c * novel_core i asg) by (apply Qmult_le_0_compat; lra).
    assert (M5 : 0 <= i_phase i * ph) by (apply Qmult_le_0_compat; lra).
    assert (Z1 : fit_error i asg == 0) by lra.
    assert (Z2 : i_miss i * dropped i asg == 0) by lra.
    assert (Z3 : i_add i * add_weight c i true asg == 0) by lra.
    split; [lra|].
    unfold fit_error in Z1.
    assert (A1 : 0 <= qsum (map (fun m => Qabs' (obs_mut m - carriers asg m)) (i_muts i))) by (apply qsum_nonneg; intros; apply Qabs'_nonneg).
    assert (A2 : 0 <= qsum (map (fun s => Qabs' (obs_site s - exp_ref i asg (s_pos s))) (i_sites i))) by (apply qsum_nonneg; intros; apply Qabs'_nonneg).
    split; [|split; [|split]].
    - intros m Hm.
      assert (Qabs' (obs_mut m - carriers asg m) == 0).
      { apply (qsum_zero_each (fun m => Qabs' (obs_mut m - carriers asg m)) (i_muts i)); [intros; apply Qabs'_nonneg|lra|exact Hm]. }
      apply Qabs'_zero_inv' in H. lra.
    - intros s Hs.
      assert (Qabs' (obs_site s - exp_ref i asg (s_pos s)) == 0).
      { apply (qsum_zero_each (fun s => Qabs' (obs_site s - exp_ref i asg (s_pos s))) (i_sites i)); [intros; apply Qabs'_nonneg|lra|exact Hs]. }
      apply Qabs'_zero_inv' in H. lra.
    - destruct (Qmult_integral _ _ Z2) as [Z|Z]; [lra|exact Z].
    - intros am Ham.
      assert (W0 : add_weight c i true asg == 0) by (destruct (Qmult_integral _ _ Z3) as [Z|Z]; [lra|exact Z]).
      unfold add_weight in W0.
      assert (Hin : exists k, In (k, am) (enumerate 0 (new_pairs i))).
      { rewrite <- (enumerate_snd 0%Z (new_pairs i)) in Ham. apply in_map_iff in Ham as ([k p] & <- & H). exists k. exact H. }
      destruct Hin as (k & Hk).
      pose proof (qsum_zero_each (fun kp : Z * (ainst * mutn) => if is_added asg (snd kp) then 1 + inject_Z (fst kp) / c_minor_tie_den c else 0)
                                 (enumerate 0 (new_pairs i)) (fun kp H => add_term_nonneg asg kp H)) as ZE.
      specialize (ZE ltac:(lra) (k, am) Hk). cbn [fst snd] in ZE. destruct (is_added asg am); [|reflexivity].
      apply enumerate_ge in Hk.
      assert (0 <= inject_Z k) by (change 0 with (inject_Z 0); rewrite <- Zle_Qle; exact Hk).
      assert (0 <= inject_Z k / c_minor_tie_den c) by (apply Qle_shift_div_l; [exact Hden|lra]). lra.
  Qed.

  (* noise-free evidence: the planted assignment b scores 0.  Then every optimum of the ILP does too. *)
  Theorem minor_noise_free b q0 x : inst_wf i = true -> over_copies i b -> admissible i b = true -> score c i true b = Some q0 -> q0 == 0 ->
    feasible (gen c i) x -> (forall y, feasible (gen c i) y -> objective (gen c i) x <= objective (gen c i) y) ->
    let a := point_asg i x in
    objective (gen c i) x == 0 /\ admissible i a = true /\
    (forall m, In m (i_muts i) -> carriers a m == obs_mut m /\ carriers a m == carriers b m) /\
    (forall s, In s (i_sites i) -> exp_ref i a (s_pos s) == obs_site s) /\
    dropped i a == 0 /\
    (forall am, In am (new_pairs i) -> is_added a am = false).
  Proof.
    intros W Ob Ab Eb Z0 F Opt a. subst a.
    destruct (minor_optimal c i x W Hph F Opt) as (Adm & (q & Eq & Oq) & Best).
    pose proof (Best b q0 Ob Ab Eb) as Le.
    destruct (zero_score_parts (point_asg i x) q Eq ltac:(lra)) as (Zq & P1 & P2 & P3 & P4).
    destruct (zero_score_parts b q0 Eb ltac:(lra)) as (_ & B1 & _).
    split; [lra|]. split; [exact Adm|]. split; [|split; [exact P2|split; [exact P3|exact P4]]].
    intros m Hm. split; [apply P1, Hm|]. pose proof (P1 m Hm). pose proof (B1 m Hm). lra.
  Qed.
End Parts.

(* ---- the planted assignment as the harness gives it: (candidate id, copy index, kept ids, added ids) ---- *)
Lemma mk_asg_cands i l : forall b, mk_asg i l = Some b -> forall ch, In ch b -> In (fst (ch_a ch)) (i_cands i).
Proof.
  induction l as [|[[[cid idx] k] n] l IH]; intros b E ch H; cbn [mk_asg fold_right] in E.
  - injection E as <-. destruct H.
  - fold (mk_asg i l) in E. destruct (mk_asg i l) as [t|]; [|discriminate].
    destruct (lookup_cand i cid) as [cd|] eqn:L; [|discriminate]. injection E as <-. destruct H as [<-|H].
    + cbn [ch_a fst]. unfold lookup_cand in L. apply find_some in L. apply L.
    + apply (IH t eq_refl ch H).
Qed.
Lemma mk_asg_over i l b : inst_wf i = true -> mk_asg i l = Some b -> admissible i b = true -> over_copies i b.
Proof.
  intros W E A ch H. pose proof (NDc i W) as ND.
  unfold admissible, admissible_core, sel_ok in A. repeat (apply andb_true_iff in A as [A _]).
  rewrite forallb_forall in A. specialize (A ch H). apply existsb_exists in A as (a' & Ha' & Eq).
  assert (Hc : In (fst (ch_a ch)) (i_cands i)) by (eapply mk_asg_cands; eassumption).
  unfold ainst_eqb in Eq. apply andb_true_iff in Eq as [E1 E2]. apply Z.eqb_eq in E1, E2.
  assert (fst (ch_a ch) = fst a') by (apply (c_id_inj (i_cands i)); [exact ND|exact Hc|apply insts_cand, Ha'|exact E1]).
  replace (ch_a ch) with a'; [exact Ha'|]. destruct (ch_a ch), a'. cbn [fst snd] in *. subst. reflexivity.
Qed.

Lemma Qltb_lt a b : Qltb a b = true -> a < b.
Proof. unfold Qltb. intros H. apply negb_true_iff in H. destruct (Qlt_le_dec a b) as [L|L]; [exact L|]. apply Qle_bool_iff in L. congruence. Qed.

Theorem minor_noise_free_b c i l x : noise_free_b c i l = true ->
  feasible (gen c i) x -> (forall y, feasible (gen c i) y -> objective (gen c i) x <= objective (gen c i) y) ->
  let a := point_asg i x in let b := solver_asg i l in
  objective (gen c i) x == 0 /\ admissible i a = true /\
  (forall m, In m (i_muts i) -> carriers a m == obs_mut m /\ carriers a m == carriers b m) /\
  (forall s, In s (i_sites i) -> exp_ref i a (s_pos s) == obs_site s) /\
  dropped i a == 0 /\
  (forall am, In am (new_pairs i) -> is_added a am = false).
Proof.
  intros P F Opt. unfold noise_free_b in P.
  apply andb_true_iff in P as [P Pb]. apply andb_true_iff in P as [P P6]. apply andb_true_iff in P as [P P5].
  apply andb_true_iff in P as [P P4]. apply andb_true_iff in P as [P P3]. apply andb_true_iff in P as [W P2].
  unfold solver_asg. destruct (mk_asg i l) as [b|] eqn:E; [|discriminate]. apply andb_true_iff in Pb as [Ab Sb].
  destruct (score c i true b) as [q0|] eqn:Eq; [|discriminate].
  apply (minor_noise_free c i (Qltb_lt _ _ P2) (Qltb_lt _ _ P3) (Qltb_lt _ _ P4) (Qltb_lt _ _ P5)
           (proj1 (Qle_bool_iff _ _) P6) b q0 x W (mk_asg_over i l b W E Ab) Ab Eq (Qeq_bool_eq _ _ Sb) F Opt).
Qed.

(* the premise is satisfiable: the phased TOY witness with the assignment the solver reported (score 0) *)
Example noise_free_example : noise_free_b here witness_p witness_p_solver = true.
Proof. vm_compute. reflexivity. Qed.
