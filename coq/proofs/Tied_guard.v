(* Tied_guard.v — the regenerated guard expressions of /repo (gen/Exprs_guard.v, written by harness/gen_exprs.py from the Python AST
   on every run: genotype.py average-depth test, coverage.py average_coverage / diploid_avg_coverage, sam.py neutral floor, cn.py
   low-depth test) are the expressions the hand-written model Guards.v uses. *)
From Coq Require Import Lqa Lia.
From Aldy Require Import Base Consts Guards Exprs_guard Consts_here TieTac.
Import List.
Open Scope Q_scope.

(* genotype.py: `avg_cov < profile.min_avg_coverage` *)
Lemma guard_avg_tied : forall c v ev,
  avg_guard c v ev =
  let applies := match ev_neutral ev with Some _ => true | None => negb (needs_neutral v) end in
  if applies && guard_avg (avg_cov c (ev_sites ev)) (ev_min_avg ev)
  then Some (Error LowAverage (line_of (ev_simple ev) true true)) else None.
Proof. reflexivity. Qed.

(* coverage.py average_coverage: sum(total(pos)) / float(len(_coverage) + 0.1), with the translated literal *)
Lemma guard_avg_cov_tied : forall sites, avg_cov here sites == guard_avg_cov (inZ (zsum sites)) (inZ (Z.of_nat (length sites))).
Proof. first [reflexivity | intros; unfold avg_cov, guard_avg_cov; tie_q]. Qed.

(* sam.py: `self.coverage.diploid_avg_coverage() < 2`, with the translated literal *)
Lemma guard_neutral_thin_tied : forall x, Qltb x (c_neutral_floor here) = guard_neutral_thin x.
Proof. reflexivity. Qed.

(* coverage.py diploid_avg_coverage: float(sum(_cnv_coverage.values())) / abs(cn_region.end - cn_region.start) *)
Lemma inZ_abs z : Qabs' (inZ z) == inZ (Z.abs z).
Proof.
  unfold Qabs', inZ. destruct (Qle_bool 0 (inject_Z z)) eqn:E.
  - apply Qle_bool_iff in E. change 0 with (inject_Z 0) in E. rewrite <- Zle_Qle in E. rewrite Z.abs_eq by exact E. reflexivity.
  - assert (~ (0 <= inject_Z z)) as N by (intro L; apply Qle_bool_iff in L; congruence).
    change 0 with (inject_Z 0) in N. rewrite <- Zle_Qle in N. rewrite Z.abs_neq by lia. rewrite inject_Z_opp. reflexivity.
Qed.
Lemma Qabs'_comp a b : a == b -> Qabs' a == Qabs' b.
Proof.
  intros H. unfold Qabs'. destruct (Qle_bool 0 a) eqn:Ea, (Qle_bool 0 b) eqn:Eb; try (rewrite H; reflexivity).
  - apply Qle_bool_iff in Ea. rewrite H in Ea. apply Qle_bool_iff in Ea. congruence.
  - apply Qle_bool_iff in Eb. rewrite <- H in Eb. apply Qle_bool_iff in Eb. congruence.
Qed.
Lemma guard_dip_avg_tied : forall total s e, e <> s ->
  guard_dip_avg (inZ total) (inZ s) (inZ e) == inZ total / inZ (Z.abs (e - s)).
Proof.
  intros total s e N. unfold guard_dip_avg.
  assert (H : Qabs' (inZ e - inZ s) == inZ (Z.abs (e - s))).
  { rewrite <- inZ_abs. apply Qabs'_comp. unfold inZ, Z.sub. rewrite inject_Z_plus, inject_Z_opp. reflexivity. }
  rewrite H. reflexivity.
Qed.

(* cn.py: `total_cov < min_cov / 2.0` *)
Lemma guard_cn_low_tied : forall v ev n, ev_struct ev = Estimated -> ev_neutral ev = Some n ->
  cn_guard v ev =
  if guard_cn_low (total_cov (ratio ev n) (ev_regions ev)) (inZ (ev_cn_min ev))
  then Error CnLowDepth (line_of (ev_simple ev) true (negb (cn_unterminated v))) else Proceed.
Proof. intros v ev n H1 H2. unfold cn_guard. rewrite H1, H2. reflexivity. Qed.
