(* MajorStageTransportProofs.v — C13, the WHOLE major stage on two builds of one strand:
   evidence filtering (Filter.v: quality filter + the two threshold filters of _filter_alleles), candidate selection, the
   observed copy numbers and the enumeration of admissible combinations (MajorSpec.all_combs) commute with moving every
   position of the instance through an injective map [g] (variants keep their operation).
   Built on MajorTransportProofs.enum_all_tr. *)
From Coq Require Import Lia ZifyBool.
From Aldy Require Import Base Consts Lp Filter MajorModel MajorSpec FilterProofs MajorProofs MajorTransportProofs Consts_here.
Import List.
Open Scope Z_scope.

Section Move.
  Variable g : Z -> Z.
  Hypothesis g_inj : forall x y, g x = g y -> x = y.

  Lemma g_eqb x y : (g x =? g y) = (x =? y).
  Proof. destruct (Z.eqb_spec x y) as [->|N]; [apply Z.eqb_refl|]. apply Z.eqb_neq. intros H. apply N, g_inj, H. Qed.

  Definition mtr (m : mut) : mut := (g (fst m), snd m).
  Definition tmap (t : table) : table := map (fun po : Z * list cell => (g (fst po), snd po)) t.
  Definition indmap (ind : indel_tab) : indel_tab := map (fun kv : mut * (Z * Z) => (mtr (fst kv), snd kv)) ind.
  Definition covmap (c : cover) : cover := {| cv_tab := tmap (cv_tab c); cv_ind := indmap (cv_ind c) |}.

  Lemma mtr_eqb a b : mut_eqb (mtr a) (mtr b) = mut_eqb a b.
  Proof. unfold mut_eqb, mtr. cbn [fst snd]. rewrite g_eqb. reflexivity. Qed.
  Lemma mtr_inj a b : mtr a = mtr b -> a = b.
  Proof. destruct a, b. unfold mtr. cbn [fst snd]. intros H. injection H as H1 H2. apply g_inj in H1. subst. reflexivity. Qed.

  (* ---- accessors ---- *)
  Lemma tab_ops_tr t p : tab_ops (tmap t) (g p) = tab_ops t p.
  Proof.
    unfold tab_ops, tmap. induction t as [|[q ops] t IH]; [reflexivity|]. cbn [map alookup fst snd]. rewrite g_eqb.
    destruct (p =? q); [reflexivity | exact IH].
  Qed.
  Lemma tab_cell_tr t m : tab_cell (tmap t) (mtr m) = tab_cell t m.
  Proof. unfold tab_cell, mtr. cbn [fst snd]. rewrite tab_ops_tr. reflexivity. Qed.
  Lemma ind_get_tr c m : ind_get (covmap c) (mtr m) = ind_get c m.
  Proof.
    unfold ind_get, covmap, indmap. cbn [cv_ind]. induction (cv_ind c) as [|[k v] l IH]; [reflexivity|].
    cbn [map alookup fst snd]. rewrite mtr_eqb. destruct (mut_eqb m k); [reflexivity | exact IH].
  Qed.
  Lemma coverage_tr c m : coverage (covmap c) (mtr m) = coverage c m.
  Proof. unfold coverage. rewrite ind_get_tr. change (cv_tab (covmap c)) with (tmap (cv_tab c)). rewrite tab_cell_tr. reflexivity. Qed.
  Lemma total_pos_tr c p : total_pos (covmap c) (g p) = total_pos c p.
  Proof. unfold total_pos. change (cv_tab (covmap c)) with (tmap (cv_tab c)). rewrite tab_ops_tr. reflexivity. Qed.
  Lemma total_tr c m : total (covmap c) (mtr m) = total c m.
  Proof. unfold total. rewrite ind_get_tr. change (fst (mtr m)) with (g (fst m)). rewrite total_pos_tr. reflexivity. Qed.

  (* ---- quality filter ---- *)
  Lemma drop_empty_tr t : drop_empty (tmap t) = tmap (drop_empty t).
  Proof.
    unfold drop_empty, tmap. induction t as [|po t IH]; [reflexivity|]. cbn [map filter].
    change (nonempty_pos (g (fst po), snd po)) with (nonempty_pos po). destruct (nonempty_pos po); cbn [map]; rewrite IH; reflexivity.
  Qed.
  Lemma fq_tab_tr p t : fq_tab p (tmap t) = tmap (fq_tab p t).
  Proof. unfold fq_tab. rewrite <- drop_empty_tr. f_equal. unfold tmap. rewrite !map_map. reflexivity. Qed.
  Lemma filtered_q_tr p c : filtered_q p (covmap c) = covmap (filtered_q p c).
  Proof. unfold filtered_q, covmap. cbn [cv_tab cv_ind]. rewrite fq_tab_tr. reflexivity. Qed.

  (* ---- threshold filters ---- *)
  Lemma basic_filter_tr p c m cn : basic_filter p (covmap c) (mtr m) cn = basic_filter p c m cn.
  Proof. unfold basic_filter. rewrite total_tr, coverage_tr. reflexivity. Qed.

  Lemma filtered_b_tr (f f' : cover -> mut -> bool) c :
    (forall m, f' (covmap c) (mtr m) = f c m) -> filtered_b f' (covmap c) = covmap (filtered_b f c).
  Proof.
    intros H. unfold filtered_b.
    assert (T : drop_empty (map (fun po : Z * list cell => (fst po, filter (fun cl : cell => f' (covmap c) (fst po, fst cl)) (snd po)))
                                (cv_tab (covmap c)))
                = tmap (drop_empty (map (fun po : Z * list cell => (fst po, filter (fun cl : cell => f c (fst po, fst cl)) (snd po)))
                                        (cv_tab c)))).
    { rewrite <- drop_empty_tr. f_equal. change (cv_tab (covmap c)) with (tmap (cv_tab c)). unfold tmap. rewrite !map_map.
      apply map_ext. intros po. cbn [fst snd]. f_equal. apply filter_ext. intros cl.
      change (g (fst po), fst cl) with (mtr (fst po, fst cl)). apply H. }
    assert (N : filter (fun kv : mut * (Z * Z) => f' (covmap c) (fst kv)) (cv_ind (covmap c))
                = indmap (filter (fun kv : mut * (Z * Z) => f c (fst kv)) (cv_ind c))).
    { change (cv_ind (covmap c)) with (indmap (cv_ind c)). unfold indmap.
      induction (cv_ind c) as [|kv l IH]; [reflexivity|]. cbn [map filter fst]. rewrite H.
      destruct (f c (fst kv)); cbn [map]; rewrite IH; reflexivity. }
    rewrite T, N. reflexivity.
  Qed.

  Variables (pcn pcn' : Z -> Q).
  Hypothesis PCN : forall x, pcn' (g x) = pcn x.

  Lemma major_filter_tr p c m : major_filter p pcn' (covmap c) (mtr m) = major_filter p pcn c m.
  Proof.
    unfold major_filter. rewrite !basic_filter_tr. change (snd (mtr m)) with (snd m). change (fst (mtr m)) with (g (fst m)).
    rewrite PCN. reflexivity.
  Qed.
  Theorem major_cov_tr p c : major_cov p pcn' (covmap c) = covmap (major_cov p pcn c).
  Proof.
    unfold major_cov. rewrite filtered_q_tr. apply filtered_b_tr. intros m. apply major_filter_tr.
  Qed.

  (* the evidence filter of the minor stage (minor.py default_filter_fn): the same, for any "allowed" predicate that is transported *)
  Variables (allowed allowed' : mut -> bool).
  Hypothesis ALW : forall m, allowed' (mtr m) = allowed m.
  Lemma minor_filter_tr p c m : minor_filter p pcn' allowed' (covmap c) (mtr m) = minor_filter p pcn allowed c m.
  Proof. unfold minor_filter. rewrite ALW, major_filter_tr. reflexivity. Qed.
  Theorem minor_cov_tr p c : minor_cov p pcn' allowed' (covmap c) = covmap (minor_cov p pcn allowed c).
  Proof. unfold minor_cov. rewrite filtered_q_tr. apply filtered_b_tr. intros m. apply minor_filter_tr. Qed.
End Move.

(* ================================================================== the instance *)
Section Instance.
  Variable g : Z -> Z.
  Hypothesis g_inj : forall x y, g x = g y -> x = y.

  Definition Imap (I : inst) : inst :=
    {| i_alleles := map (tr_allele (mtr g)) (i_alleles I); i_struct := i_struct I;
       i_muts := map (fun mf : mut * bool => (mtr g (fst mf), snd mf)) (i_muts I);
       i_pcn := map (fun kv : Z * Z => (g (fst kv), snd kv)) (i_pcn I);
       i_hascov := map (fun kv : str * list Z => (fst kv, map g (snd kv))) (i_hascov I);
       i_cover := covmap g (i_cover I); i_par := i_par I; i_major_novel := i_major_novel I; i_gap := i_gap I |}.

  Lemma pcn_tr I x : pcn (Imap I) (g x) = pcn I x.
  Proof.
    unfold pcn, Imap. cbn [i_pcn]. induction (i_pcn I) as [|[q z] l IH]; [reflexivity|]. cbn [map alookup fst snd].
    rewrite (g_eqb g g_inj). destruct (x =? q); [reflexivity | exact IH].
  Qed.
  Lemma memb_map_g p l : memb Z.eqb (g p) (map g l) = memb Z.eqb p l.
  Proof. induction l as [|x l IH]; [reflexivity|]. cbn [map memb existsb]. rewrite (g_eqb g g_inj). f_equal. exact IH. Qed.
  Lemma hascov_tr I cfg x : hascov (Imap I) cfg (g x) = hascov I cfg x.
  Proof.
    unfold hascov, Imap. cbn [i_hascov]. induction (i_hascov I) as [|[k l] t IH]; [reflexivity|]. cbn [map alookup fst snd].
    destruct (str_eqb cfg k); [apply memb_map_g | exact IH].
  Qed.
  Lemma mcov_tr I : mcov (Imap I) = covmap g (mcov I).
  Proof. unfold mcov. change (i_par (Imap I)) with (i_par I). change (i_cover (Imap I)) with (covmap g (i_cover I)).
         apply (major_cov_tr g g_inj). intros x. apply pcn_tr. Qed.

  Lemma forallb_map' {A B} (f : B -> bool) (h : A -> B) l : forallb f (map h l) = forallb (fun x => f (h x)) l.
  Proof. induction l as [|x l IH]; [reflexivity|]. cbn [map forallb]. rewrite IH. reflexivity. Qed.
  Lemma forallb_ext0 {A} (f h : A -> bool) l : (forall x, f x = h x) -> forallb f l = forallb h l.
  Proof. intros H. induction l as [|x l IH]; [reflexivity|]. cbn [forallb]. rewrite H, IH. reflexivity. Qed.
  Lemma existsb_ext0 {A} (f h : A -> bool) l : (forall x, f x = h x) -> existsb f l = existsb h l.
  Proof. intros H. induction l as [|x l IH]; [reflexivity|]. cbn [existsb]. rewrite H, IH. reflexivity. Qed.
  Lemma filter_map_ext' {A B} (h : A -> B) (p : A -> bool) (q : B -> bool) l :
    (forall x, In x l -> q (h x) = p x) -> filter q (map h l) = map h (filter p l).
  Proof.
    induction l as [|x l IH]; intros H; [reflexivity|]. cbn [map filter]. rewrite (H x (or_introl eq_refl)).
    rewrite IH by (intros y Hy; apply H; right; exact Hy). destruct (p x); reflexivity.
  Qed.

  Lemma expressed_tr cv al : expressed (covmap g cv) (tr_allele (mtr g) al) = expressed cv al.
  Proof.
    unfold expressed, tr_allele. cbn [a_muts]. rewrite forallb_map'. apply forallb_ext0. intros m.
    rewrite (coverage_tr g g_inj). reflexivity.
  Qed.
  Lemma cands_cv_tr I cv : cands_cv (Imap I) (covmap g cv) = map (tr_allele (mtr g)) (cands_cv I cv).
  Proof.
    unfold cands_cv. change (i_alleles (Imap I)) with (map (tr_allele (mtr g)) (i_alleles I)). apply filter_map_ext'.
    intros al _. change (i_struct (Imap I)) with (i_struct I). cbn [tr_allele a_cfg]. rewrite expressed_tr. reflexivity.
  Qed.
  Lemma fm_cv_tr I cv : fm_cv (Imap I) (covmap g cv) = map (mtr g) (fm_cv I cv).
  Proof.
    unfold fm_cv. change (i_muts (Imap I)) with (map (fun mf : mut * bool => (mtr g (fst mf), snd mf)) (i_muts I)).
    rewrite (filter_map_ext' _ (fun mf : mut * bool => snd mf && (0 <? coverage cv (fst mf)))), !map_map; [reflexivity|].
    intros mf _. cbn [fst snd]. rewrite (coverage_tr g g_inj). reflexivity.
  Qed.
  Lemma obs_cv_tr I cv m : obs_cv (Imap I) (covmap g cv) (mtr g m) = obs_cv I cv m.
  Proof.
    unfold obs_cv, single_copy_cv. change (fst (mtr g m)) with (g (fst m)). rewrite pcn_tr, (coverage_tr g g_inj), (total_tr g g_inj).
    reflexivity.
  Qed.
  Lemma early_exit_c_tr I cands : early_exit_c (Imap I) (map (tr_allele (mtr g)) cands) = early_exit_c I cands.
  Proof.
    unfold early_exit_c. change (i_struct (Imap I)) with (i_struct I). apply existsb_ext0. intros kv. f_equal.
    induction cands as [|al l IH]; [reflexivity|]. cbn [map existsb tr_allele a_cfg]. rewrite IH. reflexivity.
  Qed.

  (* ---- the stage: admissible combinations of the two builds correspond one to one ---- *)
  Theorem all_combs_tr (c : consts) (I : inst) :
    Forall2 (comb_rel (mtr g)) (all_combs c I) (all_combs c (Imap I)).
  Proof.
    unfold all_combs. rewrite mcov_tr, cands_cv_tr, early_exit_c_tr, fm_cv_tr.
    destruct (early_exit_c I (cands_cv I (mcov I))); [constructor|].
    change (i_struct (Imap I)) with (i_struct I). change (i_major_novel (Imap I)) with (i_major_novel I).
    set (cands := cands_cv I (mcov I)). set (fm := fm_cv I (mcov I)).
    set (U := fm ++ flat_map a_muts cands).
    apply (enum_all_tr (mtr g) U cands (i_struct I) fm (obs_cv I (mcov I)) (obs_cv (Imap I) (covmap g (mcov I)))
                       (hascov I) (hascov (Imap I)) (i_major_novel I) (c_major_novel_unit c)).
    - constructor.
      + intros v w _ _ H. apply (mtr_inj g g_inj), H.
      + intros v w _ _. unfold mtr. cbn [fst]. split; [intros ->; reflexivity | apply g_inj].
      + intros v _. reflexivity.
    - split.
      + intros m Hm. apply in_or_app. left. exact Hm.
      + intros al Hal m Hm. apply in_or_app. right. apply in_flat_map. exists al. split; assumption.
    - intros v _. split; [rewrite obs_cv_tr; reflexivity|]. split.
      + change (ref_mut (fst (mtr g v))) with (mtr g (ref_mut (fst v))). rewrite obs_cv_tr. reflexivity.
      + intros cfg. apply hascov_tr.
  Qed.
End Instance.

(* ---- non-vacuity: the instance of props/C02.v (three alleles, two observed sites, low-quality observations present), moved by +1000:
        the enumeration is not empty and corresponds one to one ---- *)
Definition mst_AG : str := [65; 62; 71].
Definition mst_CT : str := [67; 62; 84].
Definition mst_par : fparams :=
  {| p_min_quality := 10; p_min_mapq := 10; p_min_coverage := 2; p_threshold := (1 # 2); p_cn_max := 20 |}.
Definition mst_inst : inst :=
  {| i_alleles := [ {| a_name := [49]; a_cfg := [49]; a_muts := [] |};
                    {| a_name := [50]; a_cfg := [49]; a_muts := [(100, mst_AG)] |};
                    {| a_name := [51]; a_cfg := [49]; a_muts := [(200, mst_CT)] |} ];
     i_struct := [([49], 2)];
     i_muts := [((100, mst_AG), true); ((200, mst_CT), true)];
     i_pcn := [(100, 2); (200, 2)];
     i_hascov := [([49], [100; 200])];
     i_cover := {| cv_tab := [(100, [([95], repeat (60, 60) 10); (mst_AG, repeat (60, 60) 10 ++ [(60, 3); (2, 60)])]);
                              (200, [([95], repeat (60, 60) 20)])];
                   cv_ind := [] |};
     i_par := mst_par; i_major_novel := 21; i_gap := 0 |}.
Lemma mst_example :
  length (all_combs Consts_here.here mst_inst) = 3%nat /\
  Forall2 (comb_rel (mtr (fun p => p + 1000))) (all_combs Consts_here.here mst_inst)
          (all_combs Consts_here.here (Imap (fun p => p + 1000) mst_inst)).
Proof. split; [vm_compute; reflexivity|]. apply all_combs_tr. intros x y H. lia. Qed.
