(* CnRefSolverProofs.v — the premises of the C03_reported_* theorems are satisfiable: a reference solver for the copy-number
   ILP and every model obtained from it by exclusion cuts (search over the sub-lists of the slots, each completed to its
   canonical point) meets the solver contract of C05 and always answers.  (Brute.v does not apply: its syntactic class wants an
   error variable defined by ONE equality row, solve_cn_model writes two inequalities.)
   Side condition [closedb]: every variable a row or the objective mentions is declared (decidable; true of the example). *)
From Coq Require Import QArith Qabs Lqa Lia List Bool Arith.
From Aldy Require Import Base Consts Lp Enum CnModel CnSpec LpProofs EnumProofs CnProofs CnCompleteProofs CnEnumProofs.
Import ListNotations.
Open Scope Z_scope.

(* ---- a total assignment as a point of the solver interface ---- *)
Definition tabulate (m : lp) (a : asg) : point := map (fun kv => (fst kv, a (fst kv))) (lp_vars m).
Definition declared (m : lp) (v : vkey) : bool := existsb (fun kv => vkey_eqb v (fst kv)) (lp_vars m).
Definition closedb (m : lp) : bool :=
  forallb (fun r => forallb (declared m) (lin_vars (r_lin r))) (lp_rows m) && forallb (declared m) (lin_vars (lp_obj m)) &&
  forallb (fun kv => match snd kv with KInt _ _ => false | _ => true end) (lp_vars m).

Lemma asg_of_tabulate m a v : declared m v = true -> asg_of (tabulate m a) v = a v.
Proof.
  unfold declared, asg_of, tabulate. induction (lp_vars m) as [|[k kd] l IH]; cbn [existsb map alookup fst]; [discriminate|].
  destruct (vkey_eqb v k) eqn:E; [intros _; apply vkey_eqb_eq in E; subst; reflexivity|exact IH].
Qed.

Section Tab.
  Variables (m : lp) (a : asg).
  Hypothesis C : closedb m = true.
  Let t := asg_of (tabulate m a).
  Lemma closed_parts : (forall r, In r (lp_rows m) -> forall v, In v (lin_vars (r_lin r)) -> declared m v = true) /\
    (forall v, In v (lin_vars (lp_obj m)) -> declared m v = true) /\
    (forall kv, In kv (lp_vars m) -> match snd kv with KInt _ _ => False | _ => True end).
  Proof.
    pose proof C as C0. unfold closedb in C0. apply andb_true_iff in C0 as [C0 C3]. apply andb_true_iff in C0 as [C1 C2].
    rewrite forallb_forall in C1, C2, C3. split; [|split].
    - intros r Hr v Hv. specialize (C1 r Hr). rewrite forallb_forall in C1. apply C1, Hv.
    - exact C2.
    - intros kv Hkv. specialize (C3 kv Hkv). destruct (snd kv); [exact I|discriminate|exact I].
  Qed.
  Lemma tab_feasible : feasible m a -> feasible m t.
  Proof.
    destruct closed_parts as (R & _ & _). intros [Fv Fr]. split; apply Forall_forall.
    - intros kv Hkv. rewrite Forall_forall in Fv. unfold t. rewrite asg_of_tabulate; [apply Fv, Hkv|].
      unfold declared. apply existsb_exists. exists kv. split; [exact Hkv|apply vkey_eqb_refl].
    - intros r Hr. rewrite Forall_forall in Fr. apply (sat_row_ext a t r); [|apply Fr, Hr].
      intros v Hv. unfold t. rewrite asg_of_tabulate by (apply (R r Hr v Hv)). reflexivity.
  Qed.
  Lemma tab_objective : (objective m t == objective m a)%Q.
  Proof.
    destruct closed_parts as (_ & O & _). unfold objective. rewrite (eval_lin_ext t a (lp_obj m)); [reflexivity|].
    intros v Hv. unfold t. rewrite asg_of_tabulate by (apply O, Hv). reflexivity.
  Qed.
  Lemma feasibleb_complete : feasible m a -> feasibleb m a = true.
  Proof.
    destruct closed_parts as (_ & _ & K). intros [Fv Fr]. unfold feasibleb. apply andb_true_iff. split; apply forallb_forall.
    - intros kv Hkv. rewrite Forall_forall in Fv. apply in_kindb_complete; [apply K, Hkv|apply Fv, Hkv].
    - intros r Hr. rewrite Forall_forall in Fr. apply sat_rowb_iff. apply Fr, Hr.
  Qed.
End Tab.

Lemma closedb_with_cuts m cuts : closedb m = true -> cuts_ok m cuts -> closedb (with_cuts m cuts) = true.
Proof.
  intros C K. unfold closedb, with_cuts, add_rows, declared in *. cbn [lp_rows lp_obj lp_vars].
  apply andb_true_iff in C as [C C3]. apply andb_true_iff in C as [C1 C2]. rewrite C2, C3, !andb_true_r.
  rewrite forallb_app, C1. cbn [andb]. apply forallb_forall. intros r Hr. apply in_map_iff in Hr as (vv & <- & Hvv). apply in_rev in Hvv.
  apply forallb_forall. intros v Hv. unfold cut_row, lin_vars in Hv. cbn [r_lin] in Hv. rewrite map_map in Hv. cbn [snd] in Hv. rewrite map_id in Hv.
  pose proof (cuts_ok_incl m cuts vv K Hvv v Hv) as Hb. apply binaries_in in Hb.
  apply existsb_exists. exists (v, KBin). split; [exact Hb|apply vkey_eqb_refl].
Qed.

(* ---- the reference solver ---- *)
Definition bsel (S : list slot) : slot -> bool := fun x => memb slot_eqb x S.
Definition ref_solve (i : cn_inst) (gm : lp) : Z -> lp -> sres := fun _ m' =>
  match argmin (map (fun S => (objective m' (canon_asg i (bsel S)), S))
                    (filter (fun S => feasibleb m' (canon_asg i (bsel S))) (subseqs (slots i)))) with
  | None => Infeasible
  | Some oS => Optimal (fst oS) (tabulate m' (canon_asg i (bsel (snd oS))))
  end.

Section Ref.
  Variables (c : consts) (i : cn_inst).
  Hypothesis H : hyps_ok i = true.
  Hypothesis C : closedb (gen c i) = true.
  Notation m := (gen c i).
  Let Hok : inst_ok i = true := proj1 (hyps_ok_spec i H).
  Let Hnd : NoDup (map fst (used_cov i)) := proj1 (proj2 (proj2 (hyps_ok_spec i H))).
  Let Hpar : par_nonneg i := proj1 (proj2 (proj2 (proj2 (hyps_ok_spec i H)))).

  (* the canonical point of the active set of a feasible point of a cut model is feasible there and costs no more *)
  Lemma canon_of_feasible cuts a : cuts_ok m cuts -> feasible (with_cuts m cuts) a ->
    let S := act i a in
    In S (subseqs (slots i)) /\ feasible (with_cuts m cuts) (canon_asg i (bsel S)) /\
    (objective (with_cuts m cuts) (canon_asg i (bsel S)) <= objective (with_cuts m cuts) a)%Q.
  Proof.
    intros K F S. apply feas_with_cuts in F as [F Sat].
    assert (Hbx : forall x, In x (slots i) -> bsel S x = on a x).
    { intros x Hx. unfold bsel, S, act. destruct (on a x) eqn:O.
      - apply (has_In (filter (on a) (slots i)) x). apply filter_In. split; assumption.
      - destruct (memb slot_eqb x (filter (on a) (slots i))) eqn:M; [|reflexivity].
        apply (has_In (filter (on a) (slots i)) x) in M. apply filter_In in M as [_ M]. congruence. }
    assert (Hb : forall x, bsel S x = true -> In x (slots i)).
    { intros x Hx. unfold bsel in Hx. apply (has_In S x) in Hx. unfold S, act in Hx. apply filter_In in Hx. apply Hx. }
    assert (E1 : filter (bsel S) (slots i) = act i a) by (apply filter_ext_in_len; exact Hbx).
    assert (E2 : chosen i (bsel S) = act_structs i a).
    { unfold chosen, act_structs. apply filter_ext_in_len. intros st Hst. apply Hbx. unfold slots. apply in_map. exact Hst. }
    assert (F1 : form_ok i (filter (bsel S) (slots i)) = true) by (rewrite E1; apply (feasible_form_ok c i a F)).
    assert (F2 : bounds_ok i (chosen i (bsel S)) = true) by (rewrite E2; apply (feasible_bounds_ok c i a F)).
    pose proof (canon_feasible c i (bsel S) Hb Hnd F1 F2) as Fa. pose proof (canon_objective c i (bsel S) Hnd) as Oa.
    split; [apply filter_in_subseqs|]. split.
    - apply feas_with_cuts. split; [exact Fa|]. rewrite Forall_forall in *. intros cut Hcut.
      pose proof (cuts_ok_incl m cuts cut K Hcut) as Hi.
      assert (A' : active m (canon_asg i (bsel S)) = active m a).
      { apply cn_active_same. intros x Hx. rewrite canon_on. apply Hbx, Hx. }
      apply (cut_row_active m _ cut Fa Hi). rewrite A'. apply (cut_row_active m a cut F Hi). apply Sat. exact Hcut.
    - unfold with_cuts. rewrite !objective_add_rows, Oa, E2. apply (objective_lower c i a F Hok Hpar).
  Qed.

  Theorem ref_solver_contract cuts : cuts_ok m cuts -> solver_ok (ref_solve i m) (with_cuts m cuts).
  Proof.
    intros K it. set (m' := with_cuts m cuts). pose proof (closedb_with_cuts m cuts C K) as C'. fold m' in C'.
    unfold ref_solve. fold m'.
    set (cands := filter (fun S => feasibleb m' (canon_asg i (bsel S))) (subseqs (slots i))).
    destruct (argmin (map (fun S => (objective m' (canon_asg i (bsel S)), S)) cands)) as [oS|] eqn:E.
    - split; [discriminate|]. intros o p Ep. injection Ep as <- <-.
      destruct (argmin_spec _ _ E) as [Hin Hmin]. apply in_map_iff in Hin as (S & <- & HS). cbn [fst snd].
      apply filter_In in HS as [_ HS]. apply feasibleb_sound in HS.
      split; [apply (tab_feasible m' _ C' HS)|]. split; [symmetry; apply (tab_objective m' _ C')|].
      intros a Fa. destruct (canon_of_feasible cuts a K Fa) as (I1 & I2 & I3).
      assert (Hc : In (act i a) cands) by (apply filter_In; split; [exact I1|apply (feasibleb_complete m' _ C' I2)]).
      specialize (Hmin (objective m' (canon_asg i (bsel (act i a))), act i a) (in_map _ _ _ Hc)). cbn [fst] in Hmin. fold m' in I3. lra.
    - split; [|discriminate]. intros _ a Fa. apply argmin_none in E. apply map_eq_nil in E.
      destruct (canon_of_feasible cuts a K Fa) as (I1 & I2 & _).
      assert (Hc : In (act i a) cands) by (apply filter_In; split; [exact I1|apply (feasibleb_complete m' _ C' I2)]).
      rewrite E in Hc. destruct Hc.
  Qed.
  Theorem ref_solver_answers cuts it : ref_solve i m it (with_cuts m cuts) <> NotOptimal.
  Proof. unfold ref_solve. destruct (argmin _); discriminate. Qed.

  (* hence: the premises of the C03_reported_* theorems can be met *)
  Theorem reported_premises_satisfiable : exists solve : Z -> lp -> sres,
    (forall cuts, cuts_ok m cuts -> solver_ok solve (with_cuts m cuts)) /\
    (forall cuts it, cuts_ok m cuts -> solve it (with_cuts m cuts) <> NotOptimal).
  Proof. exists (ref_solve i m). split; [exact ref_solver_contract|intros cuts it _; apply ref_solver_answers]. Qed.
End Ref.
