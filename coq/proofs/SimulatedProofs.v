(* SimulatedProofs.v — error-free reads at uniform depth give the IDEAL rows of Pipeline.v for substitution and reference rows
   (hypotheses E1, E2 of C01 become theorems for those rows), by the pileup theorems of C06. *)
From Coq Require Import String.
From Coq Require Import ZifyBool Lqa.
From Aldy Require Import Base Consts Pileup PileupProofs Pipeline PipelineProofs Simulated Consts_here.
Import List.
Open Scope Z_scope.

(* ---- one fully matched read ---- *)
Lemma covered_single n s x : covered [(CM, Z.of_nat n)] s x = (s <=? x) && (x <? s + Z.of_nat n).
Proof. cbn [covered]. unfold len_of. rewrite Nat2Z.id, orb_false_r. reflexivity. Qed.

Lemma aligned_single n s x : aligned [(CM, Z.of_nat n)] s O x = if (s <=? x) && (x <? s + Z.of_nat n) then Some (Z.to_nat (x - s)) else None.
Proof. cbn [aligned]. unfold len_of. rewrite Nat2Z.id. destruct ((s <=? x) && (x <? s + Z.of_nat n)); reflexivity. Qed.

Lemma from_hap_spans g h r x : from_hap g h r -> forall b, shows r x b = spans r x && (h x =? b).
Proof.
  intros (n & Hn & Hc & Hl & Hb & _) b. unfold shows, base_at, spans. rewrite Hc, covered_single, aligned_single.
  destruct ((r_start r <=? x) && (x <? r_start r + Z.of_nat n)) eqn:E; [|reflexivity].
  cbn [andb]. assert (J : (Z.to_nat (x - r_start r) < n)%nat) by lia.
  rewrite (Hb _ J). replace (r_start r + Z.of_nat (Z.to_nat (x - r_start r))) with x by lia. reflexivity.
Qed.

Lemma from_hap_eligible g h r : from_hap g h r -> eligible g r = true.
Proof. intros (n & _ & _ & _ & _ & E). exact E. Qed.

(* ---- one copy: the reads showing base b at x are all of its spanning reads, or none ---- *)
Lemma copy_shows g (c : copy) x b : copy_ok g c ->
  count (fun r => eligible g r && shows r x b) (c_reads c) = if c_hap c x =? b then count (fun r => spans r x) (c_reads c) else 0.
Proof.
  intros OK. destruct (c_hap c x =? b) eqn:E.
  - apply count_ext. intros r Hr. rewrite (from_hap_spans g _ r x (OK r Hr)), (from_hap_eligible g _ r (OK r Hr)), E, andb_true_r. reflexivity.
  - rewrite (count_ext _ (fun _ => false)).
    + unfold count. induction (c_reads c) as [|r l IH]; [reflexivity | exact IH].
    + intros r Hr. rewrite (from_hap_spans g _ r x (OK r Hr)), E, andb_false_r, andb_false_r. reflexivity.
Qed.

Lemma copy_spans g (c : copy) x : copy_ok g c ->
  count (fun r => eligible g r && spans r x) (c_reads c) = count (fun r => spans r x) (c_reads c).
Proof. intros OK. apply count_ext. intros r Hr. rewrite (from_hap_eligible g _ r (OK r Hr)). reflexivity. Qed.

(* ---- all copies ---- *)
Lemma count_all_reads (f : read -> bool) cs : count f (all_reads cs) = zsum (map (fun c => count f (c_reads c)) cs).
Proof.
  unfold all_reads. induction cs as [|c cs IH]; [reflexivity|]. cbn [flat_map map zsum fold_right]. rewrite count_app, IH. reflexivity.
Qed.

Lemma zsum_members (d : Z) (m : copy -> bool) (f : copy -> Z) cs :
  (forall c, In c cs -> f c = if m c then d else 0) -> zsum (map f cs) = d * Z.of_nat (length (filter m cs)).
Proof.
  induction cs as [|c cs IH]; intros H; [cbn; lia|]. cbn [map zsum fold_right filter].
  rewrite (H c (or_introl eq_refl)). change (fold_right Z.add 0 (map f cs)) with (zsum (map f cs)).
  rewrite IH by (intros c' Hc'; apply H; right; exact Hc'). destruct (m c); cbn [length]; lia.
Qed.

Section Sample.
  Variables (g : gview) (c : consts) (indels : indel_tab) (cs : list copy) (d x : Z).
  Hypothesis MOK : multi_ops_ok g.
  Hypothesis OK : forall a, In a cs -> copy_ok g a.
  Hypothesis U : uniform_at d cs x.

  (* total depth at x = d per copy *)
  Lemma sim_total : cov_total_pos (sample_table g c (all_reads cs)) x = d * Z.of_nat (length cs).
  Proof.
    rewrite (depth_conservation g c _ x MOK), count_all_reads.
    rewrite (zsum_members d (fun _ => true)).
    - f_equal. f_equal. induction cs as [|a l IH]; [reflexivity | cbn [filter length]; f_equal; apply IH].
      + intros a' Ha'. apply OK. right. exact Ha'.
      + intros a' Ha'. apply U. right. exact Ha'.
    - intros a Ha. rewrite (copy_spans g a x (OK a Ha)). apply U, Ha.
  Qed.

  (* observations of base b at x = d per copy whose haplotype has b at x *)
  Lemma sim_shows b : count (fun r => eligible g r && shows r x b) (all_reads cs) = d * Z.of_nat (length (filter (fun a => c_hap a x =? b) cs)).
  Proof.
    rewrite count_all_reads. apply zsum_members. intros a Ha. rewrite (copy_shows g a x b (OK a Ha)).
    destruct (c_hap a x =? b); [apply U, Ha | reflexivity].
  Qed.

  Hypothesis MF : multi_free g x.
  Hypothesis IG : in_gene g x = true.

  Theorem sim_sub_row_ideal b : b <> base g x -> 1 <= d ->
    alookup key_eqb (x, sub_op (base g x) b) indels = None -> alookup key_eqb (x, ref_op) indels = None ->
    ideal_row (inZ d) cs (sub_row g c indels cs x b).
  Proof.
    intros Hb Hd I1 I2. destruct (subst_counts g c (all_reads cs) indels x b MOK MF IG Hb I1 I2) as [S _].
    unfold ideal_row, sub_row, members. cbn [r_cov r_total r_cn r_member].
    rewrite S, sim_shows, sim_total. unfold inZ. rewrite !inject_Z_mult.
    repeat split; try reflexivity; try lia.
    - intros E. assert (length cs = O) by lia. destruct cs; [reflexivity | discriminate].
    - intros P. rewrite <- inject_Z_mult. change 1%Q with (inject_Z 1). rewrite <- Zle_Qle. nia.
  Qed.

  Theorem sim_ref_row_ideal b : b <> base g x -> 1 <= d ->
    alookup key_eqb (x, sub_op (base g x) b) indels = None -> alookup key_eqb (x, ref_op) indels = None ->
    ideal_row (inZ d) cs (ref_row g c indels cs x).
  Proof.
    intros Hb Hd I1 I2. destruct (subst_counts g c (all_reads cs) indels x b MOK MF IG Hb I1 I2) as [_ S].
    unfold ideal_row, ref_row, members. cbn [r_cov r_total r_cn r_member].
    rewrite S, sim_shows, sim_total. unfold inZ. rewrite !inject_Z_mult.
    repeat split; try reflexivity; try lia.
    - intros E. assert (length cs = O) by lia. destruct cs; [reflexivity | discriminate].
    - intros P. rewrite <- inject_Z_mult. change 1%Q with (inject_Z 1). rewrite <- Zle_Qle. nia.
  Qed.
End Sample.

(* ---- composition with Pipeline: fit error 0 over any list of substitution / reference rows ---- *)
Theorem sim_fit_zero : forall (g : gview) (c : consts) (indels : indel_tab) (cs : list copy) (d : Z) (sites : list (Z * Z)),
  multi_ops_ok g -> (forall a, In a cs -> copy_ok g a) -> 1 <= d ->
  (forall xb, In xb sites -> uniform_at d cs (fst xb) /\ multi_free g (fst xb) /\ in_gene g (fst xb) = true /\ snd xb <> base g (fst xb) /\
                             alookup key_eqb (fst xb, sub_op (base g (fst xb)) (snd xb)) indels = None /\
                             alookup key_eqb (fst xb, ref_op) indels = None) ->
  (fit_error (flat_map (fun xb => [sub_row g c indels cs (fst xb) (snd xb); ref_row g c indels cs (fst xb)]) sites) cs == 0)%Q.
Proof.
  intros g c indels cs d sites MOK OK Hd H.
  apply (PipelineProofs.planted_fit_zero (inZ d)).
  - unfold inZ. change 0%Q with (inject_Z 0). rewrite <- Zlt_Qlt. lia.
  - intros r Hr. apply in_flat_map in Hr. destruct Hr as (xb & Hx & Hr). destruct (H xb Hx) as (U & MF & IG & Hb & I1 & I2).
    destruct Hr as [<- | [<- | []]].
    + apply sim_sub_row_ideal; assumption.
    + apply (sim_ref_row_ideal g c indels cs d (fst xb) MOK OK U MF IG (snd xb)); assumption.
Qed.

(* ---- a concrete sample (non-vacuity) ---- *)
Definition sim_g : gview := {| g_lo := 100; g_seq := Consts.s "ACGTACGTACGT"; g_mapped := [(100, 112)]; g_wide := (90, 120);
  g_phaseable := []; g_multi := []; g_all_multi := []; g_has_indels := false |}.
Definition sim_hapA (p : Z) : Z := base sim_g p.
Definition sim_hapB (p : Z) : Z := if p =? 106 then 84 else base sim_g p.
Definition sim_read (h : Z -> Z) (st : Z) : read :=
  {| r_name := Consts.s "r"; r_start := st; r_cigar := [(CM, 6)]; r_seq := map h (zseq st 6); r_qual := None; r_mapq := 60;
     r_offtarget := false; r_funmap := false; r_supp := false |}.
Definition sim_A : copy := {| c_hap := sim_hapA; c_reads := [sim_read sim_hapA 102; sim_read sim_hapA 105] |}.
Definition sim_B : copy := {| c_hap := sim_hapB; c_reads := [sim_read sim_hapB 103; sim_read sim_hapB 106] |}.

Lemma sim_read_from_hap h st : 90 <= st <= 120 -> from_hap sim_g h (sim_read h st).
Proof.
  intros R. exists 6%nat. repeat split; try reflexivity; try lia.
  - intros j Hj. unfold sim_read. cbn [r_seq r_start].
    do 6 (destruct j as [|j]; [cbn; f_equal; lia|]). lia.
  - unfold eligible, in_region, sim_read, ref_end. cbn. lia.
Qed.

Lemma sim_example :
  copy_ok sim_g sim_A /\ copy_ok sim_g sim_B /\ uniform_at 2 [sim_A; sim_B] 106 /\
  (observed (sub_row sim_g Consts_here.here [] [sim_A; sim_B] 106 84) == 1)%Q /\
  (observed (ref_row sim_g Consts_here.here [] [sim_A; sim_B] 106) == 1)%Q.
Proof.
  split; [|split; [|split]].
  - intros r [<- | [<- | []]]; apply sim_read_from_hap; lia.
  - intros r [<- | [<- | []]]; apply sim_read_from_hap; lia.
  - intros a [<- | [<- | []]]; vm_compute; reflexivity.
  - split; vm_compute; reflexivity.
Qed.
