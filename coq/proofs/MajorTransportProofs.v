(* MajorTransportProofs.v — C13 for the MAJOR STAGE SPECIFICATION (MajorSpec.v, the object of the C02 theorems):
   the score of every combination, admissibility, and the whole enumeration of admissible combinations commute with a transport
   of the catalogue variants that is injective, site-preserving and keeps insertions insertions — what moving between two
   builds on the same strand always is (Transport.v / C13_same_strand_site_preserving), and what an opposite-strand pair is
   exactly when no two variants of different footprint start at one RefSeq base.
   This instantiates the abstract stage of Transport.v with the real shape of major.py:128-197. *)
From Coq Require Import Lqa.
From Aldy Require Import Base Consts Lp Filter MajorModel MajorSpec FilterProofs MajorProofs.
Import List.
Open Scope Z_scope.

Definition tr_allele (tr : mut -> mut) (al : allele) : allele :=
  {| a_name := a_name al; a_cfg := a_cfg al; a_muts := map tr (a_muts al) |}.

(* [U] = the catalogue variants the instance speaks of (observed core variants and the definitions of the candidates) *)
Record transport_ok (tr : mut -> mut) (U : list mut) : Prop := {
  t_inj : forall v w, In v U -> In w U -> tr v = tr w -> v = w;
  t_site : forall v w, In v U -> In w U -> (fst v = fst w <-> fst (tr v) = fst (tr w));
  t_ins : forall v, In v U -> is_ins (snd (tr v)) = is_ins (snd v)
}.
Definition covers_instance (U : list mut) (cands : list allele) (fm : list mut) : Prop :=
  incl fm U /\ forall al, In al cands -> incl (a_muts al) U.
(* the evidence of the second build is the evidence of the first seen through tr *)
Definition evidence_ok (tr : mut -> mut) (U : list mut) (obsf obsf' : mut -> Q) (hcov hcov' : str -> Z -> bool) : Prop :=
  forall v, In v U -> (obsf' (tr v) == obsf v)%Q /\ (obsf' (ref_mut (fst (tr v))) == obsf (ref_mut (fst v)))%Q /\
                      forall cfg, hcov' cfg (fst (tr v)) = hcov cfg (fst v).

(* ---- generic list facts ---- *)
Lemma memb_map_inj (tr : mut -> mut) U m l : (forall v w, In v U -> In w U -> tr v = tr w -> v = w) ->
  In m U -> incl l U -> memb mut_eqb (tr m) (map tr l) = memb mut_eqb m l.
Proof.
  intros Hinj Hm Hl. induction l as [|x l IH]; [reflexivity|]. cbn [map memb existsb].
  change (existsb (mut_eqb (tr m)) (map tr l)) with (memb mut_eqb (tr m) (map tr l)).
  change (existsb (mut_eqb m) l) with (memb mut_eqb m l).
  rewrite IH by (intros y Hy; apply Hl; right; exact Hy). f_equal.
  destruct (mut_eqb m x) eqn:E.
  - apply mut_eqb_eq in E. subst. apply mut_eqb_refl.
  - apply mut_eqb_neq. intros Heq. apply Hinj in Heq; [|exact Hm | apply Hl; left; reflexivity].
    subst. rewrite mut_eqb_refl in E. discriminate.
Qed.

Section Dedup.
  Context {A : Type}.
  Lemma filter_map_ext {B} (g : A -> B) (p : A -> bool) (q : B -> bool) l :
    (forall x, In x l -> q (g x) = p x) -> filter q (map g l) = map g (filter p l).
  Proof.
    induction l as [|x l IH]; intros H; [reflexivity|]. cbn [map filter]. rewrite (H x (or_introl eq_refl)).
    rewrite IH by (intros y Hy; apply H; right; exact Hy). destruct (p x); reflexivity.
  Qed.

  Lemma dedup_map_key (f : A -> Z) (l : list A) :
    dedup Z.eqb (map f l) = map f (dedup (fun a b => f a =? f b) l).
  Proof.
    induction l as [|x l IH]; [reflexivity|]. cbn [map dedup]. f_equal. rewrite IH.
    apply filter_map_ext. intros y _. reflexivity.
  Qed.

  Lemma dedup_incl (eqb : A -> A -> bool) (l : list A) : incl (dedup eqb l) l.
  Proof.
    induction l as [|x l IH]; [intros y []|]. cbn [dedup]. intros y [<-|Hy]; [left; reflexivity|].
    right. apply IH. apply filter_In in Hy. apply Hy.
  Qed.

End Dedup.

Lemma dedup_map_rel (tr : mut -> mut) (U : list mut) (l : list mut) :
  (forall v w, In v U -> In w U -> (fst v = fst w <-> fst (tr v) = fst (tr w))) -> incl l U ->
  dedup (fun a b : mut => fst a =? fst b) (map tr l) = map tr (dedup (fun a b : mut => fst a =? fst b) l).
Proof.
  intros Hs. induction l as [|x l IH]; intros Hl; [reflexivity|]. cbn [map dedup]. f_equal.
  rewrite IH by (intros y Hy; apply Hl; right; exact Hy).
  apply filter_map_ext. intros y Hy. f_equal.
  assert (In y U) as HyU by (apply Hl; right; apply (dedup_incl (fun a b : mut => fst a =? fst b) l); exact Hy).
  assert (In x U) as HxU by (apply Hl; left; reflexivity).
  destruct (Z.eqb_spec (fst x) (fst y)) as [E|E]; destruct (Z.eqb_spec (fst (tr x)) (fst (tr y))) as [E'|E']; try reflexivity.
  - exfalso. apply E'. apply (Hs x y HxU HyU). exact E.
  - exfalso. apply E. apply (Hs x y HxU HyU). exact E'.
Qed.

Lemma existsb_map' {A B} (f : B -> bool) (g : A -> B) l : existsb f (map g l) = existsb (fun x => f (g x)) l.
Proof. induction l as [|x l IH]; [reflexivity|]. cbn [map existsb]. rewrite IH. reflexivity. Qed.
Lemma forallb_ext_in' {A} (f g : A -> bool) l : (forall x, In x l -> f x = g x) -> forallb f l = forallb g l.
Proof.
  induction l as [|x l IH]; intros H; [reflexivity|]. cbn [forallb]. rewrite (H x (or_introl eq_refl)).
  rewrite IH by (intros y Hy; apply H; right; exact Hy). reflexivity.
Qed.
Lemma forallb_map {A B} (f : B -> bool) (g : A -> B) l : forallb f (map g l) = forallb (fun x => f (g x)) l.
Proof. induction l as [|x l IH]; [reflexivity|]. cbn [map forallb]. rewrite IH. reflexivity. Qed.
Lemma existsb_ext_in' {A} (f g : A -> bool) l : (forall x, In x l -> f x = g x) -> existsb f l = existsb g l.
Proof.
  induction l as [|x l IH]; intros H; [reflexivity|]. cbn [existsb]. rewrite (H x (or_introl eq_refl)).
  rewrite IH by (intros y Hy; apply H; right; exact Hy). reflexivity.
Qed.

(* the reference rows range over one representative variant per site *)
Definition reps (fm : list mut) : list mut := dedup (fun a b : mut => fst a =? fst b) fm.
Lemma sites_reps fm : sites fm = map fst (reps fm).
Proof. unfold sites, reps. apply dedup_map_key. Qed.
Lemma reps_incl fm : incl (reps fm) fm. Proof. apply dedup_incl. Qed.

Section Stage.
  Variables (tr : mut -> mut) (U : list mut).
  Variables (cands : list allele) (struct : list (str * Z)) (fm : list mut).
  Variables (obsf obsf' : mut -> Q) (hcov hcov' : str -> Z -> bool) (pen unit : Q).
  Hypothesis T : transport_ok tr U.
  Hypothesis C : covers_instance U cands fm.
  Hypothesis E : evidence_ok tr U obsf obsf' hcov hcov'.

  Let cands' := map (tr_allele tr) cands.
  Let fm' := map tr fm.

  Lemma fmU m : In m fm -> In m U. Proof. intros H. apply (proj1 C). exact H. Qed.
  Lemma alU al m : In al cands -> In m (a_muts al) -> In m U. Proof. intros H1 H2. apply (proj2 C al H1). exact H2. Qed.

  Lemma has_mut_tr al m : In al cands -> In m U -> has_mut (tr_allele tr al) (tr m) = has_mut al m.
  Proof.
    intros Hal Hm. unfold has_mut, tr_allele. cbn [a_muts].
    apply (memb_map_inj tr U); [apply (t_inj _ _ T) | exact Hm | apply (proj2 C al Hal)].
  Qed.

  Lemma alt_at_tr al m : In al cands -> In m U -> alt_at (tr_allele tr al) (fst (tr m)) = alt_at al (fst m).
  Proof.
    intros Hal Hm. unfold alt_at, tr_allele. cbn [a_muts]. rewrite existsb_map'.
    apply existsb_ext_in'. intros x Hx. assert (In x U) as HxU by (apply (alU al x Hal Hx)).
    rewrite (t_ins _ _ T x HxU). f_equal.
    destruct (Z.eqb_spec (fst x) (fst m)) as [Q|Q]; destruct (Z.eqb_spec (fst (tr x)) (fst (tr m))) as [Q'|Q']; try reflexivity.
    - exfalso. apply Q'. apply (t_site _ _ T x m HxU Hm). exact Q.
    - exfalso. apply Q. apply (t_site _ _ T x m HxU Hm). exact Q'.
  Qed.

  Lemma shows_ref_tr al m : In al cands -> In m U ->
    shows_ref hcov' (tr_allele tr al) (fst (tr m)) = shows_ref hcov al (fst m).
  Proof.
    intros Hal Hm. unfold shows_ref. rewrite (alt_at_tr al m Hal Hm). cbn [tr_allele a_cfg].
    destruct (E m Hm) as (_ & _ & H). rewrite H. reflexivity.
  Qed.

  Variables (cnt cnt' : allele -> Q) (nov nov' : mut -> Q).
  Hypothesis CNT : forall al, In al cands -> cnt' (tr_allele tr al) = cnt al.
  Hypothesis NOV : forall m, In m fm -> nov' (tr m) = nov m.

  Lemma carriers_tr m : In m U -> carriers cands' cnt' (tr m) = carriers cands cnt m.
  Proof.
    intros Hm. unfold carriers, cands'. rewrite map_map. f_equal. apply map_ext_in. intros al Hal.
    rewrite (has_mut_tr al m Hal Hm), (CNT al Hal). reflexivity.
  Qed.

  Lemma refcopies_tr m : In m U -> refcopies cands' hcov' cnt' (fst (tr m)) = refcopies cands hcov cnt (fst m).
  Proof.
    intros Hm. unfold refcopies, cands'. rewrite map_map. f_equal. apply map_ext_in. intros al Hal.
    rewrite (shows_ref_tr al m Hal Hm), (CNT al Hal). reflexivity.
  Qed.

  Lemma sites_tr : sites fm' = map (fun m => fst (tr m)) (reps fm).
  Proof.
    unfold fm'. rewrite sites_reps. unfold reps.
    rewrite (dedup_map_rel tr U fm (t_site _ _ T) (proj1 C)). rewrite map_map. reflexivity.
  Qed.

  (* ---- the fit error is the same in both builds ---- *)
  Theorem fit_tr : (fit cands' fm' obsf' hcov' cnt' nov' == fit cands fm obsf hcov cnt nov)%Q.
  Proof.
    unfold fit. apply Qplus_comp.
    - unfold fm'. rewrite map_map. apply qsum_map_ext. intros m Hm. pose proof (fmU m Hm) as HU.
      rewrite (carriers_tr m HU), (NOV m Hm). destruct (E m HU) as (H1 & _). apply Qabs'_compat. rewrite H1. reflexivity.
    - rewrite sites_tr, map_map, sites_reps, map_map. apply qsum_map_ext. intros m Hm.
      assert (In m U) as HU by (apply fmU, reps_incl, Hm).
      rewrite (refcopies_tr m HU). destruct (E m HU) as (_ & H2 & _). apply Qabs'_compat. rewrite H2. reflexivity.
  Qed.

  Lemma any_novel_tr : any_novel fm' nov' = any_novel fm nov.
  Proof.
    unfold any_novel, fm'. rewrite existsb_map'.
    apply existsb_ext_in'. intros m Hm. rewrite (NOV m Hm). reflexivity.
  Qed.

  Theorem score_tr : (score cands' fm' obsf' hcov' pen unit cnt' nov' == score cands fm obsf hcov pen unit cnt nov)%Q.
  Proof.
    unfold score, penalty. rewrite fit_tr, any_novel_tr. apply Qplus_comp; [reflexivity|]. apply Qplus_comp; [reflexivity|].
    apply Qmult_comp; [reflexivity|]. unfold fm'. rewrite map_map. apply qsum_map_ext. intros m Hm. rewrite (NOV m Hm). reflexivity.
  Qed.
End Stage.

(* ================================================================== admissibility and the enumeration *)
Lemma enum_counts_tr_gen (tr : mut -> mut) : forall cs b, enum_counts (map (tr_allele tr) cs) b = enum_counts cs b.
Proof.
  induction cs as [|al t IH]; intros b; [reflexivity|].
  cbn [map enum_counts tr_allele a_cfg a_name]. apply flat_map_ext. intros k. rewrite IH. reflexivity.
Qed.

Section Enumeration.
  Variables (tr : mut -> mut) (U : list mut).
  Variables (cands : list allele) (struct : list (str * Z)) (fm : list mut).
  Variables (obsf obsf' : mut -> Q) (hcov hcov' : str -> Z -> bool) (pen unit : Q).
  Hypothesis T : transport_ok tr U.
  Hypothesis C : covers_instance U cands fm.
  Hypothesis E : evidence_ok tr U obsf obsf' hcov hcov'.

  Let cands' := map (tr_allele tr) cands.
  Let fm' := map tr fm.

  Lemma cnt_of_tr counts al : cnt_of counts (tr_allele tr al) = cnt_of counts al.
  Proof. reflexivity. Qed.

  Lemma nov_of_tr novel m : incl novel fm -> In m fm -> nov_of (map tr novel) (tr m) = nov_of novel m.
  Proof.
    intros Hn Hm. unfold nov_of.
    rewrite (memb_map_inj tr U m novel (t_inj _ _ T) (proj1 C m Hm)); [reflexivity|].
    intros x Hx. apply (proj1 C). apply Hn. exact Hx.
  Qed.

  Lemma carriers_counts_tr counts m : In m U ->
    carriers cands' (cnt_of counts) (tr m) = carriers cands (cnt_of counts) m.
  Proof. intros Hm. apply (carriers_tr tr U cands fm T C); [intros al _; reflexivity | exact Hm]. Qed.

  Lemma uncarried_tr counts : uncarried cands' fm' counts = map tr (uncarried cands fm counts).
  Proof.
    unfold uncarried, fm'. apply filter_map_ext. intros m Hm.
    rewrite (carriers_counts_tr counts m (proj1 C m Hm)). reflexivity.
  Qed.

  Lemma site_novel_tr m : In m U -> site_novel fm' (fst (tr m)) = map tr (site_novel fm (fst m)).
  Proof.
    intros Hm. unfold site_novel, fm'. apply filter_map_ext. intros x Hx.
    pose proof (proj1 C x Hx) as HxU. rewrite (t_ins _ _ T x HxU). f_equal.
    destruct (Z.eqb_spec (fst x) (fst m)) as [Q|Q]; destruct (Z.eqb_spec (fst (tr x)) (fst (tr m))) as [Q'|Q']; try reflexivity.
    - exfalso. apply Q'. apply (t_site _ _ T x m HxU Hm). exact Q.
    - exfalso. apply Q. apply (t_site _ _ T x m HxU Hm). exact Q'.
  Qed.

  Lemma one_per_site_tr novel : incl novel fm -> one_per_site fm' (map tr novel) = one_per_site fm novel.
  Proof.
    intros Hn. unfold one_per_site, fm'.
    rewrite (sites_tr tr U cands fm T C), sites_reps, !forallb_map.
    apply forallb_ext_in'. intros m Hm. assert (In m fm) as Hf by (apply reps_incl, Hm).
    pose proof (site_novel_tr m (proj1 C m Hf)) as SN. unfold fm' in SN. rewrite SN.
    rewrite (filter_map_ext tr (fun x => memb mut_eqb x novel)), map_length; [reflexivity|].
    intros x Hx. apply filter_In in Hx. destruct Hx as [Hx _].
    apply (memb_map_inj tr U x novel (t_inj _ _ T) (proj1 C x Hx)). intros y Hy. apply (proj1 C), Hn, Hy.
  Qed.

  Lemma cfg_count_tr counts cfg : cfg_count cands' counts cfg = cfg_count cands counts cfg.
  Proof.
    unfold cfg_count, cands'. rewrite (filter_map_ext (tr_allele tr) (fun al => str_eqb (a_cfg al) cfg)) by (intros; reflexivity).
    rewrite map_map. reflexivity.
  Qed.

  Theorem admissible_tr counts novel : incl novel fm ->
    admissible cands' struct fm' counts (map tr novel) = admissible cands struct fm counts novel.
  Proof.
    intros Hn. unfold admissible. f_equal; [f_equal; [f_equal; [f_equal|]|]|].
    - unfold cands'. rewrite forallb_map. reflexivity.
    - apply forallb_ext_in'. intros kv _. rewrite cfg_count_tr. reflexivity.
    - unfold fm'. rewrite forallb_map. apply forallb_ext_in'. intros m Hm. pose proof (proj1 C m Hm) as HU.
      rewrite (carriers_counts_tr counts m HU).
      rewrite (memb_map_inj tr U m novel (t_inj _ _ T) HU); [reflexivity|]. intros y Hy. apply (proj1 C), Hn, Hy.
    - rewrite forallb_map. apply forallb_ext_in'. intros m Hm. unfold fm'.
      apply (memb_map_inj tr U m fm (t_inj _ _ T)); [apply (proj1 C), Hn, Hm | apply (proj1 C)].
    - apply one_per_site_tr. exact Hn.
  Qed.

  Lemma enum_counts_tr : forall b, enum_counts cands' b = enum_counts cands b.
  Proof. intros b. apply enum_counts_tr_gen. Qed.

  Lemma uncarried_incl counts : incl (uncarried cands fm counts) fm.
  Proof. unfold uncarried. intros m Hm. apply filter_In in Hm. apply Hm. Qed.

  (* the admissible combinations of the two builds correspond one to one: same allele counts, the novel variants transported,
     scores equal *)
  Definition comb_rel (x y : comb) : Prop :=
    (sc y == sc x)%Q /\ snd (fst y) = snd (fst x) /\ snd y = map tr (snd x).

  Theorem enum_all_tr :
    Forall2 comb_rel (enum_all cands struct fm obsf hcov pen unit) (enum_all cands' struct fm' obsf' hcov' pen unit).
  Proof.
    unfold enum_all. rewrite enum_counts_tr. induction (enum_counts cands struct) as [|counts l IH]; [constructor|].
    cbn [flat_map]. apply Forall2_app; [|exact IH].
    rewrite uncarried_tr, (one_per_site_tr _ (uncarried_incl counts)).
    destruct (one_per_site fm (uncarried cands fm counts)); [|constructor].
    constructor; [|constructor]. unfold comb_rel, sc. cbn [fst snd]. split; [|split; reflexivity].
    apply (score_tr tr U cands fm obsf obsf' hcov hcov' pen unit T C E).
    - intros al _. reflexivity.
    - intros m Hm. apply nov_of_tr; [apply uncarried_incl | exact Hm].
  Qed.
End Enumeration.

(* ---- two builds on the same strand: positions move through an injective map, operations stay ---- *)
Lemma same_strand_transport_ok (f : Z -> Z) (U : list mut) : (forall x y, f x = f y -> x = y) ->
  transport_ok (fun m : mut => (f (fst m), snd m)) U.
Proof.
  intros Hf. constructor.
  - intros [p o] [q o'] _ _ H. cbn [fst snd] in H. injection H as H1 H2. apply Hf in H1. subst. reflexivity.
  - intros v w _ _. cbn [fst]. split; [intros ->; reflexivity | apply Hf].
  - intros v _. reflexivity.
Qed.

(* ---- non-vacuity: two candidates (allele 1 = no variant, allele 2 = 100.A>G), 2 copies of configuration "1", observed 100.A>G on one copy;
        the second build is shifted by 1000 ---- *)
Definition mt_AG : str := [65; 62; 71].
Definition mt_cands : list allele := [{| a_name := [49]; a_cfg := [49]; a_muts := [] |}; {| a_name := [50]; a_cfg := [49]; a_muts := [(100, mt_AG)] |}].
Definition mt_fm : list mut := [(100, mt_AG)].
Definition mt_obs (m : mut) : Q := 1.
Definition mt_hcov (_ : str) (_ : Z) : bool := true.
Definition mt_tr (m : mut) : mut := (fst m + 1000, snd m).
Lemma mt_example :
  transport_ok mt_tr mt_fm /\ covers_instance mt_fm mt_cands mt_fm /\ evidence_ok mt_tr mt_fm mt_obs mt_obs mt_hcov mt_hcov /\
  map (fun x : comb => (Qred (sc x), snd (fst x), snd x)) (enum_all mt_cands [([49], 2)] mt_fm mt_obs mt_hcov 21 (1 # 10)) =
    [(2%Q, [([49], 0); ([50], 2)], []); (0%Q, [([49], 1); ([50], 1)], []); ((221 # 10)%Q, [([49], 2); ([50], 0)], [(100, mt_AG)])].
Proof.
  split; [apply (same_strand_transport_ok (fun p => p + 1000)); intros; lia|].
  split; [split; [intros m H; exact H | intros al [<-|[<-|[]]] m H; [destruct H | exact H]]|].
  split; [intros v _; repeat split; reflexivity|].
  vm_compute. reflexivity.
Qed.
