(* RefPatchProofs.v — the `reference: patches` of a gene database (gene.py, Gene._init_basic: seq = list(self.seq);
   for [pos, nuc] in patches: seq[pos - 1] = nuc).  Model and theorems for every sequence and every patch list whose positions
   lie in 1..len (outside that range Python raises IndexError or, for pos <= 0, wraps around: the model answers None there):
   the length is kept, the base at every site is the base of the LAST patch listed for that site and the written base where no
   patch names the site; in particular EVERY patch of a list with distinct positions takes effect. *)
From Coq Require Import Lia ZifyBool.
From Aldy Require Import Base.
Import List. Import ListNotations.
Open Scope Z_scope.

Fixpoint set_nth {A} (n : nat) (x : A) (l : list A) : list A :=
  match l, n with
  | [], _ => []
  | _ :: t, O => x :: t
  | h :: t, S k => h :: set_nth k x t
  end.

Definition patch_ok (s : str) (p : Z * Z) : bool := (1 <=? fst p) && (fst p <=? Z.of_nat (length s)).
Definition patch1 (s : str) (p : Z * Z) : str := set_nth (Z.to_nat (fst p - 1)) (snd p) s.
Definition apply_patches (s : str) (ps : list (Z * Z)) : option str :=
  if forallb (patch_ok s) ps then Some (fold_left patch1 ps s) else None.

(* the base at 0-based site i after the patches, from the written base r at that site *)
Definition patched_base (r : Z) (i : Z) (ps : list (Z * Z)) : Z :=
  fold_left (fun acc p => if fst p - 1 =? i then snd p else acc) ps r.

Lemma set_nth_length : forall A n (x : A) l, length (set_nth n x l) = length l.
Proof. intros A n x l. revert n. induction l as [|h t IH]; intros [|k]; cbn; auto. Qed.

Lemma nth_set_nth : forall A n (x : A) l i d, (n < length l)%nat ->
  nth i (set_nth n x l) d = if Nat.eqb i n then x else nth i l d.
Proof.
  intros A n x l. revert n. induction l as [|h t IH]; intros n i d H; cbn in H; [lia|].
  destruct n as [|k]; destruct i as [|j]; cbn; auto. apply IH. lia.
Qed.

Lemma fold_patch_length : forall ps s, length (fold_left patch1 ps s) = length s.
Proof.
  induction ps as [|p ps IH]; intros s; cbn [fold_left]; [reflexivity|].
  rewrite IH. unfold patch1. apply set_nth_length.
Qed.

Lemma fold_patch_nth : forall ps s i d, forallb (patch_ok s) ps = true -> (i < length s)%nat ->
  nth i (fold_left patch1 ps s) d = patched_base (nth i s d) (Z.of_nat i) ps.
Proof.
  induction ps as [|p ps IH]; intros s i d OK Hi; cbn [fold_left]; [reflexivity|].
  cbn [forallb] in OK. apply Bool.andb_true_iff in OK. destruct OK as [Op OK].
  unfold patched_base. cbn [fold_left]. fold (patched_base (if fst p - 1 =? Z.of_nat i then snd p else nth i s d) (Z.of_nat i) ps).
  unfold patch_ok in Op. apply Bool.andb_true_iff in Op. destruct Op as [O1 O2].
  rewrite IH.
  - f_equal. unfold patch1. rewrite nth_set_nth by lia.
    destruct (Nat.eqb_spec i (Z.to_nat (fst p - 1))) as [E|E]; destruct (Z.eqb_spec (fst p - 1) (Z.of_nat i)) as [F|F]; try reflexivity; lia.
  - apply forallb_forall. intros q I. pose proof (proj1 (forallb_forall _ _) OK q I) as Oq.
    unfold patch_ok in *. unfold patch1. rewrite set_nth_length. exact Oq.
  - unfold patch1. rewrite set_nth_length. exact Hi.
Qed.

Theorem apply_patches_spec : forall s ps s', apply_patches s ps = Some s' ->
  length s' = length s /\
  forall i d, (i < length s)%nat -> nth i s' d = patched_base (nth i s d) (Z.of_nat i) ps.
Proof.
  intros s ps s'. unfold apply_patches. destruct (forallb (patch_ok s) ps) eqn:OK; [|discriminate].
  intros E. injection E as <-. split; [apply fold_patch_length|]. intros i d Hi. apply fold_patch_nth; assumption.
Qed.

(* where no patch names the site the written base stays *)
Lemma patched_base_untouched : forall ps r i, (forall p, In p ps -> fst p - 1 <> i) -> patched_base r i ps = r.
Proof.
  induction ps as [|p ps IH]; intros r i H; [reflexivity|]. unfold patched_base. cbn [fold_left].
  destruct (Z.eqb_spec (fst p - 1) i) as [E|E]; [exfalso; apply (H p); [left; reflexivity|exact E]|].
  apply IH. intros q I. apply H. right. exact I.
Qed.

(* every patch of a list with distinct positions takes effect *)
Lemma patched_base_hit : forall ps r p, NoDup (map fst ps) -> In p ps -> patched_base r (fst p - 1) ps = snd p.
Proof.
  induction ps as [|q ps IH]; intros r p ND I; [destruct I|]. cbn [map] in ND. inversion ND as [|x l NI ND' E]. subst x l.
  unfold patched_base. cbn [fold_left]. destruct I as [->|I].
  - rewrite Z.eqb_refl. apply patched_base_untouched. intros q I E. apply NI. apply in_map_iff. exists q. split; [lia|exact I].
  - apply IH; assumption.
Qed.

Theorem every_patch_applies : forall s ps s' p d, apply_patches s ps = Some s' -> NoDup (map fst ps) -> In p ps ->
  nth (Z.to_nat (fst p - 1)) s' d = snd p.
Proof.
  intros s ps s' p d E ND I. pose proof (apply_patches_spec s ps s' E) as [_ S].
  unfold apply_patches in E. destruct (forallb (patch_ok s) ps) eqn:OK; [|discriminate].
  pose proof (proj1 (forallb_forall _ _) OK p I) as Op. unfold patch_ok in Op. apply Bool.andb_true_iff in Op. destruct Op as [O1 O2].
  rewrite S by lia. replace (Z.of_nat (Z.to_nat (fst p - 1))) with (fst p - 1) by lia. apply patched_base_hit; assumption.
Qed.

Theorem unpatched_sites_keep : forall s ps s' i d, apply_patches s ps = Some s' -> (i < length s)%nat ->
  (forall p, In p ps -> fst p - 1 <> Z.of_nat i) -> nth i s' d = nth i s d.
Proof.
  intros s ps s' i d E Hi H. pose proof (apply_patches_spec s ps s' E) as [_ S]. rewrite S by exact Hi.
  apply patched_base_untouched. exact H.
Qed.

(* non-vacuity: the two patches of the shipped VKORC1 spelling, on a short sequence: both take effect *)
Example patches_example : apply_patches [65;65;65;65;65;65] [(2, 84); (5, 67)] = Some [65;84;65;65;67;65].
Proof. vm_compute. reflexivity. Qed.
