(* CnCompleteProofs.v — the enumeration of canonical forms is complete (C03).
   [CnSpec.candidates] (two complete slots x a prefix of every default configuration's extra copies x a prefix of the
   PSEUDO slots) contains, up to the order of its members, the active set of EVERY feasible point of the copy-number
   ILP.  With it the optimality and completeness theorems of CnProofs.v, which quantify over the enumerated forms, become
   statements about all feasible points of MinorModel's sibling [CnModel.gen]: no bound on configurations, regions, max_cn. *)
From Coq Require Import String Lqa Lia Permutation.
From Aldy Require Import Base Consts Lp CnModel CnSpec CnProofs.
Import List.
Open Scope Z_scope.

(* ---------- lists ---------- *)
Lemma filter_one_split {A} (p : A -> bool) l y : filter p l = [y] -> exists l2 l3, l = l2 ++ y :: l3.
Proof.
  induction l as [|z t IH]; cbn [filter]; [discriminate|]. destruct (p z).
  - intros E. injection E as -> _. exists [], t. reflexivity.
  - intros E. destruct (IH E) as (l2 & l3 & ->). exists (z :: l2), l3. reflexivity.
Qed.
Lemma filter_two_split {A} (p : A -> bool) l x y : filter p l = [x; y] -> exists l1 l2 l3, l = l1 ++ x :: l2 ++ y :: l3.
Proof.
  induction l as [|z t IH]; cbn [filter]; [discriminate|]. destruct (p z).
  - intros E. injection E as -> E. destruct (filter_one_split p t y E) as (l2 & l3 & ->). exists [], l2, l3. reflexivity.
  - intros E. destruct (IH E) as (l1 & l2 & l3 & ->). exists (z :: l1), l2, l3. reflexivity.
Qed.
Lemma pairs_in {A} (l1 l2 l3 : list A) x y : In (x, y) (pairs (l1 ++ x :: l2 ++ y :: l3)).
Proof.
  induction l1 as [|z t IH]; cbn [app pairs]; apply in_or_app.
  - left. apply (in_map (fun y0 => (x, y0))). apply in_or_app. right. left. reflexivity.
  - right. exact IH.
Qed.
Fixpoint down_closed {A} (p : A -> bool) (l : list A) : Prop :=
  match l with
  | x :: (y :: _) as t => (p y = true -> p x = true) /\ down_closed p t
  | _ => True
  end.
Lemma dc_false {A} (p : A -> bool) t : forall x, down_closed p (x :: t) -> p x = false -> filter p t = [].
Proof.
  induction t as [|y t IH]; intros x D F; [reflexivity|].
  change ((p y = true -> p x = true) /\ down_closed p (y :: t)) in D. destruct D as [D1 D2]. pose proof (IH y D2) as IH'. cbn [filter].
  destruct (p y) eqn:Py; [rewrite (D1 eq_refl) in F; discriminate|]. apply IH'. reflexivity.
Qed.
Lemma dc_tail {A} (p : A -> bool) x t : down_closed p (x :: t) -> down_closed p t.
Proof. destruct t as [|y t]; cbn [down_closed]; tauto. Qed.
Lemma prefixes_nil {A} (l : list A) : In [] (prefixes l).
Proof. destruct l; left; reflexivity. Qed.
Lemma filter_prefix {A} (p : A -> bool) l : down_closed p l -> In (filter p l) (prefixes l).
Proof.
  induction l as [|x t IH]; intros D; [left; reflexivity|]. cbn [filter]. destruct (p x) eqn:Px.
  - cbn [prefixes]. right. apply in_map. apply IH. apply (dc_tail p x t D).
  - rewrite (dc_false p t x D Px). apply prefixes_nil.
Qed.
Lemma product_in {A} (p : list A -> list A) (Ls : list (list A)) :
  (forall L, In L Ls -> In (p L) (prefixes L)) -> In (concat (map p Ls)) (product (map prefixes Ls)).
Proof.
  induction Ls as [|L t IH]; intros H; [left; reflexivity|]. cbn [map concat product]. apply in_flat_map.
  exists (p L). split; [apply H; left; reflexivity|]. apply in_map. apply IH. intros L' HL. apply H. right. exact HL.
Qed.
Lemma perm_filter_split {A} (p : A -> bool) (l : list A) : Permutation l (filter p l ++ filter (fun x => negb (p x)) l).
Proof.
  induction l as [|x t IH]; [constructor|]. cbn [filter]. destruct (p x); cbn [negb app].
  - constructor. exact IH.
  - apply Permutation_cons_app. exact IH.
Qed.
Lemma filter_concat {A} (p : A -> bool) (ls : list (list A)) : filter p (concat ls) = concat (map (filter p) ls).
Proof. induction ls as [|l t IH]; [reflexivity|]. cbn [concat map]. rewrite filter_app, IH. reflexivity. Qed.
Lemma filter_all {A} (p : A -> bool) l : (forall x, In x l -> p x = true) -> filter p l = l.
Proof. induction l as [|x t IH]; intros H; [reflexivity|]. cbn [filter]. rewrite (H x (or_introl eq_refl)). f_equal. apply IH. intros y Hy. apply H. right. exact Hy. Qed.
Lemma filter_nothing {A} (p : A -> bool) l : (forall x, In x l -> p x = false) -> filter p l = [].
Proof. induction l as [|x t IH]; intros H; [reflexivity|]. cbn [filter]. rewrite (H x (or_introl eq_refl)). apply IH. intros y Hy. apply H. right. exact Hy. Qed.
Lemma filter_flat_map {A B} (p : B -> bool) (g : A -> list B) l : filter p (flat_map g l) = flat_map (fun x => filter p (g x)) l.
Proof. induction l as [|x t IH]; [reflexivity|]. cbn [flat_map]. rewrite filter_app, IH. reflexivity. Qed.
Lemma flat_map_concat_filter {A B} (q : A -> bool) (g : A -> list B) l :
  flat_map (fun x => if q x then g x else []) l = concat (map g (filter q l)).
Proof. induction l as [|x t IH]; [reflexivity|]. cbn [flat_map filter]. destruct (q x); cbn [map concat app]; rewrite IH; reflexivity. Qed.

Lemma zrange_step lo hi : lo < hi -> zrange lo hi = lo :: zrange (lo + 1) hi.
Proof.
  intros H. unfold zrange. replace (Z.to_nat (hi - lo)) with (S (Z.to_nat (hi - (lo + 1)))) by lia. cbn [seq map].
  f_equal; [lia|]. rewrite <- seq_shift, map_map. apply map_ext. intros k. lia.
Qed.
Lemma zrange_empty lo hi : hi <= lo -> zrange lo hi = [].
Proof. intros H. unfold zrange. replace (Z.to_nat (hi - lo)) with O by lia. reflexivity. Qed.
Lemma dc_zrange {A} (p : A -> bool) (f : Z -> A) hi : forall n lo, Z.to_nat (hi - lo) = n ->
  (forall k, lo <= k -> k + 1 < hi -> p (f (k + 1)) = true -> p (f k) = true) -> down_closed p (map f (zrange lo hi)).
Proof.
  induction n as [|n IH]; intros lo Hn H.
  - rewrite zrange_empty by lia. exact I.
  - rewrite zrange_step by lia. destruct n as [|n].
    + rewrite (zrange_empty (lo + 1)) by lia. exact I.
    + pose proof (IH (lo + 1) ltac:(lia) (fun k Hk => H k ltac:(lia))) as D. rewrite (zrange_step (lo + 1)) in * by lia.
      cbn [map down_closed]. split; [apply H; lia|exact D].
Qed.

(* ---------- the non-complete structures are the extra copies of default configurations and the PSEUDO slots ---------- *)
Definition cpl (st : structure) : bool := is_complete (fst st).
Lemma noncomplete_structs i :
  filter (fun st => negb (cpl st)) (structures i) = concat (default_extras i) ++ pseudo_slots i.
Proof.
  unfold structures. rewrite !filter_app. rewrite (filter_nothing _ (map _ (kept i))).
  2:{ intros st H. apply in_map_iff in H as (c & <- & _). reflexivity. }
  cbn [app]. f_equal.
  - rewrite filter_flat_map. unfold default_extras.
    transitivity (flat_map (fun c => if is_default (cf_kind c) then extras_of i c else []) (kept i)); [|apply flat_map_concat_filter].
    apply flat_map_ext'. intros c.
    unfold second_and_extras. cbn [filter cpl is_complete fst snd]. change (-1 <=? 0) with true. cbn [negb].
    destruct (is_default (cf_kind c)); [|reflexivity]. unfold extras_of. apply filter_all.
    intros st H. apply in_map_iff in H as (k & <- & Hk). apply in_zrange in Hk. unfold cpl, is_complete. cbn [fst snd].
    apply negb_true_iff. apply Z.leb_gt. lia.
  - apply filter_all. intros st H. assert (In (fst st) (map fst (pseudo_slots i))) by (apply in_map; exact H).
    apply pseudo_slots_in in H0. unfold cpl, is_complete. apply negb_true_iff. apply Z.leb_gt. lia.
Qed.

(* ---------- permutation invariance of what is said about a form ---------- *)
Lemma has_perm F1 F2 x : Permutation F1 F2 -> has F1 x = has F2 x.
Proof.
  intros P. apply eq_true_iff_eq. rewrite !has_In. split; apply Permutation_in; [exact P|apply Permutation_sym; exact P].
Qed.
Lemma forallb_perm {A} (p : A -> bool) l1 l2 : Permutation l1 l2 -> forallb p l1 = forallb p l2.
Proof.
  intros P. apply eq_true_iff_eq. rewrite !forallb_forall. split; intros H x Hx; apply H;
    [apply (Permutation_in x (Permutation_sym P) Hx)|apply (Permutation_in x P Hx)].
Qed.
Lemma forallb_ext' {A} (p q : A -> bool) l : (forall x, p x = q x) -> forallb p l = forallb q l.
Proof. intros H. induction l as [|x t IH]; [reflexivity|]. cbn [forallb]. rewrite H, IH. reflexivity. Qed.
Lemma form_ok_perm i F1 F2 : Permutation F1 F2 -> form_ok i F1 = form_ok i F2.
Proof.
  intros P. unfold form_ok. rewrite (perm_filter_length is_complete F1 F2 P). f_equal; [f_equal|].
  - rewrite (forallb_perm (ord_ok F1) F1 F2 P). apply forallb_ext'. intros x. unfold ord_ok.
    rewrite (has_perm F1 F2 _ P), (has_perm F1 F2 (fst x, snd x - 1) P). reflexivity.
  - unfold del_ok. destruct (i_del i) as [d|]; [|reflexivity]. rewrite (has_perm F1 F2 _ P), (forallb_perm _ F1 F2 P). reflexivity.
Qed.
Lemma zsum_perm l1 l2 : Permutation l1 l2 -> zsum l1 = zsum l2.
Proof. unfold zsum. induction 1; cbn [fold_right] in *; lia. Qed.
Lemma copies_perm (F1 F2 : form) rc : Permutation F1 F2 -> copies F1 rc = copies F2 rc.
Proof.
  intros P. unfold copies, sumz. rewrite (zsum_perm _ _ (Permutation_map (gcopies (fst rc)) P)),
    (zsum_perm _ _ (Permutation_map (pcopies (fst rc)) P)). reflexivity.
Qed.
Lemma bounds_ok_perm i (F1 F2 : form) : Permutation F1 F2 -> bounds_ok i F1 = bounds_ok i F2.
Proof. intros P. unfold bounds_ok. apply forallb_ext'. intros rc. unfold errg_of, err_of. rewrite (copies_perm F1 F2 rc P). reflexivity. Qed.
Lemma qsum_perm l1 l2 : Permutation l1 l2 -> (qsum l1 == qsum l2)%Q.
Proof. induction 1; cbn [qsum] in *; lra. Qed.
Lemma form_objective_perm c i (F1 F2 : form) : Permutation F1 F2 -> (form_objective c i F1 == form_objective c i F2)%Q.
Proof.
  intros P. unfold form_objective, diff_cost, fit_cost, pars_cost. rewrite !sumr_qsum.
  rewrite (qsum_perm _ _ (Permutation_map (fun st => penalty c i (fst (fst st))) P)).
  rewrite (qsum_eq (fun rc => (pce_coeff i (fst rc) * Qabs' (err_of F1 rc))%Q) (fun rc => (pce_coeff i (fst rc) * Qabs' (err_of F2 rc))%Q)).
  2:{ intros rc _. unfold err_of. rewrite (copies_perm F1 F2 rc P). reflexivity. }
  rewrite (qsum_eq (fun rc => Qabs' (errg_of F1 rc)) (fun rc => Qabs' (errg_of F2 rc))).
  2:{ intros rc _. unfold errg_of. rewrite (copies_perm F1 F2 rc P). reflexivity. }
  reflexivity.
Qed.

Lemma pseudo_slots_form i : pseudo_slots i = [] \/ exists cn, pseudo_slots i = map (fun k => ((PSEUDO, k + 1), cn)) (zrange 0 (i_max_cn i)).
Proof.
  unfold pseudo_slots. destruct (i_del i) as [d|]; [|left; reflexivity]. destruct (1 <? i_ngenes i); [|left; reflexivity].
  destruct (find _ (kept i)) as [c|]; [|left; reflexivity]. right. exists (cf_cn c). reflexivity.
Qed.

(* ---------- every well-formed active set is enumerated ---------- *)
Section Complete.
  Variables (i : cn_inst) (b : slot -> bool).
  Let bf (st : structure) : bool := b (fst st).
  Let ch : form := filter bf (structures i).
  Hypothesis FO : form_ok i (map fst ch) = true.

  Lemma b_in x : In x (map fst ch) <-> In x (slots i) /\ b x = true.
  Proof.
    unfold ch, slots. rewrite !in_map_iff. split.
    - intros (st & <- & H). apply filter_In in H as [H P]. split; [exists st; auto|exact P].
    - intros [(st & <- & H) P]. exists st. split; [reflexivity|]. apply filter_In. auto.
  Qed.
  Lemma ord_closed n k : 1 <= k -> In (n, k) (slots i) -> b (n, k + 1) = true -> In (n, k + 1) (slots i) -> b (n, k) = true.
  Proof.
    intros Hk Hin Hb Hin'. pose proof FO as F. unfold form_ok in F. rewrite !andb_true_iff in F. destruct F as [[_ F] _].
    rewrite forallb_forall in F. specialize (F (n, k + 1)). unfold ord_ok in F. cbn [fst snd] in F.
    replace (k + 1 =? -1) with false in F by (symmetry; apply Z.eqb_neq; lia).
    replace (1 <? k + 1) with true in F by (symmetry; apply Z.ltb_lt; lia). replace (k + 1 - 1) with k in F by lia.
    assert (H : has (map fst ch) (n, k) = true) by (apply F; apply b_in; auto). apply has_In in H. apply b_in in H. tauto.
  Qed.

  Lemma two_complete_chosen : exists st1 st2, filter bf (complete_structs i) = [st1; st2].
  Proof.
    assert (F2 : Datatypes.length (filter bf (complete_structs i)) = 2%nat).
    { pose proof FO as F. unfold form_ok in F. rewrite !andb_true_iff in F. destruct F as [[F _] _]. apply Nat.eqb_eq in F.
      unfold ch in F. rewrite filter_map_comm, map_length in F. change (fun x => is_complete (fst x)) with cpl in F.
      rewrite filter_comm in F. exact F. }
    destruct (filter bf (complete_structs i)) as [|st1 [|st2 [|st3 t]]]; cbn [Datatypes.length] in F2; [lia|lia| |lia].
    exists st1, st2. reflexivity.
  Qed.
  Lemma extras_closed c : In c (kept i) -> is_default (cf_kind c) = true -> down_closed bf (extras_of i c).
  Proof.
    intros Hc Hd. unfold extras_of. apply (dc_zrange bf _ (i_max_cn i) (Z.to_nat (i_max_cn i - 1)) 1 eq_refl).
    intros k Hk L Hb. unfold bf in *. cbn [fst] in *.
    apply (ord_closed (cf_name c) k Hk); [apply slots_extra; [exact Hc|exact Hd|lia]|exact Hb|apply slots_extra; [exact Hc|exact Hd|lia]].
  Qed.

  Lemma pseudo_closed : down_closed bf (pseudo_slots i).
  Proof.
    destruct (pseudo_slots_form i) as [E|(cn & E)]; rewrite E; [exact I|].
    apply (dc_zrange bf (fun k => ((PSEUDO, k + 1), cn)) (i_max_cn i) (Z.to_nat (i_max_cn i - 0)) 0 eq_refl).
    intros k Hk L Hb. unfold bf in *. cbn [fst] in *.
    assert (PS : forall j, 0 <= j < i_max_cn i -> In (PSEUDO, j + 1) (slots i)).
    { intros j Hj. apply slots_pseudo. rewrite E, map_map. cbn [fst]. apply in_map_iff. exists j. split; [reflexivity|]. apply in_zrange. lia. }
    replace (k + 1 + 1) with ((k + 1) + 1) in Hb by lia.
    apply (ord_closed PSEUDO (k + 1)); [lia|apply PS; lia|exact Hb|]. replace (k + 1 + 1) with ((k + 1) + 1) by lia. apply PS. lia.
  Qed.

  (* the candidate: the two complete members, then the chosen extra copies configuration by configuration, then PSEUDO *)
  Definition cand_of : form :=
    match filter bf (complete_structs i) with
    | [st1; st2] => st1 :: st2 :: concat (map (filter bf) (default_extras i)) ++ filter bf (pseudo_slots i)
    | _ => []
    end.
  Lemma cand_in : In cand_of (candidates i).
  Proof.
    unfold cand_of. destruct two_complete_chosen as (st1 & st2 & E). rewrite E. unfold candidates, candidates_of. cbv zeta.
    apply in_flat_map. exists (st1, st2). split.
    - destruct (filter_two_split bf (complete_structs i) st1 st2 E) as (l1 & l2 & l3 & ->). apply pairs_in.
    - apply in_flat_map. exists (concat (map (filter bf) (default_extras i))). split.
      + apply product_in. intros L HL. unfold default_extras in HL. apply in_map_iff in HL as (c & <- & Hc).
        apply filter_In in Hc as [Hc Hd]. apply filter_prefix. apply extras_closed; assumption.
      + cbn [fst snd]. apply (in_map (fun q => st1 :: st2 :: concat (map (filter bf) (default_extras i)) ++ q)).
        apply filter_prefix. apply pseudo_closed.
  Qed.
  Lemma cand_perm : Permutation ch cand_of.
  Proof.
    unfold cand_of. destruct two_complete_chosen as (st1 & st2 & E). rewrite E.
    eapply Permutation_trans; [apply (perm_filter_split cpl ch)|].
    assert (E1 : filter cpl ch = [st1; st2]).
    { unfold ch. rewrite filter_comm. exact E. }
    assert (E2 : filter (fun x => negb (cpl x)) ch = concat (map (filter bf) (default_extras i)) ++ filter bf (pseudo_slots i)).
    { unfold ch. rewrite filter_comm, noncomplete_structs, filter_app, filter_concat. reflexivity. }
    rewrite E1, E2. apply Permutation_refl.
  Qed.
  Lemma cand_form_ok : form_ok i (map fst cand_of) = true.
  Proof. rewrite <- (form_ok_perm i (map fst ch) (map fst cand_of) (Permutation_map fst cand_perm)). exact FO. Qed.
End Complete.

Theorem cn_candidates_complete c i a : feasible (gen c i) a ->
  exists F, In F (candidates i) /\ form_ok i (map fst F) = true /\ bounds_ok i F = true /\ Permutation (act_structs i a) F.
Proof.
  intros Hf.
  assert (FO : form_ok i (map fst (filter (fun st => on a (fst st)) (structures i))) = true).
  { change (filter (fun st => on a (fst st)) (structures i)) with (act_structs i a). rewrite act_structs_fst. apply (feasible_form_ok c i a Hf). }
  exists (cand_of i (on a)). split; [apply cand_in; exact FO|]. split; [apply cand_form_ok; exact FO|].
  pose proof (cand_perm i (on a) FO) as P. split; [|exact P].
  rewrite <- (bounds_ok_perm i _ _ P). apply (feasible_bounds_ok c i a Hf).
Qed.

(* ---------- optimality and completeness over ALL feasible points of the ILP ---------- *)
Theorem solve_first_optimal_abs c i : consts_wf c = true -> hyps_ok i = true ->
  forall k o t, solve_cn c i = (k, o) :: t -> forall a, feasible (gen c i) a -> (o <= objective (gen c i) a)%Q.
Proof.
  intros Hc Hh k o t E a Hf. destruct (hyps_ok_spec i Hh) as (Hok & _ & Hnd & Hp & _ & _).
  destruct (cn_candidates_complete c i a Hf) as (F & HF & H1 & H2 & P).
  pose proof (solve_first_optimal c i Hc Hh k o t E F HF H1 H2) as L.
  rewrite <- (form_objective_perm c i _ _ P) in L.
  destruct (cn_objective_thm c i a Hok Hp Hnd Hf) as [L2 _]. lra.
Qed.
Theorem solve_complete_abs c i : consts_wf c = true -> hyps_ok i = true ->
  forall a, feasible (gen c i) a -> in_gap c i (form_objective c i (act_structs i a)) ->
  exists F0 o', In F0 (candidates i) /\ form_ok i (map fst F0) = true /\ bounds_ok i F0 = true /\
                incl (map fst F0) (act i a) /\ In (fold_form i (map fst F0), o') (solve_cn c i) /\
                (o' <= form_objective c i F0)%Q /\ (form_objective c i F0 <= form_objective c i (act_structs i a))%Q.
Proof.
  intros Hc Hh a Hf G. destruct (cn_candidates_complete c i a Hf) as (F & HF & H1 & H2 & P).
  assert (G' : in_gap c i (form_objective c i F)).
  { intros m Hm. rewrite <- (form_objective_perm c i _ _ P). apply G. exact Hm. }
  destruct (solve_complete c i Hc Hh F HF H1 H2 G') as (F0 & o' & A1 & A2 & A3 & A4 & A5 & A6 & A7).
  exists F0, o'. repeat (split; [assumption|]). split.
  - intros x Hx. apply A4 in Hx. rewrite <- act_structs_fst. apply (Permutation_in x (Permutation_sym (Permutation_map fst P)) Hx).
  - split; [exact A5|]. split; [exact A6|]. rewrite (form_objective_perm c i _ _ P). exact A7.
Qed.

(* a feasible ILP gives at least one reported structure *)
Theorem solve_nonempty_abs c i : consts_wf c = true -> hyps_ok i = true ->
  forall a, feasible (gen c i) a -> solve_cn c i <> [].
Proof.
  intros Hc Hh a Hf. destruct (hyps_ok_spec i Hh) as (Hok & _ & Hnd & Hp & Hpp & Hg). destruct (consts_wf_cn c Hc) as [Hprec _].
  destruct (cn_candidates_complete c i a Hf) as (F & HF & H1 & H2 & _).
  assert (Hin : In (Qred (form_objective c i F), map fst F) (scored c i)).
  { unfold scored, forms. apply in_map_iff. exists F. split; [reflexivity|]. apply filter_In. split; [exact HF|]. rewrite H1, H2. reflexivity. }
  destruct (argmin (scored c i)) as [m|] eqn:Am; [|apply argmin_none in Am; rewrite Am in Hin; contradiction].
  destruct (argmin_spec _ _ Am) as [Hm _]. destruct m as [om slm]. apply scored_spec in Hm as (Fm & HFm & -> & G1 & G2 & Em).
  assert (G : in_gap c i (form_objective c i Fm)).
  { intros m' Hm'. rewrite Am in Hm'. injection Hm' as <-. cbn [fst]. rewrite <- Em.
    assert (0 <= om)%Q by (apply (scored_nonneg c i Hc Hok Hp Hpp (om, map fst Fm)); destruct (argmin_spec _ _ Am); assumption).
    assert (0 <= p_gap (i_par i) * om)%Q by (apply Qmult_le_0_compat; assumption). lra. }
  destruct (solve_complete c i Hc Hh Fm HFm G1 G2 G) as (F0 & o' & _ & _ & _ & _ & A5 & _).
  intros E. rewrite E in A5. contradiction.
Qed.
